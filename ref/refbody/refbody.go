// Package refbody is the reference model of schema-driven body processing
// used by C03 and C04. It is written from spec.md ("Body Content",
// "Schema-driven Processing", "Dynamic Attributes Processing", "Partial
// Processing of Body Content") and json/spec.md ("Structural Elements") and
// never calls hashicorp/hcl: bodies are plain item lists (native, expanded),
// flattened JSON property lists (JSON) or lists of those (merged), and the
// "remaining body" of partial processing is literally the list of items that
// were not selected.
//
// Where the specifications do not assign an outcome the model says so
// (Result.Unspec / Result.UnspecNames) instead of guessing.
package refbody

import (
	"sort"

	"verif/gen/absconf"
)

type AttrS struct {
	Name     string
	Required bool
}

type BlockS struct {
	Type   string
	Labels int
}

// Schema is a body schema: attribute schemata and block header schemata.
type Schema struct {
	Attrs  []AttrS
	Blocks []BlockS
}

func (s Schema) attr(name string) (AttrS, bool) {
	for _, a := range s.Attrs {
		if a.Name == name {
			return a, true
		}
	}
	return AttrS{}, false
}

func (s Schema) block(typ string) (BlockS, bool) {
	for _, b := range s.Blocks {
		if b.Type == typ {
			return b, true
		}
	}
	return BlockS{}, false
}

// Union is the schema with the elements of both (assumed disjoint).
func (s Schema) Union(o Schema) Schema {
	return Schema{
		Attrs:  append(append([]AttrS{}, s.Attrs...), o.Attrs...),
		Blocks: append(append([]BlockS{}, s.Blocks...), o.Blocks...),
	}
}

// Attr is a returned attribute; Key is the canonical rendering of its literal
// value (absconf.Val.Key / JNode.Key).
type Attr struct {
	Name string
	Key  string
}

// Block is a returned block; Body models the block's own body.
type Block struct {
	Type   string
	Labels []string
	Body   Model
}

// Result is the body content plus what the specification says about errors.
type Result struct {
	Attrs  []Attr  // sorted by name
	Blocks []Block // in source order
	// Errs is the number of items the specification calls erroneous (each
	// must be reported: the number of error diagnostics is >= Errs, and there
	// is at least one error iff Errs > 0).
	Errs int
	// Unspec: the specification does not define this result at all (only
	// panic-freedom may be demanded).
	Unspec bool
	// UnspecNames: names (attribute names / block types) whose part of the
	// content is not defined because an error concerns them (for example
	// whether a block with the wrong number of labels is still returned, or
	// which of two duplicate attribute definitions is returned).
	UnspecNames map[string]bool
	// ErrUnspec: whether an error is reported *beyond the Errs erroneous items*
	// is not defined (Errs > 0 still demands an error; with Errs == 0 an error
	// may or may not be reported). Attributes and blocks are defined as usual.
	ErrUnspec bool
}

func (r *Result) unspecName(n string) {
	if r.UnspecNames == nil {
		r.UnspecNames = map[string]bool{}
	}
	r.UnspecNames[n] = true
}

func (r *Result) finish() {
	sort.SliceStable(r.Attrs, func(i, j int) bool { return r.Attrs[i].Name < r.Attrs[j].Name })
}

// Model is a body.
type Model interface {
	// Content is exhaustive schema-driven processing.
	Content(s Schema) Result
	// Partial is partial processing; the second result is the new body that
	// holds exactly the elements not selected by the schema.
	Partial(s Schema) (Result, Model)
	// JustAttributes is the "dynamic attributes" processing mode.
	JustAttributes() Result
}

// ------------------------------------------------------------------ native

type nitem struct {
	it    absconf.Item
	group int // physical source item this logical item comes from
}

// Native models a body written in a syntax that distinguishes attributes from
// blocks (the native syntax; also a dynblock-expanded native body, whose
// logical content is the written-out block list).
type Native struct {
	items []nitem
	// ghosts: physical items that denote no logical item (see Ghost); nil for
	// every body made by NewNative / NewNativeGrouped.
	ghosts []Ghost
}

// Ghost is a physical item of a dynamic-block-expanded body that denotes no
// logical item at all: a `dynamic "Type"` block whose for_each collection is
// empty, written with Labels label expressions. The logical content of the body
// is the content without it. It is an item of the requested type when a schema
// names Type as a block type: that step consumes it (it is elided from the
// remaining body) and it contributes zero blocks. What the specifications leave
// open is marked instead of guessed: if the schema's label count differs from
// Labels, the type's part of the result and the presence of an error are not
// defined; if the ghost is still in the body when the body is processed
// exhaustively or in the dynamic attributes mode, whether "no blocks of an
// unexpected type" is an error is not defined (ErrUnspec).
type Ghost struct {
	Type   string
	Labels int
}

// NewNativeGhosts is NewNativeGrouped plus physical items that denote nothing.
func NewNativeGhosts(b absconf.Body, groups []int, ghosts []Ghost) *Native {
	n := NewNativeGrouped(b, groups)
	n.ghosts = append([]Ghost(nil), ghosts...)
	return n
}

// ghostStep applies a schema to the ghosts: those of a requested block type are
// consumed, the others are returned (they remain in the body).
func (n *Native) ghostStep(r *Result, s Schema) []Ghost {
	var rest []Ghost
	for _, g := range n.ghosts {
		bs, ok := s.block(g.Type)
		if !ok {
			rest = append(rest, g)
			continue
		}
		if bs.Labels != g.Labels {
			r.unspecName(g.Type)
			r.ErrUnspec = true
		}
	}
	return rest
}

func NewNative(b absconf.Body) *Native {
	n := &Native{}
	for i, it := range b {
		n.items = append(n.items, nitem{it, i})
	}
	return n
}

// NewNativeGrouped is NewNative where several logical items stem from one
// physical item (a dynamic block): groups[i] identifies the physical item of
// b[i]. An unmatched physical item is one reportable error.
func NewNativeGrouped(b absconf.Body, groups []int) *Native {
	n := &Native{}
	for i, it := range b {
		n.items = append(n.items, nitem{it, groups[i]})
	}
	return n
}

func (n *Native) partial(s Schema) (Result, []nitem) {
	var r Result
	var rest []nitem
	seen := map[string]bool{}
	for _, ni := range n.items {
		it := ni.it
		if it.IsAttr() {
			if _, ok := s.attr(it.Attr); ok {
				if seen[it.Attr] {
					// "Attribute names are unique within a given body."
					r.Errs++
					r.unspecName(it.Attr)
					continue
				}
				seen[it.Attr] = true
				r.Attrs = append(r.Attrs, Attr{it.Attr, it.Val.Key()})
				continue
			}
			rest = append(rest, ni)
			continue
		}
		if bs, ok := s.block(it.Block); ok {
			if len(it.Labels) != bs.Labels {
				// The block is of a requested type, so it is elided from the
				// remaining body, but it does not have the labels the schema
				// names: an error; whether it is still returned is not defined.
				r.Errs++
				r.unspecName(it.Block)
				continue
			}
			r.Blocks = append(r.Blocks, Block{it.Block, it.Labels, NewNative(it.Body)})
			continue
		}
		rest = append(rest, ni)
	}
	for _, a := range s.Attrs {
		if a.Required && !seen[a.Name] {
			r.Errs++
		}
	}
	r.finish()
	return r, rest
}

func (n *Native) Partial(s Schema) (Result, Model) {
	r, rest := n.partial(s)
	ghosts := n.ghostStep(&r, s)
	return r, &Native{items: rest, ghosts: ghosts}
}

func (n *Native) Content(s Schema) Result {
	r, rest := n.partial(s)
	// "any attribute or block not matched by schema elements is considered an error"
	groups := map[int]bool{}
	for _, ni := range rest {
		groups[ni.group] = true
	}
	r.Errs += len(groups)
	if len(n.ghostStep(&r, s)) > 0 {
		r.ErrUnspec = true
	}
	return r
}

func (n *Native) JustAttributes() Result {
	// "behaves as if a schema had been constructed without any block header
	// schemata and with an attribute schema for each distinct key"
	var r Result
	seen := map[string]bool{}
	blocks := false
	for _, ni := range n.items {
		if ni.it.IsAttr() {
			if seen[ni.it.Attr] {
				r.Errs++
				r.unspecName(ni.it.Attr)
				continue
			}
			seen[ni.it.Attr] = true
			r.Attrs = append(r.Attrs, Attr{ni.it.Attr, ni.it.Val.Key()})
		} else {
			blocks = true
		}
	}
	if blocks {
		r.Errs++ // at least one error: blocks are unmatched by that schema
	}
	if len(n.ghosts) > 0 {
		r.ErrUnspec = true
	}
	r.finish()
	return r
}

// Remaining lists the items still in the body (for diagnostics of the check).
func (n *Native) Remaining() absconf.Body {
	var b absconf.Body
	for _, ni := range n.items {
		b = append(b, ni.it)
	}
	return b
}

// ------------------------------------------------------------------ JSON

// JSON models a body given as a JSON value.
type JSON struct {
	props  []absconf.JProp // flattened, "//" removed
	single bool            // the value is a single JSON object
	bad    int             // erroneous parts of the representation itself
}

// NewJSON flattens a JSON value that represents a body: "either a single JSON
// object or a JSON array of objects ... If any element of the array is not a
// JSON object then the input is erroneous." The "//" property of a body object
// "is parsed and ignored".
func NewJSON(v *absconf.JNode) *JSON {
	j := &JSON{}
	add := func(o *absconf.JNode) {
		for _, p := range o.Props {
			if p.Name == "//" {
				continue
			}
			j.props = append(j.props, p)
		}
	}
	switch v.Kind {
	case absconf.JObj:
		j.single = true
		add(v)
	case absconf.JArr:
		for _, e := range v.Elems {
			if e.Kind == absconf.JObj {
				add(e)
			} else {
				j.bad++
			}
		}
	default:
		j.bad++
	}
	return j
}

func (j *JSON) partial(s Schema) (Result, []absconf.JProp) {
	var r Result
	r.Errs += j.bad
	var rest []absconf.JProp
	seen := map[string]bool{}
	for _, p := range j.props {
		if _, ok := s.attr(p.Name); ok {
			// "the object property with the matching name -- if present --
			// serves as the attribute's definition"
			if seen[p.Name] {
				r.Errs++
				r.unspecName(p.Name)
				continue
			}
			seen[p.Name] = true
			r.Attrs = append(r.Attrs, Attr{p.Name, p.Val.Key()})
			continue
		}
		if bs, ok := s.block(p.Name); ok {
			// "each object property with the matching name serves as a
			// definition of zero or more blocks of that type"
			unpack(&r, p.Val, bs.Type, bs.Labels, nil)
			continue
		}
		rest = append(rest, p)
	}
	for _, a := range s.Attrs {
		if a.Required && !seen[a.Name] {
			r.Errs++
		}
	}
	r.finish()
	return r, rest
}

func unpack(r *Result, v *absconf.JNode, typ string, labelsLeft int, labels []string) {
	if labelsLeft > 0 {
		// "a nested JSON object or JSON array of objects is required for each
		// labelling level. These are flattened to a single ordered sequence of
		// object properties using the same algorithm as for body content"
		var props []absconf.JProp
		switch v.Kind {
		case absconf.JObj:
			props = v.Props
		case absconf.JArr:
			for _, e := range v.Elems {
				if e.Kind == absconf.JObj {
					props = append(props, e.Props...)
				} else {
					r.Errs++
					r.unspecName(typ)
				}
			}
		case absconf.JNull:
			// not mentioned by json/spec.md
			r.Unspec = true
			return
		default:
			r.Errs++
			r.unspecName(typ)
			return
		}
		if len(props) == 0 {
			// A label level without any property: json/spec.md does not say
			// whether this defines zero blocks or is an error.
			r.Unspec = true
			return
		}
		for _, p := range props {
			// (the "//" rule applies only to objects representing bodies)
			unpack(r, p.Val, typ, labelsLeft-1, append(append([]string{}, labels...), p.Name))
		}
		return
	}
	// "After any labelling levels, the next nested value is either a JSON
	// object representing a single block body, or a JSON array of JSON objects
	// that each represent a single block body."
	switch v.Kind {
	case absconf.JObj:
		r.Blocks = append(r.Blocks, Block{typ, labels, NewJSON(v)})
	case absconf.JArr:
		for _, e := range v.Elems {
			if e.Kind != absconf.JObj {
				// Erroneous, but whether the error is reported here or when the
				// would-be body is processed is not defined.
				r.Unspec = true
			}
			r.Blocks = append(r.Blocks, Block{typ, labels, NewJSON(e)})
		}
	case absconf.JNull:
		// not mentioned by json/spec.md (the implementation reads it as "no block")
		r.Unspec = true
	default:
		r.Errs++
		r.unspecName(typ)
	}
}

func (j *JSON) Partial(s Schema) (Result, Model) {
	r, rest := j.partial(s)
	return r, &JSON{props: rest, single: j.single, bad: j.bad}
}

func (j *JSON) Content(s Schema) Result {
	r, rest := j.partial(s)
	r.Errs += len(rest)
	return r
}

func (j *JSON) JustAttributes() Result {
	// "When a body is being processed in the dynamic attributes mode, the
	// allowance of a JSON array ... does not apply and instead a single JSON
	// object is always required." / "each object property serves as an
	// attribute definition"
	var r Result
	r.Errs += j.bad
	if !j.single {
		r.Errs++ // what is returned besides the error is not defined
		for _, p := range j.props {
			r.unspecName(p.Name)
		}
	}
	seen := map[string]bool{}
	for _, p := range j.props {
		if seen[p.Name] {
			r.Errs++
			r.unspecName(p.Name)
			continue
		}
		seen[p.Name] = true
		r.Attrs = append(r.Attrs, Attr{p.Name, p.Val.Key()})
	}
	r.finish()
	return r
}

// Remaining lists the names of the properties still in the body.
func (j *JSON) Remaining() []string {
	var out []string
	for _, p := range j.props {
		out = append(out, p.Name)
	}
	return out
}

// ------------------------------------------------------------------ merged

// Merged models the merge of several bodies (hcl.MergeBodies): "The ordering
// of the given files decides the order in which contained elements will be
// returned. If any top-level attributes are defined with the same name across
// multiple files, a diagnostic will be produced"; required attributes are
// checked on the union.
type Merged struct {
	Children []Model
}

func (m *Merged) combine(s Schema, each func(c Model, s Schema) Result) Result {
	opt := Schema{Blocks: s.Blocks}
	for _, a := range s.Attrs {
		opt.Attrs = append(opt.Attrs, AttrS{Name: a.Name})
	}
	var r Result
	seen := map[string]bool{}
	for _, c := range m.Children {
		cr := each(c, opt)
		r.Errs += cr.Errs
		r.Unspec = r.Unspec || cr.Unspec
		r.ErrUnspec = r.ErrUnspec || cr.ErrUnspec
		for n := range cr.UnspecNames {
			r.unspecName(n)
		}
		for _, a := range cr.Attrs {
			if seen[a.Name] {
				r.Errs++
				r.unspecName(a.Name)
				continue
			}
			seen[a.Name] = true
			r.Attrs = append(r.Attrs, a)
		}
		r.Blocks = append(r.Blocks, cr.Blocks...)
	}
	for _, a := range s.Attrs {
		if a.Required && !seen[a.Name] {
			r.Errs++
		}
	}
	r.finish()
	return r
}

func (m *Merged) Content(s Schema) Result {
	return m.combine(s, func(c Model, s Schema) Result { return c.Content(s) })
}

func (m *Merged) Partial(s Schema) (Result, Model) {
	rem := &Merged{}
	r := m.combine(s, func(c Model, s Schema) Result {
		cr, cm := c.Partial(s)
		rem.Children = append(rem.Children, cm)
		return cr
	})
	return r, rem
}

func (m *Merged) JustAttributes() Result {
	var r Result
	seen := map[string]bool{}
	for _, c := range m.Children {
		cr := c.JustAttributes()
		r.Errs += cr.Errs
		r.Unspec = r.Unspec || cr.Unspec
		r.ErrUnspec = r.ErrUnspec || cr.ErrUnspec
		for n := range cr.UnspecNames {
			r.unspecName(n)
		}
		for _, a := range cr.Attrs {
			if seen[a.Name] {
				r.Errs++
				r.unspecName(a.Name)
				continue
			}
			seen[a.Name] = true
			r.Attrs = append(r.Attrs, a)
		}
	}
	r.finish()
	return r
}
