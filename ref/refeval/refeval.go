// Package refeval is a reference interpreter for the HCL native expression
// and template languages, written directly from spec.md and hclsyntax/spec.md
// over the abstract syntax of verif/gen/expr. It imports only go-cty (values,
// conversion, unification, arithmetic: the trusted base) and never the code
// under test. Known, unmarked values only.
//
// Results are a value, Err (the specification makes the expression
// erroneous) or U (Unspecified: the specification does not assign an outcome;
// see DESIGN.md 3.2 and Appendix A). Amb marks a value whose sequence kind
// (list vs tuple) the specification leaves open (splat over list/set).
package refeval

import (
	"math/big"
	"sort"
	"strings"
	"unicode"

	"github.com/zclconf/go-cty/cty"
	"github.com/zclconf/go-cty/cty/convert"

	ex "verif/gen/expr"
)

type Res struct {
	V   cty.Value
	Err bool
	U   bool
	Amb bool
	Why string
	// EmptyElem, when set on an Amb result that is an empty sequence, is the
	// element type the result must have if it is a list (or set) rather than
	// an empty tuple: the type the per-element steps of a splat give for the
	// source's element type. No reading of the specification gives an empty
	// list of anything else.
	EmptyElem cty.Type
}

func val(v cty.Value) Res   { return Res{V: v} }
func errf(why string) Res   { return Res{Err: true, Why: why} }
func unspec(why string) Res { return Res{U: true, Why: why} }

type Param struct {
	Type      cty.Type
	AllowNull bool
}

type Func struct {
	Params   []Param
	VarParam *Param
	Impl     func(args []cty.Value) (cty.Value, bool) // ok=false: the function reports an error
}

type Scope struct {
	Vars   map[string]cty.Value
	Parent *Scope
	Funcs  map[string]Func
}

func (s *Scope) lookup(n string) (cty.Value, bool) {
	for c := s; c != nil; c = c.Parent {
		if v, ok := c.Vars[n]; ok {
			return v, true
		}
	}
	return cty.NilVal, false
}

func (s *Scope) funcs() map[string]Func {
	for c := s; c != nil; c = c.Parent {
		if c.Funcs != nil {
			return c.Funcs
		}
	}
	return nil
}

func (s *Scope) child(vars map[string]cty.Value) *Scope {
	return &Scope{Vars: vars, Parent: s}
}

// NumberLit maps numeric literal text to its value.
func NumberLit(text string) Res {
	mant, exp := text, ""
	if i := strings.IndexAny(text, "eE"); i >= 0 {
		mant, exp = text[:i], text[i+1:]
	}
	_ = mant
	if len(strings.TrimLeft(exp, "+-")) > 5 {
		return unspec("huge exponent")
	}
	r, ok := new(big.Rat).SetString(text)
	if !ok {
		return errf("bad number")
	}
	if r.IsInt() {
		f := new(big.Float).SetPrec(512).SetInt(r.Num())
		if f.Acc() != big.Exact {
			return Res{Err: true, Why: "integer literal not representable"}
		}
		return val(cty.NumberVal(f))
	}
	return val(cty.NumberVal(new(big.Float).SetPrec(512).SetRat(r)))
}

func combine(rs ...Res) (Res, bool) {
	u := false
	amb := false
	for _, r := range rs {
		if r.Err {
			return errf(r.Why), false
		}
		if r.U {
			u = true
		}
		if r.Amb {
			amb = true
		}
	}
	if u {
		return unspec("operand unspecified"), false
	}
	return Res{Amb: amb}, true
}

func Eval(e *ex.E, s *Scope) Res {
	switch e.K {
	case "num":
		return NumberLit(e.S)
	case "kw":
		switch e.S {
		case "true":
			return val(cty.True)
		case "false":
			return val(cty.False)
		default:
			return val(cty.NullVal(cty.DynamicPseudoType))
		}
	case "var":
		v, ok := s.lookup(e.S)
		if !ok {
			return errf("unknown variable " + e.S)
		}
		return val(v)
	case "paren":
		return Eval(e.A[0], s)
	case "tuple":
		rs := make([]Res, len(e.A))
		vals := make([]cty.Value, len(e.A))
		for i, a := range e.A {
			rs[i] = Eval(a, s)
			vals[i] = rs[i].V
		}
		c, ok := combine(rs...)
		if !ok {
			return c
		}
		c.V = cty.TupleVal(vals)
		return c
	case "obj":
		return evalObj(e, s)
	case "idx":
		a, k := Eval(e.A[0], s), Eval(e.A[1], s)
		c, ok := combine(a, k)
		if !ok {
			return c
		}
		r := index(a.V, k.V)
		r.Amb = a.Amb
		return r
	case "attr":
		a := Eval(e.A[0], s)
		if c, ok := combine(a); !ok {
			return c
		}
		r := getAttr(a.V, e.S)
		r.Amb = a.Amb
		return r
	case "lidx":
		a := Eval(e.A[0], s)
		if c, ok := combine(a); !ok {
			return c
		}
		n, _ := new(big.Float).SetString(e.S)
		r := index(a.V, cty.NumberVal(n))
		r.Amb = a.Amb
		return r
	case "splat":
		return evalSplat(e, s)
	case "for":
		return evalFor(e, s)
	case "call":
		return evalCall(e, s)
	case "un":
		a := Eval(e.A[0], s)
		if c, ok := combine(a); !ok {
			return c
		}
		if a.V.IsNull() {
			return errf("null operand")
		}
		if e.S == "-" {
			n, err := convert.Convert(a.V, cty.Number)
			if err != nil {
				return errf("operand not a number")
			}
			return val(n.Negate())
		}
		b, err := convert.Convert(a.V, cty.Bool)
		if err != nil {
			return errf("operand not a bool")
		}
		return val(b.Not())
	case "bin":
		return evalBin(e, s)
	case "cond":
		return evalCond(e, s)
	case "tmpl":
		return evalTmpl(e, s)
	}
	panic("refeval: unknown kind " + e.K)
}

func evalObj(e *ex.E, s *Scope) Res {
	attrs := map[string]cty.Value{}
	var rs []Res
	dup := false
	for _, it := range e.Items {
		v := Eval(it.Val, s)
		rs = append(rs, v)
		var name string
		if it.KK == "id" {
			if it.Name == "null" {
				rs = append(rs, unspec("keyword null as bare object key"))
			}
			name = it.Name
		} else {
			k := Eval(it.Key, s)
			rs = append(rs, k)
			if k.Err || k.U {
				continue
			}
			if k.V.IsNull() {
				rs = append(rs, errf("null object key"))
				continue
			}
			ks, err := convert.Convert(k.V, cty.String)
			if err != nil {
				rs = append(rs, errf("object key not convertible to string"))
				continue
			}
			name = ks.AsString()
		}
		if _, ok := attrs[name]; ok {
			dup = true
		}
		attrs[name] = v.V
	}
	c, ok := combine(rs...)
	if !ok {
		return c
	}
	if dup {
		return unspec("duplicate keys in object constructor")
	}
	c.V = cty.ObjectVal(attrs)
	return c
}

func wholeIndex(k cty.Value) (int, bool) {
	f := k.AsBigFloat()
	if !f.IsInt() {
		return 0, false
	}
	i, acc := f.Int64()
	if acc != big.Exact || i < 0 || i > 1<<30 {
		return 0, false
	}
	return int(i), true
}

// index implements the Index Operator section.
func index(a, k cty.Value) Res {
	if a.IsNull() {
		return errf("index on null")
	}
	if k.IsNull() {
		return errf("null index key")
	}
	ty := a.Type()
	switch {
	case ty.IsListType() || ty.IsTupleType():
		n, err := convert.Convert(k, cty.Number)
		if err != nil {
			return errf("index key not a number")
		}
		i, ok := wholeIndex(n)
		if !ok || i >= a.LengthInt() {
			return errf("index out of range")
		}
		return val(a.Index(cty.NumberIntVal(int64(i))))
	case ty.IsMapType():
		ks, err := convert.Convert(k, cty.String)
		if err != nil {
			return errf("map key not a string")
		}
		if !a.HasIndex(ks).True() {
			return errf("missing map key")
		}
		return val(a.Index(ks))
	case ty.IsObjectType():
		ks, err := convert.Convert(k, cty.String)
		if err != nil {
			return errf("object key not a string")
		}
		if !ty.HasAttribute(ks.AsString()) {
			return errf("missing attribute")
		}
		return val(a.GetAttr(ks.AsString()))
	}
	return errf("value does not support indexing")
}

// getAttr implements the Attribute Access Operator section.
func getAttr(a cty.Value, name string) Res {
	ty := a.Type()
	switch {
	case ty.IsObjectType():
		if a.IsNull() {
			return errf("attribute of null")
		}
		if !ty.HasAttribute(name) {
			return errf("missing attribute")
		}
		return val(a.GetAttr(name))
	case ty.IsMapType():
		return unspec("attribute access on a map")
	case ty == cty.DynamicPseudoType:
		return errf("attribute of null")
	}
	return errf("value has no attributes")
}

func applyStep(v cty.Value, st ex.Step, s *Scope) Res {
	switch st.K {
	case "attr":
		return getAttr(v, st.S)
	case "lidx":
		n, _ := new(big.Float).SetString(st.S)
		return index(v, cty.NumberVal(n))
	default:
		k := Eval(st.Key, s)
		if c, ok := combine(k); !ok {
			return c
		}
		return index(v, k.V)
	}
}

func evalSplat(e *ex.E, s *Scope) Res {
	src := Eval(e.A[0], s)
	if c, ok := combine(src); !ok {
		return c
	}
	ty := src.V.Type()
	seq := ty.IsListType() || ty.IsSetType() || ty.IsTupleType()
	if src.Amb {
		seq = true
	}
	var elems []cty.Value
	if src.V.IsNull() {
		if seq {
			return errf("splat of null sequence")
		}
		// empty tuple; any per-element steps have nothing to apply to
		seq = true
	} else if seq {
		for it := src.V.ElementIterator(); it.Next(); {
			_, ev := it.Element()
			elems = append(elems, ev)
		}
	} else {
		elems = []cty.Value{src.V}
	}
	perElem := e.Trail
	var after []ex.Step
	if !e.Full {
		// attribute-only splat: attribute (and legacy index) steps apply per
		// element, a following index applies to the whole result.
		for i, st := range e.Trail {
			if st.K == "idx" {
				perElem, after = e.Trail[:i], e.Trail[i:]
				break
			}
		}
	}
	out := make([]cty.Value, 0, len(elems))
	var rs []Res
	amb := false
	for _, ev := range elems {
		cur := val(ev)
		for _, st := range perElem {
			cur = applyStep(cur.V, st, s)
			if cur.Err || cur.U {
				break
			}
		}
		rs = append(rs, cur)
		out = append(out, cur.V)
	}
	c, ok := combine(rs...)
	if !ok {
		return c
	}
	if seq && !ty.IsTupleType() && !src.V.IsNull() {
		// list/set source: "approximately equivalent" to a for expression;
		// the sequence kind of the result is not fixed by the specification,
		// and a list of differently-typed element results has no value at all.
		amb = true
		for i := 1; i < len(out); i++ {
			if !out[i].Type().Equals(out[0].Type()) {
				return unspec("splat over list/set with heterogeneous element results")
			}
		}
		if len(out) == 0 && len(perElem) > 0 {
			// nothing is evaluated; only the element type of a list-kind
			// result is determined, and only where the steps apply to the
			// element type without looking at a value
			et, ok := stepTypes(ty.ElementType(), perElem)
			if !ok || len(after) > 0 {
				return unspec("element type of an empty splat result")
			}
			return Res{V: cty.EmptyTupleVal, Amb: true, EmptyElem: et}
		}
	}
	res := Res{V: cty.TupleVal(out), Amb: amb || src.Amb}
	if len(out) == 0 {
		res.V = cty.EmptyTupleVal
	}
	for _, st := range after {
		amb := res.Amb
		res = applyStep(res.V, st, s)
		if res.Err || res.U {
			return res
		}
		res.Amb = amb
	}
	return res
}

// stepTypes applies attribute steps to a type. ok is false where a step's
// result type depends on a value or the step cannot be applied (whether an
// empty splat reports that is not specified).
func stepTypes(ty cty.Type, steps []ex.Step) (cty.Type, bool) {
	for _, st := range steps {
		if st.K != "attr" || !ty.IsObjectType() || !ty.HasAttribute(st.S) {
			return cty.NilType, false
		}
		ty = ty.AttributeType(st.S)
	}
	return ty, true
}

type kv struct{ k, v cty.Value }

func iterate(c cty.Value) ([]kv, bool) {
	ty := c.Type()
	var out []kv
	switch {
	case ty.IsListType() || ty.IsTupleType():
		i := 0
		for it := c.ElementIterator(); it.Next(); {
			_, ev := it.Element()
			out = append(out, kv{cty.NumberIntVal(int64(i)), ev})
			i++
		}
	case ty.IsSetType():
		for it := c.ElementIterator(); it.Next(); {
			_, ev := it.Element()
			out = append(out, kv{ev, ev})
		}
	case ty.IsMapType() || ty.IsObjectType():
		m := c.AsValueMap()
		keys := make([]string, 0, len(m))
		for k := range m {
			keys = append(keys, k)
		}
		sort.Strings(keys)
		for _, k := range keys {
			out = append(out, kv{cty.StringVal(k), m[k]})
		}
	default:
		return nil, false
	}
	return out, true
}

func mentions(e *ex.E, names ...string) bool {
	if e == nil {
		return false
	}
	if e.K == "var" {
		for _, n := range names {
			if e.S == n {
				return true
			}
		}
	}
	for _, c := range e.Children() {
		if mentions(*c, names...) {
			return true
		}
	}
	return false
}

func evalFor(e *ex.E, s *Scope) Res {
	coll := Eval(e.A[0], s)
	if c, ok := combine(coll); !ok {
		return c
	}
	if coll.V.IsNull() {
		return errf("for over null")
	}
	items, ok := iterate(coll.V)
	if !ok {
		return errf("for over non-iterable")
	}
	valE, keyE, condE := e.A[1], e.A[2], e.A[3]
	if condE != nil {
		// The expression after `if` is "evaluated once for each source
		// element"; the specification does not say whether an erroneous
		// condition is reported when no element is visited.
		if len(items) == 0 {
			if mentions(condE, e.KeyVar, e.ValVar) {
				return unspec("condition of a for over an empty collection")
			}
			c := Eval(condE, s)
			if c.Err || c.U || c.V.IsNull() {
				return unspec("erroneous condition of a for over an empty collection")
			}
			if _, err := convert.Convert(c.V, cty.Bool); err != nil {
				return unspec("erroneous condition of a for over an empty collection")
			}
		}
	}
	var tuple []cty.Value
	objKeys := []string{}
	obj := map[string]cty.Value{}
	groups := map[string][]cty.Value{}
	rs := []Res{{Amb: coll.Amb}}
	for _, it := range items {
		vars := map[string]cty.Value{e.ValVar: it.v}
		if e.KeyVar != "" {
			vars[e.KeyVar] = it.k
		}
		cs := s.child(vars)
		if condE != nil {
			c := Eval(condE, cs)
			if c.Err || c.U {
				rs = append(rs, c)
				continue
			}
			if c.V.IsNull() {
				rs = append(rs, errf("null/invalid for condition"))
				continue
			}
			b, err := convert.Convert(c.V, cty.Bool)
			if err != nil {
				rs = append(rs, errf("for condition not bool"))
				continue
			}
			if b.False() {
				continue
			}
		}
		v := Eval(valE, cs)
		rs = append(rs, v)
		if !e.Obj {
			tuple = append(tuple, v.V)
			continue
		}
		k := Eval(keyE, cs)
		rs = append(rs, k)
		if k.Err || k.U {
			continue
		}
		if k.V.IsNull() {
			rs = append(rs, errf("null/invalid for key"))
			continue
		}
		ks, err := convert.Convert(k.V, cty.String)
		if err != nil {
			rs = append(rs, errf("for key not string"))
			continue
		}
		name := ks.AsString()
		if e.Group {
			if _, seen := groups[name]; !seen {
				objKeys = append(objKeys, name)
			}
			groups[name] = append(groups[name], v.V)
		} else {
			if _, seen := obj[name]; seen {
				rs = append(rs, errf("duplicate for key"))
				continue
			}
			obj[name] = v.V
		}
	}
	c, ok := combine(rs...)
	if !ok {
		return c
	}
	if !e.Obj {
		if len(tuple) == 0 {
			c.V = cty.EmptyTupleVal
		} else {
			c.V = cty.TupleVal(tuple)
		}
		return c
	}
	if e.Group {
		for _, k := range objKeys {
			obj[k] = cty.TupleVal(groups[k])
		}
	}
	c.V = cty.ObjectVal(obj)
	return c
}

func evalCall(e *ex.E, s *Scope) Res {
	f, ok := s.funcs()[e.S]
	if !ok {
		return errf("unknown function")
	}
	var args []cty.Value
	var rs []Res
	for i, a := range e.A {
		r := Eval(a, s)
		rs = append(rs, r)
		if r.Err || r.U {
			continue
		}
		if e.Expand && i == len(e.A)-1 {
			ty := r.V.Type()
			switch {
			case r.Amb || ty.IsListType() || ty.IsTupleType():
				if r.V.IsNull() {
					rs = append(rs, errf("expansion of null"))
					continue
				}
				for it := r.V.ElementIterator(); it.Next(); {
					_, ev := it.Element()
					args = append(args, ev)
				}
			case ty.IsSetType():
				rs = append(rs, unspec("expansion of a set"))
			default:
				rs = append(rs, errf("expansion of non-sequence"))
			}
			continue
		}
		if r.Amb {
			rs = append(rs, unspec("splat result of unspecified sequence kind as argument"))
			continue
		}
		args = append(args, r.V)
	}
	if c, ok := combine(rs...); !ok {
		return c
	}
	if len(args) < len(f.Params) || (len(args) > len(f.Params) && f.VarParam == nil) {
		return errf("wrong number of arguments")
	}
	conv := make([]cty.Value, len(args))
	for i, a := range args {
		p := f.VarParam
		if i < len(f.Params) {
			p = &f.Params[i]
		}
		cv, err := convert.Convert(a, p.Type)
		if err != nil {
			return errf("argument not convertible")
		}
		if cv.IsNull() && !p.AllowNull {
			return errf("null argument")
		}
		conv[i] = cv
	}
	v, ok := f.Impl(conv)
	if !ok {
		return errf("function error")
	}
	return val(v)
}

func evalBin(e *ex.E, s *Scope) Res {
	op := e.S
	l, r := Eval(e.A[0], s), Eval(e.A[1], s)
	if op == "&&" || op == "||" {
		// The implementation short-circuits; the specification does not
		// mention it. When one operand alone decides the result (false for
		// &&, true for ||), the outcome of an erroneous/invalid other operand
		// is unspecified.
		controlling := func(x Res) bool {
			if x.Err || x.U || x.V.IsNull() {
				return false
			}
			b, err := convert.Convert(x.V, cty.Bool)
			if err != nil {
				return false
			}
			return (op == "&&" && b.False()) || (op == "||" && b.True())
		}
		bad := func(x Res) bool {
			if x.Err || x.U || x.V.IsNull() {
				return true
			}
			_, err := convert.Convert(x.V, cty.Bool)
			return err != nil
		}
		if (controlling(l) && bad(r)) || (controlling(r) && bad(l)) {
			return unspec("short-circuit with an invalid other operand")
		}
		if l.U || r.U {
			// an operand with an unspecified outcome may turn out to be the
			// controlling value, which decides whether the other operand's
			// error is reported
			return unspec("logical operator over an operand with unspecified outcome")
		}
	}
	c, ok := combine(l, r)
	if !ok {
		return c
	}
	if op == "==" || op == "!=" {
		if l.Amb || r.Amb {
			return unspec("equality on a splat result of unspecified sequence kind")
		}
		eq, u := equal(l.V, r.V)
		if u {
			return unspec("equality of differently-typed nulls")
		}
		if op == "!=" {
			eq = !eq
		}
		return val(cty.BoolVal(eq))
	}
	if l.V.IsNull() || r.V.IsNull() {
		return errf("null operand of " + opName(op))
	}
	if op == "&&" || op == "||" {
		lb, err1 := convert.Convert(l.V, cty.Bool)
		rb, err2 := convert.Convert(r.V, cty.Bool)
		if err1 != nil || err2 != nil {
			return errf("operand of " + opName(op) + " not bool")
		}
		if op == "&&" {
			return val(lb.And(rb))
		}
		return val(lb.Or(rb))
	}
	ln, err1 := convert.Convert(l.V, cty.Number)
	rn, err2 := convert.Convert(r.V, cty.Number)
	if err1 != nil || err2 != nil {
		return errf("operand of " + opName(op) + " not number")
	}
	switch op {
	case "+":
		return val(ln.Add(rn))
	case "-":
		return val(ln.Subtract(rn))
	case "*":
		return val(ln.Multiply(rn))
	case "/":
		if rn.RawEquals(cty.Zero) {
			if ln.RawEquals(cty.Zero) {
				return errf("0/0")
			}
			return unspec("division by zero")
		}
		return val(ln.Divide(rn))
	case "%":
		if rn.RawEquals(cty.Zero) {
			return unspec("modulo by zero")
		}
		return val(ln.Modulo(rn))
	case "<":
		return val(ln.LessThan(rn))
	case "<=":
		return val(ln.LessThanOrEqualTo(rn))
	case ">":
		return val(ln.GreaterThan(rn))
	case ">=":
		return val(ln.GreaterThanOrEqualTo(rn))
	}
	panic("refeval: unknown operator " + op)
}

// equal implements "Two values are equal if they are of identical types and
// their values are equal".
func equal(a, b cty.Value) (eq bool, unspecified bool) {
	if a.IsNull() && b.IsNull() {
		if !a.Type().Equals(b.Type()) && a.Type() != cty.DynamicPseudoType && b.Type() != cty.DynamicPseudoType {
			return false, true
		}
		return true, false
	}
	if a.IsNull() || b.IsNull() {
		return false, false
	}
	if !a.Type().Equals(b.Type()) {
		// values nested inside may be untyped nulls, which makes the
		// "identical types" test itself ambiguous
		if containsDynNull(a) || containsDynNull(b) {
			return false, true
		}
		return false, false
	}
	return a.RawEquals(b), false
}

func containsDynNull(v cty.Value) bool {
	found := false
	cty.Walk(v, func(p cty.Path, x cty.Value) (bool, error) {
		if x.IsNull() && x.Type() == cty.DynamicPseudoType {
			found = true
		}
		return true, nil
	})
	return found
}

func isDynNull(v cty.Value) bool {
	return v.IsNull() && v.Type() == cty.DynamicPseudoType
}

func evalCond(e *ex.E, s *Scope) Res {
	c := Eval(e.A[0], s)
	if c.Err {
		return c
	}
	t, f := Eval(e.A[1], s), Eval(e.A[2], s)
	if c.U {
		if t.Err && f.Err {
			return errf("both branches erroneous")
		}
		return unspec("predicate unspecified")
	}
	if c.V.IsNull() {
		return errf("null predicate")
	}
	cb, err := convert.Convert(c.V, cty.Bool)
	if err != nil {
		return errf("predicate not bool")
	}
	sel, other := t, f
	if cb.False() {
		sel, other = f, t
	}
	if sel.Err {
		return sel
	}
	if sel.U || other.U {
		return unspec("branch unspecified")
	}
	if sel.Amb || other.Amb {
		return unspec("conditional over a splat result of unspecified sequence kind")
	}
	if other.Err {
		// Errors of the unselected branch are not passed through, but the
		// erroneous branch then has no type to unify with: result unspecified.
		return unspec("unselected branch erroneous: its type is undefined")
	}
	var ty cty.Type
	switch {
	case isDynNull(sel.V) && isDynNull(other.V):
		ty = cty.DynamicPseudoType
	case isDynNull(sel.V):
		ty = other.V.Type()
	case isDynNull(other.V):
		ty = sel.V.Type()
	default:
		ty, _ = convert.UnifyUnsafe([]cty.Type{sel.V.Type(), other.V.Type()})
	}
	if ty == cty.NilType {
		return errf("branch types do not unify")
	}
	if ty.HasDynamicTypes() && ty != cty.DynamicPseudoType {
		// unification involving untyped nulls nested in structures: the
		// resulting type is not pinned down by the specification's rules
		return unspec("unified type has dynamic parts")
	}
	v, err := convert.Convert(sel.V, ty)
	if err != nil {
		return errf("selected value does not convert to unified type")
	}
	return val(v)
}

// ---- templates ----

type flatTok struct {
	lit   *string // literal content (pointer into the working copy of parts)
	left  bool    // sequence with a strip marker after its opening "{" (strips the preceding literal)
	right bool    // sequence with a strip marker before its closing "}" (strips the following literal)
}

func flatten(ps []ex.Part, out *[]flatTok) {
	for i := range ps {
		p := &ps[i]
		st := func(i int) [2]bool {
			if i < len(p.Strip) {
				return p.Strip[i]
			}
			return [2]bool{}
		}
		switch p.K {
		case "lit":
			*out = append(*out, flatTok{lit: &p.S})
		case "interp":
			*out = append(*out, flatTok{left: st(0)[0], right: st(0)[1]})
		case "if":
			*out = append(*out, flatTok{left: st(0)[0], right: st(0)[1]})
			flatten(p.Then, out)
			if p.HasElse {
				*out = append(*out, flatTok{left: st(1)[0], right: st(1)[1]})
				flatten(p.Else, out)
			}
			*out = append(*out, flatTok{left: st(2)[0], right: st(2)[1]})
		case "for":
			*out = append(*out, flatTok{left: st(0)[0], right: st(0)[1]})
			flatten(p.Then, out)
			*out = append(*out, flatTok{left: st(1)[0], right: st(1)[1]})
		}
	}
}

func evalTmpl(e *ex.E, s *Scope) Res {
	work := e.Clone()
	parts := work.Parts
	unspecified := ""
	switch e.Form {
	case "h", "f":
		// heredoc content is the lines between the markers, each with its newline
		if n := len(parts); n > 0 && parts[n-1].K == "lit" {
			parts[n-1].S += "\n"
		} else {
			parts = append(parts, ex.Lit("\n"))
		}
	}
	var flat []flatTok
	flatten(parts, &flat)
	if e.Form == "f" {
		if why := flush(flat, e.Indent); why != "" {
			unspecified = why
		}
	}
	// strip markers, at syntax level
	for i, t := range flat {
		if t.lit != nil {
			continue
		}
		if e.Form == "f" && t.left {
			// whether a strip marker sees the line's indentation before or
			// after flush processing is not defined
			prev := ""
			if i > 0 && flat[i-1].lit != nil {
				prev = *flat[i-1].lit
			}
			if i == 0 || (i > 0 && flat[i-1].lit == nil) {
				unspecified = "strip marker at the start of a flush heredoc line"
			} else if k := strings.LastIndexByte(prev, '\n'); strings.TrimLeft(prev[k+1:], " ") == "" {
				unspecified = "strip marker at the start of a flush heredoc line"
			}
		}
		if t.left && i > 0 && flat[i-1].lit != nil {
			l := flat[i-1].lit
			trimmed := strings.TrimRightFunc(*l, unicode.IsSpace)
			if e.Form != "q" && strings.ContainsAny((*l)[len(trimmed):], "\n") {
				unspecified = "strip marker across a line break in a heredoc/bare template"
			}
			*l = trimmed
		}
		if t.right && i+1 < len(flat) && flat[i+1].lit != nil {
			l := flat[i+1].lit
			trimmed := strings.TrimLeftFunc(*l, unicode.IsSpace)
			if e.Form != "q" && strings.ContainsAny((*l)[:len(*l)-len(trimmed)], "\n") {
				unspecified = "strip marker across a line break in a heredoc/bare template"
			}
			*l = trimmed
		}
	}
	// unwrapping: a template consisting only of a single interpolation
	if len(parts) == 1 && parts[0].K == "interp" {
		r := Eval(parts[0].E, s)
		if unspecified != "" && !r.Err {
			return unspec(unspecified)
		}
		return r
	}
	r := evalParts(parts, s)
	if unspecified != "" && !r.Err {
		return unspec(unspecified)
	}
	if r.Err || r.U {
		return r
	}
	return r
}

// flush applies "<<-" processing to the flattened literals; returns a reason
// when the specification leaves the outcome open.
func flush(flat []flatTok, indent int) string {
	type seg struct {
		lit        *string
		start, end int // byte range of the line-leading segment within *lit
		spaces     int
	}
	var segs []seg
	min := -1
	why := ""
	atLineStart := true
	for _, t := range flat {
		if t.lit == nil {
			if atLineStart {
				if indent > 0 {
					// the rendered line starts with the indentation literal only
					min = 0
				} else {
					// "any literal string at the start of each line is
					// analyzed": the literal string at the start of a line
					// that starts with a sequence is the empty string, which
					// has no leading spaces
					min = 0
				}
			}
			atLineStart = false
			continue
		}
		s := *t.lit
		pos := 0
		for pos <= len(s) {
			nl := strings.IndexByte(s[pos:], '\n')
			lineEnd := len(s)
			if nl >= 0 {
				lineEnd = pos + nl
			}
			if atLineStart && pos < len(s) {
				line := s[pos:lineEnd]
				n := len(line) - len(strings.TrimLeft(line, " "))
				if n == len(line) && nl >= 0 {
					why = "flush heredoc with a whitespace-only line"
				}
				if strings.TrimLeft(line, " \t") != line[n:] {
					why = "flush heredoc with tab indentation"
				}
				segs = append(segs, seg{t.lit, pos, lineEnd, n})
				if min < 0 || n < min {
					min = n
				}
			}
			if nl < 0 {
				atLineStart = false
				if lineEnd == pos && pos == len(s) && pos > 0 && s[pos-1] == '\n' {
					atLineStart = true
				}
				break
			}
			pos = lineEnd + 1
			atLineStart = true
			if pos == len(s) {
				break
			}
		}
	}
	if min <= 0 {
		return why
	}
	// remove min spaces from each line-leading segment, right to left per literal
	for i := len(segs) - 1; i >= 0; i-- {
		sg := segs[i]
		s := *sg.lit
		*sg.lit = s[:sg.start] + s[sg.start+min:]
	}
	return why
}

func evalParts(ps []ex.Part, s *Scope) Res {
	var sb strings.Builder
	var rs []Res
	for _, p := range ps {
		switch p.K {
		case "lit":
			sb.WriteString(p.S)
		case "interp":
			r := Eval(p.E, s)
			rs = append(rs, r)
			if r.Err || r.U {
				continue
			}
			str, res := toTemplateString(r)
			if res != nil {
				rs = append(rs, *res)
				continue
			}
			sb.WriteString(str)
		case "if":
			c := Eval(p.E, s)
			if c.Err || c.U {
				rs = append(rs, c)
				continue
			}
			if c.V.IsNull() {
				rs = append(rs, errf("null template if predicate"))
				continue
			}
			cb, err := convert.Convert(c.V, cty.Bool)
			if err != nil {
				rs = append(rs, errf("template if predicate not bool"))
				continue
			}
			branch := p.Then
			if cb.False() {
				branch = p.Else // empty when there is no else clause
			}
			r := evalParts(branch, s)
			rs = append(rs, r)
			if !r.Err && !r.U {
				sb.WriteString(r.V.AsString())
			}
		case "for":
			c := Eval(p.E, s)
			if c.Err || c.U {
				rs = append(rs, c)
				continue
			}
			if c.V.IsNull() {
				rs = append(rs, errf("template for over null"))
				continue
			}
			items, ok := iterate(c.V)
			if !ok {
				rs = append(rs, errf("template for over non-iterable"))
				continue
			}
			for _, it := range items {
				vars := map[string]cty.Value{p.ValVar: it.v}
				if p.KeyVar != "" {
					vars[p.KeyVar] = it.k
				}
				r := evalParts(p.Then, s.child(vars))
				rs = append(rs, r)
				if !r.Err && !r.U {
					sb.WriteString(r.V.AsString())
				}
			}
		}
	}
	c, ok := combine(rs...)
	if !ok {
		return c
	}
	return val(cty.StringVal(sb.String()))
}

func toTemplateString(r Res) (string, *Res) {
	if r.V.IsNull() {
		e := errf("null in template")
		return "", &e
	}
	sv, err := convert.Convert(r.V, cty.String)
	if err != nil {
		e := errf("interpolation not convertible to string")
		return "", &e
	}
	return sv.AsString(), nil
}

// HasFree reports whether e refers to a variable that is neither bound in s
// nor by an enclosing construct inside e (i.e. e cannot be evaluated alone).
func HasFree(e *ex.E, s *Scope) bool {
	return hasFree(e, s, nil)
}

func hasFree(e *ex.E, s *Scope, bound []string) bool {
	if e == nil {
		return false
	}
	isBound := func(n string) bool {
		for _, b := range bound {
			if b == n {
				return true
			}
		}
		_, ok := s.lookup(n)
		return ok
	}
	switch e.K {
	case "var":
		return !isBound(e.S)
	case "for":
		if hasFree(e.A[0], s, bound) {
			return true
		}
		b2 := append(append([]string{}, bound...), e.ValVar, e.KeyVar)
		return hasFree(e.A[1], s, b2) || hasFree(e.A[2], s, b2) || hasFree(e.A[3], s, b2)
	case "tmpl":
		return partsFree(e.Parts, s, bound)
	}
	for _, c := range e.Children() {
		if hasFree(*c, s, bound) {
			return true
		}
	}
	return false
}

func partsFree(ps []ex.Part, s *Scope, bound []string) bool {
	for _, p := range ps {
		switch p.K {
		case "interp":
			if hasFree(p.E, s, bound) {
				return true
			}
		case "if":
			if hasFree(p.E, s, bound) || partsFree(p.Then, s, bound) || partsFree(p.Else, s, bound) {
				return true
			}
		case "for":
			if hasFree(p.E, s, bound) {
				return true
			}
			b2 := append(append([]string{}, bound...), p.ValVar, p.KeyVar)
			if partsFree(p.Then, s, b2) {
				return true
			}
		}
	}
	return false
}

func opName(op string) string {
	switch op {
	case "&&":
		return "and"
	case "||":
		return "or"
	case "+":
		return "add"
	case "-":
		return "sub"
	case "*":
		return "mul"
	case "/":
		return "div"
	case "%":
		return "mod"
	case "<":
		return "lt"
	case "<=":
		return "le"
	case ">":
		return "gt"
	case ">=":
		return "ge"
	}
	return op
}
