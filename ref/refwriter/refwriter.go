// Package refwriter is the boring map/list model of an hclwrite file used by
// check C12 (DESIGN.md appendix D). It never calls hclwrite.
//
// A body is an ordered list of items; an item is an attribute (name,
// canonical expression text) or a block (type, labels, body). Unstructured
// tokens (newlines, comments) are not modelled, only remembered as "something
// was appended at the end" because that matters for one narrow classification.
//
// The comments of the initial file are kept as a ledger: every comment is
// either attached to an item (lead comment lines directly above it, a comment
// on its line, a comment inside it) or free-standing in a body. A comment
// leaves the ledger only together with the item it is attached to (or, for a
// comment inside an item, when that item is edited); see Body.Comments.
//
// The operations follow the doc comments in hclwrite/ast_body.go and
// hclwrite/ast_block.go:
//
//	Set*(n, x)        replace the expression of attribute n, else append a new attribute at the end
//	Rename(f, t)      if f is present and t is absent rename in place (true), else no action (false)
//	RemoveAttr(n)     delete if present
//	AppendBlock(b)    append at the end
//	RemoveBlock(b)    delete if b is an item of this very body (true), else no-op (false)
//	SetType/SetLabels replace
package refwriter

import (
	"sort"
	"strconv"
	"strings"
)

// Item is an attribute or a block of a body.
type Item struct {
	Block bool

	// attribute
	Name string
	Expr string // canonical expression text: source text with all whitespace removed
	Tag  string // provenance of Expr: "orig" (from the loaded file) or an identifier chosen by the caller

	// block
	Type   string
	Labels []string
	Body   *Body

	// Orig is the caller-defined normalised original text of the item
	// (including its lead and line comments) in the initial file; "" for
	// items created by an edit.
	Orig string
	// Touched is set once any edit targeted the item (for blocks: the block
	// itself or anything inside it).
	Touched bool
	// NoEOL: the item's line is not terminated by a newline in the initial file.
	NoEOL bool
	// TypeSets counts SetType calls on a block.
	TypeSets int
	// Comments are the comments of the initial file that are attached to the
	// item (read-only once set; shared between clones).
	Comments []Comment

	// Handle is an opaque slot for the caller (the real object this item
	// corresponds to). The model never looks at it.
	Handle any
}

// Comment is one comment of the source a tree was read from.
type Comment struct {
	Seq  int    // position in that source (byte offset of the comment)
	Text string // caller-defined normalised text
	// Kind says what the comment belongs to: "lead" (whole-line comments
	// directly above an item, or a comment in front of it on its line), "line"
	// (behind an item on the line where it ends), "inner" (inside the item, not
	// inside a nested body) or "free" (belongs to no item of its body).
	Kind string
	// Of names the item a non-free comment is attached to (for messages only).
	Of string
	// Open: the comment runs to the very end of the source without a line
	// terminator, so whatever is appended later may become part of it.
	Open bool
}

// Body is an ordered list of items.
type Body struct {
	Items []*Item
	// Free are the free-standing comments of the body in the initial file
	// (read-only once set; shared between clones).
	Free []Comment
	// OneLine: the body belongs to a block written on a single line in the
	// initial file (`blk { a = 1 }`).
	OneLine bool
	// TailSep: unstructured tokens were appended to the body after loading.
	TailSep bool
}

// File is a root body plus the block most recently removed by RemoveBlock,
// plus what the caller of the API holds on its own side.
type File struct {
	Root *Body
	Held *Item
	// Caller is the caller's side of the history: for every token-slice value
	// the caller has made and handed to the writer (keyed by a caller-chosen
	// id) the texts of the tokens that slice holds now. The caller may change
	// its own slice after a call; what the writer was given at the time of the
	// call stays what it was given (items never refer to this map).
	Caller map[string][]string
}

func (b *Body) AttrIndex(name string) int {
	for i, it := range b.Items {
		if !it.Block && it.Name == name {
			return i
		}
	}
	return -1
}

func (b *Body) Attr(name string) *Item {
	if i := b.AttrIndex(name); i >= 0 {
		return b.Items[i]
	}
	return nil
}

func (b *Body) AttrNames() []string {
	var out []string
	for _, it := range b.Items {
		if !it.Block {
			out = append(out, it.Name)
		}
	}
	return out
}

func (b *Body) Blocks() []*Item {
	var out []*Item
	for _, it := range b.Items {
		if it.Block {
			out = append(out, it)
		}
	}
	return out
}

func (b *Body) Last() *Item {
	if len(b.Items) == 0 {
		return nil
	}
	return b.Items[len(b.Items)-1]
}

// SetAttr models SetAttributeValue/Raw/Traversal. It reports whether a new
// attribute was appended.
func (b *Body) SetAttr(name, expr, tag string) (created bool) {
	if it := b.Attr(name); it != nil {
		it.Expr, it.Tag, it.Touched = expr, tag, true
		return false
	}
	b.Items = append(b.Items, &Item{Name: name, Expr: expr, Tag: tag, Touched: true})
	return true
}

// Rename models RenameAttribute.
func (b *Body) Rename(from, to string) bool {
	it := b.Attr(from)
	if it == nil || b.Attr(to) != nil {
		return false
	}
	it.Name, it.Touched = to, true
	return true
}

// RemoveAttr models RemoveAttribute; it reports whether something was removed.
func (b *Body) RemoveAttr(name string) bool {
	i := b.AttrIndex(name)
	if i < 0 {
		return false
	}
	b.Items = append(b.Items[:i:i], b.Items[i+1:]...)
	return true
}

// AppendBlock models AppendNewBlock/AppendBlock.
func (b *Body) AppendBlock(it *Item) {
	it.Block, it.Touched = true, true
	if it.Body == nil {
		it.Body = &Body{}
	}
	b.Items = append(b.Items, it)
}

// RemoveBlock models Body.RemoveBlock: identity, this body only. The comments
// attached to the block itself (not those inside its body) leave the ledger
// for good, even if the block is appended again later.
func (b *Body) RemoveBlock(blk *Item) bool {
	for i, it := range b.Items {
		if it == blk && it.Block {
			b.Items = append(b.Items[:i:i], b.Items[i+1:]...)
			it.Comments = nil
			return true
		}
	}
	return false
}

func (it *Item) SetType(t string) { it.Type, it.Touched = t, true; it.TypeSets++ }

func (it *Item) SetLabels(ls []string) {
	it.Labels, it.Touched = append([]string(nil), ls...), true
}

// Comments lists, in source order, the comments of the initial file that are
// still due directly in this body (not in the bodies of nested blocks): the
// free-standing ones, and those attached to an item that is still an item of
// the body. A comment inside an item (Kind "inner": inside an expression or a
// block header) is due only while no edit targeted the item.
func (b *Body) Comments() []Comment {
	out := append([]Comment(nil), b.Free...)
	for _, it := range b.Items {
		for _, c := range it.Comments {
			if c.Kind == "inner" && it.Touched {
				continue
			}
			out = append(out, c)
		}
	}
	sort.SliceStable(out, func(i, j int) bool { return out[i].Seq < out[j].Seq })
	return out
}

// FirstMatching models FirstMatchingBlock.
func (b *Body) FirstMatching(typ string, labels []string) *Item {
	for _, it := range b.Blocks() {
		if it.Type == typ && sameStrings(it.Labels, labels) {
			return it
		}
	}
	return nil
}

func sameStrings(a, b []string) bool {
	if len(a) != len(b) {
		return false
	}
	for i := range a {
		if a[i] != b[i] {
			return false
		}
	}
	return true
}

// Resolve follows block indices (index among the blocks of each body) from the
// root and returns the body reached and the chain of blocks passed through.
func (f *File) Resolve(path []int) (*Body, []*Item, bool) {
	b := f.Root
	var chain []*Item
	for _, i := range path {
		bl := b.Blocks()
		if i < 0 || i >= len(bl) {
			return nil, nil, false
		}
		chain = append(chain, bl[i])
		b = bl[i].Body
	}
	return b, chain, true
}

// Touch marks the enclosing blocks of an edited body as touched.
func Touch(chain []*Item) {
	for _, it := range chain {
		it.Touched = true
	}
}

func (it *Item) clone() *Item {
	c := *it
	c.Handle = nil
	c.Labels = append([]string(nil), it.Labels...)
	if it.Body != nil {
		c.Body = it.Body.Clone()
	}
	return &c
}

// Clone copies a body deeply (handles are dropped).
func (b *Body) Clone() *Body {
	c := &Body{OneLine: b.OneLine, TailSep: b.TailSep, Free: b.Free, Items: make([]*Item, len(b.Items))}
	for i, it := range b.Items {
		c.Items[i] = it.clone()
	}
	return c
}

func (f *File) Clone() *File {
	c := &File{Root: f.Root.Clone()}
	if f.Held != nil {
		c.Held = f.Held.clone()
	}
	if f.Caller != nil {
		c.Caller = make(map[string][]string, len(f.Caller))
		for k, v := range f.Caller {
			c.Caller[k] = append([]string(nil), v...)
		}
	}
	return c
}

// CallerSlice returns the token texts of the caller's slice id, creating it
// with the given initial texts when the caller has not made it yet.
func (f *File) CallerSlice(id string, initial []string) []string {
	if s, ok := f.Caller[id]; ok {
		return s
	}
	if f.Caller == nil {
		f.Caller = map[string][]string{}
	}
	f.Caller[id] = append([]string(nil), initial...)
	return f.Caller[id]
}

// String renders the structure (names, expressions, types, labels, order) of
// a body; it identifies the model state.
func (b *Body) String() string {
	var sb strings.Builder
	b.write(&sb)
	return sb.String()
}

func (b *Body) write(sb *strings.Builder) {
	sb.WriteByte('{')
	for _, it := range b.Items {
		if it.Block {
			sb.WriteString(it.Type)
			for _, l := range it.Labels {
				sb.WriteByte(' ')
				sb.WriteString(strconv.Quote(l))
			}
			it.Body.write(sb)
		} else {
			sb.WriteString(it.Name)
			sb.WriteByte('=')
			sb.WriteString(it.Expr)
		}
		sb.WriteByte(';')
	}
	sb.WriteByte('}')
}
