// Package refjson is an independent recogniser/decoder for RFC 8259 JSON
// texts over bytes (including UTF-8 well-formedness). It never calls the code
// under test.
package refjson

import (
	"unicode/utf16"
	"unicode/utf8"
)

type Kind int

const (
	Null Kind = iota
	Bool
	Number
	String
	Array
	Object
)

type Member struct {
	Name              string
	NameLoneSurrogate bool
	Val               *Node
}

type Node struct {
	Kind          Kind
	B             bool
	Num           string // number source text
	Str           string // unescaped content
	LoneSurrogate bool   // content contained a \u escape that is an unpaired surrogate
	Elems         []*Node
	Members       []Member
	Start, End    int // byte offsets of the value in the text
}

type parser struct {
	b     []byte
	pos   int
	depth int
}

// Parse returns the value tree when b is exactly one valid JSON text
// (optional whitespace, one value, optional whitespace) in well-formed UTF-8.
func Parse(b []byte) (*Node, bool) {
	p := &parser{b: b}
	p.ws()
	n, ok := p.value()
	if !ok {
		return nil, false
	}
	p.ws()
	if p.pos != len(b) {
		return nil, false
	}
	return n, true
}

func Valid(b []byte) bool {
	_, ok := Parse(b)
	return ok
}

func (p *parser) ws() {
	for p.pos < len(p.b) {
		switch p.b[p.pos] {
		case ' ', '\t', '\n', '\r':
			p.pos++
		default:
			return
		}
	}
}

func (p *parser) lit(s string) bool {
	if len(p.b)-p.pos >= len(s) && string(p.b[p.pos:p.pos+len(s)]) == s {
		p.pos += len(s)
		return true
	}
	return false
}

func (p *parser) value() (*Node, bool) {
	if p.pos >= len(p.b) {
		return nil, false
	}
	start := p.pos
	var n *Node
	ok := false
	switch c := p.b[p.pos]; {
	case c == '{':
		n, ok = p.object()
	case c == '[':
		n, ok = p.array()
	case c == '"':
		var s string
		var lone bool
		s, lone, ok = p.str()
		n = &Node{Kind: String, Str: s, LoneSurrogate: lone}
	case c == 't':
		ok = p.lit("true")
		n = &Node{Kind: Bool, B: true}
	case c == 'f':
		ok = p.lit("false")
		n = &Node{Kind: Bool}
	case c == 'n':
		ok = p.lit("null")
		n = &Node{Kind: Null}
	case c == '-' || (c >= '0' && c <= '9'):
		ok = p.number()
		if ok {
			n = &Node{Kind: Number, Num: string(p.b[start:p.pos])}
		}
	}
	if !ok {
		return nil, false
	}
	n.Start, n.End = start, p.pos
	return n, true
}

func (p *parser) digits() int {
	n := 0
	for p.pos < len(p.b) && p.b[p.pos] >= '0' && p.b[p.pos] <= '9' {
		p.pos++
		n++
	}
	return n
}

func (p *parser) number() bool {
	if p.pos < len(p.b) && p.b[p.pos] == '-' {
		p.pos++
	}
	if p.pos >= len(p.b) {
		return false
	}
	if p.b[p.pos] == '0' {
		p.pos++
	} else if p.b[p.pos] >= '1' && p.b[p.pos] <= '9' {
		p.digits()
	} else {
		return false
	}
	if p.pos < len(p.b) && p.b[p.pos] == '.' {
		p.pos++
		if p.digits() == 0 {
			return false
		}
	}
	if p.pos < len(p.b) && (p.b[p.pos] == 'e' || p.b[p.pos] == 'E') {
		p.pos++
		if p.pos < len(p.b) && (p.b[p.pos] == '+' || p.b[p.pos] == '-') {
			p.pos++
		}
		if p.digits() == 0 {
			return false
		}
	}
	return true
}

func hex4(b []byte) (rune, bool) {
	if len(b) < 4 {
		return 0, false
	}
	var r rune
	for i := 0; i < 4; i++ {
		c := b[i]
		switch {
		case c >= '0' && c <= '9':
			r = r<<4 | rune(c-'0')
		case c >= 'a' && c <= 'f':
			r = r<<4 | rune(c-'a'+10)
		case c >= 'A' && c <= 'F':
			r = r<<4 | rune(c-'A'+10)
		default:
			return 0, false
		}
	}
	return r, true
}

func (p *parser) str() (string, bool, bool) {
	p.pos++ // opening quote
	var out []byte
	lone := false
	for {
		if p.pos >= len(p.b) {
			return "", false, false
		}
		c := p.b[p.pos]
		switch {
		case c == '"':
			p.pos++
			return string(out), lone, true
		case c < 0x20:
			return "", false, false
		case c == '\\':
			p.pos++
			if p.pos >= len(p.b) {
				return "", false, false
			}
			e := p.b[p.pos]
			p.pos++
			switch e {
			case '"', '\\', '/':
				out = append(out, e)
			case 'b':
				out = append(out, '\b')
			case 'f':
				out = append(out, '\f')
			case 'n':
				out = append(out, '\n')
			case 'r':
				out = append(out, '\r')
			case 't':
				out = append(out, '\t')
			case 'u':
				r, ok := hex4(p.b[p.pos:])
				if !ok {
					return "", false, false
				}
				p.pos += 4
				if utf16.IsSurrogate(r) {
					// try to pair
					if r < 0xDC00 && len(p.b)-p.pos >= 6 && p.b[p.pos] == '\\' && p.b[p.pos+1] == 'u' {
						if r2, ok2 := hex4(p.b[p.pos+2:]); ok2 && r2 >= 0xDC00 && r2 <= 0xDFFF {
							p.pos += 6
							out = utf8.AppendRune(out, utf16.DecodeRune(r, r2))
							continue
						}
					}
					lone = true
					out = utf8.AppendRune(out, utf8.RuneError)
					continue
				}
				out = utf8.AppendRune(out, r)
			default:
				return "", false, false
			}
		case c < 0x80:
			out = append(out, c)
			p.pos++
		default:
			r, sz := utf8.DecodeRune(p.b[p.pos:])
			if r == utf8.RuneError && sz <= 1 {
				return "", false, false // ill-formed UTF-8
			}
			out = append(out, p.b[p.pos:p.pos+sz]...)
			p.pos += sz
		}
	}
}

func (p *parser) array() (*Node, bool) {
	p.pos++
	n := &Node{Kind: Array}
	p.ws()
	if p.pos < len(p.b) && p.b[p.pos] == ']' {
		p.pos++
		return n, true
	}
	for {
		p.ws()
		v, ok := p.value()
		if !ok {
			return nil, false
		}
		n.Elems = append(n.Elems, v)
		p.ws()
		if p.pos >= len(p.b) {
			return nil, false
		}
		if p.b[p.pos] == ',' {
			p.pos++
			continue
		}
		if p.b[p.pos] == ']' {
			p.pos++
			return n, true
		}
		return nil, false
	}
}

func (p *parser) object() (*Node, bool) {
	p.pos++
	n := &Node{Kind: Object}
	p.ws()
	if p.pos < len(p.b) && p.b[p.pos] == '}' {
		p.pos++
		return n, true
	}
	for {
		p.ws()
		if p.pos >= len(p.b) || p.b[p.pos] != '"' {
			return nil, false
		}
		name, lone, ok := p.str()
		if !ok {
			return nil, false
		}
		p.ws()
		if p.pos >= len(p.b) || p.b[p.pos] != ':' {
			return nil, false
		}
		p.pos++
		p.ws()
		v, ok := p.value()
		if !ok {
			return nil, false
		}
		n.Members = append(n.Members, Member{Name: name, NameLoneSurrogate: lone, Val: v})
		p.ws()
		if p.pos >= len(p.b) {
			return nil, false
		}
		if p.b[p.pos] == ',' {
			p.pos++
			continue
		}
		if p.b[p.pos] == '}' {
			p.pos++
			return n, true
		}
		return nil, false
	}
}
