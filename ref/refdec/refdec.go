// Package refdec is the reference decoder of the hcldec checks: it decodes an
// abstract body (specgen.Body) with a spec descriptor (specgen.Spec) the way
// the doc comments of the hcldec spec types describe, without calling hcldec.
// Value construction and type conversion/unification use go-cty (trusted).
//
// refdyn.go holds the reference write-out of "dynamic" blocks.
package refdec

import (
	"github.com/zclconf/go-cty/cty"
	"github.com/zclconf/go-cty/cty/convert"

	sg "verif/gen/specgen"
)

// Result of the reference decoder.
type Result struct {
	// Val is the value the spec describes for the body; meaningful only when
	// Invalid is empty and Unsure is false.
	Val cty.Value
	// Invalid lists the reasons why the body does not conform to the spec
	// (decoding must then report an error); empty for a conforming body.
	Invalid []string
	// Unsure: the documentation does not determine the value (it is not compared).
	Unsure bool
	// UnsureValid: the documentation does not determine whether the body is
	// valid (error presence is not compared).
	UnsureValid bool
	// Regions: notable conditions met while decoding (construct + condition on
	// the reference trace), in order of first occurrence; used by C08 to name
	// failure classes. See the Region* constants.
	Regions []string
}

// Regions recorded on the reference trace.
const (
	// a BlockMapSpec with two or more label names sees no (well-labelled) block
	RegionMapSeveralLabelsNoBlocks = "blockmap-several-labels-no-blocks"
	// a BlockList/Set/MapSpec whose nested implied type has optional attributes sees no block
	RegionListNoBlocksOptional = "blocklist-no-blocks-optional-attrs"
	RegionSetNoBlocksOptional  = "blockset-no-blocks-optional-attrs"
	RegionMapNoBlocksOptional  = "blockmap-no-blocks-optional-attrs"
	// a BlockAttrsSpec whose element type leaves the type open sees attributes of different types
	RegionAttrsMixedTypes = "blockattrs-dynamic-element-mixed-types"
	// the blocks of a BlockList/SetSpec decode to types that cannot be unified
	RegionListUnunifiable = "blocklist-ununifiable-block-types"
	RegionSetUnunifiable  = "blockset-ununifiable-block-types"
	// ... to types that go-cty "unifies" without making them equal
	RegionListUnifyNotSingle = "blocklist-unified-types-still-differ"
	RegionSetUnifyNotSingle  = "blockset-unified-types-still-differ"
	// a DefaultSpec covers a required AttrSpec whose attribute is present
	RegionDefaultRequiredAttr = "default-over-present-required-attr"
)

type decoder struct {
	env         map[string]cty.Value
	invalid     []string
	unsure      bool
	unsureValid bool
	regions     []string
}

func (d *decoder) bad(reason string) { d.invalid = append(d.invalid, reason) }

func (d *decoder) region(name string) {
	for _, r := range d.regions {
		if r == name {
			return
		}
	}
	d.regions = append(d.regions, name)
}

func hasOptional(t cty.Type) bool { return !t.Equals(t.WithoutOptionalAttributesDeep()) }

// Decode decodes body with spec. partial = PartialDecode semantics (items of
// the top-level body not mentioned by the spec are allowed).
func Decode(s *sg.Spec, body *sg.Body, env map[string]cty.Value, partial bool) (res Result) {
	d := &decoder{env: env}
	defer func() {
		if r := recover(); r != nil {
			// the reference model could not build a value (go-cty constructor
			// panic): the case is outside what the model describes
			res = Result{Val: cty.DynamicVal, Invalid: d.invalid, Unsure: true, UnsureValid: true, Regions: d.regions}
		}
	}()
	v := d.body(s, body, nil, partial)
	return Result{Val: v, Invalid: d.invalid, Unsure: d.unsure, UnsureValid: d.unsureValid, Regions: d.regions}
}

type content struct {
	attrs  map[string]sg.Attr
	blocks []sg.Block
}

func (d *decoder) body(s *sg.Spec, b *sg.Body, labels []string, partial bool) cty.Value {
	v := sg.ViewOf(s)
	c := content{attrs: map[string]sg.Attr{}}
	if b != nil {
		for _, a := range b.Attrs {
			if v.AttrUse(a.Name) == nil {
				if !partial {
					d.bad("extra-attr")
				}
				continue
			}
			c.attrs[a.Name] = a
		}
		for _, bl := range b.Blocks {
			bu := v.BlockUse(bl.Type)
			if bu == nil {
				if !partial {
					d.bad("extra-block")
				}
				continue
			}
			if len(bl.Labels) != bu.NLabels {
				d.bad("label-count")
				continue
			}
			c.blocks = append(c.blocks, bl)
		}
	}
	for _, au := range v.Attrs {
		if _, ok := c.attrs[au.Name]; au.Req && !ok {
			d.bad("missing-required-attr")
		}
	}
	return d.spec(s, c, labels)
}

func noOpt(t cty.Type) cty.Type { return t.WithoutOptionalAttributesDeep() }

func (c content) blocksOf(ty string) []sg.Block {
	var out []sg.Block
	for _, b := range c.blocks {
		if b.Type == ty {
			out = append(out, b)
		}
	}
	return out
}

func (d *decoder) spec(s *sg.Spec, c content, labels []string) cty.Value {
	switch s.K {
	case sg.KObject:
		if len(s.Kids) == 0 {
			return cty.EmptyObjectVal
		}
		m := map[string]cty.Value{}
		for i, k := range s.Kids {
			m[s.Keys[i]] = d.spec(k, c, labels)
		}
		return cty.ObjectVal(m)

	case sg.KTuple:
		if len(s.Kids) == 0 {
			return cty.EmptyTupleVal
		}
		vs := make([]cty.Value, len(s.Kids))
		for i, k := range s.Kids {
			vs[i] = d.spec(k, c, labels)
		}
		return cty.TupleVal(vs)

	case sg.KAttr:
		ty := sg.Ty(s.Ty)
		a, ok := c.attrs[s.Name]
		if !ok {
			return cty.NullVal(noOpt(ty))
		}
		v, ok := Eval(a.Expr, d.env)
		if !ok {
			d.bad("attr-eval")
			return cty.UnknownVal(noOpt(ty))
		}
		cv, err := convert.Convert(v, ty)
		if err != nil {
			d.bad("attr-convert")
			return cty.UnknownVal(noOpt(ty))
		}
		if s.Req && cv.IsNull() {
			// a required attribute that is present but null: the documentation
			// does not say whether that satisfies "required"
			d.unsureValid = true
		}
		return cv

	case sg.KLiteral:
		if s.Null {
			return cty.NullVal(sg.Ty(s.Ty))
		}
		return sg.Sample(sg.Ty(s.Ty))

	case sg.KExpr:
		v, ok := Eval(*s.Expr, d.env)
		if !ok {
			d.bad("expr-eval")
			return cty.DynamicVal
		}
		return v

	case sg.KBlock:
		nested := s.Kids[0]
		bls := c.blocksOf(s.Name)
		if len(bls) == 0 {
			if s.Req {
				d.bad("missing-block")
			}
			return cty.NullVal(noOpt(nested.Implied()))
		}
		if len(bls) > 1 {
			d.bad("duplicate-block")
		}
		return d.body(nested, bls[0].Body, bls[0].Labels, false)

	case sg.KList, sg.KSet, sg.KBTuple:
		nested := s.Kids[0]
		var elems []cty.Value
		for _, bl := range c.blocksOf(s.Name) {
			elems = append(elems, d.body(nested, bl.Body, bl.Labels, false))
		}
		if len(elems) < s.Min {
			d.bad("min-items")
		} else if s.Max > 0 && len(elems) > s.Max {
			d.bad("max-items")
		}
		if s.K == sg.KBTuple {
			if len(elems) == 0 {
				return cty.EmptyTupleVal
			}
			return cty.TupleVal(elems)
		}
		if len(elems) == 0 {
			if hasOptional(nested.Implied()) {
				if s.K == sg.KList {
					d.region(RegionListNoBlocksOptional)
				} else {
					d.region(RegionSetNoBlocksOptional)
				}
			}
			if s.K == sg.KList {
				return cty.ListValEmpty(noOpt(nested.Implied()))
			}
			return cty.SetValEmpty(noOpt(nested.Implied()))
		}
		// "all given values must be convertable to a single type in order for
		// the result to be considered valid"
		tys := make([]cty.Type, len(elems))
		for i, e := range elems {
			tys[i] = e.Type()
		}
		ununifiable, notSingle := RegionListUnunifiable, RegionListUnifyNotSingle
		if s.K == sg.KSet {
			ununifiable, notSingle = RegionSetUnunifiable, RegionSetUnifyNotSingle
		}
		ety, convs := convert.UnifyUnsafe(tys)
		if ety == cty.NilType {
			d.bad("ununifiable-block-types")
			d.region(ununifiable)
			return cty.UnknownVal(noOpt(s.Implied()))
		}
		for i := range elems {
			if convs[i] != nil {
				nv, err := convs[i](elems[i])
				if err != nil {
					d.bad("ununifiable-block-types")
					d.region(ununifiable)
					return cty.UnknownVal(noOpt(s.Implied()))
				}
				elems[i] = nv
			}
		}
		for _, e := range elems {
			if !e.Type().Equals(elems[0].Type()) {
				// go-cty named a unified type with dynamic parts and the conversions
				// leave different types: no list/set of these values exists
				d.bad("ununifiable-block-types")
				d.region(notSingle)
				return cty.UnknownVal(noOpt(s.Implied()))
			}
		}
		if s.K == sg.KList {
			return cty.ListVal(elems)
		}
		return cty.SetVal(elems)

	case sg.KMap, sg.KBObject:
		nested := s.Kids[0]
		n := len(s.Labels)
		type node struct {
			kids map[string]*node
			val  cty.Value
		}
		root := &node{kids: map[string]*node{}}
		if s.K == sg.KMap && len(c.blocksOf(s.Name)) == 0 {
			if n > 1 {
				d.region(RegionMapSeveralLabelsNoBlocks)
			}
			if hasOptional(nested.Implied()) {
				d.region(RegionMapNoBlocksOptional)
			}
		}
		for _, bl := range c.blocksOf(s.Name) {
			v := d.body(nested, bl.Body, bl.Labels[n:], false)
			cur := root
			for _, l := range bl.Labels[:n-1] {
				if cur.kids[l] == nil {
					cur.kids[l] = &node{kids: map[string]*node{}}
				}
				cur = cur.kids[l]
			}
			last := bl.Labels[n-1]
			if cur.kids[last] != nil {
				d.bad("duplicate-labels")
				continue
			}
			cur.kids[last] = &node{val: v}
		}
		var build func(nd *node, depth int, ty cty.Type) cty.Value
		build = func(nd *node, depth int, ty cty.Type) cty.Value {
			// ty is the type of the value built at this level (maps only)
			vals := map[string]cty.Value{}
			for k, kid := range nd.kids {
				if depth == 1 {
					vals[k] = kid.val
				} else if s.K == sg.KMap {
					vals[k] = build(kid, depth-1, ty.ElementType())
				} else {
					vals[k] = build(kid, depth-1, ty)
				}
			}
			if s.K == sg.KBObject {
				if len(vals) == 0 {
					return cty.EmptyObjectVal
				}
				return cty.ObjectVal(vals)
			}
			if len(vals) == 0 {
				return cty.MapValEmpty(ty.ElementType())
			}
			return cty.MapVal(vals)
		}
		return build(root, n, noOpt(s.Implied()))

	case sg.KAttrs:
		ety := sg.Ty(s.Ty)
		bls := c.blocksOf(s.Name)
		if len(bls) == 0 {
			if s.Req {
				d.bad("missing-block")
			}
			return cty.NullVal(noOpt(cty.Map(ety)))
		}
		if len(bls) > 1 {
			d.bad("duplicate-block")
		}
		b := bls[0].Body
		if b == nil {
			b = &sg.Body{}
		}
		if len(b.Blocks) > 0 {
			d.bad("blocks-in-attrs-block")
		}
		if len(b.Attrs) == 0 {
			return cty.MapValEmpty(noOpt(ety))
		}
		vals := map[string]cty.Value{}
		var first cty.Type
		for _, a := range b.Attrs {
			v, ok := Eval(a.Expr, d.env)
			if !ok {
				d.bad("attrs-eval")
				v = cty.UnknownVal(ety)
			}
			cv, err := convert.Convert(v, ety)
			if err != nil {
				d.bad("attrs-convert")
				cv = cty.UnknownVal(noOpt(ety))
			}
			vals[a.Name] = cv
			if first == cty.NilType {
				first = cv.Type()
			} else if !first.Equals(cv.Type()) {
				// the element type leaves the type open and the attributes differ:
				// "a cty.Map of the given element type" does not say what results
				d.unsure = true
				d.unsureValid = true
				d.region(RegionAttrsMixedTypes)
			}
		}
		if d.unsure {
			return cty.UnknownVal(noOpt(cty.Map(ety)))
		}
		return cty.MapVal(vals)

	case sg.KLabel:
		if s.Index >= len(labels) {
			d.unsure = true
			d.unsureValid = true
			return cty.UnknownVal(cty.String)
		}
		return cty.StringVal(labels[s.Index])

	case sg.KDefault:
		s.WalkSameBody(func(x *sg.Spec) {
			if _, present := c.attrs[x.Name]; x.K == sg.KAttr && x.Req && present {
				d.region(RegionDefaultRequiredAttr)
			}
		})
		v := d.spec(s.Kids[0], c, labels)
		// (the schema requirements of the default always apply: they are part
		// of the view of the body; its value is only needed for a null primary)
		if v.IsNull() {
			return d.spec(s.Kids[1], c, labels)
		}
		return v

	case sg.KTExpr, sg.KTFunc:
		v := d.spec(s.Kids[0], c, labels)
		switch s.Fn {
		case "wrap":
			return cty.TupleVal([]cty.Value{v})
		case "isnull":
			if s.K == sg.KTFunc {
				if !v.IsKnown() {
					return cty.UnknownVal(cty.Bool)
				}
				return cty.BoolVal(v.IsNull())
			}
			return v.Equals(cty.NullVal(cty.DynamicPseudoType))
		case "strlen":
			// our own total function (not code under test), applied the way go-cty applies functions
			r, err := sg.StrlenFunc.Call([]cty.Value{v})
			if err != nil {
				d.unsure = true
				d.unsureValid = true
				return cty.UnknownVal(cty.Number)
			}
			return r
		}
		panic("refdec: bad transform " + s.Fn)

	case sg.KRefine:
		v := d.spec(s.Kids[0], c, labels)
		if s.Fn == "notnull" {
			if v.IsNull() {
				// outside the documented precondition of RefineValueSpec
				d.unsure = true
				d.unsureValid = true
				return v
			}
			return v.RefineNotNull()
		}
		// a refinement function that adds nothing still passes the value
		// through go-cty's RefineWith
		return v.RefineWith(func(b *cty.RefinementBuilder) *cty.RefinementBuilder { return b })

	case sg.KValidate:
		v := d.spec(s.Kids[0], c, labels)
		if s.Fn == "rejectnull" && v.IsNull() {
			d.bad("validate-func")
		}
		return v
	}
	panic("refdec: bad spec kind " + s.K)
}

// Eval evaluates an abstract expression in the given scope. ok is false when
// evaluation is an error (unknown variable, unsupported attribute, null in a
// template).
func Eval(e sg.Expr, env map[string]cty.Value) (cty.Value, bool) {
	switch e.K {
	case "lit":
		return sg.Literals[e.Lit].Val, true
	case "str":
		return cty.StringVal(e.Str), true
	case "val":
		return sg.LiteralValue(sg.Sample(sg.Ty(e.Ty))), true
	case "ref":
		v, ok := env[e.Ref[0]]
		if !ok {
			return cty.DynamicVal, false
		}
		for _, name := range e.Ref[1:] {
			v, ok = getAttr(v, name)
			if !ok {
				return cty.DynamicVal, false
			}
		}
		return v, true
	case "tmpl":
		marks := cty.ValueMarks{}
		out := ""
		unknown := false
		for _, p := range e.Parts {
			if p.K == "str" {
				out += p.Str
				continue
			}
			v, ok := Eval(p, env)
			if !ok {
				return cty.DynamicVal, false
			}
			v, m := v.Unmark()
			for k := range m {
				marks[k] = struct{}{}
			}
			if v.IsNull() {
				return cty.DynamicVal, false
			}
			if !v.IsKnown() {
				unknown = true
				continue
			}
			sv, err := convert.Convert(v, cty.String)
			if err != nil {
				return cty.DynamicVal, false
			}
			out += sv.AsString()
		}
		if unknown {
			return cty.UnknownVal(cty.String).WithMarks(marks), true
		}
		return cty.StringVal(out).WithMarks(marks), true
	}
	panic("refdec: bad expression kind " + e.K)
}

// getAttr: attribute access v.name on an object or map value; marks of the
// container carry over to the result.
func getAttr(v cty.Value, name string) (cty.Value, bool) {
	uv, marks := v.Unmark()
	ty := uv.Type()
	switch {
	case ty == cty.DynamicPseudoType:
		if uv.IsNull() {
			return cty.DynamicVal, false
		}
		return cty.DynamicVal.WithMarks(marks), true
	case ty.IsObjectType():
		if !ty.HasAttribute(name) || uv.IsNull() {
			return cty.DynamicVal, false
		}
		if !uv.IsKnown() {
			return cty.UnknownVal(ty.AttributeType(name)).WithMarks(marks), true
		}
		return uv.GetAttr(name).WithMarks(marks), true
	case ty.IsMapType():
		if uv.IsNull() {
			return cty.DynamicVal, false
		}
		if !uv.IsKnown() {
			return cty.UnknownVal(ty.ElementType()).WithMarks(marks), true
		}
		k := cty.StringVal(name)
		if uv.HasIndex(k).False() {
			return cty.DynamicVal, false
		}
		return uv.Index(k).WithMarks(marks), true
	}
	return cty.DynamicVal, false
}
