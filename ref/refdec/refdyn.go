package refdec

import (
	"fmt"
	"sort"

	"github.com/zclconf/go-cty/cty"
	"github.com/zclconf/go-cty/cty/convert"

	sg "verif/gen/specgen"
)

// WriteOut is the result of writing the dynamic blocks of a body out the way
// ext/dynblock/README.md describes ("is interpreted as if it were written as
// follows"): one static block per element of each for_each collection, in
// iteration order, in place of the dynamic block, with the iterator replaced
// by the element's key and value.
//
// The substitution is done by renaming: every generated block gets a fresh
// variable (Vars) holding the object {key, value} of its element, and the
// references to the iterator in its content are redirected to that variable.
type WriteOut struct {
	Body *sg.Body
	Vars map[string]cty.Value
	// Undefined: the write-out does not exist (for_each null / not iterable /
	// erroneous, or a label that is not a known, unmarked string); the
	// documentation only says that expansion reports an error then.
	Undefined string
	// Unknown: top-level block types whose content depends on a for_each
	// collection that is not known; those dynamic blocks are left out of Body.
	Unknown []string
	// Marked: some for_each collection carried marks.
	Marked bool
	// Generated counts the blocks written out.
	Generated int

	// BodyMarks: for the body of every block of the write-out (static or
	// generated, at every depth) the marks of the for_each collections of all
	// the dynamic blocks that generated it or an enclosing block. Everything
	// inside a generated block exists only because of the collection, so it
	// "derives" from it; a body that is not inside any block generated from a
	// marked collection has no entry.
	BodyMarks map[*sg.Body]cty.ValueMarks
	// MarkSets lists the distinct non-empty sets of BodyMarks (as sorted mark
	// names joined by "+") in order of first occurrence.
	MarkSets []string
	// Placeholders (Options.Placeholder only): the outermost blocks written
	// out for an unknown for_each: the top-level block type they sit under and
	// the marks of their for_each collection (with those of the enclosing ones).
	Placeholders []Placeholder
	// Unspecified: the documentation does not say whether the body can be
	// written out (a label that is marked only because an *enclosing* dynamic
	// block iterates over a marked collection).
	Unspecified string
}

// Placeholder describes one block standing for an unknown number of blocks.
type Placeholder struct {
	Top   string
	Marks cty.ValueMarks
	// Path: the block types from the root body down to the placeholder block
	// (the last element is its own type), e.g. ["x", "z"].
	Path []string
}

// Options of ExpandWith.
type Options struct {
	// Placeholder: a dynamic block whose for_each is unknown is written out the
	// way ext/dynblock/README.md describes it: "a single dynamic block whose
	// iterator key and value are both unknown values of the dynamic
	// pseudo-type" (without it such a dynamic block is left out).
	Placeholder bool
	// PlaceholderCount (with Placeholder): how many copies of that block are
	// written out for every unknown for_each; nil means one, as documented. The
	// README also says that "the length of the collection may eventually be
	// different than one": the other counts are the bodies the configuration
	// may still turn out to be (every copy has its own unknown iterator).
	PlaceholderCount *int
}

type binding struct {
	iter string // iterator name
	v    string // fresh variable holding {key, value}
}

type expander struct {
	out  *WriteOut
	opt  Options
	next int
}

func unionMarks(a, b cty.ValueMarks) cty.ValueMarks {
	if len(a) == 0 && len(b) == 0 {
		return nil
	}
	out := make(cty.ValueMarks, len(a)+len(b))
	for m := range a {
		out[m] = struct{}{}
	}
	for m := range b {
		out[m] = struct{}{}
	}
	return out
}

// MarksKey names a mark set: the sorted mark names joined by "+".
func MarksKey(m cty.ValueMarks) string {
	var names []string
	for k := range m {
		names = append(names, fmt.Sprint(k))
	}
	sort.Strings(names)
	out := ""
	for i, n := range names {
		if i > 0 {
			out += "+"
		}
		out += n
	}
	return out
}

func (x *expander) record(b *sg.Body, m cty.ValueMarks) {
	if len(m) == 0 {
		return
	}
	x.out.BodyMarks[b] = m
	k := MarksKey(m)
	for _, have := range x.out.MarkSets {
		if have == k {
			return
		}
	}
	x.out.MarkSets = append(x.out.MarkSets, k)
}

// Elements lists the (key, value) pairs of a known, non-null collection in
// iteration order: lists and tuples by index, maps and objects by sorted key
// (the key is the string), sets in go-cty's set order (the key is the value).
func Elements(coll cty.Value) (keys, vals []cty.Value) {
	ty := coll.Type()
	switch {
	case ty.IsListType() || ty.IsTupleType():
		i := 0
		for it := coll.ElementIterator(); it.Next(); i++ {
			_, v := it.Element()
			keys = append(keys, cty.NumberIntVal(int64(i)))
			vals = append(vals, v)
		}
	case ty.IsMapType() || ty.IsObjectType():
		m := coll.AsValueMap()
		names := make([]string, 0, len(m))
		for k := range m {
			names = append(names, k)
		}
		sort.Strings(names)
		for _, k := range names {
			keys = append(keys, cty.StringVal(k))
			vals = append(vals, m[k])
		}
	case ty.IsSetType():
		for _, v := range coll.AsValueSlice() {
			keys = append(keys, v)
			vals = append(vals, v)
		}
	}
	return
}

// Expand writes the body out. env is the scope the for_each and label
// expressions are evaluated in (the variables of the context given to
// dynblock.Expand).
func Expand(body *sg.Body, env map[string]cty.Value) *WriteOut {
	return ExpandWith(body, env, Options{})
}

// ExpandWith is Expand with options.
func ExpandWith(body *sg.Body, env map[string]cty.Value, opt Options) *WriteOut {
	out := &WriteOut{Vars: map[string]cty.Value{}, BodyMarks: map[*sg.Body]cty.ValueMarks{}}
	x := &expander{out: out, opt: opt}
	out.Body = x.body(body, env, nil, "", nil, false, nil)
	return out
}

func (x *expander) undefined(why string) {
	if x.out.Undefined == "" {
		x.out.Undefined = why
	}
}

// rewrite redirects references to iterators in scope to their fresh variables.
func rewrite(e sg.Expr, scope []binding) sg.Expr {
	switch e.K {
	case "ref":
		for i := len(scope) - 1; i >= 0; i-- { // innermost binding wins
			if scope[i].iter == e.Ref[0] {
				r := append([]string{scope[i].v}, e.Ref[1:]...)
				return sg.Expr{K: "ref", Ref: r}
			}
		}
	case "tmpl":
		n := sg.Expr{K: "tmpl"}
		for _, p := range e.Parts {
			n.Parts = append(n.Parts, rewrite(p, scope))
		}
		return n
	}
	return e
}

// body writes out b. derived: the marks of the for_each collections of the
// enclosing generated blocks; inPlaceholder: inside a placeholder block.
func (x *expander) body(b *sg.Body, env map[string]cty.Value, scope []binding, top string, derived cty.ValueMarks, inPlaceholder bool, path []string) *sg.Body {
	nb := &sg.Body{}
	if b == nil {
		return nb
	}
	for _, a := range b.Attrs {
		nb.Attrs = append(nb.Attrs, sg.Attr{Name: a.Name, Expr: rewrite(a.Expr, scope)})
	}
	for _, bl := range b.Blocks {
		t := top
		if t == "" {
			t = bl.Type
		}
		bpath := append(path[:len(path):len(path)], bl.Type)
		if bl.Dyn == nil {
			sb := x.body(bl.Body, env, scope, t, derived, inPlaceholder, bpath)
			x.record(sb, derived)
			nb.Blocks = append(nb.Blocks, sg.Block{Type: bl.Type, Labels: append([]string(nil), bl.Labels...), Body: sb})
			continue
		}
		// for_each: evaluated in the enclosing scope (outer iterators visible, its own not)
		coll, ok := Eval(bl.Dyn.ForEach, env)
		if !ok {
			x.undefined("for_each-error")
			continue
		}
		coll, marks := coll.Unmark()
		if len(marks) > 0 || coll.ContainsMarked() {
			x.out.Marked = true
		}
		if coll.IsNull() {
			x.undefined("for_each-null")
			continue
		}
		if !coll.IsKnown() {
			if coll.Type() != cty.DynamicPseudoType && !coll.Type().IsCollectionType() && !coll.Type().IsTupleType() && !coll.Type().IsObjectType() {
				x.undefined("for_each-not-iterable")
				continue
			}
			x.out.Unknown = append(x.out.Unknown, t)
			if !x.opt.Placeholder {
				continue
			}
		} else if !coll.CanIterateElements() {
			x.undefined("for_each-not-iterable")
			continue
		}
		inner := unionMarks(derived, marks)
		var keys, vals []cty.Value
		placeholder := !coll.IsKnown()
		if placeholder {
			n := 1
			if x.opt.PlaceholderCount != nil {
				n = *x.opt.PlaceholderCount
			}
			for j := 0; j < n; j++ {
				keys, vals = append(keys, cty.DynamicVal), append(vals, cty.DynamicVal)
			}
			if !inPlaceholder {
				x.out.Placeholders = append(x.out.Placeholders, Placeholder{Top: t, Marks: inner, Path: bpath})
			}
		} else {
			keys, vals = Elements(coll)
		}
		for i := range keys {
			name := fmt.Sprintf("e%d", x.next)
			x.next++
			obj := cty.ObjectVal(map[string]cty.Value{"key": keys[i].WithMarks(marks), "value": vals[i].WithMarks(marks)})
			x.out.Vars[name] = obj
			env2 := make(map[string]cty.Value, len(env)+1)
			for k, v := range env {
				env2[k] = v
			}
			env2[bl.IterName()] = obj
			scope2 := append(scope[:len(scope):len(scope)], binding{iter: bl.IterName(), v: name})
			var labels []string
			bad := false
			for _, le := range bl.Dyn.Labels {
				lv, ok := Eval(le, env2)
				if !ok {
					x.undefined("label-error")
					bad = true
					break
				}
				if lv.IsMarked() {
					x.undefined("label-marked")
					bad = true
					break
				}
				if len(derived) > 0 && x.out.Unspecified == "" {
					// the same label with the iterator carrying the marks of the enclosing collections too
					env3 := make(map[string]cty.Value, len(env2))
					for k, v := range env2 {
						env3[k] = v
					}
					env3[bl.IterName()] = cty.ObjectVal(map[string]cty.Value{"key": keys[i].WithMarks(inner), "value": vals[i].WithMarks(inner)})
					if lv3, ok := Eval(le, env3); ok && lv3.IsMarked() {
						x.out.Unspecified = "label-marked-through-enclosing-collection"
					}
				}
				sv, err := convert.Convert(lv, cty.String)
				if err != nil || sv.IsNull() || !sv.IsKnown() {
					x.undefined("label-not-a-known-string")
					bad = true
					break
				}
				labels = append(labels, sv.AsString())
			}
			if bad {
				continue
			}
			if !placeholder {
				x.out.Generated++
			}
			gb := x.body(bl.Body, env2, scope2, t, inner, inPlaceholder || placeholder, bpath)
			x.record(gb, inner)
			nb.Blocks = append(nb.Blocks, sg.Block{Type: bl.Type, Labels: labels, Body: gb})
		}
	}
	return nb
}
