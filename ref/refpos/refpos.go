// Package refpos is the reference position counter used by C14: for a byte
// buffer and a start position it answers "which line and column does byte
// offset i have" by counting newline sequences and grapheme clusters, exactly
// as hcl.Pos documents. It never calls hashicorp/hcl; grapheme segmentation
// is delegated to go-textseg (trusted base).
package refpos

import (
	"unicode/utf8"

	"github.com/apparentlymart/go-textseg/v15/textseg"
)

// Index holds, for every byte offset 0..len(src) of one buffer, the reference
// line/column and whether the offset is a grapheme-cluster boundary.
type Index struct {
	n int
	// line[i], col[i]: position of offset i when i is a cluster boundary
	// (col is meaningless otherwise).
	line, col []int
	boundary  []bool
	// ambiguous[i]: the buffer is ill-formed UTF-8 and two reasonable
	// readings (textseg's own handling of ill-formed bytes vs. replacing each
	// ill-formed byte by U+FFFD) disagree about the column of offset i, or
	// about whether i is a boundary.
	ambiguous []bool
	// insideCRLF[i]: offset i lies between the CR and the LF of a CRLF pair.
	insideCRLF []bool

	LoneCR      bool // some CR is not followed by LF (positions Unspecified for RangeScanner/JSON; see Native* for the native syntax)
	ValidUTF8   bool
	LeadingBOM  bool
	AsciiJoined bool // some cluster longer than one byte starts with an ASCII byte other than CR of CRLF
}

// segment computes boundaries and columns of b by whole-buffer grapheme
// segmentation; startLine/startCol are the position of offset 0.
func segment(b []byte, startLine, startCol int) (line, col []int, boundary []bool, asciiJoined bool) {
	n := len(b)
	line = make([]int, n+1)
	col = make([]int, n+1)
	boundary = make([]bool, n+1)
	l, c := startLine, startCol
	off := 0
	rest := b
	for {
		line[off], col[off], boundary[off] = l, c, true
		if len(rest) == 0 {
			break
		}
		adv, seq, err := textseg.ScanGraphemeClusters(rest, true)
		if err != nil || adv <= 0 {
			// cannot happen for an in-memory buffer with atEOF; be defensive
			adv = 1
			seq = rest[:1]
		}
		if (len(seq) == 1 && seq[0] == '\n') || (len(seq) == 2 && seq[0] == '\r' && seq[1] == '\n') {
			l++
			c = 1
		} else {
			c++
			if len(seq) > 1 && seq[0] < 0x80 {
				asciiJoined = true
			}
		}
		// offsets strictly inside the cluster: carry the line of the cluster
		// start (a cluster never contains a newline sequence in its interior
		// except CRLF itself).
		for k := 1; k < adv; k++ {
			line[off+k] = line[off]
			col[off+k] = -1
		}
		off += adv
		rest = rest[adv:]
	}
	return
}

// New builds the index of src with offset 0 at (startLine, startCol).
func New(src []byte, startLine, startCol int) *Index {
	n := len(src)
	ix := &Index{n: n}
	ix.line, ix.col, ix.boundary, ix.AsciiJoined = segment(src, startLine, startCol)
	ix.ambiguous = make([]bool, n+1)
	ix.insideCRLF = make([]bool, n+1)
	for i := 0; i < n; i++ {
		if src[i] == '\r' {
			if i+1 < n && src[i+1] == '\n' {
				ix.insideCRLF[i+1] = true
			} else {
				ix.LoneCR = true
			}
		}
	}
	ix.LeadingBOM = n >= 3 && src[0] == 0xef && src[1] == 0xbb && src[2] == 0xbf
	ix.ValidUTF8 = utf8.Valid(src)
	if !ix.ValidUTF8 {
		// second reading: every ill-formed byte becomes U+FFFD
		sub := make([]byte, 0, n+8)
		srcToSub := make([]int, n+1)
		for i := 0; i < n; {
			r, sz := utf8.DecodeRune(src[i:])
			srcToSub[i] = len(sub)
			if r == utf8.RuneError && sz == 1 {
				sub = append(sub, 0xef, 0xbf, 0xbd)
				i++
				continue
			}
			for k := 0; k < sz; k++ {
				if k > 0 {
					srcToSub[i+k] = -1
				}
				sub = append(sub, src[i+k])
			}
			i += sz
		}
		srcToSub[n] = len(sub)
		_, col2, b2, _ := segment(sub, startLine, startCol)
		for i := 0; i <= n; i++ {
			j := srcToSub[i]
			if j < 0 {
				// interior of a well-formed rune in the second reading
				if ix.boundary[i] {
					ix.ambiguous[i] = true
				}
				continue
			}
			if b2[j] != ix.boundary[i] || (b2[j] && col2[j] != ix.col[i]) {
				ix.ambiguous[i] = true
			}
		}
	}
	return ix
}

// Line returns the reference line of offset i: start line plus the number of
// LF bytes before i. It is well defined for every offset that is not between
// the CR and LF of a CRLF pair, provided the buffer has no lone CR.
func (ix *Index) Line(i int) int { return ix.line[i] }

// LineDefined reports whether the line of offset i is demanded.
func (ix *Index) LineDefined(i int) bool { return !ix.LoneCR && !ix.insideCRLF[i] }

// Col returns the reference column of offset i (1 + clusters since the last
// newline sequence); only meaningful when ColDefined(i).
func (ix *Index) Col(i int) int { return ix.col[i] }

// ColDefined reports whether offset i is a cluster boundary whose column does
// not depend on how ill-formed UTF-8 is read.
func (ix *Index) ColDefined(i int) bool {
	return !ix.LoneCR && ix.boundary[i] && !ix.ambiguous[i]
}

// ---- native syntax reading of a lone CR ----
//
// hclsyntax/spec.md defines a newline sequence as "either U+000A or U+000D
// followed by U+000A". For the native syntax a CR that is not followed by LF
// is therefore *not* a newline; UAX #29 (GB4/GB5) makes it a grapheme cluster
// of its own, so it is one column and stays on its line. That is exactly what
// segment() computes, hence the line/col arrays are already the native-syntax
// reference for buffers with lone CRs: the two predicates below are the
// *Defined predicates without the LoneCR exemption (which remains for
// hcl.RangeScanner and the JSON scanner, whose documents do not say what a
// lone CR is).

// NativeLineDefined reports whether the line of offset i is demanded of the
// native syntax scanner/parser (every offset that is not between the CR and
// the LF of a CRLF pair).
func (ix *Index) NativeLineDefined(i int) bool { return !ix.insideCRLF[i] }

// NativeColDefined reports whether offset i is a cluster boundary whose column
// does not depend on how ill-formed UTF-8 is read; a lone CR before i counts
// as one cluster.
func (ix *Index) NativeColDefined(i int) bool { return ix.boundary[i] && !ix.ambiguous[i] }

// Boundary reports whether offset i is a grapheme-cluster boundary.
func (ix *Index) Boundary(i int) bool { return ix.boundary[i] }

// InsideCRLF reports whether offset i lies between the CR and the LF of a
// CRLF pair.
func (ix *Index) InsideCRLF(i int) bool { return ix.insideCRLF[i] }
