// Package vfmt renders cty values compactly and safely (numbers with huge
// exponents are never expanded to their full decimal form).
package vfmt

import (
	"fmt"
	"math/big"
	"sort"
	"strings"

	"github.com/zclconf/go-cty/cty"
)

// V renders a value including its type, marks, unknown-ness and refinements.
func V(v cty.Value) string {
	var sb strings.Builder
	write(&sb, v)
	return sb.String()
}

func write(sb *strings.Builder, v cty.Value) {
	if v == cty.NilVal {
		sb.WriteString("NilVal")
		return
	}
	if v.IsMarked() {
		u, marks := v.Unmark()
		sb.WriteString("marked(")
		write(sb, u)
		var ms []string
		for m := range marks {
			ms = append(ms, fmt.Sprint(m))
		}
		sort.Strings(ms)
		sb.WriteString("; " + strings.Join(ms, ",") + ")")
		return
	}
	ty := v.Type()
	if !v.IsKnown() {
		sb.WriteString("unknown(" + ty.FriendlyName())
		if ty != cty.DynamicPseudoType {
			r := v.Range()
			if r.DefinitelyNotNull() {
				sb.WriteString(" notnull")
			}
			sb.WriteString(refinements(v))
		}
		sb.WriteString(")")
		return
	}
	if v.IsNull() {
		sb.WriteString("null(" + ty.FriendlyName() + ")")
		return
	}
	switch {
	case ty == cty.String:
		fmt.Fprintf(sb, "%q", v.AsString())
	case ty == cty.Number:
		sb.WriteString(Num(v.AsBigFloat()))
	case ty == cty.Bool:
		fmt.Fprintf(sb, "%v", v.True())
	case ty.IsListType() || ty.IsSetType() || ty.IsTupleType():
		switch {
		case ty.IsListType():
			sb.WriteString("list<" + ty.ElementType().FriendlyName() + ">[")
		case ty.IsSetType():
			sb.WriteString("set<" + ty.ElementType().FriendlyName() + ">[")
		default:
			sb.WriteString("tuple[")
		}
		first := true
		for it := v.ElementIterator(); it.Next(); {
			_, ev := it.Element()
			if !first {
				sb.WriteString(", ")
			}
			first = false
			write(sb, ev)
		}
		sb.WriteString("]")
	case ty.IsMapType() || ty.IsObjectType():
		if ty.IsMapType() {
			sb.WriteString("map<" + ty.ElementType().FriendlyName() + ">{")
		} else {
			sb.WriteString("object{")
		}
		first := true
		var keys []string
		m := v.AsValueMap()
		for k := range m {
			keys = append(keys, k)
		}
		sort.Strings(keys)
		for _, k := range keys {
			if !first {
				sb.WriteString(", ")
			}
			first = false
			fmt.Fprintf(sb, "%q: ", k)
			write(sb, m[k])
		}
		sb.WriteString("}")
	default:
		fmt.Fprintf(sb, "%#v", v)
	}
}

// Num renders a big.Float without ever expanding an astronomically large
// exponent into decimal digits (which math/big does in time linear in the
// exponent's magnitude).
func Num(f *big.Float) string {
	if f.IsInf() {
		return f.String()
	}
	if e := f.MantExp(nil); e > 4096 || e < -4096 {
		m := new(big.Float)
		f.MantExp(m)
		return fmt.Sprintf("%s*2^%d", m.Text('g', 30), e)
	}
	return f.Text('g', 50)
}

func refinements(v cty.Value) string {
	defer func() { recover() }()
	r := v.Range()
	ty := v.Type()
	var parts []string
	switch {
	case ty == cty.String:
		if p := r.StringPrefix(); p != "" {
			parts = append(parts, fmt.Sprintf("prefix=%q", p))
		}
	case ty == cty.Number:
		lo, loInc := r.NumberLowerBound()
		hi, hiInc := r.NumberUpperBound()
		if lo.IsKnown() && lo != cty.NegativeInfinity {
			parts = append(parts, fmt.Sprintf("lo=%s/%v", V(lo), loInc))
		}
		if hi.IsKnown() && hi != cty.PositiveInfinity {
			parts = append(parts, fmt.Sprintf("hi=%s/%v", V(hi), hiInc))
		}
	case ty.IsCollectionType():
		parts = append(parts, fmt.Sprintf("len=%d..%d", r.LengthLowerBound(), r.LengthUpperBound()))
	}
	if len(parts) == 0 {
		return ""
	}
	return " " + strings.Join(parts, " ")
}
