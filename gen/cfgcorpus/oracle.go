package cfgcorpus

import (
	"fmt"
	"strings"

	"github.com/hashicorp/hcl/v2"
	"github.com/hashicorp/hcl/v2/hclsyntax"
	"github.com/zclconf/go-cty/cty"
	"github.com/zclconf/go-cty/cty/function"
)

// TokName is a short lower-case name of a token type, used in failure classes.
func TokName(t hclsyntax.TokenType) string {
	switch t {
	case hclsyntax.TokenNumberLit:
		return "number"
	case hclsyntax.TokenIdent:
		return "ident"
	case hclsyntax.TokenDot:
		return "dot"
	case hclsyntax.TokenNewline:
		return "newline"
	case hclsyntax.TokenComment:
		return "comment"
	case hclsyntax.TokenEOF:
		return "eof"
	case hclsyntax.TokenQuotedLit:
		return "quotedlit"
	case hclsyntax.TokenStringLit:
		return "stringlit"
	case hclsyntax.TokenOQuote:
		return "oquote"
	case hclsyntax.TokenCQuote:
		return "cquote"
	case hclsyntax.TokenOHeredoc:
		return "oheredoc"
	case hclsyntax.TokenCHeredoc:
		return "cheredoc"
	case hclsyntax.TokenTemplateInterp:
		return "interp"
	case hclsyntax.TokenTemplateControl:
		return "control"
	case hclsyntax.TokenTemplateSeqEnd:
		return "seqend"
	case hclsyntax.TokenOBrack:
		return "obrack"
	case hclsyntax.TokenCBrack:
		return "cbrack"
	case hclsyntax.TokenOBrace:
		return "obrace"
	case hclsyntax.TokenCBrace:
		return "cbrace"
	case hclsyntax.TokenOParen:
		return "oparen"
	case hclsyntax.TokenCParen:
		return "cparen"
	case hclsyntax.TokenEllipsis:
		return "ellipsis"
	case hclsyntax.TokenMinus:
		return "minus"
	case hclsyntax.TokenEqual:
		return "equal"
	case hclsyntax.TokenComma:
		return "comma"
	case hclsyntax.TokenColon:
		return "colon"
	case hclsyntax.TokenQuestion:
		return "question"
	}
	s := strings.ToLower(strings.TrimPrefix(t.String(), "Token"))
	s = strings.ReplaceAll(s, " ", "")
	return s
}

// TokString renders a token sequence for messages.
func TokString(ts []Tok) string {
	var sb strings.Builder
	for i, t := range ts {
		if i > 0 {
			sb.WriteByte(' ')
		}
		fmt.Fprintf(&sb, "%s%q", TokName(t.Type), t.Bytes)
	}
	return sb.String()
}

// TokDiff describes how a produced token sequence differs from the source's.
type TokDiff struct {
	Kind  string // "glued", "split", "truncated", "extended", "dropped", "inserted", "changed"
	Class string // class suffix derived from the construct (no property prefix)
	At    int    // index of the first difference in the source sequence
	Run   []Tok  // the dropped / inserted tokens
	Msg   string
}

func isKeyLiteralIdent(t Tok) (string, bool) {
	if t.Type != hclsyntax.TokenIdent {
		return "", false
	}
	switch t.Bytes {
	case "true", "false":
		return "bool", true
	case "null":
		return "null", true
	}
	return "", false
}

// prevSignificant returns the index of the last token before i that is not a
// comment or newline, or -1.
func prevSignificant(ts []Tok, i int) int {
	for j := i - 1; j >= 0; j-- {
		if ts[j].Type != hclsyntax.TokenComment && ts[j].Type != hclsyntax.TokenNewline {
			return j
		}
	}
	return -1
}

func nextSignificant(ts []Tok, i int) int {
	for j := i + 1; j < len(ts); j++ {
		if ts[j].Type != hclsyntax.TokenComment && ts[j].Type != hclsyntax.TokenNewline {
			return j
		}
	}
	return -1
}

// resync reports whether b continues like a for the next w tokens.
func resync(a, b []Tok, w int) bool {
	n := w
	if len(a) < n {
		n = len(a)
	}
	if len(b) < n {
		n = len(b)
	}
	if n == 0 {
		return len(a) == len(b)
	}
	return SameToks(a[:n], b[:n])
}

// runName names a run of tokens by its significant members; a run of only
// comments / newlines is named by the set of kinds it contains.
func runName(run []Tok) string {
	var sigNames []string
	kinds := map[string]bool{}
	for _, t := range run {
		if t.Type == hclsyntax.TokenComment || t.Type == hclsyntax.TokenNewline {
			kinds[TokName(t.Type)] = true
			continue
		}
		sigNames = append(sigNames, TokName(t.Type))
	}
	if len(sigNames) > 0 {
		return strings.Join(sigNames, "-")
	}
	switch {
	case kinds["comment"] && kinds["newline"]:
		return "comment-newline"
	case kinds["comment"]:
		return "comment"
	}
	return "newline"
}

// DiffToks classifies the first difference between the source tokens and the
// produced tokens. It returns nil when the sequences are equal. The class is
// derived from the construct at the point of the first difference: which
// source tokens were glued together / dropped / duplicated, and (for index
// keys) in which syntactic slot. Later differences in the same text do not
// influence the class.
func DiffToks(src, out []Tok) *TokDiff {
	if SameToks(src, out) {
		return nil
	}
	i := 0
	for i < len(src) && i < len(out) && src[i] == out[i] {
		i++
	}
	d := &TokDiff{At: i}
	ctx := func() string {
		lo, hi := i-3, i+5
		if lo < 0 {
			lo = 0
		}
		hs, ho := hi, hi
		if hs > len(src) {
			hs = len(src)
		}
		if ho > len(out) {
			ho = len(out)
		}
		var o []Tok
		if lo < ho {
			o = out[lo:ho]
		}
		return fmt.Sprintf("source tokens [%d..]: %s | produced: %s", lo, TokString(src[lo:hs]), TokString(o))
	}
	if i < len(src) && i < len(out) {
		a, b := src[i], out[i]
		switch {
		case a.Type == b.Type && i+1 < len(src) && src[i+1].Bytes == "" && len(b.Bytes) > len(a.Bytes) && strings.HasPrefix(b.Bytes, a.Bytes):
			// the token that follows in the source has no bytes (end of file):
			// nothing was glued on, the token itself grew (for example a
			// final line comment that acquired a line ending)
			d.Kind = "extended"
			d.Class = TokName(a.Type) + "-bytes-appended." + bytesKind(b.Bytes[len(a.Bytes):]) + ".before-" + TokName(src[i+1].Type)
			d.Msg = fmt.Sprintf("source token %s has the additional bytes %q in the output; %s", TokString(src[i:i+1]), b.Bytes[len(a.Bytes):], ctx())
			return d
		case a.Type == b.Type && len(b.Bytes) < len(a.Bytes) && strings.HasPrefix(a.Bytes, b.Bytes) && !continuesWith(out[i+1:], a.Bytes[len(b.Bytes):]):
			// the output token is a proper prefix of the source token and the
			// rest is not in the tokens that follow: the end of the token was
			// cut off (for example the blanks at the end of a line comment)
			d.Kind = "truncated"
			d.Class = TokName(a.Type) + "-truncated." + bytesKind(a.Bytes[len(b.Bytes):]) + "-dropped"
			d.Msg = fmt.Sprintf("source token %s lost its last bytes %q in the output (%s); %s", TokString(src[i:i+1]), a.Bytes[len(b.Bytes):], TokString(out[i:i+1]), ctx())
			return d
		case a.Type == b.Type && i+1 < len(src) && len(b.Bytes) > len(a.Bytes) && strings.HasPrefix(b.Bytes, a.Bytes+src[i+1].Bytes):
			// two source tokens that were separated by spacing now scan as one
			d.Kind = "glued"
			d.Class = TokName(a.Type) + "-space-" + TokName(src[i+1].Type) + "-glued"
			d.Msg = fmt.Sprintf("source tokens %s and %s were separated by spacing; the output scans them as %s; %s", TokString(src[i:i+1]), TokString(src[i+1:i+2]), TokString(out[i:i+1]), ctx())
			return d
		case a.Type == b.Type && len(b.Bytes) < len(a.Bytes) && strings.HasPrefix(a.Bytes, b.Bytes):
			d.Kind = "split"
			d.Class = TokName(a.Type) + "-split"
			d.Msg = fmt.Sprintf("source token %s scans as several tokens in the output; %s", TokString(src[i:i+1]), ctx())
			return d
		}
	}
	// A dropped or inserted run is recognised by the two sequences continuing
	// alike after it; a long common continuation is preferred, but a second
	// difference nearby must not hide the first, so shorter ones are accepted.
	for _, w := range []int{4, 3, 2} {
		if dd := diffRun(src, out, i, w, d, ctx); dd != nil {
			return dd
		}
	}
	if i < len(src) && i < len(out) {
		d.Kind = "changed"
		d.Class = "token-changed." + TokName(src[i].Type) + "-to-" + TokName(out[i].Type)
		d.Msg = fmt.Sprintf("token %d differs: source %s, output %s; %s", i, TokString(src[i:i+1]), TokString(out[i:i+1]), ctx())
		return d
	}
	d.Kind = "changed"
	d.Class = "token-count-changed"
	d.Msg = fmt.Sprintf("token sequences have different lengths (%d vs %d); %s", len(src), len(out), ctx())
	return d
}

// continuesWith reports whether the bytes of the tokens ts, written one after
// the other, start with rest.
func continuesWith(ts []Tok, rest string) bool {
	for _, t := range ts {
		if rest == "" {
			return true
		}
		n := len(t.Bytes)
		if n > len(rest) {
			n = len(rest)
		}
		if t.Bytes[:n] != rest[:n] {
			return false
		}
		rest = rest[n:]
	}
	return rest == ""
}

// bytesKind names a run of bytes cut from / added to the end of a token.
func bytesKind(s string) string {
	switch {
	case strings.Trim(s, " \t") == "":
		return "trailing-blanks"
	case strings.Trim(s, "\r\n") == "":
		return "line-ending"
	case strings.Trim(s, " \t\r\n") == "":
		return "trailing-blanks-and-line-ending"
	}
	return "trailing-bytes"
}

func diffRun(src, out []Tok, i, w int, d *TokDiff, ctx func() string) *TokDiff {
	// dropped run: the output continues like the source after skipping src[i:i+k]
	for k := 1; k <= 16 && i+k <= len(src); k++ {
		if resync(src[i+k:], out[i:], w) {
			d.Kind = "dropped"
			run := src[i : i+k]
			d.Run = run
			p, n := prevSignificant(src, i), nextSignificant(src, i+k-1)
			d.Class = "tokens-dropped." + runName(run)
			if p >= 0 && n >= 0 && src[p].Type == hclsyntax.TokenOBrack && src[n].Type == hclsyntax.TokenCBrack {
				var sigRun []Tok
				for _, t := range src[p+1 : n] {
					if t.Type != hclsyntax.TokenComment && t.Type != hclsyntax.TokenNewline {
						sigRun = append(sigRun, t)
					}
				}
				if len(sigRun) == 1 {
					if _, ok := isKeyLiteralIdent(sigRun[0]); ok {
						// everything between the brackets of an index step
						// whose key is a literal that is neither a string nor
						// a number (true / false / null)
						d.Class = "index-key-bool-or-null-dropped"
					}
				}
			}
			d.Msg = fmt.Sprintf("token(s) %s of the source are missing from the output; %s", TokString(run), ctx())
			return d
		}
	}
	// inserted run: the source continues like the output after skipping out[i:i+k]
	for k := 1; k <= 16 && i+k <= len(out); k++ {
		if resync(out[i+k:], src[i:], w) {
			d.Kind = "inserted"
			d.Run = out[i : i+k]
			d.Class = "tokens-inserted." + runName(d.Run)
			d.Msg = fmt.Sprintf("token(s) %s appear in the output but not in the source; %s", TokString(out[i:i+k]), ctx())
			return d
		}
	}
	return nil
}

// ---- structure summaries from the hclsyntax AST (the reference reading) ----

// AttrSum is the reference view of one attribute.
type AttrSum struct {
	Name string
	Expr hclsyntax.Expression
}

// BodySum is the reference view of a body: attributes (sorted by source
// position) and blocks (in source order), recursively.
type BodySum struct {
	Attrs  []AttrSum
	Blocks []BlockSum
}

type BlockSum struct {
	Type        string
	Labels      []string
	LabelRanges []hcl.Range
	Body        BodySum
}

func Summarise(b *hclsyntax.Body) BodySum {
	var s BodySum
	attrs := make([]*hclsyntax.Attribute, 0, len(b.Attributes))
	for _, a := range b.Attributes {
		attrs = append(attrs, a)
	}
	// sort by source position
	for i := 1; i < len(attrs); i++ {
		for j := i; j > 0 && attrs[j].SrcRange.Start.Byte < attrs[j-1].SrcRange.Start.Byte; j-- {
			attrs[j], attrs[j-1] = attrs[j-1], attrs[j]
		}
	}
	for _, a := range attrs {
		s.Attrs = append(s.Attrs, AttrSum{Name: a.Name, Expr: a.Expr})
	}
	for _, bl := range b.Blocks {
		s.Blocks = append(s.Blocks, BlockSum{Type: bl.Type, Labels: append([]string(nil), bl.Labels...), LabelRanges: bl.LabelRanges, Body: Summarise(bl.Body)})
	}
	return s
}

// Shape renders names, block types and labels (no expressions).
func (s BodySum) Shape() string {
	var sb strings.Builder
	s.shape(&sb)
	return sb.String()
}

func (s BodySum) shape(sb *strings.Builder) {
	sb.WriteByte('{')
	for _, a := range s.Attrs {
		sb.WriteString(a.Name)
		sb.WriteByte(';')
	}
	for _, b := range s.Blocks {
		fmt.Fprintf(sb, "%s%q", b.Type, b.Labels)
		b.Body.shape(sb)
	}
	sb.WriteByte('}')
}

// ---- fixed evaluation scope ----

// EvalContext returns the fixed scope in which attribute expressions of the
// corpus are evaluated (a fresh one per call: contexts are not shared between
// concurrently judged cases).
func EvalContext() *hcl.EvalContext {
	objs := cty.ListVal([]cty.Value{
		cty.ObjectVal(map[string]cty.Value{"id": cty.NumberIntVal(1), "name": cty.StringVal("one")}),
		cty.ObjectVal(map[string]cty.Value{"id": cty.NumberIntVal(2), "name": cty.StringVal("two")}),
	})
	tupleFn := function.New(&function.Spec{
		VarParam: &function.Parameter{Name: "args", Type: cty.DynamicPseudoType, AllowNull: true, AllowDynamicType: true},
		Type: func(args []cty.Value) (cty.Type, error) {
			tys := make([]cty.Type, len(args))
			for i, a := range args {
				tys[i] = a.Type()
			}
			return cty.Tuple(tys), nil
		},
		Impl: func(args []cty.Value, retType cty.Type) (cty.Value, error) {
			if len(args) == 0 {
				return cty.EmptyTupleVal, nil
			}
			return cty.TupleVal(args), nil
		},
	})
	firstFn := function.New(&function.Spec{
		Params: []function.Parameter{{Name: "v", Type: cty.DynamicPseudoType, AllowNull: true, AllowDynamicType: true}},
		Type:   func(args []cty.Value) (cty.Type, error) { return args[0].Type(), nil },
		Impl:   func(args []cty.Value, retType cty.Type) (cty.Value, error) { return args[0], nil },
	})
	return &hcl.EvalContext{
		Variables: map[string]cty.Value{
			"a": cty.NumberIntVal(5),
			"b": cty.TupleVal([]cty.Value{
				cty.TupleVal([]cty.Value{cty.NumberIntVal(10), cty.NumberIntVal(11)}),
				cty.TupleVal([]cty.Value{cty.NumberIntVal(20), cty.NumberIntVal(21)}),
			}),
			"c": cty.StringVal("k"),
			"t": cty.True,
			"l": cty.ListVal([]cty.Value{cty.NumberIntVal(10), cty.NumberIntVal(20), cty.NumberIntVal(30)}),
			"m": cty.MapVal(map[string]cty.Value{
				"true": cty.StringVal("T"), "false": cty.StringVal("F"), "k": cty.StringVal("v"),
			}),
			"foo": cty.ObjectVal(map[string]cty.Value{
				"bar":  cty.ObjectVal(map[string]cty.Value{"baz": cty.NumberIntVal(7)}),
				"k":    cty.StringVal("kv"),
				"objs": objs,
			}),
			"a-b": cty.StringVal("dash"),
			"é":   cty.StringVal("accent"),
		},
		Functions: map[string]function.Function{
			"f":     tupleFn,
			"ns::f": firstFn,
		},
	}
}
