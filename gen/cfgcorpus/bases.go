// Package cfgcorpus is the deterministic corpus generator shared by the checks
// C09 (formatter) and C10 (writer-AST load/save): a finite, explicitly stated
// product of small valid HCL native-syntax configurations and layout
// deviations of them, enumerated simplest-first.
//
// The package also contains the small helpers both oracles share (token
// sequences, token-difference classification, structure summaries, the fixed
// evaluation scope). Nothing in here calls hclwrite: the real lexer and parser
// of hclsyntax are used only to *define the input domain* ("error-free
// configurations with the same tokens in a different layout").
package cfgcorpus

import (
	"fmt"
	"strings"
)

// Base is one hand-written (part a) or product-generated (part b) valid
// configuration.
type Base struct {
	Part string // "a" or "b"
	Name string
	Src  string
}

// PairBases is part (a): small valid configurations that together contain
// every kind of token adjacency of the native syntax. Every one of them must
// parse without error diagnostics (Validate checks this; the checks refuse to
// run otherwise).
func PairBases() []Base {
	type b = struct{ name, src string }
	var align []b
	for n := 1; n <= 100; n++ {
		// quick and thorough both: the widths around the formatter's 40-space chunks, plus a spread
		if !(n <= 3 || n%10 == 0 || (n >= 34 && n <= 50) || (n >= 74 && n <= 90)) {
			continue
		}
		name := strings.Repeat("n", n)
		align = append(align, b{fmt.Sprintf("align-%03d", n), name + " = 1 // c\nx = (6 / // h\n  2)\ny = 2 # d\n"})
	}
	list := []b{
		// --- trivial files
		{"empty", ""},
		{"newline-only", "\n"},
		{"comment-only", "# only\n"},
		{"attr", "a = 1\n"},
		{"attr-no-final-newline", "a = 1\nb = 2"},
		// --- binary operators
		{"arith", "a = 1 + 2 - 3 * 4 / 5 % 6\n"},
		{"compare-logic", "a = 1 == 2 || 3 != 4 && 5 < 6 || 7 <= 8 && 9 > 1 || 2 >= 3\n"},
		{"not", "a = !t && !(t || !t)\n"},
		// --- unary minus after every operator / bracket / separator / ? / : / =
		{"minus-after-arith", "a = -1 + -2 - -3 * -4 / -5 % -6\n"},
		{"minus-after-compare", "a = -1 == -2 || -3 != -4 && -5 < -6 || -7 <= -8 && -9 > -1 || -2 >= -3\n"},
		{"minus-after-logic", "a = t && -a || -a\nb = !-a\nc = -!t\n"},
		{"minus-after-brackets", "a = [-1, -2, (-3), f(-4, -5), { k = -6, j : -7 }, l[-1]]\n"},
		{"minus-in-conditional", "a = t ? -1 : -2\nb = -1 < 0 ? -a : - a\n"},
		{"minus-chains", "a = a - -1\nb = -(-1)\nc = - - 1\nd = a - (-1) - -a\n"},
		{"minus-in-for", "a = [for x in l : -x if -x < -1]\nb = { for k, v in m : k => -1 }\n"},
		{"minus-in-template", "a = \"${-a}${a - -1}%{if -a < -1}x%{endif}\"\n"},
		{"minus-before-call-index", "a = -f(1)\nb = -l[0]\nc = -foo.bar.baz\nd = !f(t)\n"},
		// --- traversals
		{"traversal-attr", "a = foo.bar.baz\nb = foo.bar\n"},
		{"traversal-legacy-index", "a = b.0\nb = foo.objs.0.name\n"},
		{"traversal-legacy-index-chain", "a = b.0 .1\n"},
		{"traversal-index", "a = l[0]\nb = foo[\"k\"]\nc = foo.objs[1].name\n"},
		{"traversal-index-bool-null", "a = m[true]\nb = m[null]\nc = m[false].x\n"},
		{"traversal-index-computed", "a = l[a]\nb = l[a - 4]\nc = foo[\"${c}\"]\nd = foo[c]\n"},
		{"traversal-splat", "a = foo.objs[*].id\nb = foo.objs.*.id\nc = foo.objs[*]\nd = foo.objs[*].name[0]\n"},
		{"traversal-on-expr", "a = (foo).bar\nb = f(1)[0]\nc = f(foo).0.bar\nd = [1, 2][0]\ne = { x = 1 }.x\nf = l[0][1]\ng = foo[\"objs\"][0][\"id\"]\n"},
		{"number-dot", "a = 1 .x\nb = [1 . 5]\nc = 1 .e5x\n"},
		{"slash-then-comment", "a = 6 / /* h */ 2\nb = [6 /\n  // h\n  2]\nc = 2 * /* m */ 3\nd = (6 / // h\n  2)\n"},
		{"index-key-heredoc", "a = foo[<<K\nname\nK\n]\nb = 1\n"},
		{"labels-dollar-runs", "b \"cost$$${unit}\" {}\nb \"a%%%{x}\" \"$$$\" {}\nb \"$${a}$${b}\" \"%%{%%{\" {}\n"},
		{"number-dot-signed-exponent", "a = 1 .e-5\nb = [b.0 .e-7]\nc = 2 .E-1x\nd = 3 .e+1\n"},
		{"traversal-splat-legacy-index", "a = foo.objs.*.name.0\nb = foo.objs.*.0\nc = foo.objs.*.id.0.x\nd = [foo.objs.*.name.0, 1]\n"},
		{"template-strip-mixed", "a = \"${c}-${~ c ~}-${c ~}\"\nb = \"%{ if t }x%{~ endif }%{ if t ~}y%{ endif ~}\"\nc = \"${~ c}\"\n"},
		// --- calls
		{"calls", "a = f()\nb = f(1)\nc = f(1, 2)\nd = f(l...)\ne = ns::f(1)\ng = f(1, l...)\nh = f(1, 2, )\n"},
		{"call-number-ellipsis", "a = f(1 ...)\nb = f(b.0 ...)\n"},
		{"call-multiline", "a = f(\n  1,\n  [2],\n  l...\n)\n"},
		// --- tuples / objects
		{"tuple-single-line", "a = []\nb = [1]\nc = [1, 2, ]\nd = [[1], [2, [3]]]\n"},
		{"tuple-multi-line", "a = [\n  1,\n  2,\n]\n"},
		{"object-single-line", "a = {}\nb = { x = 1 }\nc = { x = 1, y : 2 }\nd = { \"q\" = 1, (c) = 2, foo.bar = 3 }\n"},
		{"object-multi-line", "a = {\n  x = 1\n  y : 2\n  \"z\" = 3,\n  w = 4\n}\n"},
		{"object-multi-line-keys", "a = {\n  \"q\" = 1\n  (c) = 2\n  foo.bar = 3\n  x = 4\n}\n"},
		{"nested-multi-line", "a = {\n  x = [\n    1,\n    {\n      y = 2\n    },\n  ]\n}\n"},
		// --- for expressions
		{"for-tuple", "a = [for x in l : x]\nb = [for i, x in l : i if x > 1]\n"},
		{"for-object", "a = { for k, v in m : k => v }\nb = { for k, v in m : v => k... }\n"},
		{"for-multi-line", "a = [\n  for x in l :\n  x\n  if x > 1\n]\n"},
		{"for-in-tuple-literal", "a = [for x in [1, 2] : x]\nb = [for x in (l) : x]\n"},
		// --- conditionals, parentheses
		{"conditional", "a = t ? 1 : 2\nb = t ? (t ? 1 : 2) : 3\nc = (\n  t\n  ? 1\n  : 2\n)\n"},
		{"parens", "a = (1)\nb = ((1 + 2) * 3)\nc = (\n  1\n)\n"},
		// --- templates
		{"template-quoted", "a = \"x\"\nb = \"\"\nc = \"x${c}y\"\nd = \"${c}\"\ne = \"${c}${c}\"\n"},
		{"template-escapes", "a = \"$${c} %%{x} $ % é \\n \\\" \\\\\"\n"},
		{"template-directives", "a = \"%{if t}x%{else}y%{endif}\"\nb = \"%{for x in l}${x},%{endfor}\"\n"},
		{"template-strip", "a = \"x ${~ c ~} y\"\nb = \"%{~ if t ~}x%{~ endif ~}\"\n"},
		{"template-nested", "a = \"${f(\"x\", { k = \"${c}\" })}\"\nb = \"${{ x = 1 }.x}\"\nc = \"${t ? \"x\" : \"y\"}\"\n"},
		{"heredoc", "a = <<EOT\nhello\n  world ${c}\nEOT\n"},
		{"heredoc-indent", "a = <<-EOT\n    hello\n      ${c} %{if t}x%{endif}\n    EOT\n"},
		{"heredoc-strip-directive", "a = <<EOT\n%{~ for x in l ~}\n${~ x ~}\n%{~ endfor ~}\nEOT\n"},
		{"heredoc-in-brackets", "a = f(<<EOT\nx\nEOT\n)\nb = [<<EOT\nx\nEOT\n, 1]\n"},
		{"heredoc-multiline-interp", "a = <<EOT\n${f(\n  1,\n  2\n)}\nEOT\n"},
		{"heredoc-in-block", "b {\n  a = <<EOT\nx\nEOT\n  c = 1\n}\n"},
		// --- comments in every slot
		{"comments-attr", "# lead\na = 1 # line\n// lead2\nb = 2 // line2\n/* block */ c = 3 /* inline */\n"},
		{"comments-aligned", "a = 1 + 2 # c1\nbb = f(3, 4) # c2\nc = 5\n"},
		{"comments-in-expr", "a = [ # c1\n  1, // c2\n  /* c3 */ 2 /* c4 */,\n]\n"},
		{"comments-in-attr", "a /* c1 */ = /* c2 */ 1 /* c3 */ + /* c4 */ 2\n"},
		{"comments-in-traversal", "a = foo /*c*/ . /*d*/ bar /*e*/ [ /*f*/ 0 /*g*/ ] /*h*/\n"},
		{"comments-in-block", "# lead\nb \"l\" { # after brace\n  # inside\n  a = 1\n  # trailing\n} # after close\n"},
		{"comments-in-block-header", "b /*c*/ \"l\" /*d*/ l2 /*e*/ { /*f*/ } /*g*/\n"},
		{"comments-blank-lines", "# detached\n\n# lead\na = 1\n\n# lead b\nb {\n}\n\n# end\n"},
		// --- blocks
		{"blocks-empty", "b {}\nb \"l\" {}\nb l {}\nb \"l1\" l2 \"l3\" {\n}\n"},
		{"blocks-one-line", "b { a = 1 }\nb \"l\" { a = 1 }\n"},
		{"blocks-nested", "b {\n  c {\n    d {\n      a = 1\n    }\n  }\n}\n"},
		{"blocks-attrs-aligned", "b {\n  a = 1\n  bbb = 2\n\n  cc = 3\n  d = [\n    1,\n  ]\n  e = 5\n}\n"},
		{"blocks-labels-special", "b \"a$b\" \"c%d\" {}\nb \"\" {}\nb \"a\\\"b\" \"é\" {}\nb \"x$${y}\" {}\n"},
		{"blocks-tabs", "b {\n\ta = 1\n\t\tc = 2\n}\n"},
		{"blocks-one-line-nested-object", "b { a = { x = 1 } }\nc { a = [1] }\n"},
		// --- names and literals
		{"names", "a-b = 1\né = a-b\na_b-c1 = é\n"},
		{"literals", "a = 1.5\nb = 1e5\nc = 1.5e-3\nd = true\ne = null\ng = 0\n"},
	}
	list = append(list, align...)
	out := make([]Base, len(list))
	for i, e := range list {
		out[i] = Base{Part: "a", Name: e.name, Src: e.src}
	}
	return out
}

// Shape is one expression shape of part (b).
type Shape struct{ Name, Src string }

// Shapes returns the expression shapes of part (b), simplest first.
func Shapes() []Shape {
	return []Shape{
		// literals
		{"num", "1"}, {"frac", "1.5"}, {"str", "\"s\""}, {"bool", "true"}, {"null", "null"},
		{"tuple-empty", "[]"}, {"object-empty", "{}"}, {"tuple", "[1, 2]"}, {"object", "{ x = 1 }"},
		// traversals: every shape
		{"root", "foo"}, {"attr", "foo.bar"}, {"attr2", "foo.bar.baz"},
		{"index-str", "foo[\"k\"]"}, {"index-num", "l[0]"}, {"index-bool", "m[true]"}, {"index-null", "m[null]"},
		{"legacy-index", "b.0"}, {"legacy-index-attr", "foo.objs.0.name"}, {"legacy-index-chain", "b.0 .1"},
		{"splat-full", "foo.objs[*].name"}, {"splat-attr", "foo.objs.*.name"}, {"splat-bare", "foo.objs[*]"},
		{"splat-attr-legacy-index", "foo.objs.*.name.0"}, {"splat-full-index", "foo.objs[*].name[0]"}, {"number-dot-signed-exp", "1 .e-5"},
		{"paren-source", "(foo).bar"}, {"call-source-attr", "f(foo).0.bar"}, {"call-source-index", "f(l)[0]"},
		{"index-computed", "l[a - 4]"}, {"index-var", "foo[c]"}, {"index-template", "foo[\"${c}\"]"},
		{"index-mixed", "foo[\"objs\"][0].name"},
		// templates
		{"template", "\"x${c}y\""}, {"template-if", "\"%{if t}x%{endif}\""}, {"template-strip", "\"${~ c ~}\""},
		// for, conditional
		{"for-tuple", "[for x in l : x]"}, {"for-object", "{ for k, v in m : k => v }"},
		{"cond", "t ? 1 : 2"}, {"cond-minus", "t ? -1 : -2"},
		// unary chains, binary
		{"neg", "-a"}, {"not", "!t"}, {"sub-neg", "a - -1"}, {"neg-paren-neg", "-(-1)"}, {"not-neg", "!-a"},
		{"neg-attr", "-foo.bar"}, {"add", "a + 1"}, {"mul-paren", "a * (1 + 2)"},
		// calls
		{"call-expand", "f(a, l...)"}, {"call-ns", "ns::f(a)"},
	}
}

// Position is one expression position of part (b); the placeholder @E@ is
// replaced by the (possibly comment-decorated) expression and @L@ by the line
// comment of the "line" decoration (or nothing).
type Position struct{ Name, Tmpl string }

func Positions() []Position {
	return []Position{
		{"attr", "x = @E@@L@\n"},
		{"tuple-elem", "x = [@E@, 1]@L@\n"},
		{"tuple-last", "x = [1, @E@]@L@\n"},
		{"object-value", "x = { k = @E@ }@L@\n"},
		{"object-key", "x = { (@E@) = 1 }@L@\n"},
		{"call-arg", "x = f(@E@, 1)@L@\n"},
		{"index-key", "x = l[@E@]@L@\n"},
		{"cond-true", "x = t ? @E@ : 0@L@\n"},
		{"cond-false", "x = t ? 0 : @E@@L@\n"},
		{"interp", "x = \"a${@E@}b\"@L@\n"},
		{"minus-rhs", "x = 1 - @E@@L@\n"},
		{"paren", "x = (@E@)@L@\n"},
		{"for-value", "x = [for i in l : @E@]@L@\n"},
		{"tuple-multiline", "x = [\n  @E@,@L@\n]\n"},
		{"heredoc-interp", "x = <<EOT\n${@E@}\nEOT\ny = 1@L@\n"},
		{"nested-block", "b \"l\" {\n  c {\n    x = @E@@L@\n  }\n}\n"},
		{"one-line-block", "b { x = @E@ }@L@\n"},
	}
}

// comment decorations of part (b)
var decorations = []struct{ name string }{{"plain"}, {"lead"}, {"line"}, {"inline"}}

// ExprBases is part (b): shape x position x comment decoration. Combinations
// the parser rejects are dropped by the enumerator (they are outside the
// domain), not listed here.
func ExprBases() []Base {
	var out []Base
	for _, sh := range Shapes() {
		for _, pos := range Positions() {
			for _, dec := range decorations {
				e := sh.Src
				src := pos.Tmpl
				switch dec.name {
				case "inline":
					e = "/* c */ " + e + " /* d */"
				}
				src = strings.Replace(src, "@E@", e, 1)
				lc := ""
				switch dec.name {
				case "lead":
					src = "# lead\n" + src
				case "line":
					lc = " # line"
				}
				src = strings.Replace(src, "@L@", lc, 1)
				out = append(out, Base{Part: "b", Name: sh.Name + "@" + pos.Name + "+" + dec.name, Src: src})
			}
		}
	}
	return out
}
