package cfgcorpus

import (
	"bytes"
	"fmt"
	"hash/fnv"
	"runtime"
	"strings"
	"sync/atomic"

	"github.com/hashicorp/hcl/v2"
	"github.com/hashicorp/hcl/v2/hclsyntax"
)

// Tok is one (type, bytes) pair: positions are deliberately not part of it.
type Tok struct {
	Type  hclsyntax.TokenType
	Bytes string
}

// Lex returns the token sequence of src (including the final EOF token), the
// byte ranges of the tokens, and whether the scanner reported errors.
func Lex(src []byte) (toks []Tok, ranges [][2]int, ok bool) {
	nt, diags := hclsyntax.LexConfig(src, "cfg.hcl", hcl.InitialPos)
	toks = make([]Tok, len(nt))
	ranges = make([][2]int, len(nt))
	for i, t := range nt {
		toks[i] = Tok{t.Type, string(t.Bytes)}
		ranges[i] = [2]int{t.Range.Start.Byte, t.Range.End.Byte}
	}
	return toks, ranges, !diags.HasErrors()
}

// SameToks reports whether two token sequences are equal in types and bytes.
func SameToks(a, b []Tok) bool {
	if len(a) != len(b) {
		return false
	}
	for i := range a {
		if a[i] != b[i] {
			return false
		}
	}
	return true
}

// Valid reports whether src is in the domain of C09/C10: it scans and parses
// with no error diagnostics.
func Valid(src []byte) bool {
	_, diags := hclsyntax.ParseConfig(src, "cfg.hcl", hcl.InitialPos)
	return !diags.HasErrors()
}

// GapAlphabet is the set of texts tried in every gap between adjacent tokens.
// The first five are pure spacing; the rest insert a comment token (comments
// "in every slot").
var GapAlphabet = []struct{ Code, Text string }{
	{"0", ""},
	{"s", " "},
	{"ss", "  "},
	{"t", "\t"},
	{"n", "\n"},
	{"ic", "/*c*/"},
	{"hc", "#c\n"},
	{"sc", " //c\n"},
	{"sic", " /*c*/ "}, // inline comment with spaces around it (also legal directly after "/" and "*")
}

// gapToks[i] is the token sequence that GapAlphabet[i].Text contributes when it
// stands between two tokens in normal (non-template) mode.
var gapToks = func() [][]Tok {
	out := make([][]Tok, len(GapAlphabet))
	for i, g := range GapAlphabet {
		t, _, _ := Lex([]byte(g.Text))
		out[i] = t[:len(t)-1] // drop EOF
	}
	return out
}()

// Entry is one element of the enumerated space.
type Entry struct {
	ID   string // stable identifier: part/base[/crlf]/edits
	Base string // name of the base configuration
	Src  string
	// Edits is the number of gap deviations applied to the base (or to its
	// CRLF / BOM twin): 0 for the base text itself, 1 for a single-gap
	// deviation, 2 for a pair deviation.
	Edits int
}

type edit struct{ gap, alt int }

// layout describes the tokenisation of one base.
type layout struct {
	src    []byte
	toks   []Tok
	ranges [][2]int
	// bom is the length of a leading byte order mark (0 or 3). The scanner
	// skips it without producing a token; it is not part of the gap before
	// the first token, so gap deviations keep it.
	bom int
}

func newLayout(src string) (*layout, bool) {
	b := []byte(src)
	t, r, ok := Lex(b)
	if !ok {
		return nil, false
	}
	l := &layout{src: b, toks: t, ranges: r}
	if strings.HasPrefix(src, BOM) {
		l.bom = len(BOM)
	}
	return l, true
}

func (l *layout) gapCount() int { return len(l.toks) }

// gapText returns the current text of gap g (the bytes before token g).
func (l *layout) gapText(g int) string {
	start := l.bom
	if g > 0 {
		start = l.ranges[g-1][1]
	}
	return string(l.src[start:l.ranges[g][0]])
}

// apply builds the variant with the given edits (sorted by gap, distinct gaps)
// and the token sequence it is expected to have.
func (l *layout) apply(edits []edit) ([]byte, []Tok) {
	var buf bytes.Buffer
	want := make([]Tok, 0, len(l.toks)+2*len(edits))
	ei := 0
	prevEnd := l.bom
	buf.Write(l.src[:l.bom])
	for g := range l.toks {
		if ei < len(edits) && edits[ei].gap == g {
			buf.WriteString(GapAlphabet[edits[ei].alt].Text)
			want = append(want, gapToks[edits[ei].alt]...)
			ei++
		} else {
			buf.Write(l.src[prevEnd:l.ranges[g][0]])
		}
		buf.Write(l.src[l.ranges[g][0]:l.ranges[g][1]])
		want = append(want, l.toks[g])
		prevEnd = l.ranges[g][1]
	}
	buf.Write(l.src[prevEnd:])
	return buf.Bytes(), want
}

// admissible: the variant is an error-free configuration whose token sequence
// is the base's plus exactly the newline/comment tokens the edits inserted.
//
// When the edits insert no token at all (pure spacing), the token sequence is
// the base's and the parser, which reads tokens only, accepts it like the
// base; the parse is skipped then. (The checks re-establish the domain on
// every case anyway, so this shortcut cannot let an invalid input be judged.)
func admissible(src []byte, want []Tok, inserted bool) bool {
	got, _, ok := Lex(src)
	if !ok || !SameToks(got, want) {
		return false
	}
	if !inserted {
		return true
	}
	return Valid(src)
}

func editID(es []edit) string {
	parts := make([]string, len(es))
	for i, e := range es {
		parts[i] = fmt.Sprintf("g%d=%s", e.gap, GapAlphabet[e.alt].Code)
	}
	return strings.Join(parts, ",")
}

// Depth says how far the layout of a base is varied.
type Depth int

const (
	BaseOnly     Depth = iota // the base itself
	Single                    // + every single-gap deviation
	AdjacentPair              // + deviations of two adjacent gaps (the (before, subject, after) context)
	AllPairs                  // + deviations of every pair of gaps
)

// Plan is the finite product a tier enumerates.
type Plan struct {
	A, ACRLF, B, BCRLF Depth
	// C, CTwin: depth of part (c) (file shapes: degenerate files, file
	// endings) and of its CRLF / BOM / BOM+CRLF twins.
	C, CTwin Depth
	// BReduced: part (b) uses only the gap texts {none, space, newline,
	// /*c*/, #c<nl>} (two spaces, tab and the // comment are explored on part
	// (a) only).
	BReduced bool
}

// reducedAlphabet lists the GapAlphabet indices used when Plan.BReduced is set.
var reducedAlphabet = []int{0, 1, 4, 5, 6, 8}

var fullAlphabet = func() []int {
	out := make([]int, len(GapAlphabet))
	for i := range out {
		out[i] = i
	}
	return out
}()

func PlanFor(tier string) Plan {
	if tier == "thorough" {
		return Plan{A: AllPairs, ACRLF: AllPairs, B: AdjacentPair, BCRLF: AdjacentPair, C: AllPairs, CTwin: AdjacentPair}
	}
	return Plan{A: AdjacentPair, ACRLF: Single, B: Single, BCRLF: BaseOnly, BReduced: true, C: Single, CTwin: BaseOnly}
}

func (p Plan) String() string {
	n := []string{"base only", "all single-gap deviations", "all single-gap and adjacent-gap-pair deviations", "all single-gap and all gap-pair deviations"}
	alpha := ""
	if p.BReduced {
		alpha = " over the gap texts {none, space, newline, /*c*/, #c<nl>} only"
	}
	return fmt.Sprintf("part (a): %s (CRLF twin: %s); part (b): %s%s (CRLF twin: %s); part (c): %s%s (CRLF, BOM and BOM+CRLF twins: %s)", n[p.A], n[p.ACRLF], n[p.B], alpha, n[p.BCRLF], n[p.C], alpha, n[p.CTwin])
}

// Stats counts what Enumerate produced (for the evidence file).
type Stats struct {
	Bases, BasesRejected, Candidates, Emitted, Duplicates int64
}

// Validate returns the names of part (a) bases that are not valid
// configurations (must be empty).
func Validate() []string {
	var bad []string
	for _, b := range PairBases() {
		if !Valid([]byte(b.Src)) {
			bad = append(bad, b.Name)
		}
	}
	return bad
}

// Enumerate emits the whole space of the tier, deterministically and simplest
// first: part (a) bases in list order, then part (b) in shape-major order,
// then part (c) (file shapes) in product order;
// for each base the base itself, then single-gap deviations in gap order, then
// pair deviations by increasing distance of the two gaps; the CRLF twin of a
// base follows the base. Duplicates (same bytes) within one base are emitted
// once.
//
// The admissibility filter (lex + parse of every candidate) dominates the
// cost, so bases are processed by a pool of goroutines; their results are
// consumed strictly in job order, which keeps the emitted sequence independent
// of scheduling.
func Enumerate(tier string, emit func(Entry) bool) Stats {
	plan := PlanFor(tier)
	type job struct {
		idPrefix, baseName, src string
		d                       Depth
		twin                    bool
		alpha                   []int
	}
	var jobs []job
	add := func(b Base, d, dcrlf Depth, alpha []int) {
		jobs = append(jobs, job{b.Part + "/" + b.Name, b.Name, b.Src, d, false, alpha})
		if strings.Contains(b.Src, "\n") {
			jobs = append(jobs, job{b.Part + "/" + b.Name + "/crlf", b.Name, strings.ReplaceAll(b.Src, "\n", "\r\n"), dcrlf, true, alpha})
		}
	}
	balpha := fullAlphabet
	if plan.BReduced {
		balpha = reducedAlphabet
	}
	for _, b := range PairBases() {
		add(b, plan.A, plan.ACRLF, fullAlphabet)
	}
	for _, b := range ExprBases() {
		add(b, plan.B, plan.BCRLF, balpha)
	}
	// part (c): file shapes, each followed by its CRLF / BOM / BOM+CRLF twins
	for _, b := range FileShapeBases() {
		jobs = append(jobs, job{b.Part + "/" + b.Name, b.Name, b.Src, plan.C, false, balpha})
		for _, tw := range fileShapeTwins(b) {
			jobs = append(jobs, job{b.Part + "/" + b.Name + tw.suffix, b.Name, tw.src, plan.CTwin, true, balpha})
		}
	}

	type result struct {
		chunks chan []Entry
		st     Stats // valid once chunks is closed
	}
	results := make([]*result, len(jobs))
	for i := range results {
		results[i] = &result{chunks: make(chan []Entry, 128)}
	}
	var stop atomic.Bool
	next := make(chan int)
	go func() {
		for i := range jobs {
			next <- i
		}
		close(next)
	}()
	nw := runtime.NumCPU()
	for w := 0; w < nw; w++ {
		go func() {
			for i := range next {
				r := results[i]
				if !stop.Load() {
					j := jobs[i]
					if !Valid([]byte(j.src)) {
						if !j.twin {
							r.st.BasesRejected++
						}
					} else {
						if !j.twin {
							r.st.Bases++
						}
						var cur []Entry
						enumBase(j.idPrefix, j.baseName, j.src, j.d, j.alpha, &r.st, func(e Entry) bool {
							cur = append(cur, e)
							if len(cur) == 512 {
								r.chunks <- cur
								cur = nil
							}
							return !stop.Load()
						})
						if len(cur) > 0 {
							r.chunks <- cur
						}
					}
				}
				close(r.chunks)
			}
		}()
	}
	var st Stats
	for _, r := range results {
		for chunk := range r.chunks {
			for _, e := range chunk {
				if !stop.Load() && !emit(e) {
					stop.Store(true)
				}
			}
		}
		st.Bases += r.st.Bases
		st.BasesRejected += r.st.BasesRejected
		st.Candidates += r.st.Candidates
		st.Emitted += r.st.Emitted
		st.Duplicates += r.st.Duplicates
	}
	return st
}

type cand struct {
	id   string
	src  []byte
	want []Tok
}

func enumBase(idPrefix, baseName, src string, d Depth, alpha []int, st *Stats, emit func(Entry) bool) bool {
	seen := map[uint64]struct{}{}
	out := func(id string, s []byte, edits int) bool {
		h := fnv.New64a()
		h.Write(s)
		k := h.Sum64()
		if _, dup := seen[k]; dup {
			st.Duplicates++
			return true
		}
		seen[k] = struct{}{}
		st.Emitted++
		return emit(Entry{ID: id, Base: baseName, Src: string(s), Edits: edits})
	}
	if !out(idPrefix, []byte(src), 0) {
		return false
	}
	if d == BaseOnly {
		return true
	}
	l, ok := newLayout(src)
	if !ok {
		return true
	}
	n := l.gapCount()
	try := func(es []edit) bool {
		s, want := l.apply(es)
		st.Candidates++
		if !admissible(s, want, len(want) != len(l.toks)) {
			return true
		}
		return out(idPrefix+"/"+editID(es), s, len(es))
	}
	// single-gap deviations
	for g := 0; g < n; g++ {
		cur := l.gapText(g)
		for _, a := range alpha {
			if GapAlphabet[a].Text == cur {
				continue
			}
			if !try([]edit{{g, a}}) {
				return false
			}
		}
	}
	if d == Single {
		return true
	}
	// pair deviations, by increasing distance between the two gaps
	maxDist := 1
	if d == AllPairs {
		maxDist = n
	}
	for dist := 1; dist <= maxDist && dist < n; dist++ {
		for g := 0; g+dist < n; g++ {
			h := g + dist
			cg, ch := l.gapText(g), l.gapText(h)
			for _, a := range alpha {
				if GapAlphabet[a].Text == cg {
					continue
				}
				for _, b := range alpha {
					if GapAlphabet[b].Text == ch {
						continue
					}
					if !try([]edit{{g, a}, {h, b}}) {
						return false
					}
				}
			}
		}
	}
	return true
}

// AdjacencyCoverage reports how many distinct token types, ordered pairs and
// ordered (before, subject, after) triples of adjacent token types occur in
// the base configurations (comments and newlines count as tokens).
func AdjacencyCoverage() (types, pairs, triples int) {
	ty := map[hclsyntax.TokenType]struct{}{}
	pr := map[[2]hclsyntax.TokenType]struct{}{}
	tr := map[[3]hclsyntax.TokenType]struct{}{}
	for _, set := range [][]Base{PairBases(), ExprBases()} {
		for _, b := range set {
			toks, _, ok := Lex([]byte(b.Src))
			if !ok {
				continue
			}
			for i, t := range toks {
				ty[t.Type] = struct{}{}
				if i+1 < len(toks) {
					pr[[2]hclsyntax.TokenType{t.Type, toks[i+1].Type}] = struct{}{}
				}
				if i+2 < len(toks) {
					tr[[3]hclsyntax.TokenType{t.Type, toks[i+1].Type, toks[i+2].Type}] = struct{}{}
				}
			}
		}
	}
	return len(ty), len(pr), len(tr)
}
