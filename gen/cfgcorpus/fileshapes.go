package cfgcorpus

import "strings"

// Part (c): file-level shapes. Parts (a) and (b) vary the layout *between*
// the tokens of complete, newline-terminated configurations. What they do not
// contain are the shapes of the file as a whole:
//
//   - degenerate files: nothing at all, only blanks / tabs, only newline(s),
//     only a comment;
//   - file endings: what follows the last item of the file (nothing, blanks, a
//     tab, CR, CRLF, blanks then newline, newline then blanks, blank lines),
//     for every kind of last token (attribute value, closing brace / bracket /
//     parenthesis, heredoc end marker, inline comment, "#" and "//" line
//     comments, the latter also with blanks *inside* the comment token, which
//     is where a line comment's bytes end when no newline follows);
//   - a leading UTF-8 byte order mark, which the scanner skips without
//     producing a token (a twin of every base of this part, like the CRLF twin).
//
// The family is a plain product (stated below), so a base of this part is a
// raw text, not a gap deviation: the trailing blanks of "# c  " are bytes of
// the comment token and "\r" after a comment is too, neither is a "gap".
// Texts the scanner / parser reject (a lone CR outside a comment, say) are
// outside the domain and are dropped by the enumerator like everywhere else.

// BOM is the UTF-8 encoding of the byte order mark.
const BOM = "\xef\xbb\xbf"

// FileEndings is what may follow the last item of a file.
var FileEndings = []struct{ Code, Text string }{
	{"none", ""},
	{"s", " "},
	{"ss", "  "},
	{"t", "\t"},
	{"cr", "\r"},
	{"n", "\n"},
	{"crlf", "\r\n"},
	{"s-n", " \n"},
	{"ss-n", "  \n"},
	{"t-n", "\t\n"},
	{"s-crlf", " \r\n"},
	{"n-s", "\n "},
	{"n-ss", "\n  "},
	{"n-t", "\n\t"},
	{"n-n", "\n\n"},
	{"n-s-n", "\n \n"},
}

// fileLeads is what may precede the content of a degenerate file.
var fileLeads = []struct{ code, text string }{
	{"", ""}, {"s", " "}, {"ss", "  "}, {"t", "\t"}, {"n", "\n"},
}

// degenerateContents is the whole "content" of a degenerate file: nothing, or
// one comment of each style, the line comments also with blanks inside.
var degenerateContents = []struct{ code, text string }{
	{"nothing", ""},
	{"hash", "# c"},
	{"slash", "// c"},
	{"inline", "/* c */"},
	{"hash-blanks", "# c  "},
	{"slash-blanks", "// c  "},
	{"hash-tab", "# c\t"},
	{"hash-bare", "#"},
}

// lastItems are configurations without anything after their last token; each
// is named after the token (and its surroundings) the file ends in.
var lastItems = []struct{ name, src string }{
	// attribute values
	{"attr-number", "a = 1"},
	{"attr-ident", "a = foo"},
	{"attr-string", "a = \"s\""},
	{"attr-template", "a = \"${c}\""},
	{"attr-second-line", "a = 1\nbb = 2"},
	// closing brackets
	{"attr-tuple", "a = [1]"},
	{"attr-tuple-multi-line", "a = [\n  1,\n]"},
	{"attr-object-multi-line", "a = {\n  x = 1\n}"},
	{"attr-paren-multi-line", "a = (\n  1\n)"},
	{"attr-call", "a = f(1)"},
	// closing brace of a block
	{"block-close", "b {\n  a = 1\n}"},
	{"block-close-nested", "b {\n  c {\n    a = 1\n  }\n}"},
	{"block-empty", "b {}"},
	{"block-one-line", "b { a = 1 }"},
	// heredoc end markers
	{"heredoc", "a = <<EOT\nx\nEOT"},
	{"heredoc-indent", "a = <<-EOT\n    x\n  EOT"},
	{"heredoc-in-block", "b {\n  a = <<EOT\nx\nEOT\n}"},
	// comments: inline, line comment on the item's line, on a line of its own
	{"attr-inline-comment", "a = 1 /* c */"},
	{"attr-hash-comment", "a = 1 # c"},
	{"attr-slash-comment", "a = 1 // c"},
	{"attr-hash-comment-blanks", "a = 1 # c  "},
	{"attr-slash-comment-blanks", "a = 1 // c  "},
	{"attr-hash-comment-tab", "a = 1 # c\t"},
	{"attr-then-hash-comment", "a = 1\n# c"},
	{"attr-then-hash-comment-blanks", "a = 1\n# c  "},
	{"attr-then-slash-comment-blanks", "a = 1\n// c  "},
	{"attr-then-inline-comment", "a = 1\n/* c */"},
	{"aligned-comments-last-blanks", "a = 1 # c\nbbb = 2 # d  "},
	{"block-close-hash-comment-blanks", "b {\n  a = 1\n} # c  "},
	{"block-then-slash-comment-blanks", "b {\n  a = 1\n}\n// done  "},
	{"block-inner-hash-comment-blanks", "b {\n  a = 1 # c  \n}"},
}

// FileShapeBases is part (c): the products
//
//	lead x degenerate content x ending        (degenerate files)
//	last item x ending                        (file endings)
//
// simplest first, texts that occur twice listed once (under their first name).
// The BOM / CRLF twins are added by the enumerator.
func FileShapeBases() []Base {
	var out []Base
	seen := map[string]struct{}{}
	add := func(name, src string) {
		if _, dup := seen[src]; dup {
			return
		}
		seen[src] = struct{}{}
		out = append(out, Base{Part: "c", Name: name, Src: src})
	}
	for _, c := range degenerateContents {
		for _, l := range fileLeads {
			for _, e := range FileEndings {
				name := "degenerate-" + c.code
				if l.code != "" {
					name += "+lead-" + l.code
				}
				add(name+"+end-"+e.Code, l.text+c.text+e.Text)
			}
		}
	}
	for _, it := range lastItems {
		for _, e := range FileEndings {
			add("last-"+it.name+"+end-"+e.Code, it.src+e.Text)
		}
	}
	return out
}

// fileShapeTwins returns the twins of a part (c) base: with CRLF line endings
// (only when the text has no CR of its own), with a leading BOM, and both.
func fileShapeTwins(b Base) []struct{ suffix, src string } {
	var out []struct{ suffix, src string }
	crlf := ""
	if strings.Contains(b.Src, "\n") && !strings.Contains(b.Src, "\r") {
		crlf = strings.ReplaceAll(b.Src, "\n", "\r\n")
		out = append(out, struct{ suffix, src string }{"/crlf", crlf})
	}
	out = append(out, struct{ suffix, src string }{"/bom", BOM + b.Src})
	if crlf != "" {
		out = append(out, struct{ suffix, src string }{"/bom-crlf", BOM + crlf})
	}
	return out
}
