// Package bodytree is the generator side of check C02: abstract body trees
// (attributes and blocks as hclsyntax/spec.md "Structural Elements" defines
// them), a reference unescaper for StringLit labels, and a renderer that
// produces the canonical source text of a tree plus every legal layout
// deviation (indentation with spaces, tabs and mixes, blank lines, trailing
// blanks, comments in every legal slot, spacing of gaps, blanks before and
// after the closing marker of a heredoc and before the body line of a flush
// heredoc, CRLF, missing final newline, BOM).
//
// Nothing in this package calls the code under test.
package bodytree

import (
	"fmt"
	"strconv"
	"strings"
)

// Label is one block label: a bare identifier, or a quoted StringLit whose
// Text is the *source text between the quotes* (escapes not yet processed).
type Label struct {
	Text   string `json:"text"`
	Quoted bool   `json:"quoted"`
}

// Item is an attribute definition or a block.
type Item struct {
	Kind   string  `json:"kind"`             // "attr" | "block"
	Name   string  `json:"name"`             // attribute name or block type
	Val    string  `json:"val,omitempty"`    // attribute value kind (see ValKinds)
	Labels []Label `json:"labels,omitempty"` // block labels
	Form   string  `json:"form,omitempty"`   // block form: ml | eml | eol | ol1
	Body   []Item  `json:"body,omitempty"`   // block body (ml: >= 1 item, ol1: exactly one attribute)
}

// Tree is a configuration file: the top-level body.
type Tree struct {
	Items []Item `json:"items"`
}

// Block forms.
const (
	ML  = "ml"  // multi-line block with a non-empty body
	EML = "eml" // empty multi-line block: b {\n}
	EOL = "eol" // empty one-line block: b {}
	OL1 = "ol1" // single-attribute one-line block: b { a = 1 }
)

// ValKinds are the attribute value kinds, simplest first.
var ValKinds = []string{"num", "str", "esc", "heredoc", "fheredoc", "tuple", "object", "paren"}

// EscSrc is the source text (between the quotes) of the "esc" value kind: it
// uses every escape sequence of hclsyntax/spec.md and both escaped template
// introducers.
const EscSrc = `q\"\\\t\r\n$${a}%%{b}é\u00e9\U0001F600$%`

// OneLineValue reports whether a value kind may be used in a one-line block in
// this generator (heredocs are excluded: the spec's heredoc production ends
// in a Newline of its own, so `b { a = <<EOT ... }` is not clearly admitted).
func OneLineValue(kind string) bool { return kind != "heredoc" && kind != "fheredoc" }

func A(name, val string) Item { return Item{Kind: "attr", Name: name, Val: val} }

func B(typ string, labels []Label, form string, body ...Item) Item {
	return Item{Kind: "block", Name: typ, Labels: labels, Form: form, Body: body}
}

func Bare(s string) Label   { return Label{Text: s} }
func Quoted(s string) Label { return Label{Text: s, Quoted: true} }

// Want is the label text the parser must report: the identifier itself, or
// the StringLit content after escape processing.
func (l Label) Want() string {
	if !l.Quoted {
		return l.Text
	}
	s, ok := Unescape(l.Text)
	if !ok {
		panic("bodytree: label alphabet contains an invalid StringLit: " + l.Text)
	}
	return s
}

// Src is the label as written.
func (l Label) Src() string {
	if l.Quoted {
		return `"` + l.Text + `"`
	}
	return l.Text
}

// Unescape is the reference escape processing of a quoted template literal
// (hclsyntax/spec.md "Template Expressions": backslash escapes \n \r \t \" \\
// \uNNNN \UNNNNNNNN; "Template Literals": $${ -> ${ and %%{ -> %{). It
// reports false for text that is not a StringLit (raw quote or newline, bad
// escape, unescaped template introducer).
func Unescape(src string) (string, bool) {
	var out strings.Builder
	for i := 0; i < len(src); {
		c := src[i]
		switch {
		case c == '\\':
			if i+1 >= len(src) {
				return "", false
			}
			switch src[i+1] {
			case 'n':
				out.WriteByte('\n')
			case 'r':
				out.WriteByte('\r')
			case 't':
				out.WriteByte('\t')
			case '"':
				out.WriteByte('"')
			case '\\':
				out.WriteByte('\\')
			case 'u', 'U':
				n := 4
				if src[i+1] == 'U' {
					n = 8
				}
				if i+2+n > len(src) {
					return "", false
				}
				v, err := strconv.ParseUint(src[i+2:i+2+n], 16, 32)
				if err != nil {
					return "", false
				}
				out.WriteRune(rune(v))
				i += 2 + n
				continue
			default:
				return "", false
			}
			i += 2
		case (c == '$' || c == '%') && i+2 < len(src) && src[i+1] == c && src[i+2] == '{':
			out.WriteByte(c)
			out.WriteByte('{')
			i += 3
		case (c == '$' || c == '%') && i+1 < len(src) && src[i+1] == '{':
			return "", false // template sequence: not a StringLit
		case c == '"' || c == '\n' || c == '\r':
			return "", false
		default:
			out.WriteByte(c)
			i++
		}
	}
	return out.String(), true
}

// Valid reports whether the tree respects the generator's own invariants
// (used to filter shrink candidates).
func (t Tree) Valid() bool { return validBody(t.Items) }

func validBody(items []Item) bool {
	for _, it := range items {
		switch it.Kind {
		case "attr":
			ok := false
			for _, k := range ValKinds {
				if k == it.Val {
					ok = true
				}
			}
			if !ok || it.Name == "" {
				return false
			}
		case "block":
			if it.Name == "" {
				return false
			}
			for _, l := range it.Labels {
				if l.Quoted {
					if _, ok := Unescape(l.Text); !ok {
						return false
					}
				} else if l.Text == "" {
					return false
				}
			}
			switch it.Form {
			case ML:
				if len(it.Body) == 0 || !validBody(it.Body) {
					return false
				}
			case EML, EOL:
				if len(it.Body) != 0 {
					return false
				}
			case OL1:
				if len(it.Body) != 1 || it.Body[0].Kind != "attr" || !OneLineValue(it.Body[0].Val) || !validBody(it.Body) {
					return false
				}
			default:
				return false
			}
		default:
			return false
		}
	}
	return true
}

// DupWhere reports whether some body of the tree defines an attribute name
// twice, and where the first such body is ("top" or "nested").
func (t Tree) DupWhere() (string, bool) {
	if dupIn(t.Items) {
		return "top", true
	}
	if nestedDup(t.Items) {
		return "nested", true
	}
	return "", false
}

func dupIn(items []Item) bool {
	seen := map[string]bool{}
	for _, it := range items {
		if it.Kind == "attr" {
			if seen[it.Name] {
				return true
			}
			seen[it.Name] = true
		}
	}
	return false
}

func nestedDup(items []Item) bool {
	for _, it := range items {
		if it.Kind == "block" && (dupIn(it.Body) || nestedDup(it.Body)) {
			return true
		}
	}
	return false
}

// Dump is a canonical one-line description of the tree (used as the
// observation signature: distinct trees have distinct dumps).
func Dump(t Tree) string {
	var sb strings.Builder
	dumpBody(&sb, t.Items)
	return sb.String()
}

func dumpBody(sb *strings.Builder, items []Item) {
	sb.WriteByte('[')
	for i, it := range items {
		if i > 0 {
			sb.WriteByte(' ')
		}
		if it.Kind == "attr" {
			fmt.Fprintf(sb, "%s=%s", it.Name, it.Val)
			continue
		}
		fmt.Fprintf(sb, "%s", it.Name)
		for _, l := range it.Labels {
			if l.Quoted {
				fmt.Fprintf(sb, " %q", l.Want())
			} else {
				fmt.Fprintf(sb, " %s", l.Text)
			}
			if l.Quoted {
				sb.WriteString("<" + l.Text + ">")
			}
		}
		sb.WriteString(" " + it.Form)
		dumpBody(sb, it.Body)
	}
	sb.WriteByte(']')
}

// Size is the total number of items in the tree.
func Size(items []Item) int {
	n := 0
	for _, it := range items {
		n += 1 + Size(it.Body)
	}
	return n
}

func CloneItems(items []Item) []Item {
	if items == nil {
		return nil
	}
	out := make([]Item, len(items))
	for i, it := range items {
		out[i] = it
		out[i].Labels = append([]Label(nil), it.Labels...)
		out[i].Body = CloneItems(it.Body)
	}
	return out
}
