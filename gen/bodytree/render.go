package bodytree

import (
	"crypto/sha256"
	"sort"
	"strings"
)

// Comment is one comment form of hclsyntax/spec.md "Comments and Whitespace".
type Comment struct {
	Name string
	Text string
	Line bool // line comment (# or //): equivalent to a newline; otherwise inline: equivalent to whitespace
}

// Alphabet selects the variants tried in every slot.
type Alphabet struct {
	Name     string
	Comments []Comment
	Extra    bool // additional spacing variants (two spaces, tight comments everywhere, whitespace-only lines, trailing blanks)
}

// Basic: the three comment forms of the specification plus an inline comment
// that spans two lines (still "equivalent to a whitespace sequence").
var Basic = Alphabet{Name: "basic", Comments: []Comment{
	{"hash", "# c", true},
	{"slashes", "// c", true},
	{"inline", "/* c */", false},
	{"inline-multiline", "/* c\n c */", false},
}}

// Extended adds comment texts that look like other syntax.
var Extended = Alphabet{Name: "extended", Extra: true, Comments: []Comment{
	{"hash", "# c", true},
	{"slashes", "// c", true},
	{"inline", "/* c */", false},
	{"inline-multiline", "/* c\n c */", false},
	{"hash-empty", "#", true},
	{"slashes-empty", "//", true},
	{"hash-nospace", "#c", true},
	{"hash-tricky", "#/* \" { = $${ <<EOT", true},
	{"slashes-tricky", "// */ } \" \\ %{", true},
	{"hash-hash", "## // #", true},
	{"inline-empty", "/**/", false},
	{"inline-stars", "/***/", false},
	{"inline-tricky", "/* # // \" } = ${ */", false},
	{"inline-nested-open", "/* /* c */", false},
}}

func AlphabetByName(n string) *Alphabet {
	if n == Extended.Name {
		return &Extended
	}
	return &Basic
}

// Dev is one deviation from the canonical layout: a variant chosen in one
// slot of the rendering walk, or a global switch (Slot < 0).
type Dev struct {
	Slot int    `json:"slot"`
	Kind string `json:"kind"`
	Var  string `json:"var"`
	Last bool   `json:"last,omitempty"` // sits on the last line of the file
	NL   bool   `json:"nl,omitempty"`   // the variant ends or contains a line (line comment, blank line, multi-line comment)
}

const (
	slotIndent    = -1
	slotCRLF      = -2
	slotNoFinalNL = -3
	slotBOM       = -4
)

// variant: one alternative text of a slot. nl marks a variant that does not
// itself contain a line end but sits directly next to one (trailing blanks,
// blanks around a heredoc closing marker), so that it is also tried in a CRLF
// file.
type variant struct {
	name, text string
	nl         bool
}

func mk(name, text string) variant   { return variant{name: name, text: text} }
func mkNL(name, text string) variant { return variant{name: name, text: text, nl: true} }

type renderer struct {
	sb   strings.Builder
	unit string
	// flushTab: some `<<-` heredoc body line starts with blanks that include a
	// horizontal tab (the flush rule of the specification speaks of spaces)
	flushTab bool
	active   map[int]string
	next     int
	rec      *[]Dev
	al       *Alphabet
}

// slot visits one slot: vars is only called when the variants are needed
// (while recording, or when a deviation is active in this slot).
func (r *renderer) slot(kind, def string, vars func() []variant, last bool) {
	id := r.next
	r.next++
	if r.rec != nil {
		for _, v := range vars() {
			nl := v.nl || strings.Contains(v.text, "\n") || strings.Contains(v.text, "#") || strings.Contains(v.text, "//")
			*r.rec = append(*r.rec, Dev{Slot: id, Kind: kind, Var: v.name, Last: last, NL: nl})
		}
	}
	if name, ok := r.active[id]; ok {
		for _, v := range vars() {
			if v.name == name {
				r.sb.WriteString(v.text)
				return
			}
		}
		panic("bodytree: deviation " + kind + ":" + name + " does not exist in slot")
	}
	r.sb.WriteString(def)
}

// own: a slot at the start of a line, holding whole lines of its own.
func (r *renderer) own(kind, ind string, last bool) {
	r.slot(kind, "", func() []variant {
		// a whitespace-only line: horizontal tabs are whitespace like spaces
		vars := []variant{mk("blank", "\n"), mk("blank-tab", "\t\n")}
		if r.al.Extra {
			vars = append(vars, mk("blank-spaces", "  \n"), mk("blank-space-tab", " \t\n"), mk("blank-two", "\n\n"))
		}
		for _, c := range r.al.Comments {
			vars = append(vars, mk(c.Name, ind+c.Text+"\n"))
		}
		return vars
	}, last)
}

// lead: after the indentation, before the first token of a line.
func (r *renderer) lead(kind string) {
	r.slot(kind, "", func() []variant {
		var vars []variant
		for _, c := range r.al.Comments {
			if c.Line {
				continue
			}
			vars = append(vars, mk(c.Name, c.Text+" "))
			if r.al.Extra {
				vars = append(vars, mk(c.Name+"-tight", c.Text))
			}
		}
		return vars
	}, false)
}

// trail: after the last token of a line, before its newline.
func (r *renderer) trail(kind string, last bool) {
	r.slot(kind, "", func() []variant {
		var vars []variant
		for _, c := range r.al.Comments {
			vars = append(vars, mk(c.Name, " "+c.Text))
			if r.al.Extra {
				vars = append(vars, mk(c.Name+"-tight", c.Text))
			}
		}
		// trailing blanks directly before the line end
		vars = append(vars, mkNL("space", " "), mkNL("tab", "\t"))
		if r.al.Extra {
			vars = append(vars, mkNL("space-tab", " \t"), mkNL("tab-space", "\t "))
		}
		return vars
	}, last)
}

// gap: between two tokens on one line. def is the canonical text (" " or "").
// tightOK: the two neighbours cannot lex as one token when nothing separates
// them.
func (r *renderer) gap(kind, def string, tightOK bool) {
	r.slot(kind, def, func() []variant {
		var vars []variant
		if def != "" && tightOK {
			vars = append(vars, mk("none", ""))
		}
		if def == "" {
			vars = append(vars, mk("space", " "))
		}
		vars = append(vars, mk("tab", "\t"))
		if r.al.Extra {
			vars = append(vars, mk("two", "  "))
		}
		first := true
		for _, c := range r.al.Comments {
			if c.Line {
				continue
			}
			vars = append(vars, mk(c.Name, " "+c.Text+" "))
			if first || r.al.Extra {
				vars = append(vars, mk(c.Name+"-tight", c.Text))
			}
			first = false
		}
		return vars
	}, false)
}

func (r *renderer) ind(level int) string { return strings.Repeat(r.unit, level) }

// value writes an attribute value; multi-line values carry comment slots of
// their own (inside brackets newlines and line comments are plain whitespace).
func (r *renderer) value(kind string, level int) {
	in0, in1 := r.ind(level), r.ind(level+1)
	vtrail := func() {
		r.slot("val-trail."+kind, "", func() []variant {
			var vars []variant
			for _, c := range r.al.Comments {
				vars = append(vars, mk(c.Name, " "+c.Text))
			}
			vars = append(vars, mkNL("tab", "\t"))
			if r.al.Extra {
				vars = append(vars, mkNL("space", " "), mkNL("space-tab", " \t"))
			}
			return vars
		}, false)
	}
	vown := func() {
		r.slot("val-own."+kind, "", func() []variant {
			vars := []variant{mk("blank", "\n")}
			for _, c := range r.al.Comments {
				vars = append(vars, mk(c.Name, in1+c.Text+"\n"))
			}
			return vars
		}, false)
	}
	w := r.sb.WriteString
	switch kind {
	case "num":
		w("1")
	case "str":
		w(`"s"`)
	case "esc":
		w(`"` + EscSrc + `"`)
	case "heredoc":
		// `<<EOT`: the body line is content (kept at column 0, the value is
		// "x\n"); the closing marker "appears again on a line of its own",
		// with any whitespace (spaces, horizontal tabs) around it.
		w("<<EOT\nx\n")
		r.hdBlank("hd-close-lead."+kind, "", level, true)
		w("EOT")
		r.hdBlank("hd-close-trail."+kind, "", level, false)
	case "fheredoc":
		// `<<-EOT`: body line and closing marker are indented two units below
		// the attribute (so they follow the indentation style of the file);
		// each of the two leads varies on its own.
		def := r.ind(level + 2)
		w("<<-EOT\n")
		r.hdBodyLead("hd-body-lead."+kind, def, level)
		w("x\n")
		r.hdBlank("hd-close-lead."+kind, def, level, true)
		w("EOT")
		r.hdBlank("hd-close-trail."+kind, "", level, false)
	case "tuple":
		w("[")
		vtrail()
		w("\n" + in1 + "1,")
		vtrail()
		w("\n" + in1 + "2,\n")
		vown()
		w(in0 + "]")
	case "object":
		w("{")
		vtrail()
		w("\n" + in1 + "k = 1")
		vtrail()
		w("\n")
		vown()
		w(in0 + "}")
	case "paren":
		w("(")
		vtrail()
		w("\n" + in1 + "1 +")
		vtrail()
		w("\n" + in1 + "2\n")
		vown()
		w(in0 + ")")
	default:
		panic("bodytree: unknown value kind " + kind)
	}
}

// blanks: whitespace sequences tried around heredoc lines. All of them are
// also tried in a CRLF file and in a tab-indented file (see ForEach).
func (r *renderer) blanks(level int, lead bool) []variant {
	cands := []variant{mkNL("none", ""), mkNL("space", " "), mkNL("tab", "\t"), mkNL("space-tab", " \t"), mkNL("tab-space", "\t ")}
	if lead {
		// at the indentation of the attribute itself / of a nested item
		cands = append(cands, mkNL("level", r.ind(level)), mkNL("level1", r.ind(level+1)))
	}
	if r.al.Extra {
		cands = append(cands, mkNL("two", "  "), mkNL("tab-tab", "\t\t"), mkNL("space-tab-space", " \t "))
	}
	// No filtering against def or among the candidates: which texts coincide
	// depends on the indentation unit, and a deviation must exist under every
	// unit. ForEach skips renderings whose source text was already seen.
	return cands
}

// hdBlank: the whitespace before (lead) or after the closing marker of a
// heredoc on its line. Nothing else may stand on that line.
func (r *renderer) hdBlank(kind, def string, level int, lead bool) {
	r.slot(kind, def, func() []variant { return r.blanks(level, lead) }, false)
}

// hdBodyLead: the indentation of the body line of a `<<-` heredoc.
func (r *renderer) hdBodyLead(kind, def string, level int) {
	at := r.sb.Len()
	r.slot(kind, def, func() []variant { return r.blanks(level, true) }, false)
	if strings.Contains(r.sb.String()[at:], "\t") {
		r.flushTab = true
	}
}

func (r *renderer) attrCore(it Item, level int) {
	r.sb.WriteString(it.Name)
	r.gap("gap.eq-left", " ", true)
	r.sb.WriteString("=")
	r.gap("gap.eq-right."+it.Val, " ", true)
	r.value(it.Val, level)
}

// item writes one body item including its terminating newline and returns a
// short name of what it was (context for the following own-line slot).
func (r *renderer) item(it Item, level int, lastTop bool) string {
	w := r.sb.WriteString
	if it.Kind == "attr" {
		r.attrCore(it, level)
		if it.Val != "heredoc" && it.Val != "fheredoc" {
			// nothing may follow a heredoc terminator on its line
			r.trail("trail.attr-"+it.Val, lastTop)
		}
		w("\n")
		return "attr-" + it.Val
	}
	w(it.Name)
	left := "type"
	for _, l := range it.Labels {
		right := "bare"
		if l.Quoted {
			right = "quoted"
		}
		r.gap("gap.hdr."+left+"-"+right, " ", l.Quoted) // identifier then identifier needs a separator
		w(l.Src())
		left = right
	}
	r.gap("gap.hdr."+left+"-brace", " ", true)
	w("{")
	switch it.Form {
	case ML:
		r.trail("trail.open-brace", false)
		w("\n")
		r.body(it.Body, level+1, false)
		w(r.ind(level))
		r.lead("lead.close")
		w("}")
	case EML:
		r.trail("trail.open-brace", false)
		w("\n")
		r.own("own.before-close.after-open-brace", r.ind(level+1), false)
		w(r.ind(level))
		r.lead("lead.close")
		w("}")
	case EOL:
		r.gap("gap.empty-ol", "", true)
		w("}")
	case OL1:
		r.gap("gap.ol-open", " ", true)
		r.attrCore(it.Body[0], level)
		r.gap("gap.ol-close."+it.Body[0].Val, " ", true)
		w("}")
	default:
		panic("bodytree: unknown block form " + it.Form)
	}
	r.trail("trail.block-"+it.Form, lastTop)
	w("\n")
	return "block-" + it.Form
}

func (r *renderer) body(items []Item, level int, top bool) {
	ind := r.ind(level)
	prev := "open-brace"
	if top {
		prev = "start"
	}
	for i, it := range items {
		r.own("own.before-item.after-"+prev, ind, false)
		r.sb.WriteString(ind)
		r.lead("lead.item")
		prev = r.item(it, level, top && i == len(items)-1)
	}
	if top {
		r.own("own.eof.after-"+prev, ind, true)
	} else {
		r.own("own.before-close.after-"+prev, ind, false)
	}
}

// Deviations lists every single deviation available for the tree, in walk
// order, followed by the global ones.
func Deviations(t Tree, al *Alphabet) []Dev {
	var devs []Dev
	r := &renderer{unit: "  ", rec: &devs, al: al}
	r.body(t.Items, 0, true)
	devs = append(devs,
		Dev{Slot: slotIndent, Kind: "global.indent", Var: "none"},
		Dev{Slot: slotIndent, Kind: "global.indent", Var: "tab"},
		Dev{Slot: slotIndent, Kind: "global.indent", Var: "space-tab"},
		Dev{Slot: slotIndent, Kind: "global.indent", Var: "tab-space"},
		Dev{Slot: slotCRLF, Kind: "global.newline", Var: "crlf"},
		Dev{Slot: slotNoFinalNL, Kind: "global.final-newline", Var: "missing"},
		Dev{Slot: slotBOM, Kind: "global.bom", Var: "utf8"},
	)
	return devs
}

// Render produces the source text of the tree under the given deviations. It
// reports false when the combination is not a legal layout (the only such
// case: dropping the final newline directly after a heredoc terminator, or
// of an empty file).
func Render(t Tree, devs []Dev, al *Alphabet) (string, bool) {
	src, _, ok := render(t, devs, al)
	return src, ok
}

// indentUnits: the indentation unit of each global.indent variant (the
// canonical unit is two spaces).
var indentUnits = map[string]string{"none": "", "tab": "\t", "space-tab": " \t", "tab-space": "\t "}

func render(t Tree, devs []Dev, al *Alphabet) (src string, flushTab bool, ok bool) {
	r := &renderer{unit: "  ", al: al, active: map[int]string{}}
	crlf, nofinal, bom := false, false, false
	for _, d := range devs {
		switch d.Slot {
		case slotIndent:
			u, known := indentUnits[d.Var]
			if !known {
				panic("bodytree: unknown indentation " + d.Var)
			}
			r.unit = u
		case slotCRLF:
			crlf = true
		case slotNoFinalNL:
			nofinal = true
		case slotBOM:
			bom = true
		default:
			r.active[d.Slot] = d.Var
		}
	}
	r.body(t.Items, 0, true)
	out := r.sb.String()
	if nofinal {
		if !strings.HasSuffix(out, "\n") {
			return "", false, false
		}
		out = out[:len(out)-1]
		lastLine := out[strings.LastIndexByte(out, '\n')+1:]
		if strings.TrimSpace(lastLine) == "EOT" {
			return "", false, false // heredocTemplate = ... Identifier Newline
		}
	}
	if crlf {
		out = strings.ReplaceAll(out, "\n", "\r\n")
	}
	if bom {
		out = "\xef\xbb\xbf" + out
	}
	return out, r.flushTab, true
}

// Rendering is one concrete source text of a tree.
type Rendering struct {
	Src  string
	Devs []Dev
	// FlushTab: the body line of some `<<-` heredoc is indented with blanks
	// that include a horizontal tab. The flush rule of hclsyntax/spec.md counts
	// "leading spaces", so how much of such an indentation is removed from the
	// value is not specified.
	FlushTab bool
}

func (r Rendering) Has(slot int) bool {
	for _, d := range r.Devs {
		if d.Slot == slot {
			return true
		}
	}
	return false
}
func (r Rendering) CRLF() bool { return r.Has(slotCRLF) }
func (r Rendering) BOM() bool  { return r.Has(slotBOM) }

// Class names the deviations of a rendering ("canonical" if none).
func (r Rendering) Class() string {
	if len(r.Devs) == 0 {
		return "canonical"
	}
	var parts []string
	for _, d := range r.Devs {
		parts = append(parts, d.Kind+":"+d.Var)
	}
	sort.Strings(parts)
	return strings.Join(parts, "+")
}

// Kinds returns the slot kinds of the deviations (for coverage counters).
func (r Rendering) Kinds() []string {
	if len(r.Devs) == 0 {
		return []string{"canonical"}
	}
	var out []string
	for _, d := range r.Devs {
		k := d.Kind
		if i := strings.IndexByte(k, '.'); i >= 0 && !strings.HasPrefix(k, "global.") {
			k = k[:i]
		}
		out = append(out, k)
	}
	return out
}

// ForEach calls f with the canonical rendering and then with every rendering
// that has at most k deviations (distinct source texts only). With k == 1 a
// deviation on the last line of the file is additionally combined with the
// missing final newline ("comment at end of file without newline"); a
// deviation that involves a line end (line comment, blank line, multi-line
// inline comment, trailing blanks, blanks around a heredoc closing marker) is
// additionally combined with CRLF; every indentation style is combined with
// CRLF; and every deviation on the lines of a heredoc is combined with tab
// indentation (LF and CRLF). It stops when f returns false.
func ForEach(t Tree, k int, al *Alphabet, f func(Rendering) bool) {
	seen := map[string]struct{}{}
	try := func(devs ...Dev) bool {
		src, flushTab, ok := render(t, devs, al)
		if !ok {
			return true
		}
		if _, dup := seen[src]; dup {
			return true
		}
		seen[src] = struct{}{}
		return f(Rendering{Src: src, Devs: append([]Dev(nil), devs...), FlushTab: flushTab})
	}
	if !try() {
		return
	}
	devs := Deviations(t, al)
	for _, d := range devs {
		if !try(d) {
			return
		}
	}
	nofinal := Dev{Slot: slotNoFinalNL, Kind: "global.final-newline", Var: "missing"}
	crlf := Dev{Slot: slotCRLF, Kind: "global.newline", Var: "crlf"}
	if k == 1 {
		for _, d := range devs {
			if d.Last {
				if !try(d, nofinal) {
					return
				}
			}
		}
		// a deviation that itself ends or contains a line is also tried in a
		// CRLF file (comment + CRLF is the everyday Windows layout, not a corner)
		for _, d := range devs {
			if d.NL {
				if !try(d, crlf) {
					return
				}
			}
		}
		for _, d := range devs {
			if d.Last && d.NL {
				if !try(d, nofinal, crlf) {
					return
				}
			}
		}
		// every indentation style also in a CRLF file; every layout of the
		// lines of a heredoc also in a tab-indented file (LF and CRLF)
		tab := Dev{Slot: slotIndent, Kind: "global.indent", Var: "tab"}
		for _, d := range devs {
			if d.Slot == slotIndent {
				if !try(d, crlf) {
					return
				}
			}
		}
		for _, d := range devs {
			if strings.HasPrefix(d.Kind, "hd-") {
				if !try(d, tab) || !try(d, tab, crlf) {
					return
				}
			}
		}
		return
	}
	if k >= 2 {
		for i, d1 := range devs {
			for _, d2 := range devs[i+1:] {
				if d1.Slot == d2.Slot {
					continue
				}
				if !try(d1, d2) {
					return
				}
			}
		}
	}
}

// ForEachGlobal calls f with the canonical rendering and with the file-wide
// layout variants only (no per-slot deviations): CRLF, missing final newline,
// tab indentation with CRLF; with full also CRLF without final newline, no
// indentation, tab indentation. The number
// of renderings does not depend on the size of the tree, so it is the layout
// set used for large trees (size family of C02), where the per-slot deviations
// of ForEach would cost O(size^2). Distinct source texts only; it stops when f
// returns false.
func ForEachGlobal(t Tree, al *Alphabet, full bool, f func(Rendering) bool) {
	crlf := Dev{Slot: slotCRLF, Kind: "global.newline", Var: "crlf"}
	nofinal := Dev{Slot: slotNoFinalNL, Kind: "global.final-newline", Var: "missing"}
	none := Dev{Slot: slotIndent, Kind: "global.indent", Var: "none"}
	tab := Dev{Slot: slotIndent, Kind: "global.indent", Var: "tab"}
	seen := map[[sha256.Size]byte]struct{}{} // digests: the texts reach megabytes
	sets := [][]Dev{nil, {crlf}, {nofinal}, {tab, crlf}}
	if full {
		sets = append(sets, []Dev{crlf, nofinal}, []Dev{none}, []Dev{tab})
	}
	for _, devs := range sets {
		src, flushTab, ok := render(t, devs, al)
		if !ok {
			continue
		}
		h := sha256.Sum256([]byte(src))
		if _, dup := seen[h]; dup {
			continue
		}
		seen[h] = struct{}{}
		if !f(Rendering{Src: src, Devs: append([]Dev(nil), devs...), FlushTab: flushTab}) {
			return
		}
	}
}

// Canon is the canonical rendering.
func Canon(t Tree) string {
	s, _ := Render(t, nil, &Basic)
	return s
}
