package bodytree

import (
	"sort"
	"strings"
)

// Comment is one comment form of hclsyntax/spec.md "Comments and Whitespace".
type Comment struct {
	Name string
	Text string
	Line bool // line comment (# or //): equivalent to a newline; otherwise inline: equivalent to whitespace
}

// Alphabet selects the variants tried in every slot.
type Alphabet struct {
	Name     string
	Comments []Comment
	Extra    bool // additional spacing variants (two spaces, tight comments everywhere, whitespace-only lines, trailing blanks)
}

// Basic: the three comment forms of the specification plus an inline comment
// that spans two lines (still "equivalent to a whitespace sequence").
var Basic = Alphabet{Name: "basic", Comments: []Comment{
	{"hash", "# c", true},
	{"slashes", "// c", true},
	{"inline", "/* c */", false},
	{"inline-multiline", "/* c\n c */", false},
}}

// Extended adds comment texts that look like other syntax.
var Extended = Alphabet{Name: "extended", Extra: true, Comments: []Comment{
	{"hash", "# c", true},
	{"slashes", "// c", true},
	{"inline", "/* c */", false},
	{"inline-multiline", "/* c\n c */", false},
	{"hash-empty", "#", true},
	{"slashes-empty", "//", true},
	{"hash-nospace", "#c", true},
	{"hash-tricky", "#/* \" { = $${ <<EOT", true},
	{"slashes-tricky", "// */ } \" \\ %{", true},
	{"hash-hash", "## // #", true},
	{"inline-empty", "/**/", false},
	{"inline-stars", "/***/", false},
	{"inline-tricky", "/* # // \" } = ${ */", false},
	{"inline-nested-open", "/* /* c */", false},
}}

func AlphabetByName(n string) *Alphabet {
	if n == Extended.Name {
		return &Extended
	}
	return &Basic
}

// Dev is one deviation from the canonical layout: a variant chosen in one
// slot of the rendering walk, or a global switch (Slot < 0).
type Dev struct {
	Slot int    `json:"slot"`
	Kind string `json:"kind"`
	Var  string `json:"var"`
	Last bool   `json:"last,omitempty"` // sits on the last line of the file
	NL   bool   `json:"nl,omitempty"`   // the variant ends or contains a line (line comment, blank line, multi-line comment)
}

const (
	slotIndent    = -1
	slotCRLF      = -2
	slotNoFinalNL = -3
	slotBOM       = -4
)

type variant struct{ name, text string }

type renderer struct {
	sb     strings.Builder
	unit   string
	active map[int]string
	next   int
	rec    *[]Dev
	al     *Alphabet
}

// slot visits one slot: vars is only called when the variants are needed
// (while recording, or when a deviation is active in this slot).
func (r *renderer) slot(kind, def string, vars func() []variant, last bool) {
	id := r.next
	r.next++
	if r.rec != nil {
		for _, v := range vars() {
			nl := strings.Contains(v.text, "\n") || strings.Contains(v.text, "#") || strings.Contains(v.text, "//")
			*r.rec = append(*r.rec, Dev{Slot: id, Kind: kind, Var: v.name, Last: last, NL: nl})
		}
	}
	if name, ok := r.active[id]; ok {
		for _, v := range vars() {
			if v.name == name {
				r.sb.WriteString(v.text)
				return
			}
		}
		panic("bodytree: deviation " + kind + ":" + name + " does not exist in slot")
	}
	r.sb.WriteString(def)
}

// own: a slot at the start of a line, holding whole lines of its own.
func (r *renderer) own(kind, ind string, last bool) {
	r.slot(kind, "", func() []variant {
		vars := []variant{{"blank", "\n"}}
		if r.al.Extra {
			vars = append(vars, variant{"blank-spaces", "  \n"}, variant{"blank-two", "\n\n"})
		}
		for _, c := range r.al.Comments {
			vars = append(vars, variant{c.Name, ind + c.Text + "\n"})
		}
		return vars
	}, last)
}

// lead: after the indentation, before the first token of a line.
func (r *renderer) lead(kind string) {
	r.slot(kind, "", func() []variant {
		var vars []variant
		for _, c := range r.al.Comments {
			if c.Line {
				continue
			}
			vars = append(vars, variant{c.Name, c.Text + " "})
			if r.al.Extra {
				vars = append(vars, variant{c.Name + "-tight", c.Text})
			}
		}
		return vars
	}, false)
}

// trail: after the last token of a line, before its newline.
func (r *renderer) trail(kind string, last bool) {
	r.slot(kind, "", func() []variant {
		var vars []variant
		for _, c := range r.al.Comments {
			vars = append(vars, variant{c.Name, " " + c.Text})
			if r.al.Extra {
				vars = append(vars, variant{c.Name + "-tight", c.Text})
			}
		}
		if r.al.Extra {
			vars = append(vars, variant{"space", " "}, variant{"tab", "\t"})
		}
		return vars
	}, last)
}

// gap: between two tokens on one line. def is the canonical text (" " or "").
// tightOK: the two neighbours cannot lex as one token when nothing separates
// them.
func (r *renderer) gap(kind, def string, tightOK bool) {
	r.slot(kind, def, func() []variant {
		var vars []variant
		if def != "" && tightOK {
			vars = append(vars, variant{"none", ""})
		}
		if def == "" {
			vars = append(vars, variant{"space", " "})
		}
		vars = append(vars, variant{"tab", "\t"})
		if r.al.Extra {
			vars = append(vars, variant{"two", "  "})
		}
		first := true
		for _, c := range r.al.Comments {
			if c.Line {
				continue
			}
			vars = append(vars, variant{c.Name, " " + c.Text + " "})
			if first || r.al.Extra {
				vars = append(vars, variant{c.Name + "-tight", c.Text})
			}
			first = false
		}
		return vars
	}, false)
}

func (r *renderer) ind(level int) string { return strings.Repeat(r.unit, level) }

// value writes an attribute value; multi-line values carry comment slots of
// their own (inside brackets newlines and line comments are plain whitespace).
func (r *renderer) value(kind string, level int) {
	in0, in1 := r.ind(level), r.ind(level+1)
	vtrail := func() {
		r.slot("val-trail."+kind, "", func() []variant {
			var vars []variant
			for _, c := range r.al.Comments {
				vars = append(vars, variant{c.Name, " " + c.Text})
			}
			return vars
		}, false)
	}
	vown := func() {
		r.slot("val-own."+kind, "", func() []variant {
			vars := []variant{{"blank", "\n"}}
			for _, c := range r.al.Comments {
				vars = append(vars, variant{c.Name, in1 + c.Text + "\n"})
			}
			return vars
		}, false)
	}
	w := r.sb.WriteString
	switch kind {
	case "num":
		w("1")
	case "str":
		w(`"s"`)
	case "esc":
		w(`"` + EscSrc + `"`)
	case "heredoc":
		w("<<EOT\nx\nEOT")
	case "fheredoc":
		w("<<-EOT\n    x\n    EOT")
	case "tuple":
		w("[")
		vtrail()
		w("\n" + in1 + "1,")
		vtrail()
		w("\n" + in1 + "2,\n")
		vown()
		w(in0 + "]")
	case "object":
		w("{")
		vtrail()
		w("\n" + in1 + "k = 1")
		vtrail()
		w("\n")
		vown()
		w(in0 + "}")
	case "paren":
		w("(")
		vtrail()
		w("\n" + in1 + "1 +")
		vtrail()
		w("\n" + in1 + "2\n")
		vown()
		w(in0 + ")")
	default:
		panic("bodytree: unknown value kind " + kind)
	}
}

func (r *renderer) attrCore(it Item, level int) {
	r.sb.WriteString(it.Name)
	r.gap("gap.eq-left", " ", true)
	r.sb.WriteString("=")
	r.gap("gap.eq-right."+it.Val, " ", true)
	r.value(it.Val, level)
}

// item writes one body item including its terminating newline and returns a
// short name of what it was (context for the following own-line slot).
func (r *renderer) item(it Item, level int, lastTop bool) string {
	w := r.sb.WriteString
	if it.Kind == "attr" {
		r.attrCore(it, level)
		if it.Val != "heredoc" && it.Val != "fheredoc" {
			// nothing may follow a heredoc terminator on its line
			r.trail("trail.attr-"+it.Val, lastTop)
		}
		w("\n")
		return "attr-" + it.Val
	}
	w(it.Name)
	left := "type"
	for _, l := range it.Labels {
		right := "bare"
		if l.Quoted {
			right = "quoted"
		}
		r.gap("gap.hdr."+left+"-"+right, " ", l.Quoted) // identifier then identifier needs a separator
		w(l.Src())
		left = right
	}
	r.gap("gap.hdr."+left+"-brace", " ", true)
	w("{")
	switch it.Form {
	case ML:
		r.trail("trail.open-brace", false)
		w("\n")
		r.body(it.Body, level+1, false)
		w(r.ind(level))
		r.lead("lead.close")
		w("}")
	case EML:
		r.trail("trail.open-brace", false)
		w("\n")
		r.own("own.before-close.after-open-brace", r.ind(level+1), false)
		w(r.ind(level))
		r.lead("lead.close")
		w("}")
	case EOL:
		r.gap("gap.empty-ol", "", true)
		w("}")
	case OL1:
		r.gap("gap.ol-open", " ", true)
		r.attrCore(it.Body[0], level)
		r.gap("gap.ol-close."+it.Body[0].Val, " ", true)
		w("}")
	default:
		panic("bodytree: unknown block form " + it.Form)
	}
	r.trail("trail.block-"+it.Form, lastTop)
	w("\n")
	return "block-" + it.Form
}

func (r *renderer) body(items []Item, level int, top bool) {
	ind := r.ind(level)
	prev := "open-brace"
	if top {
		prev = "start"
	}
	for i, it := range items {
		r.own("own.before-item.after-"+prev, ind, false)
		r.sb.WriteString(ind)
		r.lead("lead.item")
		prev = r.item(it, level, top && i == len(items)-1)
	}
	if top {
		r.own("own.eof.after-"+prev, ind, true)
	} else {
		r.own("own.before-close.after-"+prev, ind, false)
	}
}

// Deviations lists every single deviation available for the tree, in walk
// order, followed by the global ones.
func Deviations(t Tree, al *Alphabet) []Dev {
	var devs []Dev
	r := &renderer{unit: "  ", rec: &devs, al: al}
	r.body(t.Items, 0, true)
	devs = append(devs,
		Dev{Slot: slotIndent, Kind: "global.indent", Var: "none"},
		Dev{Slot: slotIndent, Kind: "global.indent", Var: "tab"},
		Dev{Slot: slotCRLF, Kind: "global.newline", Var: "crlf"},
		Dev{Slot: slotNoFinalNL, Kind: "global.final-newline", Var: "missing"},
		Dev{Slot: slotBOM, Kind: "global.bom", Var: "utf8"},
	)
	return devs
}

// Render produces the source text of the tree under the given deviations. It
// reports false when the combination is not a legal layout (the only such
// case: dropping the final newline directly after a heredoc terminator, or
// of an empty file).
func Render(t Tree, devs []Dev, al *Alphabet) (string, bool) {
	r := &renderer{unit: "  ", al: al, active: map[int]string{}}
	crlf, nofinal, bom := false, false, false
	for _, d := range devs {
		switch d.Slot {
		case slotIndent:
			if d.Var == "tab" {
				r.unit = "\t"
			} else {
				r.unit = ""
			}
		case slotCRLF:
			crlf = true
		case slotNoFinalNL:
			nofinal = true
		case slotBOM:
			bom = true
		default:
			r.active[d.Slot] = d.Var
		}
	}
	r.body(t.Items, 0, true)
	out := r.sb.String()
	if nofinal {
		if !strings.HasSuffix(out, "\n") {
			return "", false
		}
		out = out[:len(out)-1]
		lastLine := out[strings.LastIndexByte(out, '\n')+1:]
		if strings.TrimSpace(lastLine) == "EOT" {
			return "", false // heredocTemplate = ... Identifier Newline
		}
	}
	if crlf {
		out = strings.ReplaceAll(out, "\n", "\r\n")
	}
	if bom {
		out = "\xef\xbb\xbf" + out
	}
	return out, true
}

// Rendering is one concrete source text of a tree.
type Rendering struct {
	Src  string
	Devs []Dev
}

func (r Rendering) Has(slot int) bool {
	for _, d := range r.Devs {
		if d.Slot == slot {
			return true
		}
	}
	return false
}
func (r Rendering) CRLF() bool { return r.Has(slotCRLF) }
func (r Rendering) BOM() bool  { return r.Has(slotBOM) }

// Class names the deviations of a rendering ("canonical" if none).
func (r Rendering) Class() string {
	if len(r.Devs) == 0 {
		return "canonical"
	}
	var parts []string
	for _, d := range r.Devs {
		parts = append(parts, d.Kind+":"+d.Var)
	}
	sort.Strings(parts)
	return strings.Join(parts, "+")
}

// Kinds returns the slot kinds of the deviations (for coverage counters).
func (r Rendering) Kinds() []string {
	if len(r.Devs) == 0 {
		return []string{"canonical"}
	}
	var out []string
	for _, d := range r.Devs {
		k := d.Kind
		if i := strings.IndexByte(k, '.'); i >= 0 && !strings.HasPrefix(k, "global.") {
			k = k[:i]
		}
		out = append(out, k)
	}
	return out
}

// ForEach calls f with the canonical rendering and then with every rendering
// that has at most k deviations (distinct source texts only). With k == 1 a
// deviation on the last line of the file is additionally combined with the
// missing final newline ("comment at end of file without newline"), and a
// deviation that involves a line end (line comment, blank line, multi-line
// inline comment) is additionally combined with CRLF. It stops when f returns
// false.
func ForEach(t Tree, k int, al *Alphabet, f func(Rendering) bool) {
	seen := map[string]struct{}{}
	try := func(devs ...Dev) bool {
		src, ok := Render(t, devs, al)
		if !ok {
			return true
		}
		if _, dup := seen[src]; dup {
			return true
		}
		seen[src] = struct{}{}
		return f(Rendering{Src: src, Devs: append([]Dev(nil), devs...)})
	}
	if !try() {
		return
	}
	devs := Deviations(t, al)
	for _, d := range devs {
		if !try(d) {
			return
		}
	}
	nofinal := Dev{Slot: slotNoFinalNL, Kind: "global.final-newline", Var: "missing"}
	crlf := Dev{Slot: slotCRLF, Kind: "global.newline", Var: "crlf"}
	if k == 1 {
		for _, d := range devs {
			if d.Last {
				if !try(d, nofinal) {
					return
				}
			}
		}
		// a deviation that itself ends or contains a line is also tried in a
		// CRLF file (comment + CRLF is the everyday Windows layout, not a corner)
		for _, d := range devs {
			if d.NL {
				if !try(d, crlf) {
					return
				}
			}
		}
		for _, d := range devs {
			if d.Last && d.NL {
				if !try(d, nofinal, crlf) {
					return
				}
			}
		}
		return
	}
	if k >= 2 {
		for i, d1 := range devs {
			for _, d2 := range devs[i+1:] {
				if d1.Slot == d2.Slot {
					continue
				}
				if !try(d1, d2) {
					return
				}
			}
		}
	}
}

// Canon is the canonical rendering.
func Canon(t Tree) string {
	s, _ := Render(t, nil, &Basic)
	return s
}
