package absconf

// Enumeration of every admissible JSON encoding of an abstract configuration.
//
// json/spec.md ("Structural Elements") gives a JSON producer the following
// freedoms, each of which is one kind of choice point below. An encoding is a
// complete assignment of all choice points, so the set of encodings of one
// configuration is a finite tree (a product where later dimensions depend on
// earlier ones), enumerated exhaustively in lexicographic order of the choice
// vector (all-zero = plainest encoding first):
//
//	decor      per document: no decoration | a `"//": "comment"` property first in
//	           every body object | last in every body object | for one block type T
//	           of Options.DegenerateTypes a degenerate `"T": []` (zero blocks) or
//	           `"T": null` property appended to the top-level body. The decoration is
//	           not part of the choice vector: with Options.DecorProduct every decoration
//	           is combined with every structure; otherwise the undecorated structures
//	           are enumerated completely and each decoration is combined with the three
//	           fixed structures Plain, Compact and ArrayHeavy (decoration and structure
//	           are handled by unrelated code: the "//" skip and the null / [] cases sit
//	           at the property level, the structural freedoms in the flattening).
//	join       per block that follows an earlier block of the same type in the same
//	           body: a new property with a duplicate name | appended to the latest
//	           property of that type (the property value then defines several blocks;
//	           if a property of another block type lies between, the flattened order
//	           of blocks of *different* types changes: Encoding.Order = false, the
//	           per-type order is always kept)
//	labelsplit per label level, per block whose label equals its predecessor's:
//	           same label property (the blocks share one property) | a new property
//	           with the duplicate label name
//	container  per label level: one object | an array of objects
//	           per top-level body: one object | an array of objects
//	           (json/spec.md allows the array form for "a body"; a nested block body
//	           is always one object because after the label levels an array means
//	           "several blocks")
//	cut        per gap between two properties of an array-form container: same
//	           element object | next element object (every order-preserving split)
//	leaf       per property that defines exactly one block: the body object | an
//	           array holding that one body object; several blocks with identical
//	           type and labels under one property are always an array of bodies
//
// With Options.Uniform the container, cut and leaf choices are made once per
// document instead of at every place (see Options).
//
// Attribute values have exactly one JSON rendering (JSONValue).

type ChoiceKind int

const (
	KJoin    ChoiceKind = iota // join the latest same-type property; no property of another block type lies between
	KJoinFar                   // same, but a property of another block type lies between (global block order changes)
	KLabelSplit
	KContainer    // a label level: object | array of objects
	KCut          // a gap between two properties of an array-form container
	KLeaf         // a single block: body object | one-element array
	KTopContainer // the top-level body: object | array of objects
)

// Feat is the set of JSON freedoms an encoding actually uses.
type Feat uint32

const (
	FBodyArray    Feat = 1 << iota // top-level body is an array of objects
	FDupNames                      // a block type appears as several properties of one body
	FGrouped                       // blocks that are not adjacent were put under one property (Order=false)
	FBlockArray                    // array of >= 2 block bodies
	FBlockArray1                   // array of exactly one block body
	FLabelArray                    // a label level is an array of objects
	FDupLabel                      // a label name appears as several properties of one label level
	FCommentFirst                  // "//" first in every body object
	FCommentLast                   // "//" last in every body object
	FEmptyArray                    // degenerate "T": []
	FNullBlock                     // degenerate "T": null
)

var featNames = []struct {
	f Feat
	n string
}{
	{FNullBlock, "null-block"}, {FEmptyArray, "empty-array"}, {FCommentFirst, "comment-first"}, {FCommentLast, "comment-last"},
	{FLabelArray, "label-array"}, {FDupLabel, "dup-label"}, {FBodyArray, "body-array"}, {FDupNames, "dup-names"},
	{FGrouped, "grouped"}, {FBlockArray, "block-array"}, {FBlockArray1, "block-array1"},
}

// Tag names the most specific freedom used (for failure classes).
func (f Feat) Tag() string {
	for _, fn := range featNames {
		if f&fn.f != 0 {
			return fn.n
		}
	}
	return "plain"
}

// Names lists all freedoms used.
func (f Feat) Names() []string {
	var out []string
	for _, fn := range featNames {
		if f&fn.f != 0 {
			out = append(out, fn.n)
		}
	}
	return out
}

// Options bound the enumeration.
type Options struct {
	// Decor enables the decoration dimension.
	Decor bool
	// DecorProduct combines every decoration with every structure (otherwise
	// only with the fixed structures Plain, Compact, ArrayHeavy).
	DecorProduct bool
	// DegenerateTypes are the block type names tried as "T": [] / "T": null.
	DegenerateTypes []string
	// Uniform: the container, cut and leaf choices are made once per document
	// (every label level an object or every one an array, every gap cut or
	// none, every single block a body object or a one-element array) instead of
	// independently at every place; the join and label-split choices, which
	// decide which blocks are siblings in one JSON object, stay independent.
	// Used for block types with many labels, where the independent product
	// explodes.
	Uniform bool
	// MaxCutProps: containers with more properties than this are not split
	// every way when in array form; only the one-property-per-element split is
	// produced. 0 = no limit.
	MaxCutProps int
}

// Encoding is one JSON encoding of a configuration.
type Encoding struct {
	Doc *JNode
	// Identity: the decoration, and either a fixed structure policy or the
	// vector of structural choices.
	Decor   int
	Policy  string
	Choices []int
	// Order: flattening every body yields the blocks in the abstract
	// configuration's global order (otherwise only the per-type order).
	Order     bool
	Feat      Feat
	EmptyType string // "T": [] was added for this type
	NullType  string // "T": null was added for this type
}

type chooser struct {
	seq    []int
	n      []int
	pos    int
	policy func(kind ChoiceKind, n int) int
	pinned bool
}

func (c *chooser) pick(kind ChoiceKind, n int) int {
	if n <= 1 {
		return 0
	}
	if c.policy != nil {
		v := c.policy(kind, n)
		if v >= n {
			v = n - 1
		}
		return v
	}
	if c.pos == len(c.seq) {
		c.seq = append(c.seq, 0)
		c.n = append(c.n, n)
	} else {
		if c.pos >= len(c.n) {
			c.n = append(c.n, make([]int, c.pos+1-len(c.n))...)
		}
		c.n[c.pos] = n
	}
	v := c.seq[c.pos]
	if v >= n {
		v = n - 1
	}
	c.pos++
	return v
}

// next advances to the next choice vector; false when exhausted.
func (c *chooser) next() bool {
	c.seq = c.seq[:c.pos]
	c.n = c.n[:c.pos]
	for i := len(c.seq) - 1; i >= 0; i-- {
		if c.seq[i]+1 < c.n[i] {
			c.seq[i]++
			c.seq = c.seq[:i+1]
			c.n = c.n[:i+1]
			c.pos = 0
			return true
		}
	}
	return false
}

type encoder struct {
	uni   map[ChoiceKind]int
	ch    *chooser
	opt   Options
	decor int // 0 none, 1 comment first, 2 comment last, 3+2i empty DegenerateTypes[i], 4+2i null
	feat  Feat
	order bool
	empty string
	null  string
}

// pick makes a container / cut / leaf choice (once per document with Options.Uniform).
func (e *encoder) pick(kind ChoiceKind, n int) int {
	if !e.opt.Uniform {
		return e.ch.pick(kind, n)
	}
	if v, ok := e.uni[kind]; ok {
		return v
	}
	v := e.ch.pick(kind, n)
	e.uni[kind] = v
	return v
}

func (e *encoder) run(b Body) *Encoding {
	e.uni = map[ChoiceKind]int{}
	e.feat, e.order, e.empty, e.null = 0, true, "", ""
	if e.decor >= 3+2*len(e.opt.DegenerateTypes) {
		e.decor = 0
	}
	switch {
	case e.decor == 1:
		e.feat |= FCommentFirst
	case e.decor == 2:
		e.feat |= FCommentLast
	case e.decor >= 3:
		t := e.opt.DegenerateTypes[(e.decor-3)/2]
		if (e.decor-3)%2 == 0 {
			e.empty = t
			e.feat |= FEmptyArray
		} else {
			e.null = t
			e.feat |= FNullBlock
		}
	}
	doc := e.body(b, true)
	return &Encoding{Doc: doc, Decor: e.decor, Order: e.order, Feat: e.feat, EmptyType: e.empty, NullType: e.null}
}

type group struct {
	attr   *Item
	typ    string
	blocks []Item
}

func (e *encoder) bodyObject(props []JProp) *JNode {
	switch e.decor {
	case 1:
		props = append([]JProp{{Name: "//", Val: jStr("comment")}}, props...)
	case 2:
		props = append(append([]JProp{}, props...), JProp{Name: "//", Val: jStr("comment")})
	}
	return &JNode{Kind: JObj, Props: props}
}

func (e *encoder) body(b Body, top bool) *JNode {
	var groups []group
	last := map[string]int{}
	for i := range b {
		it := b[i]
		if it.IsAttr() {
			groups = append(groups, group{attr: &b[i]})
			continue
		}
		gi, seen := last[it.Block]
		far := false
		if seen {
			for j := gi + 1; j < len(groups); j++ {
				if groups[j].attr == nil {
					far = true
				}
			}
		}
		kind := KJoin
		if far {
			kind = KJoinFar
		}
		if seen && len(groups[gi].blocks[0].Labels) == len(it.Labels) && e.ch.pick(kind, 2) == 1 {
			if far {
				e.order = false
				e.feat |= FGrouped
			}
			groups[gi].blocks = append(groups[gi].blocks, it)
			continue
		}
		if seen {
			e.feat |= FDupNames
		}
		groups = append(groups, group{typ: it.Block, blocks: []Item{it}})
		last[it.Block] = len(groups) - 1
	}
	var props []JProp
	for _, g := range groups {
		if g.attr != nil {
			props = append(props, JProp{Name: g.attr.Attr, Val: JSONValue(*g.attr.Val)})
			continue
		}
		props = append(props, JProp{Name: g.typ, Val: e.level(g.blocks, 0)})
	}
	if top {
		if e.empty != "" {
			props = append(props, JProp{Name: e.empty, Val: jArr()})
		}
		if e.null != "" {
			props = append(props, JProp{Name: e.null, Val: &JNode{Kind: JNull}})
		}
	}
	if !top || e.pick(KTopContainer, 2) == 0 {
		return e.bodyObject(props)
	}
	e.feat |= FBodyArray
	arr := &JNode{Kind: JArr, Elems: []*JNode{}}
	for _, chunk := range e.cuts(props) {
		arr.Elems = append(arr.Elems, e.bodyObject(chunk))
	}
	return arr
}

// cuts splits a property list into >= 1 non-empty consecutive chunks, one
// choice per gap (or the all-singletons split above Options.MaxCutProps). An
// empty list gives no chunk at all (an empty array).
func (e *encoder) cuts(props []JProp) [][]JProp {
	var out [][]JProp
	for i, p := range props {
		cut := i == 0
		if i > 0 {
			if e.opt.MaxCutProps > 0 && len(props) > e.opt.MaxCutProps {
				cut = true
			} else {
				cut = e.pick(KCut, 2) == 1
			}
		}
		if cut {
			out = append(out, nil)
		}
		out[len(out)-1] = append(out[len(out)-1], p)
	}
	return out
}

// level encodes a sequence of blocks of one type that share their first d
// labels as the JSON value found below d label levels.
func (e *encoder) level(seq []Item, d int) *JNode {
	if len(seq[0].Labels) == d {
		if len(seq) == 1 {
			if e.pick(KLeaf, 2) == 0 {
				return e.body(seq[0].Body, false)
			}
			e.feat |= FBlockArray1
			return jArr(e.body(seq[0].Body, false))
		}
		e.feat |= FBlockArray
		arr := jArr()
		for _, it := range seq {
			arr.Elems = append(arr.Elems, e.body(it.Body, false))
		}
		return arr
	}
	var runs [][]Item
	seen := map[string]bool{}
	for i, it := range seq {
		if i > 0 && it.Labels[d] == seq[i-1].Labels[d] && e.ch.pick(KLabelSplit, 2) == 0 {
			runs[len(runs)-1] = append(runs[len(runs)-1], it)
			continue
		}
		if seen[it.Labels[d]] {
			e.feat |= FDupLabel
		}
		seen[it.Labels[d]] = true
		runs = append(runs, []Item{it})
	}
	var props []JProp
	for _, r := range runs {
		props = append(props, JProp{Name: r[0].Labels[d], Val: e.level(r, d+1)})
	}
	if e.pick(KContainer, 2) == 0 {
		return &JNode{Kind: JObj, Props: props}
	}
	e.feat |= FLabelArray
	arr := jArr()
	for _, chunk := range e.cuts(props) {
		arr.Elems = append(arr.Elems, &JNode{Kind: JObj, Props: chunk})
	}
	return arr
}

// Policies are the fixed structures.
var Policies = []string{"plain", "compact", "arrays"}

func policyFunc(name string) func(kind ChoiceKind, n int) int {
	switch name {
	case "compact":
		// what a typical generator produces: one object per body, adjacent
		// same-type blocks under one property, labels as nested objects
		return func(kind ChoiceKind, n int) int {
			if kind == KJoin {
				return 1
			}
			return 0
		}
	case "arrays":
		// arrays wherever json/spec.md allows them: the top-level body as an
		// array with one property per element, every block as its own property
		// whose label levels are arrays of single-property objects and whose
		// body sits in a one-element array
		return func(kind ChoiceKind, n int) int {
			switch kind {
			case KLabelSplit, KContainer, KTopContainer, KCut, KLeaf:
				return 1
			}
			return 0
		}
	}
	return func(ChoiceKind, int) int { return 0 } // "plain": the all-zero choice vector
}

// NumDecor is the number of decorations (0 = none).
func (o Options) NumDecor() int {
	if !o.Decor {
		return 1
	}
	return 3 + 2*len(o.DegenerateTypes)
}

func structures(b Body, opt Options, decor int, yield func(*Encoding) bool) bool {
	e := &encoder{ch: &chooser{}, opt: opt}
	for {
		e.ch.pos = 0
		e.decor = decor
		enc := e.run(b)
		enc.Choices = append([]int{}, e.ch.seq[:e.ch.pos]...)
		if !yield(enc) {
			return false
		}
		if !e.ch.next() {
			return true
		}
	}
}

// Encodings calls yield for every encoding of b (undecorated and plainest
// first) until yield returns false.
func Encodings(b Body, opt Options, yield func(*Encoding) bool) {
	if !structures(b, opt, 0, yield) {
		return
	}
	for decor := 1; decor < opt.NumDecor(); decor++ {
		if opt.DecorProduct {
			if !structures(b, opt, decor, yield) {
				return
			}
			continue
		}
		for _, p := range Policies {
			if !yield(EncodePolicy(b, opt, decor, p)) {
				return
			}
		}
	}
}

// EncodeChoices rebuilds the encoding identified by a decoration and a
// structural choice vector.
func EncodeChoices(b Body, opt Options, decor int, choices []int) *Encoding {
	ch := &chooser{seq: append([]int(nil), choices...), n: make([]int, len(choices))}
	e := &encoder{ch: ch, opt: opt, decor: decor}
	enc := e.run(b)
	enc.Choices = append([]int{}, ch.seq[:ch.pos]...)
	return enc
}

// EncodePolicy builds the encoding with a decoration and a fixed structure.
func EncodePolicy(b Body, opt Options, decor int, policy string) *Encoding {
	e := &encoder{ch: &chooser{policy: policyFunc(policy)}, opt: opt, decor: decor}
	enc := e.run(b)
	enc.Policy = policy
	return enc
}

// Compact and ArrayHeavy are the two undecorated fixed encodings.
func Compact(b Body) *Encoding    { return EncodePolicy(b, Options{}, 0, "compact") }
func ArrayHeavy(b Body) *Encoding { return EncodePolicy(b, Options{}, 0, "arrays") }
