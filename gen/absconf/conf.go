// Package absconf is the syntax-independent ("abstract") configuration model
// shared by the checks C03 and C04: an ordered list of items, each either an
// attribute with a literal value or a block with a type, labels and a nested
// body. It renders a configuration in the native syntax (conf.go), as a small
// JSON document tree that preserves property order and duplicate property
// names (json.go), and it enumerates every admissible JSON encoding of a
// configuration as a finite tree of choices (encode.go).
//
// Nothing in this package calls hashicorp/hcl.
package absconf

import (
	"strconv"
	"strings"
)

// Val is a literal attribute value of a JSON-expressible type.
type Val struct {
	K string  `json:"k"`           // num | str | bool | null | list | obj
	S string  `json:"s,omitempty"` // num: number text valid in both syntaxes; str: the string content
	B bool    `json:"b,omitempty"`
	L []Val   `json:"l,omitempty"`
	O []Field `json:"o,omitempty"`
}

// Field is one attribute of an object literal (order is kept for rendering).
type Field struct {
	N string `json:"n"`
	V Val    `json:"v"`
}

// Item is an attribute (Attr != "") or a block (Block != "").
type Item struct {
	Attr   string   `json:"attr,omitempty"`
	Val    *Val     `json:"val,omitempty"`
	Block  string   `json:"block,omitempty"`
	Labels []string `json:"labels,omitempty"`
	Body   Body     `json:"body,omitempty"`
}

// Body is an ordered list of items.
type Body []Item

func (it Item) IsAttr() bool { return it.Attr != "" }

// Constructors.
func Num(s string) Val          { return Val{K: "num", S: s} }
func Str(s string) Val          { return Val{K: "str", S: s} }
func Bool(b bool) Val           { return Val{K: "bool", B: b} }
func Null() Val                 { return Val{K: "null"} }
func List(vs ...Val) Val        { return Val{K: "list", L: vs} }
func Obj(fs ...Field) Val       { return Val{K: "obj", O: fs} }
func F(n string, v Val) Field   { return Field{N: n, V: v} }
func A(name string, v Val) Item { return Item{Attr: name, Val: &v} }
func B(typ string, labels []string, body ...Item) Item {
	return Item{Block: typ, Labels: labels, Body: Body(body)}
}

// Clone returns a deep copy.
func (b Body) Clone() Body {
	if b == nil {
		return nil
	}
	out := make(Body, len(b))
	for i, it := range b {
		out[i] = it
		if it.Val != nil {
			v := it.Val.clone()
			out[i].Val = &v
		}
		out[i].Labels = append([]string(nil), it.Labels...)
		out[i].Body = it.Body.Clone()
	}
	return out
}

func (v Val) clone() Val {
	o := v
	if v.L != nil {
		o.L = make([]Val, len(v.L))
		for i := range v.L {
			o.L[i] = v.L[i].clone()
		}
	}
	if v.O != nil {
		o.O = make([]Field, len(v.O))
		for i := range v.O {
			o.O[i] = Field{N: v.O[i].N, V: v.O[i].V.clone()}
		}
	}
	return o
}

// Size counts items recursively (used for simplest-first ordering).
func (b Body) Size() int {
	n := 0
	for _, it := range b {
		n++
		n += it.Body.Size()
	}
	return n
}

// Key is a canonical, syntax-independent rendering of a literal; two literals
// are the same value iff their keys are equal.
func (v Val) Key() string {
	switch v.K {
	case "num":
		return "n:" + v.S
	case "str":
		return "s:" + strconv.Quote(v.S)
	case "bool":
		if v.B {
			return "true"
		}
		return "false"
	case "null":
		return "null"
	case "list":
		parts := make([]string, len(v.L))
		for i, e := range v.L {
			parts[i] = e.Key()
		}
		return "[" + strings.Join(parts, ",") + "]"
	case "obj":
		parts := make([]string, len(v.O))
		for i, f := range v.O {
			parts[i] = strconv.Quote(f.N) + ":" + f.V.Key()
		}
		return "{" + strings.Join(parts, ",") + "}"
	}
	return "?"
}

// ---------------------------------------------------------------- native

// Native renders the configuration in the native syntax.
func Native(b Body) string {
	var sb strings.Builder
	writeNativeBody(&sb, b, 0)
	return sb.String()
}

func writeNativeBody(sb *strings.Builder, b Body, depth int) {
	ind := strings.Repeat("  ", depth)
	for _, it := range b {
		if it.IsAttr() {
			sb.WriteString(ind)
			sb.WriteString(it.Attr)
			sb.WriteString(" = ")
			writeNativeVal(sb, *it.Val)
			sb.WriteString("\n")
			continue
		}
		sb.WriteString(ind)
		sb.WriteString(it.Block)
		for _, l := range it.Labels {
			sb.WriteString(" ")
			sb.WriteString(NativeQuote(l))
		}
		if len(it.Body) == 0 {
			sb.WriteString(" {\n" + ind + "}\n")
			continue
		}
		sb.WriteString(" {\n")
		writeNativeBody(sb, it.Body, depth+1)
		sb.WriteString(ind + "}\n")
	}
}

// NativeQuote renders a string as a native quoted template literal with no
// template sequences.
func NativeQuote(s string) string {
	var sb strings.Builder
	sb.WriteByte('"')
	for i := 0; i < len(s); i++ {
		c := s[i]
		switch {
		case c == '"':
			sb.WriteString(`\"`)
		case c == '\\':
			sb.WriteString(`\\`)
		case c == '\n':
			sb.WriteString(`\n`)
		case c == '\r':
			sb.WriteString(`\r`)
		case c == '\t':
			sb.WriteString(`\t`)
		case (c == '$' || c == '%') && i+1 < len(s) && s[i+1] == '{':
			sb.WriteByte(c)
			sb.WriteByte(c) // $${ and %%{ are the literal escapes
		default:
			sb.WriteByte(c)
		}
	}
	sb.WriteByte('"')
	return sb.String()
}

func isIdent(s string) bool {
	if s == "" {
		return false
	}
	for i := 0; i < len(s); i++ {
		c := s[i]
		if c == '_' || (c >= 'a' && c <= 'z') || (c >= 'A' && c <= 'Z') || (i > 0 && c >= '0' && c <= '9') {
			continue
		}
		return false
	}
	switch s {
	case "true", "false", "null", "for", "if", "in":
		return false
	}
	return true
}

func writeNativeVal(sb *strings.Builder, v Val) {
	switch v.K {
	case "num":
		sb.WriteString(v.S)
	case "str":
		sb.WriteString(NativeQuote(v.S))
	case "bool":
		if v.B {
			sb.WriteString("true")
		} else {
			sb.WriteString("false")
		}
	case "null":
		sb.WriteString("null")
	case "list":
		sb.WriteString("[")
		for i, e := range v.L {
			if i > 0 {
				sb.WriteString(", ")
			}
			writeNativeVal(sb, e)
		}
		sb.WriteString("]")
	case "obj":
		if len(v.O) == 0 {
			sb.WriteString("{}")
			return
		}
		sb.WriteString("{ ")
		for i, f := range v.O {
			if i > 0 {
				sb.WriteString(", ")
			}
			if isIdent(f.N) {
				sb.WriteString(f.N)
			} else {
				sb.WriteString(NativeQuote(f.N))
			}
			sb.WriteString(" = ")
			writeNativeVal(sb, f.V)
		}
		sb.WriteString(" }")
	}
}
