package absconf

// Degenerate ("zero blocks") encodings.
//
// json/spec.md ("Blocks"): "each object property with the matching name serves
// as a definition of zero or more blocks of that type", and shows `"foo": []`
// as "a degenerate definition of zero blocks". Besides the freedoms enumerated
// in encode.go a JSON producer can therefore write, anywhere a block type's
// property or one of its label levels may stand, a value that holds no block
// body at all. This file enumerates those *insertions* into an already encoded
// document, one insertion per result ("every single edit of a corpus entry"):
//
//	site body-object   a property NAME: FORM is added to an object that represents
//	                   a body (the top-level object, an element of the top-level
//	                   array, with DegOptions.Nested also every block body), before
//	                   the property at index Pos (Pos = number of properties: last)
//	site body-array    a new element {NAME: FORM}, or the empty object {} (Name ""),
//	                   is added to the array that represents the top-level body
//	site label-object  a property LABEL: FORM is added to an object of a label level
//	                   of an existing block property (FORM is a value for the levels
//	                   that remain below that label)
//	site label-array   the empty object {} is added to an array-form label level
//
// FORM (DegForms) is one of: null | [] | {} | [{}] | {"k": null} | {"k": []} |
// {"k": {}} | {"k": {"m": null}} | {"k": {"m": []}} -- i.e. null, the empty
// array and the empty object at the property level and below one and two label
// levels. Which of them denote "no blocks", which a block with an empty body,
// and which are outside json/spec.md depends on the number of labels of the
// schema that is applied; that is for the reference model to say, the generator
// only makes sure each of them occurs at every place.
//
// Nothing here calls hashicorp/hcl.

import (
	"fmt"
	"strings"
)

// DegForms lists the value forms, simplest first. The first two are the
// canonical ones (used at every position even when the product is not full).
var DegForms = []string{
	"null", "empty-array",
	"empty-object", "array-of-empty-object",
	"label-null", "label-empty-array", "label-empty-object",
	"label2-null", "label2-empty-array",
}

// DegValue builds the JSON value of a form.
func DegValue(form string) *JNode {
	null := func() *JNode { return &JNode{Kind: JNull} }
	under := func(label string, v *JNode) *JNode { return jObj(JProp{Name: label, Val: v}) }
	switch form {
	case "null":
		return null()
	case "empty-array":
		return jArr()
	case "empty-object":
		return jObj()
	case "array-of-empty-object":
		return jArr(jObj())
	case "label-null":
		return under("k", null())
	case "label-empty-array":
		return under("k", jArr())
	case "label-empty-object":
		return under("k", jObj())
	case "label2-null":
		return under("k", under("m", null()))
	case "label2-empty-array":
		return under("k", under("m", jArr()))
	}
	return nil
}

// Degenerate identifies one insertion into a document.
type Degenerate struct {
	Site string `json:"site"`           // body-object | body-array | label-object | label-array
	Path []int  `json:"path,omitempty"` // root -> container: property index in an object, element index in an array
	Pos  int    `json:"pos"`            // the new property / element goes before the one at this index
	Name string `json:"name,omitempty"` // property name; "" = an empty object is added to an array
	Form string `json:"form,omitempty"` // value form of the property ("" with Name "")
}

func (d Degenerate) String() string {
	p := make([]string, len(d.Path))
	for i, x := range d.Path {
		p[i] = fmt.Sprint(x)
	}
	what := "{}"
	if d.Name != "" {
		what = d.Name + ":" + d.Form
	}
	return fmt.Sprintf("%s@/%s+%d %s", d.Site, strings.Join(p, "/"), d.Pos, what)
}

// Tag names the construct (for failure classes): the form, and whether it
// stands at the body level or inside the label levels of a block property.
func (d Degenerate) Tag() string {
	f := d.Form
	if d.Name == "" {
		f = "empty-object-element"
	}
	switch d.Site {
	case "label-object", "label-array":
		return "label-level-" + f
	}
	return "block-property-" + f
}

// DegOptions bound the enumeration.
type DegOptions struct {
	// Types are the property names tried at the body level (block type names).
	Types []string
	// Arity gives the number of label levels the document uses for a block
	// type's properties (types that do not occur in the document: absent).
	Arity map[string]int
	// Labels are the label names tried for label-level insertions.
	Labels []string
	// Nested: also the bodies of blocks are sites.
	Nested bool
	// Full: every form at every site and position. Otherwise every form at the
	// canonical site (the end of the top-level body; the end of every label-level
	// container) and the canonical forms null and [] at every other position
	// (and, in an array-form top-level body, new elements only, not additions to
	// the existing element objects).
	Full bool
}

// Degenerates calls yield for every insertion into doc, until it returns false.
func Degenerates(doc *JNode, opt DegOptions, yield func(Degenerate) bool) {
	w := &degWalker{opt: opt, yield: yield}
	w.body(doc, nil, true)
}

type degWalker struct {
	opt   DegOptions
	yield func(Degenerate) bool
	stop  bool
}

func (w *degWalker) emit(d Degenerate) {
	if w.stop {
		return
	}
	d.Path = append([]int(nil), d.Path...)
	if !w.yield(d) {
		w.stop = true
	}
}

func (w *degWalker) forms(canonicalSite bool, all []string) []string {
	if w.opt.Full || canonicalSite {
		return all
	}
	if len(all) > 2 {
		return all[:2]
	}
	return all
}

// body: n represents a body (object; at the top also an array of objects).
func (w *degWalker) body(n *JNode, path []int, top bool) {
	switch n.Kind {
	case JObj:
		w.bodyObject(n, path, top, top)
	case JArr:
		if !top {
			return
		}
		for pos := 0; pos <= len(n.Elems); pos++ {
			last := pos == len(n.Elems)
			w.emit(Degenerate{Site: "body-array", Path: path, Pos: pos})
			for _, t := range w.opt.Types {
				for _, f := range w.forms(last, DegForms) {
					w.emit(Degenerate{Site: "body-array", Path: path, Pos: pos, Name: t, Form: f})
				}
			}
		}
		for i, e := range n.Elems {
			if e.Kind == JObj {
				w.bodyObject(e, append(path, i), w.opt.Full, false)
			}
		}
	}
}

// bodyObject: insertions into one body object (if own) and the sites below it.
func (w *degWalker) bodyObject(n *JNode, path []int, own, canonical bool) {
	if own {
		for pos := 0; pos <= len(n.Props); pos++ {
			last := canonical && pos == len(n.Props)
			for _, t := range w.opt.Types {
				for _, f := range w.forms(last, DegForms) {
					w.emit(Degenerate{Site: "body-object", Path: path, Pos: pos, Name: t, Form: f})
				}
			}
		}
	}
	for i, p := range n.Props {
		if ar, ok := w.opt.Arity[p.Name]; ok {
			w.level(p.Val, append(path, i), ar)
		}
	}
}

// levelForms are the forms for a property added below `left` more label levels
// (left = 0: the value stands where block bodies stand, so {} and [{}] would be
// real blocks and are not degenerate).
func levelForms(left int) []string {
	switch left {
	case 0:
		return []string{"null", "empty-array"}
	case 1:
		return []string{"null", "empty-array", "empty-object", "label-null", "label-empty-array"}
	}
	return []string{"null", "empty-array", "empty-object", "label-null", "label-empty-array", "label-empty-object"}
}

// level: n is the value found below a block type's property with `left` label
// levels still to come.
func (w *degWalker) level(n *JNode, path []int, left int) {
	if left == 0 {
		if !w.opt.Nested {
			return
		}
		switch n.Kind {
		case JObj:
			w.bodyObject(n, path, true, false)
		case JArr:
			for i, e := range n.Elems {
				if e.Kind == JObj {
					w.bodyObject(e, append(path, i), true, false)
				}
			}
		}
		return
	}
	labelObject := func(o *JNode, path []int) {
		for pos := 0; pos <= len(o.Props); pos++ {
			last := pos == len(o.Props)
			for _, l := range w.opt.Labels {
				for _, f := range w.forms(last, levelForms(left-1)) {
					w.emit(Degenerate{Site: "label-object", Path: path, Pos: pos, Name: l, Form: f})
				}
			}
		}
		for i, p := range o.Props {
			w.level(p.Val, append(path, i), left-1)
		}
	}
	switch n.Kind {
	case JObj:
		labelObject(n, path)
	case JArr:
		for pos := 0; pos <= len(n.Elems); pos++ {
			w.emit(Degenerate{Site: "label-array", Path: path, Pos: pos})
		}
		for i, e := range n.Elems {
			if e.Kind == JObj {
				labelObject(e, append(path, i))
			}
		}
	}
}

// Apply returns a copy of doc with the insertion made (doc is not modified).
func (d Degenerate) Apply(doc *JNode) (*JNode, error) {
	var rec func(n *JNode, path []int) (*JNode, error)
	rec = func(n *JNode, path []int) (*JNode, error) {
		c := *n
		if len(path) > 0 {
			i := path[0]
			switch n.Kind {
			case JObj:
				if i < 0 || i >= len(n.Props) {
					return nil, fmt.Errorf("degenerate %s: no property %d", d, i)
				}
				c.Props = append([]JProp(nil), n.Props...)
				sub, err := rec(n.Props[i].Val, path[1:])
				if err != nil {
					return nil, err
				}
				c.Props[i].Val = sub
			case JArr:
				if i < 0 || i >= len(n.Elems) {
					return nil, fmt.Errorf("degenerate %s: no element %d", d, i)
				}
				c.Elems = append([]*JNode(nil), n.Elems...)
				sub, err := rec(n.Elems[i], path[1:])
				if err != nil {
					return nil, err
				}
				c.Elems[i] = sub
			default:
				return nil, fmt.Errorf("degenerate %s: the path leads through a scalar", d)
			}
			return &c, nil
		}
		var val *JNode
		if d.Name != "" {
			if val = DegValue(d.Form); val == nil {
				return nil, fmt.Errorf("degenerate %s: unknown form", d)
			}
		}
		switch {
		case n.Kind == JObj && (d.Site == "body-object" || d.Site == "label-object") && d.Name != "":
			if d.Pos < 0 || d.Pos > len(n.Props) {
				return nil, fmt.Errorf("degenerate %s: position out of range", d)
			}
			c.Props = append(append(append([]JProp{}, n.Props[:d.Pos]...), JProp{Name: d.Name, Val: val}), n.Props[d.Pos:]...)
		case n.Kind == JArr && (d.Site == "body-array" || d.Site == "label-array"):
			if d.Pos < 0 || d.Pos > len(n.Elems) {
				return nil, fmt.Errorf("degenerate %s: position out of range", d)
			}
			el := jObj()
			if d.Name != "" {
				el = jObj(JProp{Name: d.Name, Val: val})
			}
			c.Elems = append(append(append([]*JNode{}, n.Elems[:d.Pos]...), el), n.Elems[d.Pos:]...)
		default:
			return nil, fmt.Errorf("degenerate %s: the container is not of the kind the site names", d)
		}
		return &c, nil
	}
	return rec(doc, d.Path)
}

// BlockArity maps each block type of a body to the label count of its first
// block (the label levels an encoding of that body uses for the type).
func BlockArity(b Body) map[string]int {
	m := map[string]int{}
	for _, it := range b {
		if it.IsAttr() {
			continue
		}
		if _, ok := m[it.Block]; !ok {
			m[it.Block] = len(it.Labels)
		}
	}
	return m
}
