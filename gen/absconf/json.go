package absconf

import (
	"strconv"
	"strings"
)

// JKind is the kind of a JSON document node.
type JKind int

const (
	JNull JKind = iota
	JBool
	JNum
	JStr
	JArr
	JObj
)

// JNode is a JSON value that keeps property order and duplicate property
// names, as json/spec.md requires of a JSON HCL parser.
type JNode struct {
	Kind  JKind
	Text  string // JNum: the number text; JStr: the string content
	Bool  bool
	Elems []*JNode
	Props []JProp
}

type JProp struct {
	Name string
	Val  *JNode
}

func jObj(props ...JProp) *JNode { return &JNode{Kind: JObj, Props: props} }
func jArr(elems ...*JNode) *JNode {
	return &JNode{Kind: JArr, Elems: elems}
}
func jStr(s string) *JNode { return &JNode{Kind: JStr, Text: s} }

// JSONValue is the (only) JSON rendering of a literal value.
func JSONValue(v Val) *JNode {
	switch v.K {
	case "num":
		return &JNode{Kind: JNum, Text: v.S}
	case "str":
		return jStr(v.S)
	case "bool":
		return &JNode{Kind: JBool, Bool: v.B}
	case "null":
		return &JNode{Kind: JNull}
	case "list":
		n := &JNode{Kind: JArr, Elems: []*JNode{}}
		for _, e := range v.L {
			n.Elems = append(n.Elems, JSONValue(e))
		}
		return n
	case "obj":
		n := &JNode{Kind: JObj}
		for _, f := range v.O {
			n.Props = append(n.Props, JProp{Name: f.N, Val: JSONValue(f.V)})
		}
		return n
	}
	return &JNode{Kind: JNull}
}

// Key renders a JSON value used as an expression in the same canonical form
// as Val.Key, so that attribute values can be compared across syntaxes.
func (n *JNode) Key() string {
	switch n.Kind {
	case JNum:
		return "n:" + n.Text
	case JStr:
		return "s:" + strconv.Quote(n.Text)
	case JBool:
		if n.Bool {
			return "true"
		}
		return "false"
	case JNull:
		return "null"
	case JArr:
		parts := make([]string, len(n.Elems))
		for i, e := range n.Elems {
			parts[i] = e.Key()
		}
		return "[" + strings.Join(parts, ",") + "]"
	case JObj:
		parts := make([]string, len(n.Props))
		for i, p := range n.Props {
			parts[i] = strconv.Quote(p.Name) + ":" + p.Val.Key()
		}
		return "{" + strings.Join(parts, ",") + "}"
	}
	return "?"
}

// Render produces the JSON text.
func (n *JNode) Render() string {
	var sb strings.Builder
	n.write(&sb)
	return sb.String()
}

func jsonQuote(s string) string {
	var sb strings.Builder
	sb.WriteByte('"')
	for _, r := range s {
		switch {
		case r == '"':
			sb.WriteString(`\"`)
		case r == '\\':
			sb.WriteString(`\\`)
		case r == '\n':
			sb.WriteString(`\n`)
		case r == '\r':
			sb.WriteString(`\r`)
		case r == '\t':
			sb.WriteString(`\t`)
		case r < 0x20:
			sb.WriteString(`\u00`)
			sb.WriteByte("0123456789abcdef"[r>>4])
			sb.WriteByte("0123456789abcdef"[r&15])
		default:
			sb.WriteRune(r)
		}
	}
	sb.WriteByte('"')
	return sb.String()
}

func (n *JNode) write(sb *strings.Builder) {
	switch n.Kind {
	case JNull:
		sb.WriteString("null")
	case JBool:
		if n.Bool {
			sb.WriteString("true")
		} else {
			sb.WriteString("false")
		}
	case JNum:
		sb.WriteString(n.Text)
	case JStr:
		sb.WriteString(jsonQuote(n.Text))
	case JArr:
		sb.WriteByte('[')
		for i, e := range n.Elems {
			if i > 0 {
				sb.WriteString(", ")
			}
			e.write(sb)
		}
		sb.WriteByte(']')
	case JObj:
		sb.WriteByte('{')
		for i, p := range n.Props {
			if i > 0 {
				sb.WriteString(", ")
			}
			sb.WriteString(jsonQuote(p.Name))
			sb.WriteString(": ")
			p.Val.write(sb)
		}
		sb.WriteByte('}')
	}
}
