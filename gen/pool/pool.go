// Package pool defines the typed atom pool (scope of known values of every
// cty kind), the function table and literal atoms shared by the
// expression-based checks, in both the form the implementation consumes
// (hcl.EvalContext) and the form the reference interpreter consumes.
package pool

import (
	"sort"

	"github.com/zclconf/go-cty/cty"
	"github.com/zclconf/go-cty/cty/function"

	ex "verif/gen/expr"
	"verif/ref/refeval"
)

func obj(m map[string]cty.Value) cty.Value { return cty.ObjectVal(m) }

// Vars is the scope: one variable (or more) of every cty kind.
var Vars = map[string]cty.Value{
	"zero": cty.Zero,
	"one":  cty.NumberIntVal(1),
	"two":  cty.NumberIntVal(2),
	"half": cty.NumberFloatVal(1.5),
	"neg":  cty.NumberIntVal(-1),
	"sa":   cty.StringVal("a"),
	"s1":   cty.StringVal("1"),
	"st":   cty.StringVal("true"),
	"se":   cty.StringVal(""),
	"sx":   cty.StringVal(" x y "),
	"bt":   cty.True,
	"bf":   cty.False,
	"nn":   cty.NullVal(cty.Number),
	"ns":   cty.NullVal(cty.String),
	"nb":   cty.NullVal(cty.Bool),
	"nd":   cty.NullVal(cty.DynamicPseudoType),
	"nl":   cty.NullVal(cty.List(cty.String)),
	"no":   cty.NullVal(cty.Object(map[string]cty.Type{"a": cty.Number})),
	"ln":   cty.ListVal([]cty.Value{cty.NumberIntVal(1), cty.NumberIntVal(2), cty.NumberIntVal(3)}),
	"le":   cty.ListValEmpty(cty.String),
	"ls":   cty.ListVal([]cty.Value{cty.StringVal("a"), cty.StringVal("b")}),
	"ss":   cty.SetVal([]cty.Value{cty.StringVal("a"), cty.StringVal("b")}),
	"sn":   cty.SetVal([]cty.Value{cty.NumberIntVal(2), cty.NumberIntVal(1)}),
	"mn":   cty.MapVal(map[string]cty.Value{"a": cty.NumberIntVal(1), "b": cty.NumberIntVal(2)}),
	"me":   cty.MapValEmpty(cty.String),
	"o": obj(map[string]cty.Value{"a": cty.NumberIntVal(1), "b": cty.StringVal("x"), "0": cty.StringVal("zero"),
		"c": cty.TupleVal([]cty.Value{cty.NumberIntVal(1), cty.NumberIntVal(2)})}),
	"t":  cty.TupleVal([]cty.Value{cty.NumberIntVal(1), cty.StringVal("a"), cty.True}),
	"te": cty.EmptyTupleVal,
	"lo": cty.ListVal([]cty.Value{
		obj(map[string]cty.Value{"a": cty.NumberIntVal(1), "b": cty.ListVal([]cty.Value{cty.NumberIntVal(1)})}),
		obj(map[string]cty.Value{"a": cty.NumberIntVal(2), "b": cty.ListVal([]cty.Value{cty.NumberIntVal(2), cty.NumberIntVal(3)})}),
	}),
	"oo": obj(map[string]cty.Value{
		"a": obj(map[string]cty.Value{"b": obj(map[string]cty.Value{"c": cty.NumberIntVal(1)})}),
		"l": cty.TupleVal([]cty.Value{obj(map[string]cty.Value{"a": cty.NumberIntVal(1)}), obj(map[string]cty.Value{"a": cty.NumberIntVal(2)})}),
	}),
	"for": cty.StringVal("forvar"),
	// empty collections of objects (element type of lo); sources of the splat
	// family only
	"leo": cty.ListValEmpty(cty.Object(map[string]cty.Type{"a": cty.Number, "b": cty.List(cty.Number)})),
	"seo": cty.SetValEmpty(cty.Object(map[string]cty.Type{"a": cty.Number, "b": cty.List(cty.Number)})),
	// empty list of tuples: the element type of l[*][i] depends on i
	"let": cty.ListValEmpty(cty.Tuple([]cty.Type{cty.Number, cty.String})),
}

// VarNames in a fixed order, simplest first.
var VarNames = []string{"zero", "one", "two", "half", "neg", "sa", "s1", "st", "se", "sx", "bt", "bf",
	"nn", "ns", "nb", "nd", "nl", "no", "ln", "le", "ls", "ss", "sn", "mn", "me", "o", "t", "te", "lo", "oo"}

// Literals are the literal atoms.
func Literals() []*ex.E {
	return []*ex.E{ex.Num("0"), ex.Num("1"), ex.Num("2"), ex.Num("1.5"), ex.Num("1e2"),
		ex.Str(""), ex.Str("a"), ex.Str("1"), ex.Str("true"),
		ex.Kw("true"), ex.Kw("false"), ex.Kw("null")}
}

// Atoms = literals followed by every variable.
func Atoms() []*ex.E {
	out := Literals()
	for _, n := range VarNames {
		out = append(out, ex.Var(n))
	}
	return out
}

// SmallAtoms is a reduced pool for cross-construct nesting.
func SmallAtoms() []*ex.E {
	return []*ex.E{ex.Num("1"), ex.Str("a"), ex.Kw("true"), ex.Kw("null"), ex.Var("ln"), ex.Var("o"), ex.Var("two"), ex.Var("bf")}
}

type fn struct {
	name string
	ref  refeval.Func
	impl function.Function
}

func mkfn(name string, params []function.Parameter, varp *function.Parameter, ty func([]cty.Value) cty.Type, impl func([]cty.Value) (cty.Value, bool)) fn {
	rf := refeval.Func{Impl: impl}
	for _, p := range params {
		rf.Params = append(rf.Params, refeval.Param{Type: p.Type, AllowNull: p.AllowNull})
	}
	if varp != nil {
		rf.VarParam = &refeval.Param{Type: varp.Type, AllowNull: varp.AllowNull}
	}
	spec := &function.Spec{
		Params:   params,
		VarParam: varp,
		Type: func(args []cty.Value) (cty.Type, error) {
			return ty(args), nil
		},
		Impl: func(args []cty.Value, retType cty.Type) (cty.Value, error) {
			v, ok := impl(args)
			if !ok {
				return cty.NilVal, errFn
			}
			return v, nil
		},
	}
	return fn{name, rf, function.New(spec)}
}

type fnErr struct{}

func (fnErr) Error() string { return "function failed" }

var errFn = fnErr{}

func constTy(t cty.Type) func([]cty.Value) cty.Type {
	return func([]cty.Value) cty.Type { return t }
}

var fns = []fn{
	mkfn("id", []function.Parameter{{Name: "x", Type: cty.DynamicPseudoType, AllowNull: true, AllowDynamicType: true}}, nil,
		func(a []cty.Value) cty.Type { return a[0].Type() },
		func(a []cty.Value) (cty.Value, bool) { return a[0], true }),
	mkfn("cat", nil, &function.Parameter{Name: "s", Type: cty.String}, constTy(cty.String),
		func(a []cty.Value) (cty.Value, bool) {
			s := ""
			for _, x := range a {
				s += x.AsString() + "|"
			}
			return cty.StringVal(s), true
		}),
	mkfn("add", []function.Parameter{{Name: "a", Type: cty.Number}, {Name: "b", Type: cty.Number}}, nil, constTy(cty.Number),
		func(a []cty.Value) (cty.Value, bool) { return a[0].Add(a[1]), true }),
	mkfn("nullok", []function.Parameter{{Name: "x", Type: cty.String, AllowNull: true}}, nil, constTy(cty.String),
		func(a []cty.Value) (cty.Value, bool) {
			if a[0].IsNull() {
				return cty.StringVal("<null>"), true
			}
			return a[0], true
		}),
	mkfn("cnt", []function.Parameter{{Name: "l", Type: cty.List(cty.String)}}, nil, constTy(cty.Number),
		func(a []cty.Value) (cty.Value, bool) {
			if a[0].LengthInt() == 0 {
				return cty.NilVal, false // the function itself reports an error for an empty list
			}
			return cty.NumberIntVal(int64(a[0].LengthInt())), true
		}),
	mkfn("ns::inc", []function.Parameter{{Name: "x", Type: cty.Number}}, nil, constTy(cty.Number),
		func(a []cty.Value) (cty.Value, bool) { return a[0].Add(cty.NumberIntVal(1)), true }),
}

// FuncNames in a fixed order.
func FuncNames() []string {
	var out []string
	for _, f := range fns {
		out = append(out, f.name)
	}
	sort.Strings(out)
	return out
}

// ImplFuncs is the function table for hcl.EvalContext.
func ImplFuncs() map[string]function.Function {
	m := map[string]function.Function{}
	for _, f := range fns {
		m[f.name] = f.impl
	}
	return m
}

// RefScope is the scope for the reference interpreter.
func RefScope() *refeval.Scope {
	fm := map[string]refeval.Func{}
	for _, f := range fns {
		fm[f.name] = f.ref
	}
	return &refeval.Scope{Vars: Vars, Funcs: fm}
}

// FreeVars lists the pool variables an AST refers to (syntactically, not
// counting names bound by enclosing for constructs), in first-use order.
func FreeVars(e *ex.E) []string {
	var out []string
	for _, n := range FreeNames(e) {
		if _, ok := Vars[n]; ok {
			out = append(out, n)
		}
	}
	return out
}

// Closed reports whether every free name of e is a pool variable, i.e. e can
// be evaluated on its own in the pool scope.
func Closed(e *ex.E) bool {
	for _, n := range FreeNames(e) {
		if _, ok := Vars[n]; !ok {
			return false
		}
	}
	return true
}

// FreeNames lists every name that occurs free in e, in first-use order.
func FreeNames(e *ex.E) []string {
	var out []string
	seen := map[string]bool{}
	var walk func(e *ex.E, bound map[string]bool)
	var walkParts func(ps []ex.Part, bound map[string]bool)
	with := func(bound map[string]bool, names ...string) map[string]bool {
		b2 := map[string]bool{}
		for k := range bound {
			b2[k] = true
		}
		for _, n := range names {
			if n != "" {
				b2[n] = true
			}
		}
		return b2
	}
	walkParts = func(ps []ex.Part, bound map[string]bool) {
		for _, p := range ps {
			switch p.K {
			case "interp":
				walk(p.E, bound)
			case "if":
				walk(p.E, bound)
				walkParts(p.Then, bound)
				walkParts(p.Else, bound)
			case "for":
				walk(p.E, bound)
				walkParts(p.Then, with(bound, p.KeyVar, p.ValVar))
			}
		}
	}
	walk = func(e *ex.E, bound map[string]bool) {
		if e == nil {
			return
		}
		switch e.K {
		case "var":
			if !bound[e.S] && !seen[e.S] {
				seen[e.S] = true
				out = append(out, e.S)
			}
			return
		case "for":
			walk(e.A[0], bound)
			b2 := with(bound, e.KeyVar, e.ValVar)
			walk(e.A[1], b2)
			walk(e.A[2], b2)
			walk(e.A[3], b2)
			return
		case "tmpl":
			walkParts(e.Parts, bound)
			return
		}
		for _, c := range e.Children() {
			walk(*c, bound)
		}
	}
	walk(e, map[string]bool{})
	return out
}

// WithVar returns a copy of Vars with one variable replaced.
func WithVar(name string, v cty.Value) map[string]cty.Value {
	m := make(map[string]cty.Value, len(Vars))
	for k, x := range Vars {
		m[k] = x
	}
	m[name] = v
	return m
}

// Alternatives returns other known contents of the same type as the pool
// variable (used as the second run of two-run relations), simplest first.
func Alternatives(name string) []cty.Value {
	v := Vars[name]
	ty := v.Type()
	n := func(i int64) cty.Value { return cty.NumberIntVal(i) }
	s := cty.StringVal
	o := func(a int64, b string) cty.Value {
		return obj(map[string]cty.Value{"a": n(a), "b": s(b), "0": s("zero"), "c": cty.TupleVal([]cty.Value{n(a), n(2)})})
	}
	lo := func(a int64, b ...int64) cty.Value {
		var bs []cty.Value
		for _, x := range b {
			bs = append(bs, n(x))
		}
		if len(bs) == 0 {
			return obj(map[string]cty.Value{"a": n(a), "b": cty.ListValEmpty(cty.Number)})
		}
		return obj(map[string]cty.Value{"a": n(a), "b": cty.ListVal(bs)})
	}
	var out []cty.Value
	switch {
	case ty == cty.Number:
		out = []cty.Value{n(7), cty.NumberFloatVal(2.5), n(0), n(1)}
	case ty == cty.String:
		// the last one starts with a combining mark: concatenated after a
		// letter it composes with that letter under NFC normalisation
		out = []cty.Value{s("b"), s("0"), s("false"), s("a"), s("\u0301z"), s("")}
	case ty == cty.Bool:
		out = []cty.Value{cty.True, cty.False}
	case name == "nl":
		out = []cty.Value{cty.ListVal([]cty.Value{s("a")})}
	case name == "no":
		out = []cty.Value{obj(map[string]cty.Value{"a": n(1)})}
	case name == "ln":
		out = []cty.Value{cty.ListVal([]cty.Value{n(3), n(2), n(1)}), cty.ListVal([]cty.Value{n(1)}), cty.ListValEmpty(cty.Number)}
	case name == "le" || name == "ls":
		out = []cty.Value{cty.ListVal([]cty.Value{s("b"), s("a")}), cty.ListVal([]cty.Value{s("c")}), cty.ListValEmpty(cty.String), Vars["ls"]}
	case name == "ss":
		out = []cty.Value{cty.SetVal([]cty.Value{s("b"), s("c")}), cty.SetVal([]cty.Value{s("a")}), cty.SetValEmpty(cty.String)}
	case name == "sn":
		out = []cty.Value{cty.SetVal([]cty.Value{n(3)}), cty.SetValEmpty(cty.Number)}
	case name == "mn":
		out = []cty.Value{cty.MapVal(map[string]cty.Value{"a": n(5), "b": n(2)}), cty.MapVal(map[string]cty.Value{"c": n(1)}), cty.MapValEmpty(cty.Number)}
	case name == "me":
		out = []cty.Value{cty.MapVal(map[string]cty.Value{"a": s("x")})}
	case name == "o":
		out = []cty.Value{o(2, "x"), o(1, "y")}
	case name == "t":
		out = []cty.Value{cty.TupleVal([]cty.Value{n(2), s("a"), cty.True}), cty.TupleVal([]cty.Value{n(1), s("b"), cty.False})}
	case name == "lo":
		out = []cty.Value{cty.ListVal([]cty.Value{lo(5, 1), lo(2, 2, 3)}), cty.ListVal([]cty.Value{lo(1, 9)}), cty.ListVal([]cty.Value{lo(1, 1), lo(2), lo(3, 4)})}
	case name == "oo":
		out = []cty.Value{obj(map[string]cty.Value{
			"a": obj(map[string]cty.Value{"b": obj(map[string]cty.Value{"c": n(2)})}),
			"l": cty.TupleVal([]cty.Value{obj(map[string]cty.Value{"a": n(3)}), obj(map[string]cty.Value{"a": n(2)})}),
		})}
	}
	var res []cty.Value
	for _, a := range out {
		if !a.RawEquals(v) {
			res = append(res, a)
		}
	}
	return res
}
