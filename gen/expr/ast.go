// Package expr defines an abstract syntax for the HCL native expression and
// template languages that is independent of the implementation under test,
// a renderer to source text (canonical layout with spec-minimal parentheses)
// and an enumerator of layout deviations.
package expr

// E is an expression node. K selects the kind:
//
//	num   S = literal text
//	kw    S = true | false | null
//	var   S = name
//	paren A[0]
//	un    S = "-" | "!"; A[0]
//	bin   S = operator; A[0], A[1]
//	cond  A[0] ? A[1] : A[2]
//	tuple A = elements
//	obj   Items
//	idx   A[0] [ A[1] ]
//	attr  A[0] . S
//	lidx  A[0] . S (digits; legacy index)
//	splat A[0] source; Full; Trail
//	for   A[0] collection, A[1] value expr, A[2] key expr (object form; nil for tuple form), A[3] condition or nil; KeyVar, ValVar, Group
//	call  S = name; A = args; Expand
//	tmpl  Parts; Form = q (quoted) | h (heredoc) | f (flush heredoc) | b (bare, for ParseTemplate)
type E struct {
	K      string `json:"k"`
	S      string `json:"s,omitempty"`
	A      []*E   `json:"a,omitempty"`
	Items  []Item `json:"items,omitempty"`
	Full   bool   `json:"full,omitempty"`
	Trail  []Step `json:"trail,omitempty"`
	KeyVar string `json:"keyvar,omitempty"`
	ValVar string `json:"valvar,omitempty"`
	Obj    bool   `json:"obj,omitempty"`
	Group  bool   `json:"group,omitempty"`
	Expand bool   `json:"expand,omitempty"`
	Parts  []Part `json:"parts,omitempty"`
	Form   string `json:"form,omitempty"`
	Indent int    `json:"indent,omitempty"` // flush heredoc: spaces before each line and the closing marker
	NLSep  bool   `json:"nlsep,omitempty"`  // obj: items separated by newlines instead of commas
	TC     bool   `json:"tc,omitempty"`     // tuple/obj/call: trailing comma after the last element
}

// Item is one element of an object constructor.
type Item struct {
	KK   string `json:"kk"` // "id": bare identifier key Name; "expr": key expression Key
	Name string `json:"name,omitempty"`
	Key  *E     `json:"key,omitempty"`
	Val  *E     `json:"val"`
	Eq   string `json:"eq,omitempty"` // "=" (default) or ":"
}

// Step is one traversal step following a splat operator.
type Step struct {
	K   string `json:"k"` // attr | idx | lidx
	S   string `json:"s,omitempty"`
	Key *E     `json:"key,omitempty"`
}

// Part is one element of a template.
//
//	lit    S = the literal's logical content
//	interp E; Strip[0] = {left, right}
//	if     E = predicate; Then, Else (HasElse); Strip[0]=if, Strip[1]=else, Strip[2]=endif
//	for    E = collection; KeyVar, ValVar; Then = body; Strip[0]=for, Strip[1]=endfor
type Part struct {
	K       string    `json:"k"`
	S       string    `json:"s,omitempty"`
	E       *E        `json:"e,omitempty"`
	Then    []Part    `json:"then,omitempty"`
	Else    []Part    `json:"else,omitempty"`
	HasElse bool      `json:"haselse,omitempty"`
	KeyVar  string    `json:"keyvar,omitempty"`
	ValVar  string    `json:"valvar,omitempty"`
	Strip   [][2]bool `json:"strip,omitempty"`
}

// constructors

func Num(s string) *E            { return &E{K: "num", S: s} }
func Kw(s string) *E             { return &E{K: "kw", S: s} }
func Var(s string) *E            { return &E{K: "var", S: s} }
func Paren(a *E) *E              { return &E{K: "paren", A: []*E{a}} }
func Un(op string, a *E) *E      { return &E{K: "un", S: op, A: []*E{a}} }
func Bin(op string, a, b *E) *E  { return &E{K: "bin", S: op, A: []*E{a, b}} }
func Cond(c, t, f *E) *E         { return &E{K: "cond", A: []*E{c, t, f}} }
func Tuple(a ...*E) *E           { return &E{K: "tuple", A: a} }
func Obj(items ...Item) *E       { return &E{K: "obj", Items: items} }
func Idx(a, k *E) *E             { return &E{K: "idx", A: []*E{a, k}} }
func Attr(a *E, n string) *E     { return &E{K: "attr", S: n, A: []*E{a}} }
func LIdx(a *E, n string) *E     { return &E{K: "lidx", S: n, A: []*E{a}} }
func Call(n string, a ...*E) *E  { return &E{K: "call", S: n, A: a} }
func CallX(n string, a ...*E) *E { return &E{K: "call", S: n, A: a, Expand: true} }
func Splat(src *E, full bool, trail ...Step) *E {
	return &E{K: "splat", A: []*E{src}, Full: full, Trail: trail}
}
func ForT(kv, vv string, coll, val, cond *E) *E {
	return &E{K: "for", KeyVar: kv, ValVar: vv, A: []*E{coll, val, nil, cond}}
}
func ForO(kv, vv string, coll, key, val, cond *E, group bool) *E {
	return &E{K: "for", Obj: true, KeyVar: kv, ValVar: vv, A: []*E{coll, val, key, cond}, Group: group}
}
func Tmpl(form string, parts ...Part) *E { return &E{K: "tmpl", Form: form, Parts: parts} }
func Str(s string) *E                    { return Tmpl("q", Lit(s)) }
func Lit(s string) Part                  { return Part{K: "lit", S: s} }
func Interp(e *E) Part                   { return Part{K: "interp", E: e, Strip: [][2]bool{{false, false}}} }
func InterpS(e *E, l, r bool) Part       { return Part{K: "interp", E: e, Strip: [][2]bool{{l, r}}} }
func IdItem(n string, v *E) Item         { return Item{KK: "id", Name: n, Val: v} }
func ExItem(k *E, v *E) Item             { return Item{KK: "expr", Key: k, Val: v} }
func SAttr(n string) Step                { return Step{K: "attr", S: n} }
func SIdx(k *E) Step                     { return Step{K: "idx", Key: k} }
func SLIdx(n string) Step                { return Step{K: "lidx", S: n} }

// Clone makes a deep copy.
func (e *E) Clone() *E {
	if e == nil {
		return nil
	}
	c := *e
	c.A = make([]*E, len(e.A))
	for i, a := range e.A {
		c.A[i] = a.Clone()
	}
	if len(e.A) == 0 {
		c.A = nil
	}
	c.Items = nil
	for _, it := range e.Items {
		it.Key = it.Key.Clone()
		it.Val = it.Val.Clone()
		c.Items = append(c.Items, it)
	}
	c.Trail = nil
	for _, s := range e.Trail {
		s.Key = s.Key.Clone()
		c.Trail = append(c.Trail, s)
	}
	c.Parts = cloneParts(e.Parts)
	return &c
}

func cloneParts(ps []Part) []Part {
	if ps == nil {
		return nil
	}
	out := make([]Part, len(ps))
	for i, p := range ps {
		p.E = p.E.Clone()
		p.Then = cloneParts(p.Then)
		p.Else = cloneParts(p.Else)
		p.Strip = append([][2]bool(nil), p.Strip...)
		out[i] = p
	}
	return out
}

// Children returns pointers to every direct sub-expression slot of e (for
// generic rewriting such as parenthesisation and shrinking).
func (e *E) Children() []**E {
	var out []**E
	for i := range e.A {
		if e.A[i] != nil {
			out = append(out, &e.A[i])
		}
	}
	for i := range e.Items {
		if e.Items[i].Key != nil {
			out = append(out, &e.Items[i].Key)
		}
		out = append(out, &e.Items[i].Val)
	}
	for i := range e.Trail {
		if e.Trail[i].Key != nil {
			out = append(out, &e.Trail[i].Key)
		}
	}
	var walk func(ps []Part)
	walk = func(ps []Part) {
		for i := range ps {
			if ps[i].E != nil {
				out = append(out, &ps[i].E)
			}
			walk(ps[i].Then)
			walk(ps[i].Else)
		}
	}
	walk(e.Parts)
	return out
}

// Size counts nodes.
func (e *E) Size() int {
	if e == nil {
		return 0
	}
	n := 1
	for _, c := range e.Children() {
		n += (*c).Size()
	}
	return n
}
