package expr

import (
	"fmt"
	"strings"
	"unicode/utf8"
)

// Gap describes the space between two adjacent tokens of a rendering: its
// canonical content and which alternative contents the specification clearly
// admits there.
type Gap struct {
	Canon string // "" or " "
	NL    bool   // a newline (and hence a line comment) is legal here
	Zero  bool   // no space is legal here (tokens cannot fuse)
	Space bool   // spaces / inline comments are legal here
}

// Tok is a token with the gap that precedes it.
type Tok struct {
	Text string
	Gap  Gap
	SNL  bool // Text is a structural newline (not template content)
}

type renderer struct {
	toks []Tok
	nl   []bool // stack: are newlines ignored in the current bracket context?
	next *Gap   // gap override for the next token
}

func (r *renderer) inNL() bool  { return len(r.nl) > 0 && r.nl[len(r.nl)-1] }
func (r *renderer) push(b bool) { r.nl = append(r.nl, b) }
func (r *renderer) pop()        { r.nl = r.nl[:len(r.nl)-1] }

func wordy(c rune) bool {
	return c == '_' || c >= 0x80 || (c >= '0' && c <= '9') || (c >= 'a' && c <= 'z') || (c >= 'A' && c <= 'Z')
}

// fuses reports whether writing a directly before b could change the token
// boundaries (conservative).
func fuses(a, b string) bool {
	if a == "" || b == "" {
		return false
	}
	la, _ := utf8.DecodeLastRuneInString(a)
	fb, _ := utf8.DecodeRuneInString(b)
	if wordy(la) && (wordy(fb) || fb == '-') {
		return true
	}
	if (la >= '0' && la <= '9' && fb == '.') || (la == '.' && fb >= '0' && fb <= '9') {
		return true
	}
	pair := string(la) + string(fb)
	switch pair {
	case "==", "!=", "<=", ">=", "&&", "||", "=>", "::", "..", "//", "/*", "*/", "<<", "${", "%{", "--", "-.", "~}", "{~":
		return true
	}
	return false
}

func (r *renderer) snl() {
	r.next = nil
	r.toks = append(r.toks, Tok{Text: "\n", Gap: Gap{Zero: true}, SNL: true})
}

// emit appends a token. sp: canonical space before it.
func (r *renderer) emit(text string, sp bool) {
	g := Gap{Space: true, NL: r.inNL()}
	if sp {
		g.Canon = " "
	}
	if len(r.toks) == 0 {
		g = Gap{Zero: true} // nothing precedes the first token
	} else {
		g.Zero = !fuses(r.toks[len(r.toks)-1].Text, text)
		if !g.Zero && g.Canon == "" {
			g.Canon = " "
		}
	}
	if r.next != nil {
		g = *r.next
		r.next = nil
	}
	r.toks = append(r.toks, Tok{Text: text, Gap: g})
}

// fixed appends a token that must directly follow the previous one.
func (r *renderer) fixed(text string) {
	r.next = nil
	r.toks = append(r.toks, Tok{Text: text, Gap: Gap{Zero: true}})
}

var binPrec = map[string]int{
	"||": 1, "&&": 2, "==": 3, "!=": 3, "<": 4, "<=": 4, ">": 4, ">=": 4, "+": 5, "-": 5, "*": 6, "/": 6, "%": 6,
}

// BinOps lists the binary operators, lowest precedence first.
var BinOps = []string{"||", "&&", "==", "!=", "<", "<=", ">", ">=", "+", "-", "*", "/", "%"}

// level of an expression for parenthesisation: 0 conditional, 1..6 binary, 7 unary, 8 term
func level(e *E) int {
	switch e.K {
	case "cond":
		return 0
	case "bin":
		return binPrec[e.S]
	case "un":
		return 7
	}
	return 8
}

func (r *renderer) sub(e *E, min int, sp bool) {
	if level(e) < min {
		r.emit("(", sp)
		r.push(true)
		r.expr(e, false)
		r.emit(")", false)
		r.pop()
		return
	}
	r.expr(e, sp)
}

// heredocOK: heredoc templates are only rendered in positions followed by a newline-tolerant context.
func (r *renderer) expr(e *E, sp bool) {
	switch e.K {
	case "num", "kw", "var":
		r.emit(e.S, sp)
	case "paren":
		r.emit("(", sp)
		r.push(true)
		r.expr(e.A[0], false)
		r.emit(")", false)
		r.pop()
	case "un":
		r.emit(e.S, sp)
		r.sub(e.A[0], 8, false) // operand is a term per the grammar; nested unary is parenthesised
	case "bin":
		p := binPrec[e.S]
		r.sub(e.A[0], p, sp)
		r.emit(e.S, true)
		r.sub(e.A[1], p+1, true)
	case "cond":
		// Conditional = Expression "?" Expression ":" Expression: a conditional in
		// either result position needs no parentheses (p ? a : q ? b : c is
		// p ? a : (q ? b : c)); one in the predicate position does
		r.sub(e.A[0], 1, sp)
		r.emit("?", true)
		r.sub(e.A[1], 0, true)
		r.emit(":", true)
		r.sub(e.A[2], 0, true)
	case "tuple":
		r.emit("[", sp)
		r.push(true)
		for i, a := range e.A {
			if i > 0 {
				r.emit(",", false)
			}
			r.expr(a, i > 0)
		}
		if e.TC && len(e.A) > 0 {
			r.emit(",", false)
		}
		r.emit("]", false)
		r.pop()
	case "obj":
		r.emit("{", sp)
		// Inside an object constructor newlines are item separators, so they
		// are only clearly legal after "{", between items and before "}".
		r.push(false)
		for i, it := range e.Items {
			if i > 0 && !e.NLSep {
				r.emit(",", false)
			}
			itemGap := &Gap{Canon: "", NL: true, Zero: true, Space: true}
			if i > 0 {
				itemGap.Canon = " "
			}
			if e.NLSep {
				// the newline is the separator: no alternative content here
				itemGap = &Gap{Canon: "\n"}
			}
			r.next = itemGap
			if it.KK == "id" {
				r.emit(it.Name, i > 0)
			} else {
				k := it.Key
				// a key expression that is a bare variable reference must be
				// parenthesised to mean the variable (spec "Collection Values");
				// other non-template key expressions are parenthesised too so that
				// the grammar's (Identifier | Expression) choice is unambiguous.
				if k.K == "tmpl" || k.K == "num" {
					r.expr(k, i > 0)
				} else {
					r.emit("(", i > 0)
					r.push(true)
					r.expr(k, false)
					r.emit(")", false)
					r.pop()
				}
			}
			eq := it.Eq
			if eq == "" {
				eq = "="
			}
			r.emit(eq, true)
			r.expr(it.Val, true)
		}
		if e.TC && len(e.Items) > 0 && !e.NLSep {
			r.emit(",", false)
		}
		r.next = &Gap{Canon: "", NL: true, Zero: true, Space: true}
		if e.NLSep {
			r.next = &Gap{Canon: "\n"}
		}
		r.emit("}", false)
		r.pop()
	case "idx":
		r.postfixSource(e.A[0], sp)
		r.emit("[", false)
		r.push(true)
		r.expr(e.A[1], false)
		r.emit("]", false)
		r.pop()
	case "attr":
		r.postfixSource(e.A[0], sp)
		r.emit(".", false)
		r.emit(e.S, false)
	case "lidx":
		r.postfixSource(e.A[0], sp)
		r.emit(".", false)
		r.fixed(e.S) // ".0": keep the digits attached so the lexer cannot re-read them
	case "splat":
		r.postfixSource(e.A[0], sp)
		if e.Full {
			r.emit("[", false)
			r.emit("*", false)
			r.emit("]", false)
		} else {
			r.emit(".", false)
			r.emit("*", false)
		}
		for _, s := range e.Trail {
			switch s.K {
			case "attr":
				r.emit(".", false)
				r.emit(s.S, false)
			case "lidx":
				r.emit(".", false)
				r.fixed(s.S)
			case "idx":
				r.emit("[", false)
				r.push(true)
				r.expr(s.Key, false)
				r.emit("]", false)
				r.pop()
			}
		}
	case "for":
		open, close := "[", "]"
		if e.Obj {
			open, close = "{", "}"
		}
		r.emit(open, sp)
		r.push(true)
		r.emit("for", false)
		if e.KeyVar != "" {
			r.emit(e.KeyVar, true)
			r.emit(",", false)
		}
		r.emit(e.ValVar, true)
		r.emit("in", true)
		r.expr(e.A[0], true)
		r.emit(":", false)
		if e.Obj {
			r.expr(e.A[2], true)
			r.emit("=>", true)
		}
		r.expr(e.A[1], true)
		if e.Group {
			r.emit("...", false)
		}
		if e.A[3] != nil {
			r.emit("if", true)
			r.expr(e.A[3], true)
		}
		r.emit(close, false)
		r.pop()
	case "call":
		r.emit(e.S, sp)
		r.fixed("(") // the call parenthesis directly follows the name
		r.push(true)
		for i, a := range e.A {
			if i > 0 {
				r.emit(",", false)
			}
			r.expr(a, i > 0)
		}
		if e.Expand {
			r.emit("...", false)
		} else if e.TC && len(e.A) > 0 {
			r.emit(",", false)
		}
		r.emit(")", false)
		r.pop()
	case "tmpl":
		r.tmpl(e, sp)
	default:
		panic("render: unknown kind " + e.K)
	}
}

// postfixSource renders the operand of a postfix operator; anything that is
// not a plain term, and a splat (whose traversal would absorb the following
// step), is parenthesised.
func (r *renderer) postfixSource(e *E, sp bool) {
	need := level(e) < 8 || e.K == "splat" || e.K == "num"
	if need {
		r.emit("(", sp)
		r.push(true)
		r.expr(e, false)
		r.emit(")", false)
		r.pop()
		return
	}
	r.expr(e, sp)
}

func escQuoted(s string) string {
	var sb strings.Builder
	rs := []rune(s)
	for i, c := range rs {
		switch {
		case c == '"':
			sb.WriteString(`\"`)
		case c == '\\':
			sb.WriteString(`\\`)
		case c == '\n':
			sb.WriteString(`\n`)
		case c == '\r':
			sb.WriteString(`\r`)
		case c == '\t':
			sb.WriteString(`\t`)
		case (c == '$' || c == '%') && i+1 < len(rs) && rs[i+1] == '{':
			sb.WriteRune(c)
			sb.WriteRune(c)
		case c < 0x20 || c == 0x7f:
			fmt.Fprintf(&sb, `\u%04x`, c)
		default:
			sb.WriteRune(c)
		}
	}
	return sb.String()
}

func escRaw(s string) string {
	s = strings.ReplaceAll(s, "${", "$${")
	s = strings.ReplaceAll(s, "%{", "%%{")
	return s
}

func (r *renderer) tmpl(e *E, sp bool) {
	quoted := e.Form == "q"
	switch e.Form {
	case "q":
		r.emit(`"`, sp)
	case "h":
		r.emit("<<EOT", sp)
		r.snl()
	case "f":
		r.emit("<<-EOT", sp)
		r.snl()
		if e.Indent > 0 {
			r.fixed(strings.Repeat(" ", e.Indent))
		}
	case "b":
		// bare template: nothing
		if len(r.toks) == 0 {
			r.toks = append(r.toks, Tok{Text: "", Gap: Gap{Zero: true}})
		}
	}
	// inside template sequences of quoted templates newlines are not legal;
	// in heredoc and bare templates they are ignored.
	r.parts(e.Parts, quoted, e)
	switch e.Form {
	case "q":
		r.fixed(`"`)
	case "h":
		r.fixed("\nEOT")
		r.snl()
	case "f":
		r.fixed("\n" + strings.Repeat(" ", e.Indent) + "EOT")
		r.snl()
	}
}

func (r *renderer) lit(s string, quoted bool, e *E) {
	if quoted {
		r.fixed(escQuoted(s))
		return
	}
	t := escRaw(s)
	if e.Form == "f" && e.Indent > 0 {
		t = strings.ReplaceAll(t, "\n", "\n"+strings.Repeat(" ", e.Indent))
	}
	r.fixed(t)
}

func (r *renderer) seqOpen(intro string, strip bool) {
	if strip {
		intro += "~"
	}
	r.fixed(intro)
}

func (r *renderer) seqClose(strip bool) {
	if strip {
		r.emit("~}", false)
	} else {
		r.emit("}", false)
	}
}

func (r *renderer) parts(ps []Part, quoted bool, e *E) {
	for _, p := range ps {
		st := func(i int) [2]bool {
			if i < len(p.Strip) {
				return p.Strip[i]
			}
			return [2]bool{}
		}
		switch p.K {
		case "lit":
			r.lit(p.S, quoted, e)
		case "interp":
			r.seqOpen("${", st(0)[0])
			r.push(!quoted)
			r.expr(p.E, false)
			r.seqClose(st(0)[1])
			r.pop()
		case "if":
			r.seqOpen("%{", st(0)[0])
			r.push(!quoted)
			r.emit("if", false)
			r.expr(p.E, true)
			r.seqClose(st(0)[1])
			r.pop()
			r.parts(p.Then, quoted, e)
			if p.HasElse {
				r.seqOpen("%{", st(1)[0])
				r.push(!quoted)
				r.emit("else", false)
				r.seqClose(st(1)[1])
				r.pop()
				r.parts(p.Else, quoted, e)
			}
			r.seqOpen("%{", st(2)[0])
			r.push(!quoted)
			r.emit("endif", false)
			r.seqClose(st(2)[1])
			r.pop()
		case "for":
			r.seqOpen("%{", st(0)[0])
			r.push(!quoted)
			r.emit("for", false)
			if p.KeyVar != "" {
				r.emit(p.KeyVar, true)
				r.emit(",", false)
			}
			r.emit(p.ValVar, true)
			r.emit("in", true)
			r.expr(p.E, true)
			r.seqClose(st(0)[1])
			r.pop()
			r.parts(p.Then, quoted, e)
			r.seqOpen("%{", st(1)[0])
			r.push(!quoted)
			r.emit("endfor", false)
			r.seqClose(st(1)[1])
			r.pop()
		}
	}
}

// Tokens renders e to its token/gap sequence.
func Tokens(e *E) []Tok {
	r := &renderer{}
	r.expr(e, false)
	return r.toks
}

// Canon renders e in its canonical layout.
func Canon(e *E) string {
	return Join(Tokens(e), nil)
}

// Dev is one layout deviation: the gap before token I is replaced by Text.
type Dev struct {
	I    int
	Text string
}

// Join writes the tokens with canonical gaps except for the given deviations.
func Join(toks []Tok, devs []Dev) string {
	return join(toks, devs, false)
}

// JoinCRLF is Join with every structural newline (heredoc introducer and
// terminator lines, newline item separators) written as CRLF. Newlines that
// are template content are left alone.
func JoinCRLF(toks []Tok) string {
	return join(toks, nil, true)
}

func join(toks []Tok, devs []Dev, crlf bool) string {
	var sb strings.Builder
	for i, t := range toks {
		g := t.Gap.Canon
		for _, d := range devs {
			if d.I == i {
				g = d.Text
			}
		}
		if crlf {
			g = strings.ReplaceAll(g, "\n", "\r\n")
		}
		sb.WriteString(g)
		if crlf && t.SNL {
			sb.WriteString("\r\n")
		} else {
			sb.WriteString(t.Text)
		}
	}
	return sb.String()
}

// Deviations lists every single-gap layout deviation the specification
// clearly admits for this token sequence.
func Deviations(toks []Tok) []Dev {
	var out []Dev
	for i, t := range toks {
		if i == 0 {
			continue
		}
		g := t.Gap
		if g.Space {
			if g.Canon == " " && g.Zero {
				out = append(out, Dev{i, ""})
			}
			if g.Canon == "" {
				out = append(out, Dev{i, " "})
			}
			out = append(out, Dev{i, "  "}, Dev{i, "\t"}, Dev{i, " /* c */ "})
			if prev := toks[i-1].Text; !strings.HasSuffix(prev, "/") && !strings.HasSuffix(prev, "*") && !strings.HasSuffix(prev, "<") {
				out = append(out, Dev{i, "/**/"})
			}
		}
		if g.NL {
			out = append(out, Dev{i, "\n"}, Dev{i, "\r\n"}, Dev{i, " # c\n"}, Dev{i, " // c\n  "}, Dev{i, "\n\n\t"})
		}
	}
	return out
}
