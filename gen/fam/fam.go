// Package fam enumerates the expression/template AST families shared by the
// expression-based checks (C01, C05, C06, C07, C19). Every family is a
// complete finite product over the atom pool; the order is simplest-first.
package fam

import (
	"fmt"

	ex "verif/gen/expr"
	"verif/gen/pool"
)

type Emit func(family string, id string, e *ex.E) bool

// Opts selects sizes.
type Opts struct {
	Thorough bool
	// Reduced selects a smaller product for checks that multiply each AST by
	// another dimension (scope variations, value pairs, ...).
	Reduced bool
}

func atoms(o Opts) []*ex.E {
	if o.Reduced {
		return pool.SmallAtoms()
	}
	return pool.Atoms()
}

// All enumerates every family.
func All(o Opts, emit Emit) {
	n := 0
	e := func(f string, x *ex.E) bool {
		n++
		return emit(f, fmt.Sprintf("%s/%d", f, n), x)
	}
	fams := []func(Opts, func(string, *ex.E) bool) bool{F1, F2, F3, F4, F5, F6, F7, F8, F9, F10, F11, F2s, F3s}
	for _, f := range fams {
		if !f(o, e) {
			return
		}
	}
}

// F1: unary operator x atom.
func F1(o Opts, emit func(string, *ex.E) bool) bool {
	for _, op := range []string{"-", "!"} {
		for _, a := range atoms(o) {
			if !emit("F1-unary", ex.Un(op, a)) {
				return false
			}
		}
	}
	return true
}

// F2: binary operator x atom x atom.
func F2(o Opts, emit func(string, *ex.E) bool) bool {
	for _, op := range ex.BinOps {
		for _, a := range atoms(o) {
			for _, b := range atoms(o) {
				if !emit("F2-binary", ex.Bin(op, a, b)) {
					return false
				}
			}
		}
	}
	return true
}

// F2s: equality of structural values that differ in one nested position.
func F2s(o Opts, emit func(string, *ex.E) bool) bool {
	ops := []*ex.E{ex.Num("1"), ex.Str("a"), ex.Var("one"), ex.Var("two"), ex.Var("sa"), ex.Var("s1"), ex.Var("bt"), ex.Var("ln"), ex.Var("o"), ex.Kw("null")}
	shapes := []func(x *ex.E) *ex.E{
		func(x *ex.E) *ex.E { return ex.Tuple(x) },
		func(x *ex.E) *ex.E { return ex.Obj(ex.IdItem("k", x)) },
		func(x *ex.E) *ex.E { return ex.Tuple(x, ex.Str("k")) },
		func(x *ex.E) *ex.E { return ex.Obj(ex.IdItem("k", x), ex.IdItem("n", ex.Num("1"))) },
		func(x *ex.E) *ex.E { return ex.Tuple(ex.Tuple(x)) },
	}
	for _, op := range []string{"==", "!="} {
		for _, sh := range shapes {
			for _, a := range ops {
				for _, b := range ops {
					if !emit("F2-binary", ex.Bin(op, sh(a), sh(b))) {
						return false
					}
				}
			}
		}
	}
	return true
}

// F3: conditional x predicates x atom x atom.
func F3(o Opts, emit func(string, *ex.E) bool) bool {
	preds := []*ex.E{ex.Kw("true"), ex.Kw("false"), ex.Kw("null"), ex.Str("true"), ex.Num("1"), ex.Var("bf"), ex.Var("nb")}
	for _, p := range preds {
		for _, a := range atoms(o) {
			for _, b := range atoms(o) {
				if !emit("F3-conditional", ex.Cond(p, a, b)) {
					return false
				}
			}
		}
	}
	return true
}

// F3s: conditional whose results are a tuple constructor (with equal or convertible-to-equal
// elements) and a collection variable, so that the result is converted to a set / list / map.
func F3s(o Opts, emit func(string, *ex.E) bool) bool {
	tuples := []*ex.E{
		ex.Tuple(ex.Var("sa"), ex.Var("sa")), ex.Tuple(ex.Var("sa"), ex.Var("s1")), ex.Tuple(ex.Str("1"), ex.Num("1")), ex.Tuple(ex.Var("sa")),
		ex.Tuple(ex.Var("one"), ex.Var("two")), ex.Tuple(ex.Var("one"), ex.Var("one"), ex.Var("two")), ex.Tuple(),
	}
	colls := []*ex.E{ex.Var("ss"), ex.Var("ls"), ex.Var("ln"), ex.Var("sn")}
	objs := []*ex.E{ex.Obj(ex.IdItem("a", ex.Var("one"))), ex.Obj(ex.IdItem("a", ex.Var("one")), ex.IdItem("b", ex.Var("two")))}
	for _, p := range []*ex.E{ex.Var("bt"), ex.Var("bf")} {
		for _, c := range colls {
			for _, t := range tuples {
				if !emit("F3-conditional", ex.Cond(p, t, c)) || !emit("F3-conditional", ex.Cond(p, c, t)) {
					return false
				}
			}
		}
		for _, ob := range objs {
			if !emit("F3-conditional", ex.Cond(p, ob, ex.Var("mn"))) || !emit("F3-conditional", ex.Cond(p, ex.Var("mn"), ob)) {
				return false
			}
		}
	}
	return true
}

// F4: precedence and associativity: every ordered pair of binary operators in
// both groupings over operand triples, unary operators in operand positions,
// conditionals with binary operands.
func F4(o Opts, emit func(string, *ex.E) bool) bool {
	ops := []*ex.E{ex.Var("two"), ex.Var("one"), ex.Var("half"), ex.Var("bt"), ex.Var("bf")}
	if o.Reduced {
		ops = []*ex.E{ex.Var("two"), ex.Var("half"), ex.Var("bf")}
	}
	for _, op1 := range ex.BinOps {
		for _, op2 := range ex.BinOps {
			for _, a := range ops {
				for _, b := range ops {
					for _, c := range ops {
						if !emit("F4-precedence", ex.Bin(op2, ex.Bin(op1, a, b), c)) {
							return false
						}
						if !emit("F4-precedence", ex.Bin(op1, a, ex.Bin(op2, b, c))) {
							return false
						}
					}
				}
			}
		}
	}
	a, b, c := ex.Var("two"), ex.Var("half"), ex.Var("bf")
	for _, op := range ex.BinOps {
		for _, u := range []string{"-", "!"} {
			for _, x := range []*ex.E{a, c} {
				for _, y := range []*ex.E{b, c} {
					cases := []*ex.E{
						ex.Bin(op, ex.Un(u, x), y), ex.Bin(op, x, ex.Un(u, y)), ex.Un(u, ex.Bin(op, x, y)),
						ex.Un(u, ex.Un(u, x)),
					}
					for _, cs := range cases {
						if !emit("F4-precedence", cs) {
							return false
						}
					}
				}
			}
		}
		conds := []*ex.E{
			ex.Cond(ex.Bin(op, a, b), a, b), ex.Cond(ex.Bin(op, c, c), a, b),
			ex.Cond(c, ex.Bin(op, a, b), b), ex.Cond(ex.Kw("true"), a, ex.Bin(op, a, b)), ex.Cond(ex.Kw("false"), a, ex.Bin(op, a, b)),
			ex.Bin(op, ex.Cond(c, a, b), b), ex.Bin(op, a, ex.Cond(c, a, b)),
			ex.Cond(ex.Cond(c, c, ex.Kw("true")), a, b), ex.Cond(c, a, ex.Cond(c, a, b)), ex.Cond(ex.Kw("true"), ex.Cond(c, a, b), b),
		}
		for _, cs := range conds {
			if !emit("F4-precedence", cs) {
				return false
			}
		}
	}
	// chains of conditionals (the operator is right-associative: p ? a : q ? b : c is
	// p ? a : (q ? b : c)) for every combination of true / false conditions, and the
	// two groupings that need parentheses
	bools := []*ex.E{ex.Var("bt"), ex.Var("bf"), ex.Kw("true"), ex.Kw("false"), ex.Bin(">", ex.Var("two"), ex.Num("1"))}
	x, y, z := ex.Var("two"), ex.Var("sa"), ex.Var("half")
	for _, p := range bools {
		for _, q := range bools {
			chain := []*ex.E{
				ex.Cond(p, x, ex.Cond(q, y, z)),
				ex.Cond(ex.Cond(p, q, p), x, z),
				ex.Cond(p, ex.Cond(q, x, y), z),
				ex.Cond(p, x, ex.Cond(q, y, ex.Cond(p, z, x))),
			}
			for _, cs := range chain {
				if !emit("F4-precedence", cs) {
					return false
				}
			}
		}
	}
	return true
}

func colls() []*ex.E {
	return []*ex.E{ex.Var("ln"), ex.Var("le"), ex.Var("ls"), ex.Var("ss"), ex.Var("mn"), ex.Var("me"), ex.Var("o"), ex.Var("t"), ex.Var("te"),
		ex.Var("lo"), ex.Var("oo"), ex.Var("nl"), ex.Var("no"), ex.Var("nd"), ex.Var("sa"), ex.Var("one"),
		ex.Tuple(ex.Num("1"), ex.Str("a")), ex.Obj(ex.IdItem("a", ex.Num("1")), ex.ExItem(ex.Str("0"), ex.Str("z")))}
}

// F5: index / attribute / legacy index.
func F5(o Opts, emit func(string, *ex.E) bool) bool {
	keys := []*ex.E{ex.Num("0"), ex.Num("1"), ex.Num("2"), ex.Num("3"), ex.Un("-", ex.Num("1")), ex.Num("1.5"), ex.Str("0"), ex.Str("a"), ex.Str("zz"),
		ex.Kw("true"), ex.Kw("null"), ex.Var("one"), ex.Var("sa"), ex.Var("s1"), ex.Var("nn"), ex.Var("half"), ex.Bin("+", ex.Var("zero"), ex.Num("1"))}
	for _, c := range colls() {
		for _, k := range keys {
			if !emit("F5-index", ex.Idx(c, k)) {
				return false
			}
		}
		for _, n := range []string{"a", "b", "zz", "c"} {
			if !emit("F5-index", ex.Attr(c, n)) {
				return false
			}
		}
		for _, n := range []string{"0", "1", "9"} {
			if !emit("F5-index", ex.LIdx(c, n)) {
				return false
			}
		}
	}
	chains := []*ex.E{
		ex.Attr(ex.Attr(ex.Attr(ex.Var("oo"), "a"), "b"), "c"),
		ex.Attr(ex.Idx(ex.Attr(ex.Var("oo"), "l"), ex.Num("0")), "a"),
		ex.Attr(ex.LIdx(ex.Attr(ex.Var("oo"), "l"), "1"), "a"),
		ex.Idx(ex.Attr(ex.Idx(ex.Var("lo"), ex.Num("1")), "b"), ex.Num("0")),
		ex.Idx(ex.Attr(ex.Var("o"), "c"), ex.Num("1")),
		ex.LIdx(ex.Attr(ex.Var("o"), "c"), "1"),
		ex.Idx(ex.Var("o"), ex.Str("0")),
		ex.Idx(ex.Idx(ex.Var("lo"), ex.Var("one")), ex.Str("a")),
		ex.Attr(ex.Idx(ex.Var("lo"), ex.Num("5")), "a"),
		ex.Idx(ex.Paren(ex.Var("ln")), ex.Num("0")),
		ex.Attr(ex.Call("id", ex.Var("o")), "a"),
		ex.Idx(ex.Call("id", ex.Var("ln")), ex.Num("1")),
		ex.Idx(ex.Tuple(ex.Var("ln"), ex.Var("ls")), ex.Num("1")),
		ex.Attr(ex.Obj(ex.IdItem("a", ex.Var("o"))), "a"),
		ex.Idx(ex.Str("abc"), ex.Num("0")),
		ex.Idx(ex.Var("mn"), ex.Idx(ex.Var("ls"), ex.Num("0"))),
		ex.Bin("==", ex.Idx(ex.Tuple(ex.Var("one"), ex.Str("a")), ex.Var("zero")), ex.Var("one")),
		ex.Bin("==", ex.Idx(ex.Tuple(ex.Num("1"), ex.Str("1")), ex.Var("zero")), ex.Num("1")),
		ex.Idx(ex.Tuple(ex.Tuple(ex.Var("sa")), ex.Var("ls")), ex.Var("zero")),
		ex.Idx(ex.Tuple(ex.Var("one"), ex.Str("a"), ex.Kw("true")), ex.Var("one")),
		ex.Attr(ex.Idx(ex.Tuple(ex.Var("o"), ex.Obj(ex.IdItem("a", ex.Str("s")))), ex.Var("zero")), "a"),
	}
	for _, c := range chains {
		if !emit("F5-index", c) {
			return false
		}
	}
	return true
}

// F6: both splat operators x every atom as source x trailing traversals.
func F6(o Opts, emit func(string, *ex.E) bool) bool {
	trails := [][]ex.Step{
		nil,
		{ex.SAttr("a")},
		{ex.SAttr("b")},
		{ex.SAttr("a"), ex.SIdx(ex.Num("0"))},
		{ex.SAttr("b"), ex.SIdx(ex.Num("0"))},
		{ex.SIdx(ex.Num("0"))},
		{ex.SAttr("b"), ex.SLIdx("0")},
		{ex.SLIdx("0")},
		{ex.SAttr("zz")},
		{ex.SIdx(ex.Str("a"))},
		{ex.SIdx(ex.Var("sa"))},
		{ex.SIdx(ex.Var("zero"))},
		{ex.SAttr("b"), ex.SIdx(ex.Var("zero"))},
	}
	srcs := append(atoms(o), ex.Tuple(ex.Var("o"), ex.Var("o")), ex.Tuple(), ex.Attr(ex.Var("oo"), "l"), ex.Tuple(ex.Var("ln"), ex.Var("ln")), ex.Var("leo"), ex.Var("seo"), ex.Var("let"))
	for _, full := range []bool{false, true} {
		for _, s := range srcs {
			for _, tr := range trails {
				if !emit("F6-splat", ex.Splat(s, full, tr...)) {
					return false
				}
			}
		}
	}
	// nested splats and splats inside other constructs
	nested := []*ex.E{
		ex.Splat(ex.Splat(ex.Var("lo"), true, ex.SAttr("b")), true),
		ex.Splat(ex.Var("lo"), true, ex.SAttr("b"), ex.SIdx(ex.Num("0"))),
		ex.Splat(ex.Splat(ex.Var("lo"), false, ex.SAttr("b")), false),
		ex.Splat(ex.Attr(ex.Var("oo"), "l"), true, ex.SAttr("a")),
		ex.Splat(ex.Attr(ex.Var("oo"), "l"), false, ex.SAttr("a")),
		ex.Idx(ex.Splat(ex.Var("lo"), true, ex.SAttr("a")), ex.Num("1")),
		ex.Idx(ex.Splat(ex.Var("lo"), false, ex.SAttr("a")), ex.Num("1")),
		ex.Attr(ex.Splat(ex.Var("lo"), true), "a"),
		ex.Bin("==", ex.Splat(ex.Var("t"), true), ex.Var("t")),
		ex.ForT("", "v", ex.Splat(ex.Var("lo"), true, ex.SAttr("a")), ex.Bin("+", ex.Var("v"), ex.Num("1")), nil),
		ex.Tuple(ex.Splat(ex.Var("one"), true), ex.Splat(ex.Var("nn"), false)),
		ex.Splat(ex.Tuple(ex.Tuple(ex.Num("1"), ex.Num("2")), ex.Tuple(ex.Num("3"))), true, ex.SIdx(ex.Num("0"))),
		ex.Splat(ex.Tuple(ex.Var("o"), ex.Var("oo")), true, ex.SAttr("a")),
		ex.CallX("cat", ex.Splat(ex.Var("ls"), true)),
		ex.Tmpl("q", ex.Lit("x"), ex.Interp(ex.Idx(ex.Splat(ex.Var("lo"), true, ex.SAttr("a")), ex.Num("0")))),
	}
	for _, c := range nested {
		if !emit("F6-splat", c) {
			return false
		}
	}
	return true
}

// F7: for expressions over every atom as collection.
func F7(o Opts, emit func(string, *ex.E) bool) bool {
	k, v := ex.Var("k"), ex.Var("v")
	srcs := append(atoms(o), ex.Tuple(ex.Str("a"), ex.Str("a"), ex.Str("b")), ex.Obj(ex.IdItem("b", ex.Num("1")), ex.IdItem("a", ex.Num("2"))), ex.Tuple(ex.Kw("null"), ex.Num("1")))
	for _, c := range srcs {
		forms := []*ex.E{
			ex.ForT("", "v", c, v, nil),
			ex.ForT("k", "v", c, k, nil),
			ex.ForT("k", "v", c, ex.Tuple(k, v), nil),
			ex.ForT("", "v", c, v, ex.Bin("!=", v, ex.Num("1"))),
			ex.ForT("k", "v", c, v, ex.Bin("==", k, ex.Num("0"))),
			ex.ForT("k", "v", c, v, v),
			ex.ForT("", "v", c, v, ex.Kw("null")),
			ex.ForT("", "v", c, ex.Bin("+", v, ex.Num("1")), nil),
			ex.ForO("k", "v", c, k, v, nil, false),
			ex.ForO("k", "v", c, v, k, nil, false),
			ex.ForO("k", "v", c, v, k, nil, true),
			ex.ForO("k", "v", c, ex.Str("x"), v, nil, true),
			ex.ForO("k", "v", c, ex.Str("x"), v, nil, false),
			ex.ForO("", "v", c, v, v, ex.Bin("!=", v, ex.Str("a")), false),
			ex.ForO("k", "v", c, ex.Kw("null"), v, nil, false),
			ex.ForO("k", "v", c, ex.Tmpl("q", ex.Lit("k"), ex.Interp(k)), v, nil, false),
			ex.ForO("k", "v", c, k, v, ex.Bin(">", v, ex.Num("1")), false),
			ex.ForT("k", "v", c, k, ex.Bin(">", v, ex.Num("1"))),
		}
		for _, f := range forms {
			if !emit("F7-for", f) {
				return false
			}
		}
	}
	// scoping: iteration variable shadowing a global, nested for
	extra := []*ex.E{
		ex.ForT("", "one", ex.Var("ln"), ex.Bin("+", ex.Var("one"), ex.Var("two")), nil),
		ex.ForT("", "v", ex.Var("ln"), ex.ForT("", "w", ex.Var("ls"), ex.Tuple(v, ex.Var("w")), nil), nil),
		ex.ForT("", "v", ex.Var("lo"), ex.ForT("", "v", ex.Attr(v, "b"), v, nil), nil),
		ex.ForT("", "ln", ex.Var("ln"), ex.Var("ln"), nil),
		ex.Bin("+", ex.Idx(ex.ForT("", "v", ex.Var("ln"), v, nil), ex.Num("0")), ex.Var("one")),
		ex.ForO("k", "v", ex.Var("mn"), k, ex.Bin("*", v, ex.Num("2")), ex.Bin(">", v, ex.Num("1")), false),
		ex.ForO("k", "v", ex.Var("lo"), k, ex.Attr(v, "a"), ex.Bin(">", ex.Attr(v, "a"), ex.Num("1")), false),
		ex.ForT("", "v", ex.Var("lo"), ex.Attr(v, "a"), ex.Bin(">", ex.Attr(v, "a"), ex.Num("1"))),
		ex.ForO("", "v", ex.Var("lo"), ex.Tmpl("q", ex.Lit("k"), ex.Interp(ex.Attr(v, "a"))), ex.Attr(v, "b"), ex.Bin("<", ex.Attr(v, "a"), ex.Num("2")), true),
	}
	for _, f := range extra {
		if !emit("F7-for", f) {
			return false
		}
	}
	return true
}

// F8: function calls: fixed arity, variadic, dynamic parameter, null-accepting, namespaced; expansion.
func F8(o Opts, emit func(string, *ex.E) bool) bool {
	args := []*ex.E{ex.Num("1"), ex.Str("a"), ex.Str("2"), ex.Kw("true"), ex.Kw("null"), ex.Var("ns"), ex.Var("ln"), ex.Var("ls"), ex.Var("t"), ex.Var("o"), ex.Var("ss"), ex.Var("le")}
	if o.Reduced {
		args = args[:6]
	}
	exps := []*ex.E{ex.Var("t"), ex.Var("te"), ex.Var("ln"), ex.Var("ls"), ex.Var("le"), ex.Var("ss"), ex.Var("nl"), ex.Var("nd"), ex.Var("sa"),
		ex.Tuple(ex.Num("1"), ex.Str("2")), ex.Tuple(ex.Str("a"), ex.Kw("null"))}
	names := append(pool.FuncNames(), "nosuch")
	for _, n := range names {
		if !emit("F8-call", ex.Call(n)) {
			return false
		}
		for _, a := range args {
			if !emit("F8-call", ex.Call(n, a)) {
				return false
			}
			for _, b := range args {
				if !emit("F8-call", ex.Call(n, a, b)) {
					return false
				}
			}
		}
		if !emit("F8-call", ex.Call(n, ex.Num("1"), ex.Num("2"), ex.Num("3"))) {
			return false
		}
		for _, x := range exps {
			if !emit("F8-call", ex.CallX(n, x)) {
				return false
			}
			for _, a := range args[:4] {
				if !emit("F8-call", ex.CallX(n, a, x)) {
					return false
				}
			}
		}
	}
	tc := ex.Call("add", ex.Num("1"), ex.Num("2"))
	tc.TC = true
	if !emit("F8-call", tc) {
		return false
	}
	// the same call evaluated once per element of an enclosing construct
	x := ex.Var("x")
	lists := ex.Tuple(ex.Var("ls"), ex.Tuple(ex.Str("p"), ex.Str("q")), ex.Var("le"), ex.Tuple(ex.Str("r")))
	per := []*ex.E{
		ex.ForT("", "x", lists, ex.CallX("cat", x), nil),
		ex.ForT("", "x", lists, ex.CallX("cat", ex.Str("0"), x), nil),
		ex.ForT("", "x", ex.Tuple(ex.Var("ln"), ex.Tuple(ex.Num("5"), ex.Num("6"))), ex.CallX("add", x), nil),
		ex.ForO("k", "x", lists, ex.Var("k"), ex.CallX("cat", x), nil, false),
		ex.Tmpl("q", ex.Part{K: "for", E: lists, ValVar: "x", Then: []ex.Part{ex.Interp(ex.CallX("cat", x)), ex.Lit(";")}, Strip: [][2]bool{{}, {}}}),
		ex.Tuple(ex.CallX("cat", ex.Var("ls")), ex.CallX("cat", ex.Var("ls"))),
		ex.Splat(lists, true, ex.SIdx(ex.Num("0"))),
	}
	for _, e := range per {
		if !emit("F8-call", e) {
			return false
		}
	}
	return true
}

// F9: tuple and object constructors.
func F9(o Opts, emit func(string, *ex.E) bool) bool {
	sm := pool.SmallAtoms()
	if !emit("F9-cons", ex.Tuple()) {
		return false
	}
	for _, a := range sm {
		if !emit("F9-cons", ex.Tuple(a)) {
			return false
		}
		for _, b := range sm {
			if !emit("F9-cons", ex.Tuple(a, b)) {
				return false
			}
			if o.Reduced {
				continue
			}
			for _, c := range sm {
				if !emit("F9-cons", ex.Tuple(a, b, c)) {
					return false
				}
			}
		}
	}
	t := ex.Tuple(ex.Num("1"), ex.Num("2"))
	t.TC = true
	if !emit("F9-cons", t) {
		return false
	}
	keys := []ex.Item{
		ex.IdItem("a", nil), ex.IdItem("b-c", nil), ex.IdItem("if", nil), ex.IdItem("true", nil), ex.IdItem("null", nil), ex.IdItem("é", nil),
		ex.ExItem(ex.Num("1"), nil), ex.ExItem(ex.Num("1.5"), nil), ex.ExItem(ex.Str("a"), nil), ex.ExItem(ex.Str("a b"), nil), ex.ExItem(ex.Str(""), nil),
		ex.ExItem(ex.Var("sa"), nil), ex.ExItem(ex.Var("one"), nil), ex.ExItem(ex.Var("bt"), nil), ex.ExItem(ex.Var("ns"), nil), ex.ExItem(ex.Var("ln"), nil),
		ex.ExItem(ex.Var("for"), nil), ex.ExItem(ex.Bin("+", ex.Var("one"), ex.Num("1")), nil),
		ex.ExItem(ex.Tmpl("q", ex.Lit("k"), ex.Interp(ex.Var("sa"))), nil), ex.ExItem(ex.Kw("null"), nil),
	}
	vals := []*ex.E{ex.Num("1"), ex.Var("ln"), ex.Kw("null")}
	if !emit("F9-cons", ex.Obj()) {
		return false
	}
	for _, k := range keys {
		for _, v := range vals {
			for _, eq := range []string{"=", ":"} {
				it := k
				it.Val = v
				it.Eq = eq
				if !emit("F9-cons", ex.Obj(it)) {
					return false
				}
			}
		}
		// second position (also with "for" as a later bare key), every separator style
		for _, k2 := range append(keys, ex.IdItem("for", nil)) {
			i1, i2 := k, k2
			i1.Val, i2.Val = ex.Num("1"), ex.Str("x")
			for style := 0; style < 3; style++ {
				ob := ex.Obj(i1, i2)
				switch style {
				case 1:
					ob.NLSep = true
				case 2:
					ob.TC = true
				}
				if !emit("F9-cons", ob) {
					return false
				}
			}
		}
	}
	return true
}

func partAlphabet(o Opts) (lits []ex.Part, seqs []ex.Part) {
	for _, s := range []string{"a", " a ", "x y", "${", "%{", " ", "$", "a\n", " \n b", "\"\\"} {
		lits = append(lits, ex.Lit(s))
	}
	strips := [][2]bool{{false, false}, {true, false}, {false, true}, {true, true}}
	for _, e := range []*ex.E{ex.Var("sa"), ex.Var("one"), ex.Var("bt"), ex.Var("nn"), ex.Var("ln"), ex.Var("half")} {
		for _, st := range strips {
			seqs = append(seqs, ex.InterpS(e, st[0], st[1]))
		}
	}
	for _, st := range strips {
		seqs = append(seqs,
			ex.Part{K: "if", E: ex.Var("bt"), Then: []ex.Part{ex.Lit(" T ")}, Strip: [][2]bool{st, {}, st}},
			ex.Part{K: "if", E: ex.Var("bf"), Then: []ex.Part{ex.Lit(" T ")}, HasElse: true, Else: []ex.Part{ex.Lit(" E ")}, Strip: [][2]bool{st, st, st}},
			ex.Part{K: "for", E: ex.Var("ls"), ValVar: "v", Then: []ex.Part{ex.Lit(" <"), ex.Interp(ex.Var("v")), ex.Lit("> ")}, Strip: [][2]bool{st, st}},
		)
	}
	seqs = append(seqs,
		ex.Part{K: "if", E: ex.Var("nb"), Then: []ex.Part{ex.Lit("T")}, Strip: [][2]bool{{}, {}, {}}},
		ex.Part{K: "if", E: ex.Var("sa"), Then: []ex.Part{ex.Lit("T")}, Strip: [][2]bool{{}, {}, {}}},
		ex.Part{K: "if", E: ex.Var("bt"), Then: []ex.Part{ex.Interp(ex.Var("one"))}, HasElse: true, Else: []ex.Part{ex.Interp(ex.Var("nn"))}, Strip: [][2]bool{{}, {}, {}}},
		ex.Part{K: "for", E: ex.Var("mn"), KeyVar: "k", ValVar: "v", Then: []ex.Part{ex.Interp(ex.Var("k")), ex.Lit("="), ex.Interp(ex.Var("v")), ex.Lit(",")}, Strip: [][2]bool{{}, {}}},
		ex.Part{K: "for", E: ex.Var("one"), ValVar: "v", Then: []ex.Part{ex.Lit("x")}, Strip: [][2]bool{{}, {}}},
		ex.Part{K: "for", E: ex.Var("nl"), ValVar: "v", Then: []ex.Part{ex.Lit("x")}, Strip: [][2]bool{{}, {}}},
		ex.Part{K: "for", E: ex.Var("ss"), KeyVar: "k", ValVar: "v", Then: []ex.Part{ex.Interp(ex.Bin("==", ex.Var("k"), ex.Var("v")))}, Strip: [][2]bool{{}, {}}},
		ex.Part{K: "if", E: ex.Var("bt"), Then: []ex.Part{ex.Part{K: "for", E: ex.Var("ln"), ValVar: "v", Then: []ex.Part{ex.Interp(ex.Var("v"))}, Strip: [][2]bool{{}, {}}}}, Strip: [][2]bool{{}, {}, {}}},
		// branches that are exactly one interpolation, of types that have no common type other than through the string rendering
		ex.Part{K: "if", E: ex.Var("bt"), Then: []ex.Part{ex.Interp(ex.Var("bt"))}, HasElse: true, Else: []ex.Part{ex.Interp(ex.Var("one"))}, Strip: [][2]bool{{}, {}, {}}},
		ex.Part{K: "if", E: ex.Var("bf"), Then: []ex.Part{ex.Interp(ex.Var("one"))}, HasElse: true, Else: []ex.Part{ex.Interp(ex.Var("bt"))}, Strip: [][2]bool{{}, {}, {}}},
		ex.Part{K: "if", E: ex.Var("bt"), Then: []ex.Part{ex.Interp(ex.Var("sa"))}, HasElse: true, Else: []ex.Part{ex.Interp(ex.Var("ln"))}, Strip: [][2]bool{{}, {}, {}}},
		ex.Part{K: "if", E: ex.Var("bt"), Then: []ex.Part{ex.Interp(ex.Var("one"))}, Strip: [][2]bool{{}, {}, {}}},
		ex.Part{K: "for", E: ex.Var("t"), ValVar: "v", Then: []ex.Part{ex.Interp(ex.Var("v"))}, Strip: [][2]bool{{}, {}}},
		// iterations that may render nothing at all
		ex.Part{K: "for", E: ex.Var("ls"), ValVar: "v", Then: []ex.Part{ex.Interp(ex.Var("v"))}, Strip: [][2]bool{{}, {}}},
		ex.Part{K: "for", E: ex.Var("lo"), ValVar: "v", Then: []ex.Part{ex.Part{K: "if", E: ex.Bin(">", ex.Attr(ex.Var("v"), "a"), ex.Num("1")), Then: []ex.Part{ex.Lit("+")}, Strip: [][2]bool{{}, {}, {}}}}, Strip: [][2]bool{{}, {}}},
	)
	return
}

// F10: templates: all part sequences (literal/sequence alternation) of length <= 3, in every form.
func F10(o Opts, emit func(string, *ex.E) bool) bool {
	lits, seqs := partAlphabet(o)
	if o.Reduced {
		lits = lits[:4]
		var s2 []ex.Part
		for i, s := range seqs {
			if i%4 == 0 || i%4 == 3 || i >= 36 {
				s2 = append(s2, s)
			}
		}
		seqs = s2
	}
	var seqsList [][]ex.Part
	for _, l := range lits {
		seqsList = append(seqsList, []ex.Part{l})
	}
	for _, s := range seqs {
		seqsList = append(seqsList, []ex.Part{s})
	}
	for _, l := range lits {
		for _, s := range seqs {
			seqsList = append(seqsList, []ex.Part{l, s}, []ex.Part{s, l})
		}
	}
	for _, s := range seqs {
		for _, s2 := range seqs {
			seqsList = append(seqsList, []ex.Part{s, s2})
		}
	}
	l3 := lits
	if !o.Thorough {
		l3 = lits[:6]
	}
	for _, l := range l3 {
		for _, s := range seqs {
			for _, l2 := range l3 {
				seqsList = append(seqsList, []ex.Part{l, s, l2})
			}
		}
	}
	if o.Thorough {
		for _, s := range seqs {
			for _, l := range lits {
				for _, s2 := range seqs {
					seqsList = append(seqsList, []ex.Part{s, l, s2})
				}
			}
		}
	}
	forms := []struct {
		f      string
		indent int
	}{{"q", 0}, {"h", 0}, {"b", 0}, {"f", 0}, {"f", 2}, {"f", 4}}
	for _, ps := range seqsList {
		if !renderable(ps) {
			continue
		}
		for _, fm := range forms {
			t := ex.Tmpl(fm.f, ps...)
			t.Indent = fm.indent
			if !emit("F10-template", t) {
				return false
			}
		}
	}
	// templates as operands of other constructs
	s := ex.Tmpl("q", ex.Lit("n="), ex.Interp(ex.Var("one")))
	for _, e := range []*ex.E{
		ex.Bin("==", s, ex.Str("n=1")), ex.Tuple(s, ex.Tmpl("h", ex.Lit("a"), ex.Interp(ex.Var("sa")))), ex.Call("cat", s, ex.Tmpl("h", ex.Lit("l1\nl2"))),
		ex.Tmpl("q", ex.Interp(ex.Tmpl("q", ex.Interp(ex.Var("bt"))))), ex.Tmpl("q", ex.Interp(ex.Tmpl("q", ex.Lit("a"), ex.Interp(ex.Var("bt"))))),
		ex.Obj(ex.IdItem("a", ex.Tmpl("f", ex.Lit("  x\n    y")))),
	} {
		if !emit("F10-template", e) {
			return false
		}
	}
	return true
}

// renderable: a literal ending in "$" or "%" directly followed by a template
// sequence cannot be written down (it would read as an escape).
func renderable(ps []ex.Part) bool {
	for i, p := range ps {
		if p.K == "lit" && i+1 < len(ps) && ps[i+1].K != "lit" {
			if n := len(p.S); n > 0 && (p.S[n-1] == '$' || p.S[n-1] == '%') {
				return false
			}
		}
	}
	return true
}

// F11: cross-construct nesting: every shape applied to (shape applied to small atoms).
func F11(o Opts, emit func(string, *ex.E) bool) bool {
	sm := pool.SmallAtoms()
	if o.Reduced {
		sm = sm[:5]
	}
	shapes1 := func(a *ex.E) []*ex.E {
		return []*ex.E{
			ex.Un("-", a), ex.Un("!", a), ex.Tuple(a), ex.Obj(ex.IdItem("a", a)), ex.Idx(a, ex.Num("0")), ex.Attr(a, "a"),
			ex.Splat(a, true), ex.Splat(a, false, ex.SAttr("a")), ex.ForT("", "v", a, ex.Var("v"), nil), ex.Call("id", a),
			ex.Tmpl("q", ex.Interp(a)), ex.Tmpl("q", ex.Lit("s"), ex.Interp(a)), ex.Paren(a),
		}
	}
	var l1 []*ex.E
	for _, a := range sm {
		l1 = append(l1, shapes1(a)...)
	}
	for _, a := range sm {
		for _, b := range sm[:4] {
			l1 = append(l1, ex.Bin("+", a, b), ex.Bin("==", a, b), ex.Bin("&&", a, b), ex.Cond(ex.Var("bf"), a, b))
		}
	}
	for _, x := range l1 {
		for _, y := range shapes1(x) {
			if !emit("F11-nesting", y) {
				return false
			}
		}
		for _, b := range sm {
			for _, op := range []string{"+", "==", "||", "<", "*"} {
				if !emit("F11-nesting", ex.Bin(op, x, b)) {
					return false
				}
				if !emit("F11-nesting", ex.Bin(op, b, x)) {
					return false
				}
			}
			if !emit("F11-nesting", ex.Cond(x, b, ex.Num("1"))) {
				return false
			}
			if !emit("F11-nesting", ex.Cond(ex.Var("bt"), x, b)) {
				return false
			}
			if !emit("F11-nesting", ex.Cond(ex.Var("bf"), b, x)) {
				return false
			}
			if !emit("F11-nesting", ex.Idx(b, x)) {
				return false
			}
			if !emit("F11-nesting", ex.Obj(ex.ExItem(x, b))) {
				return false
			}
			if !emit("F11-nesting", ex.ForT("k", "v", b, ex.Tuple(x, ex.Var("v")), nil)) {
				return false
			}
		}
	}
	if o.Thorough {
		for _, x := range l1 {
			for _, y := range l1 {
				for _, op := range []string{"+", "==", "&&"} {
					if !emit("F11-nesting", ex.Bin(op, x, y)) {
						return false
					}
				}
			}
		}
	}
	return true
}
