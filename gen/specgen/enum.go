package specgen

import (
	"fmt"

	"github.com/zclconf/go-cty/cty"
)

// Alphabet is the set of variants the spec-tree enumerator draws from.
type Alphabet struct {
	AttrTys   []string
	AttrReq   []bool
	Literals  []*Spec // literal leaves
	Exprs     []Expr  // ExprSpec expressions
	AttrsTys  []string
	AttrsReq  []bool
	MaxLabel  int // largest BlockLabelSpec index generated
	BlockReq  []bool
	MinMax    [][2]int // for BlockListSpec / BlockSetSpec
	TMinMax   [][2]int // for BlockTupleSpec
	MapLabels []int    // numbers of LabelNames for BlockMapSpec
	ObjLabels []int    // numbers of LabelNames for BlockObjectSpec
	TExpr     []string
	TFunc     []string
	Refine    []string
	Validate  []string
	// DefaultBoth: generate both the literal and the attribute default where possible.
	DefaultBoth bool
	// FullPairs: ObjectSpec with every unordered pair of children; otherwise
	// the second child is drawn from the partner set only.
	FullPairs bool
}

// Rich is the alphabet used for shallow trees.
var Rich = &Alphabet{
	AttrTys:   []string{TString, TNumber, TBool, TListStr, TMapNum, TObject, TListObjOpt, TDynamic},
	AttrReq:   []bool{false, true},
	Literals:  []*Spec{{K: KLiteral, Ty: TString}, {K: KLiteral, Ty: TNumber, Null: true}},
	Exprs:     []Expr{S("E"), R("g")},
	AttrsTys:  []string{TString, TNumber, TDynamic, TListDyn},
	AttrsReq:  []bool{false, true},
	MaxLabel:  1,
	BlockReq:  []bool{false, true},
	MinMax:    [][2]int{{0, 0}, {1, 0}, {0, 1}, {2, 3}},
	TMinMax:   [][2]int{{0, 0}, {1, 2}},
	MapLabels: []int{1, 2}, ObjLabels: []int{1, 2},
	TExpr: []string{"wrap", "isnull", "strlen"}, TFunc: []string{"wrap", "isnull", "strlen"},
	Refine: []string{"noop", "notnull"}, Validate: []string{"ok", "warn", "rejectnull"},
	DefaultBoth: true, FullPairs: true,
}

// Reduced is the alphabet used for the deepest trees of a tier.
var Reduced = &Alphabet{
	AttrTys:   []string{TString, TDynamic, TObject},
	AttrReq:   []bool{false, true},
	Literals:  []*Spec{{K: KLiteral, Ty: TString}},
	Exprs:     []Expr{R("g")},
	AttrsTys:  []string{TString, TDynamic},
	AttrsReq:  []bool{false},
	MaxLabel:  0,
	BlockReq:  []bool{false, true},
	MinMax:    [][2]int{{0, 0}, {1, 2}},
	TMinMax:   [][2]int{{0, 0}},
	MapLabels: []int{1, 2}, ObjLabels: []int{1},
	TExpr: []string{"wrap", "strlen"}, TFunc: []string{"wrap", "strlen"},
	Refine: []string{"notnull"}, Validate: []string{"rejectnull"},
}

// Tiny is the alphabet used for depth-4 trees (thorough tier).
var Tiny = &Alphabet{
	AttrTys:   []string{TString, TDynamic},
	AttrReq:   []bool{false},
	Literals:  []*Spec{{K: KLiteral, Ty: TString}},
	AttrsTys:  []string{TDynamic},
	AttrsReq:  []bool{false},
	MaxLabel:  0,
	BlockReq:  []bool{false},
	MinMax:    [][2]int{{0, 0}},
	TMinMax:   [][2]int{{0, 0}},
	MapLabels: []int{1, 2}, ObjLabels: []int{1},
	TExpr: []string{"wrap"}, TFunc: []string{"wrap"},
	Refine: []string{"notnull"}, Validate: []string{"rejectnull"},
}

// LabelDeep is the alphabet of the "label depth" stages: a small alphabet
// whose BlockMapSpec / BlockObjectSpec carry one or THREE label names, so
// that the nested-collection construction is exercised below its second
// level. Only the trees that contain a spec with three or more label names
// are emitted by those stages (the others belong to the other stages).
var LabelDeep = &Alphabet{
	AttrTys:   []string{TString, TDynamic},
	AttrReq:   []bool{false},
	Literals:  []*Spec{{K: KLiteral, Ty: TString}},
	AttrsTys:  []string{TString},
	AttrsReq:  []bool{false},
	MaxLabel:  0,
	BlockReq:  []bool{false},
	MinMax:    [][2]int{{0, 0}},
	TMinMax:   [][2]int{{0, 0}},
	MapLabels: []int{1, 3}, ObjLabels: []int{1, 3},
	TExpr: []string{"wrap"}, TFunc: []string{"wrap"},
	Refine: []string{"notnull"}, Validate: []string{"rejectnull"},
}

// LabelDeep4 is LabelDeep with four label names as well (thorough tier).
var LabelDeep4 = func() *Alphabet {
	a := *LabelDeep
	a.MapLabels, a.ObjLabels = []int{1, 3, 4}, []int{1, 3, 4}
	return &a
}()

// hasLabelDepth: some BlockMapSpec / BlockObjectSpec of the tree has at least n label names.
func hasLabelDepth(s *Spec, n int) bool {
	found := false
	s.Walk(func(x *Spec) {
		if len(x.Labels) >= n {
			found = true
		}
	})
	return found
}

type genKey struct {
	d      int
	labels bool
}

type generator struct {
	a    *Alphabet
	memo map[genKey][]*Spec
}

// trees returns every spec tree of depth <= d over the alphabet; labels says
// whether BlockLabelSpec leaves may occur in the same-body region (true
// inside a block). Names are placeholders; Normalize assigns the real ones.
func (g *generator) trees(d int, labels bool) []*Spec {
	if d <= 0 {
		return nil
	}
	k := genKey{d, labels}
	if r, ok := g.memo[k]; ok {
		return r
	}
	a := g.a
	var out []*Spec
	// leaves
	for _, ty := range a.AttrTys {
		for _, req := range a.AttrReq {
			out = append(out, &Spec{K: KAttr, Ty: ty, Req: req})
		}
	}
	out = append(out, a.Literals...)
	for i := range a.Exprs {
		out = append(out, &Spec{K: KExpr, Expr: &a.Exprs[i]})
	}
	for _, ty := range a.AttrsTys {
		for _, req := range a.AttrsReq {
			out = append(out, &Spec{K: KAttrs, Ty: ty, Req: req})
		}
	}
	if labels {
		for i := 0; i <= a.MaxLabel; i++ {
			out = append(out, &Spec{K: KLabel, Index: i, Name: fmt.Sprintf("lbl%d", i)})
		}
	}
	if d > 1 {
		same := g.trees(d-1, labels) // children decoding from the same body
		var nested []*Spec           // nested specs of block specs: label sets must be consecutive
		for _, n := range g.trees(d-1, true) {
			if n.labelSetOK() {
				nested = append(nested, n)
			}
		}
		for _, n := range nested {
			for _, req := range a.BlockReq {
				out = append(out, &Spec{K: KBlock, Req: req, Kids: []*Spec{n}})
			}
			for _, mm := range a.MinMax {
				out = append(out, &Spec{K: KList, Min: mm[0], Max: mm[1], Kids: []*Spec{n}})
			}
			for _, mm := range a.MinMax {
				out = append(out, &Spec{K: KSet, Min: mm[0], Max: mm[1], Kids: []*Spec{n}})
			}
			for _, mm := range a.TMinMax {
				out = append(out, &Spec{K: KBTuple, Min: mm[0], Max: mm[1], Kids: []*Spec{n}})
			}
			if !n.Implied().HasDynamicTypes() { // documented precondition of BlockMapSpec
				for _, nl := range a.MapLabels {
					out = append(out, &Spec{K: KMap, Labels: labelNames(nl), Kids: []*Spec{n}})
				}
			}
			for _, nl := range a.ObjLabels {
				out = append(out, &Spec{K: KBObject, Labels: labelNames(nl), Kids: []*Spec{n}})
			}
		}
		for _, n := range same {
			for _, df := range g.defaultsFor(n) {
				out = append(out, &Spec{K: KDefault, Kids: []*Spec{n, df}})
			}
			for _, fn := range a.TExpr {
				if fn == "strlen" && !n.Implied().Equals(cty.String) {
					continue // the function takes a string: documented precondition (total for every non-error result)
				}
				out = append(out, &Spec{K: KTExpr, Fn: fn, Kids: []*Spec{n}})
			}
			for _, fn := range a.TFunc {
				if fn == "strlen" && !n.Implied().Equals(cty.String) {
					continue
				}
				out = append(out, &Spec{K: KTFunc, Fn: fn, Kids: []*Spec{n}})
			}
			for _, fn := range a.Refine {
				if fn == "notnull" && !n.NeverNull() {
					if len(a.Refine) == 1 {
						fn = "noop"
					} else {
						continue
					}
				}
				out = append(out, &Spec{K: KRefine, Fn: fn, Kids: []*Spec{n}})
			}
			for _, fn := range a.Validate {
				out = append(out, &Spec{K: KValidate, Fn: fn, Kids: []*Spec{n}})
			}
			out = append(out, &Spec{K: KObject, Keys: []string{"p"}, Kids: []*Spec{n}})
			out = append(out, &Spec{K: KTuple, Kids: []*Spec{n}})
		}
		// pairs
		partners := []*Spec{
			{K: KAttr, Ty: TString},
			{K: KList, Kids: []*Spec{{K: KAttr, Ty: TDynamic}}},
			{K: KAttrs, Ty: TString},
		}
		if d == 2 && a.FullPairs {
			for i, x := range same {
				for _, y := range same[i:] {
					out = append(out, &Spec{K: KObject, Keys: []string{"p", "q"}, Kids: []*Spec{x, y}})
				}
			}
		} else {
			for _, x := range same {
				for _, y := range partners {
					if y.Depth() > d-1 {
						continue
					}
					out = append(out, &Spec{K: KObject, Keys: []string{"p", "q"}, Kids: []*Spec{x, y}})
				}
			}
		}
		for _, x := range same {
			out = append(out, &Spec{K: KTuple, Kids: []*Spec{x, partners[0]}})
		}
	}
	g.memo[k] = out
	return out
}

func labelNames(n int) []string {
	names := []string{"k", "m", "n", "p"}
	return names[:n]
}

// defaultsFor: the Default specs that may accompany the primary spec p: a
// non-block spec with the same implied type (documented precondition).
func (g *generator) defaultsFor(p *Spec) []*Spec {
	t := p.Implied()
	var out []*Spec
	literalOK := !t.HasDynamicTypes() && t.Equals(t.WithoutOptionalAttributesDeep())
	if literalOK {
		out = append(out, &Spec{K: KLiteral, Ty: TyString(t)})
	}
	if !literalOK || g.a.DefaultBoth {
		out = append(out, &Spec{K: KAttr, Ty: TyString(t)})
	}
	return out
}

// Normalize returns a deep copy of the tree in which attribute names and
// block type names are assigned so that, within one body, every AttrSpec
// names a different attribute and every block spec a different block type.
func Normalize(s *Spec) *Spec {
	c := s.Clone()
	assignNames(c)
	return c
}

var blockLetter = map[string]string{KBlock: "b", KList: "l", KSet: "s", KBTuple: "t", KMap: "m", KBObject: "o", KAttrs: "r"}

func assignNames(root *Spec) {
	nAttr := 0
	used := map[string]int{}
	root.WalkSameBody(func(x *Spec) {
		switch {
		case x.K == KAttr:
			x.Name = string(rune('a' + nAttr))
			nAttr++
		case x.IsBlockish():
			l := blockLetter[x.K]
			used[l]++
			if used[l] > 1 {
				l = fmt.Sprintf("%s%d", l, used[l])
			}
			x.Name = l
			if x.K != KAttrs {
				assignNames(x.Kids[0])
			}
		}
	})
}

// Enumerate emits (normalized) spec trees, simplest first:
//
//	quick:    all trees of depth <= 2 over Rich, the label-depth trees (below) over LabelDeep,
//	          then all trees of depth 3 over Reduced
//	thorough: all trees of depth <= 2 over Rich, the label-depth trees over LabelDeep4, all trees of
//	          depth 3 over Rich (pairs with partners only), then depth 4 over Tiny
//
// label-depth trees: every tree of depth 2 or 3 over the alphabet that contains a
// BlockMapSpec / BlockObjectSpec with three or more label names (three in the quick tier, three or
// four in the thorough tier): such a spec over every leaf, at the top level, and one level down
// inside every wrapping spec kind (and as the wrapper of every depth-2 tree).
func Enumerate(tier string, emit func(*Spec) bool) {
	type stage struct {
		a        *Alphabet
		depth    int // emit trees of exactly this depth
		minLabel int // > 0: only the trees with a spec of at least this many label names
	}
	stages := []stage{{Rich, 1, 0}, {Rich, 2, 0}, {LabelDeep, 2, 3}, {LabelDeep, 3, 3}, {Reduced, 3, 0}}
	if tier == "thorough" {
		stages = []stage{{Rich, 1, 0}, {Rich, 2, 0}, {LabelDeep4, 2, 3}, {LabelDeep4, 3, 3}, {Rich, 3, 0}, {Tiny, 4, 0}}
	}
	for _, st := range stages {
		g := &generator{a: st.a, memo: map[genKey][]*Spec{}}
		for _, t := range g.trees(st.depth, false) {
			if t.Depth() != st.depth {
				continue
			}
			if st.minLabel > 0 && !hasLabelDepth(t, st.minLabel) {
				continue
			}
			if !emit(Normalize(t)) {
				return
			}
		}
	}
}
