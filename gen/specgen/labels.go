package specgen

import "fmt"

// The label-vector family of bodies: for a BlockMapSpec / BlockObjectSpec with
// n >= 2 label names the decoded value is a collection nested n levels deep,
// one level per label. Which levels two blocks share is decided by the common
// prefixes of their label vectors, so the family enumerates the label vectors
// themselves rather than a few representative ones.

// labelTexts is the alphabet of label texts. The same two texts are used at
// every label position, so a text may also recur at different positions of
// one vector (x x x) and across levels of different blocks.
var labelTexts = []string{"x", "y"}

// maxLabelBlocks: the largest number of blocks in a label-vector sequence.
const maxLabelBlocks = 3

// labelVectors: every vector of n label texts, in lexicographic order.
func labelVectors(n int) [][]string {
	out := [][]string{{}}
	for i := 0; i < n; i++ {
		var next [][]string
		for _, v := range out {
			for _, t := range labelTexts {
				next = append(next, append(v[:len(v):len(v)], t))
			}
		}
		out = next
	}
	return out
}

// labelVectorSeqs: every sequence of c label vectors of length n, in
// lexicographic order. Exchanging the two label texts everywhere maps the
// space onto itself, so only the sequences whose very first label is the
// first text are produced. With c >= 2 the space contains blocks that share
// a prefix of every length 0..n (n = the same vector twice: duplicates), in
// both orders, and with c = 3 every combination of such relations among
// three blocks.
func labelVectorSeqs(n, c int) [][][]string {
	vecs := labelVectors(n)
	out := [][][]string{{}}
	for i := 0; i < c; i++ {
		var next [][][]string
		for _, seq := range out {
			for _, v := range vecs {
				if i == 0 && v[0] != labelTexts[0] {
					continue
				}
				next = append(next, append(seq[:len(seq):len(seq)], v))
			}
		}
		out = next
	}
	return out
}

// LabelFamily returns the label-vector family for the same-body region of s:
// for every BlockMapSpec / BlockObjectSpec with two or more label names that
// is reached from s through one block per enclosing block spec, the full0
// representative body in which the blocks of that spec are replaced by every
// sequence of 1..maxLabelBlocks blocks labelled with the vectors of
// labelVectorSeqs. The i-th block of a sequence has the contents full0, full1,
// min (i = 0, 1, 2), so that the blocks can be told apart in the decoded
// value; labels beyond the spec's own label names (BlockLabelSpecs of the
// nested spec) are "t<i>". Simplest first: fewer blocks first, outer specs
// before nested ones.
func LabelFamily(s *Spec) []*Body {
	v := ViewOf(s)
	var out []*Body
	base := RepBody(s, repFull0)
	for _, bu := range v.Blocks {
		if !(bu.Spec.K == KMap || bu.Spec.K == KBObject) || len(bu.Spec.Labels) < 2 {
			continue
		}
		n := len(bu.Spec.Labels)
		reps := []int{repFull0, repFull1, repMin}
		for c := 1; c <= maxLabelBlocks; c++ {
			for _, seq := range labelVectorSeqs(n, c) {
				var bls []Block
				for i, lv := range seq {
					ls := append([]string(nil), lv...)
					for j := n; j < bu.NLabels; j++ {
						ls = append(ls, fmt.Sprintf("t%d", i))
					}
					bls = append(bls, Block{Type: bu.Type, Labels: ls, Body: nestedRep(bu.Spec, reps[i%len(reps)])})
				}
				out = append(out, withBlocks(base, bu.Type, bls))
			}
		}
	}
	for _, bu := range v.Blocks {
		if bu.Spec.K == KAttrs {
			continue
		}
		for _, nb := range LabelFamily(bu.Spec.Kids[0]) {
			out = append(out, withBlocks(base, bu.Type, []Block{{Type: bu.Type, Labels: blockLabels(0, bu.NLabels), Body: nb}}))
		}
	}
	return out
}

// withBlocks: a copy of base in which the blocks of the given type are
// replaced (at the position of the first one) by bls.
func withBlocks(base *Body, typ string, bls []Block) *Body {
	b := &Body{Attrs: base.Attrs}
	done := false
	for _, bl := range base.Blocks {
		if bl.Type != typ {
			b.Blocks = append(b.Blocks, bl)
			continue
		}
		if !done {
			b.Blocks = append(b.Blocks, bls...)
			done = true
		}
	}
	return b.Clone()
}
