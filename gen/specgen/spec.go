package specgen

import (
	"fmt"
	"strings"

	"github.com/hashicorp/hcl/v2"
	"github.com/hashicorp/hcl/v2/hcldec"
	"github.com/hashicorp/hcl/v2/hclsyntax"
	"github.com/zclconf/go-cty/cty"
	"github.com/zclconf/go-cty/cty/function"
)

// Spec kinds.
const (
	KObject   = "object"   // hcldec.ObjectSpec: Keys[i] -> Kids[i]
	KTuple    = "tuple"    // hcldec.TupleSpec: Kids
	KAttr     = "attr"     // hcldec.AttrSpec: Name, Ty, Req
	KLiteral  = "literal"  // hcldec.LiteralSpec: Sample(Ty) or (Null) null of Ty
	KExpr     = "expr"     // hcldec.ExprSpec: Expr
	KBlock    = "block"    // hcldec.BlockSpec: Name (type), Req, Kids[0]
	KList     = "list"     // hcldec.BlockListSpec: Name, Min, Max, Kids[0]
	KSet      = "set"      // hcldec.BlockSetSpec
	KBTuple   = "btuple"   // hcldec.BlockTupleSpec
	KMap      = "map"      // hcldec.BlockMapSpec: Name, Labels, Kids[0]
	KBObject  = "bobject"  // hcldec.BlockObjectSpec
	KAttrs    = "attrs"    // hcldec.BlockAttrsSpec: Name, Ty (element type), Req
	KLabel    = "label"    // hcldec.BlockLabelSpec: Index, Name
	KDefault  = "default"  // hcldec.DefaultSpec: Kids[0] primary, Kids[1] default
	KTExpr    = "texpr"    // hcldec.TransformExprSpec: Fn, Kids[0]
	KTFunc    = "tfunc"    // hcldec.TransformFuncSpec: Fn, Kids[0]
	KRefine   = "refine"   // hcldec.RefineValueSpec: Fn, Kids[0]
	KValidate = "validate" // hcldec.ValidateSpec: Fn, Kids[0]
)

// Spec is the JSON-serialisable descriptor of an hcldec spec tree.
type Spec struct {
	K      string   `json:"k"`
	Name   string   `json:"name,omitempty"`
	Ty     string   `json:"ty,omitempty"`
	Req    bool     `json:"req,omitempty"`
	Min    int      `json:"min,omitempty"`
	Max    int      `json:"max,omitempty"`
	Labels []string `json:"labels,omitempty"`
	Index  int      `json:"index,omitempty"`
	Null   bool     `json:"null,omitempty"`
	Expr   *Expr    `json:"expr,omitempty"`
	Fn     string   `json:"fn,omitempty"`
	Keys   []string `json:"keys,omitempty"`
	Kids   []*Spec  `json:"kids,omitempty"`
}

// IsBlockish: the spec consumes blocks of type Name from its body.
func (s *Spec) IsBlockish() bool {
	switch s.K {
	case KBlock, KList, KSet, KBTuple, KMap, KBObject, KAttrs:
		return true
	}
	return false
}

// SameBody calls cb for the specs nested in s that decode from the same body as s.
func (s *Spec) SameBody(cb func(*Spec)) {
	switch s.K {
	case KObject, KTuple, KDefault, KTExpr, KTFunc, KRefine, KValidate:
		for _, k := range s.Kids {
			cb(k)
		}
	}
}

// WalkSameBody visits s and all specs decoding from the same body, in order.
func (s *Spec) WalkSameBody(cb func(*Spec)) {
	cb(s)
	s.SameBody(func(k *Spec) { k.WalkSameBody(cb) })
}

// Walk visits every node of the tree.
func (s *Spec) Walk(cb func(*Spec)) {
	cb(s)
	for _, k := range s.Kids {
		k.Walk(cb)
	}
}

func (s *Spec) Depth() int {
	d := 0
	for _, k := range s.Kids {
		if kd := k.Depth(); kd > d {
			d = kd
		}
	}
	return d + 1
}

func (s *Spec) Size() int {
	n := 1
	for _, k := range s.Kids {
		n += k.Size()
	}
	return n
}

func (s *Spec) Clone() *Spec {
	c := *s
	c.Labels = append([]string(nil), s.Labels...)
	c.Keys = append([]string(nil), s.Keys...)
	c.Kids = nil
	for _, k := range s.Kids {
		c.Kids = append(c.Kids, k.Clone())
	}
	if s.Expr != nil {
		e := *s.Expr
		c.Expr = &e
	}
	return &c
}

// LabelCount: number of labels the BlockLabelSpecs in the same-body region of
// s demand (largest index + 1).
func (s *Spec) LabelCount() int {
	n := 0
	s.WalkSameBody(func(x *Spec) {
		if x.K == KLabel && x.Index+1 > n {
			n = x.Index + 1
		}
	})
	return n
}

// labelSetOK: the label indices used in the same-body region of s are
// exactly 0..m-1 (the documented precondition of BlockLabelSpec).
func (s *Spec) labelSetOK() bool {
	seen := map[int]bool{}
	max := -1
	s.WalkSameBody(func(x *Spec) {
		if x.K == KLabel {
			seen[x.Index] = true
			if x.Index > max {
				max = x.Index
			}
		}
	})
	return len(seen) == max+1
}

// String is a compact one-line rendering.
func (s *Spec) String() string {
	var sb strings.Builder
	s.str(&sb)
	return sb.String()
}

func tyShort(ty string) string {
	r := strings.NewReplacer(`"`, "", "[", "(", "]", ")", "{", "<", "}", ">", ",", " ")
	return r.Replace(ty)
}

func (s *Spec) str(sb *strings.Builder) {
	switch s.K {
	case KObject:
		sb.WriteString("object{")
		for i, k := range s.Kids {
			if i > 0 {
				sb.WriteString(", ")
			}
			sb.WriteString(s.Keys[i] + ": ")
			k.str(sb)
		}
		sb.WriteString("}")
	case KTuple:
		sb.WriteString("tuple[")
		for i, k := range s.Kids {
			if i > 0 {
				sb.WriteString(", ")
			}
			k.str(sb)
		}
		sb.WriteString("]")
	case KAttr:
		fmt.Fprintf(sb, "attr(%s %s", s.Name, tyShort(s.Ty))
		if s.Req {
			sb.WriteString(" req")
		}
		sb.WriteString(")")
	case KLiteral:
		if s.Null {
			fmt.Fprintf(sb, "literal(null %s)", tyShort(s.Ty))
		} else {
			fmt.Fprintf(sb, "literal(%s)", tyShort(s.Ty))
		}
	case KExpr:
		fmt.Fprintf(sb, "expr(%s)", s.Expr.Native())
	case KAttrs:
		fmt.Fprintf(sb, "attrs(%s %s", s.Name, tyShort(s.Ty))
		if s.Req {
			sb.WriteString(" req")
		}
		sb.WriteString(")")
	case KLabel:
		fmt.Fprintf(sb, "label(%d)", s.Index)
	case KDefault:
		sb.WriteString("default(")
		s.Kids[0].str(sb)
		sb.WriteString(" | ")
		s.Kids[1].str(sb)
		sb.WriteString(")")
	case KTExpr, KTFunc, KRefine, KValidate:
		fmt.Fprintf(sb, "%s:%s(", s.K, s.Fn)
		s.Kids[0].str(sb)
		sb.WriteString(")")
	default: // block-ish with nested
		sb.WriteString(s.K + "(" + s.Name)
		if s.Req {
			sb.WriteString(" req")
		}
		if s.Min != 0 || s.Max != 0 {
			fmt.Fprintf(sb, " %d..%d", s.Min, s.Max)
		}
		if len(s.Labels) > 0 {
			fmt.Fprintf(sb, " labels=%d", len(s.Labels))
		}
		sb.WriteString("){")
		s.Kids[0].str(sb)
		sb.WriteString("}")
	}
}

// ---------------------------------------------------------------------------
// The reference implied type of a descriptor (written from the doc comments of
// the spec types; does not call hcldec). Where hcldec documents that the type
// cannot be predicted (ExprSpec, BlockTupleSpec, BlockObjectSpec) the result
// is the dynamic pseudo-type.

func (s *Spec) Implied() cty.Type {
	switch s.K {
	case KObject:
		if len(s.Kids) == 0 {
			return cty.EmptyObject
		}
		m := map[string]cty.Type{}
		for i, k := range s.Kids {
			m[s.Keys[i]] = k.Implied()
		}
		return cty.Object(m)
	case KTuple:
		if len(s.Kids) == 0 {
			return cty.EmptyTuple
		}
		ts := make([]cty.Type, len(s.Kids))
		for i, k := range s.Kids {
			ts[i] = k.Implied()
		}
		return cty.Tuple(ts)
	case KAttr:
		return Ty(s.Ty)
	case KLiteral:
		return Ty(s.Ty)
	case KExpr, KBTuple, KBObject:
		return cty.DynamicPseudoType
	case KBlock:
		return s.Kids[0].Implied()
	case KList:
		return cty.List(s.Kids[0].Implied())
	case KSet:
		return cty.Set(s.Kids[0].Implied())
	case KMap:
		t := s.Kids[0].Implied()
		for range s.Labels {
			t = cty.Map(t)
		}
		return t
	case KAttrs:
		return cty.Map(Ty(s.Ty))
	case KLabel:
		return cty.String
	case KDefault, KRefine, KValidate:
		return s.Kids[0].Implied()
	case KTExpr, KTFunc:
		switch s.Fn {
		case "wrap":
			return cty.Tuple([]cty.Type{s.Kids[0].Implied()})
		case "isnull":
			return cty.Bool
		case "strlen":
			return cty.Number
		}
	}
	panic("specgen: Implied: bad spec " + s.K + "/" + s.Fn)
}

// NeverNull: decoding the spec never yields a null value without also
// reporting an error (precondition for a "notnull" refinement).
func (s *Spec) NeverNull() bool {
	switch s.K {
	case KObject, KTuple, KList, KSet, KBTuple, KMap, KBObject, KLabel, KTExpr, KTFunc:
		return true
	case KLiteral:
		return !s.Null
	case KDefault:
		return s.Kids[1].NeverNull()
	case KRefine:
		return s.Kids[0].NeverNull()
	case KValidate:
		return s.Fn == "rejectnull" || s.Kids[0].NeverNull()
	}
	return false
}

// ---------------------------------------------------------------------------
// Building the real hcldec.Spec

var wrapFunc = function.New(&function.Spec{
	Params: []function.Parameter{{Name: "v", Type: cty.DynamicPseudoType, AllowNull: true, AllowUnknown: true, AllowDynamicType: true, AllowMarked: true}},
	Type:   func(args []cty.Value) (cty.Type, error) { return cty.Tuple([]cty.Type{args[0].Type()}), nil },
	Impl: func(args []cty.Value, retType cty.Type) (cty.Value, error) {
		return cty.TupleVal([]cty.Value{args[0]}), nil
	},
})

var isNullFunc = function.New(&function.Spec{
	Params: []function.Parameter{{Name: "v", Type: cty.DynamicPseudoType, AllowNull: true, AllowDynamicType: true}},
	Type:   function.StaticReturnType(cty.Bool),
	Impl: func(args []cty.Value, retType cty.Type) (cty.Value, error) {
		return cty.BoolVal(args[0].IsNull()), nil
	},
})

// StrlenFunc changes the type: string -> number. It is total: a null string
// gives -1, an unknown string an unknown number.
var StrlenFunc = function.New(&function.Spec{
	Params: []function.Parameter{{Name: "v", Type: cty.String, AllowNull: true, AllowDynamicType: true}},
	Type:   function.StaticReturnType(cty.Number),
	Impl: func(args []cty.Value, retType cty.Type) (cty.Value, error) {
		if args[0].IsNull() {
			return cty.NumberIntVal(-1), nil
		}
		return cty.NumberIntVal(int64(len(args[0].AsString()))), nil
	},
})

func mustExpr(src string) hcl.Expression {
	e, diags := hclsyntax.ParseExpression([]byte(src), "spec.hcl", hcl.InitialPos)
	if diags.HasErrors() {
		panic("specgen: " + diags.Error())
	}
	return e
}

// Build turns the descriptor into a real hcldec.Spec.
func (s *Spec) Build() hcldec.Spec {
	switch s.K {
	case KObject:
		o := hcldec.ObjectSpec{}
		for i, k := range s.Kids {
			o[s.Keys[i]] = k.Build()
		}
		return o
	case KTuple:
		t := hcldec.TupleSpec{}
		for _, k := range s.Kids {
			t = append(t, k.Build())
		}
		return t
	case KAttr:
		return &hcldec.AttrSpec{Name: s.Name, Type: Ty(s.Ty), Required: s.Req}
	case KLiteral:
		if s.Null {
			return &hcldec.LiteralSpec{Value: cty.NullVal(Ty(s.Ty))}
		}
		return &hcldec.LiteralSpec{Value: Sample(Ty(s.Ty))}
	case KExpr:
		return &hcldec.ExprSpec{Expr: mustExpr(s.Expr.Native())}
	case KBlock:
		return &hcldec.BlockSpec{TypeName: s.Name, Nested: s.Kids[0].Build(), Required: s.Req}
	case KList:
		return &hcldec.BlockListSpec{TypeName: s.Name, Nested: s.Kids[0].Build(), MinItems: s.Min, MaxItems: s.Max}
	case KSet:
		return &hcldec.BlockSetSpec{TypeName: s.Name, Nested: s.Kids[0].Build(), MinItems: s.Min, MaxItems: s.Max}
	case KBTuple:
		return &hcldec.BlockTupleSpec{TypeName: s.Name, Nested: s.Kids[0].Build(), MinItems: s.Min, MaxItems: s.Max}
	case KMap:
		return &hcldec.BlockMapSpec{TypeName: s.Name, LabelNames: append([]string(nil), s.Labels...), Nested: s.Kids[0].Build()}
	case KBObject:
		return &hcldec.BlockObjectSpec{TypeName: s.Name, LabelNames: append([]string(nil), s.Labels...), Nested: s.Kids[0].Build()}
	case KAttrs:
		return &hcldec.BlockAttrsSpec{TypeName: s.Name, ElementType: Ty(s.Ty), Required: s.Req}
	case KLabel:
		return &hcldec.BlockLabelSpec{Index: s.Index, Name: s.Name}
	case KDefault:
		return &hcldec.DefaultSpec{Primary: s.Kids[0].Build(), Default: s.Kids[1].Build()}
	case KTExpr:
		src := "[v]"
		switch s.Fn {
		case "isnull":
			src = "v == null"
		case "strlen":
			src = "strlen(v)"
		}
		tctx := &hcl.EvalContext{Functions: map[string]function.Function{"strlen": StrlenFunc}}
		return &hcldec.TransformExprSpec{Wrapped: s.Kids[0].Build(), Expr: mustExpr(src), TransformCtx: tctx, VarName: "v"}
	case KTFunc:
		f := wrapFunc
		switch s.Fn {
		case "isnull":
			f = isNullFunc
		case "strlen":
			f = StrlenFunc
		}
		return &hcldec.TransformFuncSpec{Wrapped: s.Kids[0].Build(), Func: f}
	case KRefine:
		fn := func(b *cty.RefinementBuilder) *cty.RefinementBuilder { return b }
		if s.Fn == "notnull" {
			fn = func(b *cty.RefinementBuilder) *cty.RefinementBuilder { return b.NotNull() }
		}
		return &hcldec.RefineValueSpec{Wrapped: s.Kids[0].Build(), Refine: fn}
	case KValidate:
		var fn func(cty.Value) hcl.Diagnostics
		switch s.Fn {
		case "warn":
			fn = func(cty.Value) hcl.Diagnostics {
				return hcl.Diagnostics{{Severity: hcl.DiagWarning, Summary: "validate warning"}}
			}
		case "rejectnull":
			fn = func(v cty.Value) hcl.Diagnostics {
				if v.IsNull() {
					return hcl.Diagnostics{{Severity: hcl.DiagError, Summary: "validate: null not allowed"}}
				}
				return nil
			}
		default:
			fn = func(cty.Value) hcl.Diagnostics { return nil }
		}
		return &hcldec.ValidateSpec{Wrapped: s.Kids[0].Build(), Func: fn}
	}
	panic("specgen: Build: bad kind " + s.K)
}

// ---------------------------------------------------------------------------
// Schema view: which attribute names and block types the same-body region of
// a spec uses (reference counterpart of hcldec.ImpliedSchema).

type AttrUse struct {
	Name  string
	Req   bool    // some spec using the attribute requires it
	Specs []*Spec // the attr specs using it
}

type BlockUse struct {
	Type    string
	Spec    *Spec // the block-ish spec
	NLabels int   // number of labels blocks of this type must carry
}

type View struct {
	Attrs  []AttrUse
	Blocks []BlockUse
}

func (v *View) AttrUse(name string) *AttrUse {
	for i := range v.Attrs {
		if v.Attrs[i].Name == name {
			return &v.Attrs[i]
		}
	}
	return nil
}

func (v *View) BlockUse(ty string) *BlockUse {
	for i := range v.Blocks {
		if v.Blocks[i].Type == ty {
			return &v.Blocks[i]
		}
	}
	return nil
}

func ViewOf(s *Spec) View {
	var v View
	s.WalkSameBody(func(x *Spec) {
		switch {
		case x.K == KAttr:
			if u := v.AttrUse(x.Name); u != nil {
				u.Req = u.Req || x.Req
				u.Specs = append(u.Specs, x)
			} else {
				v.Attrs = append(v.Attrs, AttrUse{Name: x.Name, Req: x.Req, Specs: []*Spec{x}})
			}
		case x.IsBlockish():
			n := 0
			if x.K != KAttrs {
				n = len(x.Labels) + x.Kids[0].LabelCount()
			}
			if v.BlockUse(x.Name) == nil {
				v.Blocks = append(v.Blocks, BlockUse{Type: x.Name, Spec: x, NLabels: n})
			}
		}
	})
	return v
}
