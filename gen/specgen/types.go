// Package specgen holds the JSON-serialisable descriptors shared by the hcldec
// checks (C08, C18): abstract expressions, abstract bodies (with optional
// "dynamic" blocks), descriptors of hcldec spec trees that can be turned into
// real hcldec.Spec values, renderers (native syntax and JSON syntax) and the
// bounded enumerators of spec trees and of bodies for a spec.
package specgen

import (
	"encoding/json"
	"fmt"
	"sort"
	"strings"

	"github.com/zclconf/go-cty/cty"
)

// ---------------------------------------------------------------------------
// Abstract expressions

// Expr is an abstract expression.
//
//	K = "lit":  a named literal of the table Literals (Lit)
//	K = "str":  a string constant with the content Str (characters [A-Za-z0-9_-] only)
//	K = "ref":  a traversal: root variable name followed by attribute names
//	K = "tmpl": a string template; every part is a "str" or a "ref"
//	K = "val":  the literal spelling of Sample(Ty) (lists and sets are written as
//	            tuple constructors, maps and objects as object constructors)
type Expr struct {
	K     string   `json:"k"`
	Lit   string   `json:"lit,omitempty"`
	Str   string   `json:"str,omitempty"`
	Ref   []string `json:"ref,omitempty"`
	Parts []Expr   `json:"parts,omitempty"`
	Ty    string   `json:"ty,omitempty"`
}

func L(name string) Expr             { return Expr{K: "lit", Lit: name} }
func S(s string) Expr                { return Expr{K: "str", Str: s} }
func R(path ...string) Expr          { return Expr{K: "ref", Ref: path} }
func T(parts ...Expr) Expr           { return Expr{K: "tmpl", Parts: parts} }
func SampleOf(ty string) Expr        { return Expr{K: "val", Ty: ty} }
func (e Expr) IsZero() bool          { return e.K == "" }
func (e Expr) IsRefTo(n string) bool { return e.K == "ref" && len(e.Ref) > 0 && e.Ref[0] == n }

// Literal is one entry of the literal table: its spelling in both syntaxes
// and the value it denotes.
type Literal struct {
	Native string
	JSON   string
	Val    cty.Value
}

// Literals is the table of named literals.
var Literals = map[string]Literal{
	"s":    {`"s"`, `"s"`, cty.StringVal("s")},
	"s2":   {`"u"`, `"u"`, cty.StringVal("u")},
	"n":    {`1`, `1`, cty.NumberIntVal(1)},
	"n2":   {`2`, `2`, cty.NumberIntVal(2)},
	"t":    {`true`, `true`, cty.True},
	"ls":   {`["x"]`, `["x"]`, cty.TupleVal([]cty.Value{cty.StringVal("x")})},
	"ob":   {`{ k = 1 }`, `{"k": 1}`, cty.ObjectVal(map[string]cty.Value{"k": cty.NumberIntVal(1)})},
	"null": {`null`, `null`, cty.NullVal(cty.DynamicPseudoType)},
	"le":   {`[]`, `[]`, cty.EmptyTupleVal},
	"lp":   {`["p", "q"]`, `["p", "q"]`, cty.TupleVal([]cty.Value{cty.StringVal("p"), cty.StringVal("q")})},
	"ln":   {`[1]`, `[1]`, cty.TupleVal([]cty.Value{cty.NumberIntVal(1)})},
	"lm":   {`["p", 1]`, `["p", 1]`, cty.TupleVal([]cty.Value{cty.StringVal("p"), cty.NumberIntVal(1)})},
	"oe":   {`{}`, `{}`, cty.EmptyObjectVal},
	"lo":   {`[{ k = 1 }]`, `[{"k": 1}]`, cty.TupleVal([]cty.Value{cty.ObjectVal(map[string]cty.Value{"k": cty.NumberIntVal(1)})})},
	"o2":   {`{ k1 = "v1", k2 = "v2" }`, `{"k1": "v1", "k2": "v2"}`, cty.ObjectVal(map[string]cty.Value{"k1": cty.StringVal("v1"), "k2": cty.StringVal("v2")})},
}

// Native renders the expression in the native syntax.
func (e Expr) Native() string {
	switch e.K {
	case "lit":
		l, ok := Literals[e.Lit]
		if !ok {
			panic("specgen: unknown literal " + e.Lit)
		}
		return l.Native
	case "str":
		return `"` + e.Str + `"`
	case "val":
		return NativeValue(Sample(Ty(e.Ty)))
	case "ref":
		return strings.Join(e.Ref, ".")
	case "tmpl":
		var sb strings.Builder
		sb.WriteByte('"')
		for _, p := range e.Parts {
			if p.K == "str" {
				sb.WriteString(p.Str)
			} else {
				sb.WriteString("${" + p.Native() + "}")
			}
		}
		sb.WriteByte('"')
		return sb.String()
	}
	panic("specgen: bad expression kind " + e.K)
}

// JSON renders the expression in the JSON syntax (a JSON value).
func (e Expr) JSON() string {
	switch e.K {
	case "lit":
		return Literals[e.Lit].JSON
	case "str":
		return `"` + e.Str + `"`
	case "ref":
		return `"${` + strings.Join(e.Ref, ".") + `}"`
	case "tmpl":
		var sb strings.Builder
		sb.WriteByte('"')
		for _, p := range e.Parts {
			if p.K == "str" {
				sb.WriteString(p.Str)
			} else {
				sb.WriteString("${" + strings.Join(p.Ref, ".") + "}")
			}
		}
		sb.WriteByte('"')
		return sb.String()
	}
	panic("specgen: bad expression kind " + e.K)
}

// NativeValue spells a known value without dynamic parts as a native-syntax
// literal expression (collections as tuple / object constructors).
func NativeValue(v cty.Value) string {
	t := v.Type()
	switch {
	case v.IsNull():
		return "null"
	case t == cty.String:
		return `"` + v.AsString() + `"`
	case t == cty.Number:
		return v.AsBigFloat().Text('f', -1)
	case t == cty.Bool:
		if v.True() {
			return "true"
		}
		return "false"
	case t.IsListType() || t.IsSetType() || t.IsTupleType():
		var parts []string
		for it := v.ElementIterator(); it.Next(); {
			_, ev := it.Element()
			parts = append(parts, NativeValue(ev))
		}
		return "[" + strings.Join(parts, ", ") + "]"
	case t.IsMapType() || t.IsObjectType():
		m := v.AsValueMap()
		var parts []string
		for _, k := range sortedKeys(m) {
			parts = append(parts, k+" = "+NativeValue(m[k]))
		}
		if len(parts) == 0 {
			return "{}"
		}
		return "{ " + strings.Join(parts, ", ") + " }"
	}
	panic("specgen: NativeValue: unsupported type " + t.FriendlyName())
}

// LiteralValue is the value the expression NativeValue(v) evaluates to:
// lists and sets become tuples, maps become objects.
func LiteralValue(v cty.Value) cty.Value {
	t := v.Type()
	switch {
	case v.IsNull():
		return cty.NullVal(cty.DynamicPseudoType)
	case t.IsListType() || t.IsSetType() || t.IsTupleType():
		var vs []cty.Value
		for it := v.ElementIterator(); it.Next(); {
			_, ev := it.Element()
			vs = append(vs, LiteralValue(ev))
		}
		if len(vs) == 0 {
			return cty.EmptyTupleVal
		}
		return cty.TupleVal(vs)
	case t.IsMapType() || t.IsObjectType():
		m := v.AsValueMap()
		if len(m) == 0 {
			return cty.EmptyObjectVal
		}
		out := map[string]cty.Value{}
		for k, ev := range m {
			out[k] = LiteralValue(ev)
		}
		return cty.ObjectVal(out)
	}
	return v
}

// ---------------------------------------------------------------------------
// Abstract bodies

type Attr struct {
	Name string `json:"name"`
	Expr Expr   `json:"expr"`
}

// Block is a static block, or (Dyn != nil) a "dynamic" block generating
// blocks of type Type whose content is Body.
type Block struct {
	Type   string   `json:"type"`
	Labels []string `json:"labels,omitempty"`
	Body   *Body    `json:"body"`
	Dyn    *Dyn     `json:"dyn,omitempty"`
}

type Dyn struct {
	ForEach  Expr   `json:"for_each"`
	Iterator string `json:"iterator,omitempty"` // "" = default (the block type name)
	Labels   []Expr `json:"labels,omitempty"`   // nil = no labels argument
}

// IterName is the name of the iterator variable of a dynamic block.
func (b *Block) IterName() string {
	if b.Dyn != nil && b.Dyn.Iterator != "" {
		return b.Dyn.Iterator
	}
	return b.Type
}

type Body struct {
	Attrs  []Attr  `json:"attrs,omitempty"`
	Blocks []Block `json:"blocks,omitempty"`
}

func (b *Body) Clone() *Body {
	if b == nil {
		return nil
	}
	nb := &Body{}
	if len(b.Attrs) > 0 {
		nb.Attrs = append([]Attr(nil), b.Attrs...)
	}
	for _, bl := range b.Blocks {
		nb.Blocks = append(nb.Blocks, bl.clone())
	}
	return nb
}

func (bl Block) clone() Block {
	c := bl
	c.Labels = append([]string(nil), bl.Labels...)
	c.Body = bl.Body.Clone()
	if bl.Dyn != nil {
		d := *bl.Dyn
		d.Labels = append([]Expr(nil), bl.Dyn.Labels...)
		c.Dyn = &d
	}
	return c
}

// Attr returns the attribute of the given name.
func (b *Body) Attr(name string) (Attr, bool) {
	for _, a := range b.Attrs {
		if a.Name == name {
			return a, true
		}
	}
	return Attr{}, false
}

// HasDynamic reports whether a dynamic block occurs anywhere in the body.
func (b *Body) HasDynamic() bool {
	for _, bl := range b.Blocks {
		if bl.Dyn != nil || (bl.Body != nil && bl.Body.HasDynamic()) {
			return true
		}
	}
	return false
}

// Native renders the body in the native syntax.
func (b *Body) Native() string {
	var sb strings.Builder
	b.native(&sb, "")
	return sb.String()
}

func (b *Body) native(sb *strings.Builder, ind string) {
	if b == nil {
		return
	}
	for _, a := range b.Attrs {
		fmt.Fprintf(sb, "%s%s = %s\n", ind, a.Name, a.Expr.Native())
	}
	for _, bl := range b.Blocks {
		if bl.Dyn != nil {
			fmt.Fprintf(sb, "%sdynamic %q {\n", ind, bl.Type)
			fmt.Fprintf(sb, "%s  for_each = %s\n", ind, bl.Dyn.ForEach.Native())
			if bl.Dyn.Iterator != "" {
				fmt.Fprintf(sb, "%s  iterator = %s\n", ind, bl.Dyn.Iterator)
			}
			if bl.Dyn.Labels != nil {
				var ls []string
				for _, l := range bl.Dyn.Labels {
					ls = append(ls, l.Native())
				}
				fmt.Fprintf(sb, "%s  labels = [%s]\n", ind, strings.Join(ls, ", "))
			}
			fmt.Fprintf(sb, "%s  content {\n", ind)
			bl.Body.native(sb, ind+"    ")
			fmt.Fprintf(sb, "%s  }\n%s}\n", ind, ind)
			continue
		}
		sb.WriteString(ind + bl.Type)
		for _, l := range bl.Labels {
			fmt.Fprintf(sb, " %q", l)
		}
		sb.WriteString(" {\n")
		bl.Body.native(sb, ind+"  ")
		sb.WriteString(ind + "}\n")
	}
}

// JSON renders the body in the JSON syntax. Every item becomes its own
// property of one JSON object, in source order (the JSON syntax keeps the
// order of the properties and allows a property name to be repeated).
func (b *Body) JSON() string {
	var sb strings.Builder
	b.json(&sb)
	return sb.String()
}

func (b *Body) json(sb *strings.Builder) {
	sb.WriteByte('{')
	first := true
	sep := func() {
		if !first {
			sb.WriteString(", ")
		}
		first = false
	}
	if b != nil {
		for _, a := range b.Attrs {
			sep()
			fmt.Fprintf(sb, "%q: %s", a.Name, a.Expr.JSON())
		}
		for _, bl := range b.Blocks {
			sep()
			if bl.Dyn != nil {
				fmt.Fprintf(sb, "%q: {%q: {\"for_each\": %s", "dynamic", bl.Type, bl.Dyn.ForEach.JSON())
				if bl.Dyn.Iterator != "" {
					fmt.Fprintf(sb, ", \"iterator\": %q", bl.Dyn.Iterator)
				}
				if bl.Dyn.Labels != nil {
					var ls []string
					for _, l := range bl.Dyn.Labels {
						ls = append(ls, l.JSON())
					}
					fmt.Fprintf(sb, ", \"labels\": [%s]", strings.Join(ls, ", "))
				}
				sb.WriteString(", \"content\": ")
				bl.Body.json(sb)
				sb.WriteString("}}")
				continue
			}
			fmt.Fprintf(sb, "%q: ", bl.Type)
			for _, l := range bl.Labels {
				fmt.Fprintf(sb, "{%q: ", l)
			}
			bl.Body.json(sb)
			sb.WriteString(strings.Repeat("}", len(bl.Labels)))
		}
	}
	sb.WriteByte('}')
}

// Key is a compact one-line rendering used as case identifier / for
// de-duplication.
func (b *Body) Key() string {
	var sb strings.Builder
	b.key(&sb)
	return sb.String()
}

func (b *Body) key(sb *strings.Builder) {
	if b == nil {
		return
	}
	for i, a := range b.Attrs {
		if i > 0 {
			sb.WriteByte(';')
		}
		sb.WriteString(a.Name + "=" + a.Expr.Native())
	}
	for i, bl := range b.Blocks {
		if i > 0 || len(b.Attrs) > 0 {
			sb.WriteByte(';')
		}
		if bl.Dyn != nil {
			sb.WriteString("dyn:" + bl.Type + "<" + bl.Dyn.ForEach.Native())
			if bl.Dyn.Iterator != "" {
				sb.WriteString(" as " + bl.Dyn.Iterator)
			}
			if bl.Dyn.Labels != nil {
				sb.WriteString(" [")
				for j, l := range bl.Dyn.Labels {
					if j > 0 {
						sb.WriteByte(',')
					}
					sb.WriteString(l.Native())
				}
				sb.WriteString("]")
			}
			sb.WriteString(">")
		} else {
			sb.WriteString(bl.Type)
			for _, l := range bl.Labels {
				sb.WriteString(" " + l)
			}
		}
		sb.WriteByte('{')
		bl.Body.key(sb)
		sb.WriteByte('}')
	}
}

// ---------------------------------------------------------------------------
// Types by JSON name

// Ty parses a type written in cty's JSON type syntax (`"string"`,
// `["list","string"]`, `["object",{"k":"number","o":"string"},["o"]]`).
func Ty(s string) cty.Type {
	var t cty.Type
	if err := json.Unmarshal([]byte(s), &t); err != nil {
		panic(fmt.Sprintf("specgen: bad type %s: %v", s, err))
	}
	return t
}

// TyString renders a type in cty's JSON type syntax.
func TyString(t cty.Type) string {
	b, err := json.Marshal(t)
	if err != nil {
		panic(err)
	}
	return string(b)
}

const (
	TString  = `"string"`
	TNumber  = `"number"`
	TBool    = `"bool"`
	TDynamic = `"dynamic"`
	TListStr = `["list","string"]`
	// partly dynamic: the element type is decided by the value
	TListDyn = `["list","dynamic"]`
	TMapNum  = `["map","number"]`
	// object type with one optional attribute
	TObject = `["object",{"k":"number","o":"string"},["o"]]`
	// the optional attribute one level down in the type
	TListObjOpt = `["list",["object",{"k":"number","o":"string"},["o"]]]`
)

// Sample builds a known, non-null value of the given type (which must not
// contain the dynamic pseudo-type).
func Sample(t cty.Type) cty.Value {
	switch {
	case t == cty.String:
		return cty.StringVal("D")
	case t == cty.Number:
		return cty.NumberIntVal(7)
	case t == cty.Bool:
		return cty.True
	case t.IsListType():
		return cty.ListVal([]cty.Value{Sample(t.ElementType())})
	case t.IsSetType():
		return cty.SetVal([]cty.Value{Sample(t.ElementType())})
	case t.IsMapType():
		return cty.MapVal(map[string]cty.Value{"d": Sample(t.ElementType())})
	case t.IsTupleType():
		ets := t.TupleElementTypes()
		if len(ets) == 0 {
			return cty.EmptyTupleVal
		}
		vs := make([]cty.Value, len(ets))
		for i, et := range ets {
			vs[i] = Sample(et)
		}
		return cty.TupleVal(vs)
	case t.IsObjectType():
		ats := t.AttributeTypes()
		if len(ats) == 0 {
			return cty.EmptyObjectVal
		}
		vs := map[string]cty.Value{}
		for k, at := range ats {
			vs[k] = Sample(at)
		}
		return cty.ObjectVal(vs)
	}
	panic("specgen: no sample value for type " + t.FriendlyName())
}

func sortedKeys[V any](m map[string]V) []string {
	ks := make([]string, 0, len(m))
	for k := range m {
		ks = append(ks, k)
	}
	sort.Strings(ks)
	return ks
}
