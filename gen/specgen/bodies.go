package specgen

import (
	"fmt"

	"github.com/zclconf/go-cty/cty"
)

// Globals are the variables of the evaluation context used when decoding the
// bodies of C08: an unknown string, an unknown value of unknown type and a
// known string.
var Globals = map[string]cty.Value{
	"unk": cty.UnknownVal(cty.String),
	"dyn": cty.DynamicVal,
	"g":   cty.StringVal("G"),
}

// Pool: the attribute values substituted by the "replace value" perturbation.
var Pool = []Expr{L("s"), L("n"), L("t"), L("ls"), L("ln"), L("ob"), L("null"), R("unk"), R("dyn")}

// conforming value of variant v (0 or 1) for an attribute of the given type.
func conformingValue(ty string, v int) Expr {
	pick := func(a, b Expr) Expr {
		if v == 0 {
			return a
		}
		return b
	}
	switch ty {
	case TString:
		return pick(L("s"), L("n"))
	case TNumber:
		return pick(L("n"), L("n2"))
	case TBool:
		return L("t")
	case TListStr:
		return pick(L("ls"), L("lp"))
	case TMapNum:
		return pick(L("ob"), L("oe"))
	case TObject:
		return L("ob")
	case TListObjOpt:
		return pick(L("lo"), SampleOf(TyString(Ty(ty).WithoutOptionalAttributesDeep())))
	case TDynamic:
		return pick(L("s"), L("n"))
	}
	t := Ty(ty)
	if t.HasDynamicTypes() {
		// e.g. the attribute default of a primary with a partly dynamic implied
		// type: replace the dynamic parts by string to get a sample
		return SampleOf(TyString(concretize(t)))
	}
	return SampleOf(TyString(t.WithoutOptionalAttributesDeep()))
}

func concretize(t cty.Type) cty.Type {
	switch {
	case t == cty.DynamicPseudoType:
		return cty.String
	case t.IsListType():
		return cty.List(concretize(t.ElementType()))
	case t.IsSetType():
		return cty.Set(concretize(t.ElementType()))
	case t.IsMapType():
		return cty.Map(concretize(t.ElementType()))
	case t.IsTupleType():
		ets := t.TupleElementTypes()
		out := make([]cty.Type, len(ets))
		for i, et := range ets {
			out[i] = concretize(et)
		}
		return cty.Tuple(out)
	case t.IsObjectType():
		out := map[string]cty.Type{}
		for k, at := range t.AttributeTypes() {
			out[k] = concretize(at)
		}
		return cty.Object(out)
	}
	return t
}

const (
	repMin   = 0
	repFull0 = 1
	repFull1 = 2
	repMix   = 3
)

// blockLabels: the labels of the i-th block of a type that needs n labels.
// The last label differs between blocks that share the earlier labels, so
// that two-level maps get both shared and distinct outer keys.
func blockLabels(i, n int) []string {
	switch n {
	case 0:
		return nil
	case 1:
		return []string{fmt.Sprintf("k%d", i)}
	}
	ls := make([]string, n)
	for j := 0; j < n-2; j++ {
		ls[j] = "j"
	}
	ls[n-2] = fmt.Sprintf("k%d", i/2)
	ls[n-1] = fmt.Sprintf("m%d", i%2)
	return ls
}

func minCount(u *Spec) int {
	switch u.K {
	case KBlock, KAttrs:
		if u.Req {
			return 1
		}
		return 0
	case KList, KSet, KBTuple:
		return u.Min
	}
	return 0
}

// nestedRep: the representative body of the given variant for one block of
// the block-ish spec u.
func nestedRep(u *Spec, variant int) *Body {
	if u.K == KAttrs {
		b := &Body{}
		v1 := conformingValue(u.Ty, 1)
		if u.Ty == TDynamic {
			v1 = L("s2") // same type as variant 0: mixed types are a perturbation
		}
		switch variant {
		case repFull0:
			b.Attrs = []Attr{{"k1", conformingValue(u.Ty, 0)}}
		case repFull1:
			b.Attrs = []Attr{{"k1", conformingValue(u.Ty, 0)}, {"k2", v1}}
		case repMix:
			b.Attrs = []Attr{{"k1", conformingValue(u.Ty, 0)}}
		}
		return b
	}
	return RepBody(u.Kids[0], variant)
}

// RepBody: representative conforming body for the same-body region of s.
//
//	min:   optional attributes absent, the fewest blocks that satisfy the spec
//	full0: every attribute present (value variant 0), one block of every type (full0 inside)
//	full1: every attribute present (value variant 1), two blocks of every type (full0 and full1 inside;
//	       one block, full1 inside, for BlockSpec and BlockAttrsSpec)
//	mix:   (perturbation base only) every attribute present (variant 0), two blocks of every
//	       type: a mix block and a min block (one mix block for BlockSpec and BlockAttrsSpec)
func RepBody(s *Spec, variant int) *Body {
	v := ViewOf(s)
	b := &Body{}
	for _, au := range v.Attrs {
		switch variant {
		case repMin:
			if au.Req {
				b.Attrs = append(b.Attrs, Attr{au.Name, conformingValue(au.Specs[0].Ty, 0)})
			}
		case repFull0, repMix:
			b.Attrs = append(b.Attrs, Attr{au.Name, conformingValue(au.Specs[0].Ty, 0)})
		case repFull1:
			b.Attrs = append(b.Attrs, Attr{au.Name, conformingValue(au.Specs[0].Ty, 1)})
		}
	}
	for _, bu := range v.Blocks {
		var reps []int
		switch variant {
		case repMin:
			for i := 0; i < minCount(bu.Spec); i++ {
				reps = append(reps, repMin)
			}
		case repFull0:
			reps = []int{repFull0}
		case repFull1:
			reps = []int{repFull0, repFull1}
			if bu.Spec.K == KBlock || bu.Spec.K == KAttrs {
				reps = []int{repFull1} // at most one block is valid
			}
		case repMix:
			reps = []int{repMix, repMin}
			if bu.Spec.K == KBlock || bu.Spec.K == KAttrs {
				reps = []int{repMix}
			}
		}
		for i, r := range reps {
			b.Blocks = append(b.Blocks, Block{Type: bu.Type, Labels: blockLabels(i, bu.NLabels), Body: nestedRep(bu.Spec, r)})
		}
	}
	return b
}

// blockPatterns: the sequences of representative variants used for c blocks.
func blockPatterns(c int, small bool) [][]int {
	switch c {
	case 0:
		return [][]int{{}}
	case 1:
		return [][]int{{repMin}, {repFull0}, {repFull1}}
	case 2:
		if small {
			return [][]int{{repFull0, repFull0}, {repFull0, repFull1}}
		}
		return [][]int{{repMin, repMin}, {repFull0, repFull0}, {repFull1, repFull1}, {repFull0, repFull1}, {repFull1, repFull0}}
	}
	if small {
		return [][]int{{repFull0, repFull1, repFull0}}
	}
	return [][]int{{repMin, repMin, repMin}, {repFull0, repFull0, repFull0}, {repFull1, repFull1, repFull1}, {repFull0, repFull1, repFull0}, {repFull1, repFull0, repMin}}
}

// Bodies enumerates the bodies decoded with spec s, simplest first:
//
//  1. "conforming" family: the product, over the attributes of the top-level
//     body, of {absent, value variant 0, value variant 1} and, over the block
//     types, of every count 0..3 with the block contents drawn from the
//     representative bodies (patterns: all blocks the same representative, or
//     alternating representatives). If the product exceeds maxConf the block
//     patterns are reduced (small). Counts outside Min/Max/Required are part of
//     the family: the reference decoder decides which bodies are valid.
//  2. "perturbed" family: every body reachable by <= k edits from the three
//     base bodies min / full0 / full1 / mix, where an edit is, at any nesting level:
//     remove an attribute; replace an attribute value by each value of Pool;
//     add an attribute "zz"; add a block "zzb"; remove a block; duplicate a
//     block; add a label to a block; drop the last label of a block.
//  3. "labels" family (LabelFamily, labels.go): for every BlockMapSpec /
//     BlockObjectSpec with two or more label names in the spec, every sequence
//     of 1..3 blocks whose label vectors are drawn from {x, y}^n.
//
// Bodies are de-duplicated by their rendering. tag is "conf", "pertN" or "labels".
func Bodies(s *Spec, k int, maxConf int, emit func(b *Body, tag string) bool) {
	seen := map[string]struct{}{}
	out := func(b *Body, tag string) bool {
		key := b.Key()
		if _, dup := seen[key]; dup {
			return true
		}
		seen[key] = struct{}{}
		return emit(b, tag)
	}
	v := ViewOf(s)

	// 1. conforming family
	type option struct {
		attrs  []Attr
		blocks []Block
	}
	build := func(small bool) [][]option {
		var dims [][]option
		for _, au := range v.Attrs {
			opts := []option{{}}
			v0, v1 := conformingValue(au.Specs[0].Ty, 0), conformingValue(au.Specs[0].Ty, 1)
			opts = append(opts, option{attrs: []Attr{{au.Name, v0}}})
			if v1.Native() != v0.Native() {
				opts = append(opts, option{attrs: []Attr{{au.Name, v1}}})
			}
			dims = append(dims, opts)
		}
		for _, bu := range v.Blocks {
			var opts []option
			for c := 0; c <= 3; c++ {
				pseen := map[string]bool{}
				for _, pat := range blockPatterns(c, small) {
					var bls []Block
					for i, r := range pat {
						bls = append(bls, Block{Type: bu.Type, Labels: blockLabels(i, bu.NLabels), Body: nestedRep(bu.Spec, r)})
					}
					key := (&Body{Blocks: bls}).Key()
					if pseen[key] {
						continue
					}
					pseen[key] = true
					opts = append(opts, option{blocks: bls})
				}
			}
			dims = append(dims, opts)
		}
		return dims
	}
	dims := build(false)
	total := 1
	for _, d := range dims {
		total *= len(d)
		if total > maxConf {
			break
		}
	}
	if total > maxConf {
		dims = build(true)
	}
	idx := make([]int, len(dims))
	for {
		b := &Body{}
		for i, d := range dims {
			o := d[idx[i]]
			b.Attrs = append(b.Attrs, o.attrs...)
			b.Blocks = append(b.Blocks, o.blocks...)
		}
		if !out(b, "conf") {
			return
		}
		// odometer, first dimension fastest
		i := 0
		for ; i < len(dims); i++ {
			idx[i]++
			if idx[i] < len(dims[i]) {
				break
			}
			idx[i] = 0
		}
		if i == len(dims) {
			break
		}
	}

	// 2. perturbed family
	frontier := []*Body{RepBody(s, repMin), RepBody(s, repFull0), RepBody(s, repFull1), RepBody(s, repMix)}
	pseen := map[string]struct{}{}
	for _, b := range frontier {
		pseen[b.Key()] = struct{}{}
		if !out(b, "conf") {
			return
		}
	}
	for round := 1; round <= k; round++ {
		var next []*Body
		tag := fmt.Sprintf("pert%d", round)
		for _, base := range frontier {
			for _, e := range Edits(base) {
				key := e.Key()
				if _, dup := pseen[key]; dup {
					continue
				}
				pseen[key] = struct{}{}
				if round < k {
					next = append(next, e)
				}
				if !out(e, tag) {
					return
				}
			}
		}
		frontier = next
	}

	// 3. label-vector family
	for _, b := range LabelFamily(s) {
		if !out(b, "labels") {
			return
		}
	}
}

// Edits returns every body one edit away from b (see Bodies).
func Edits(b *Body) []*Body {
	var out []*Body
	// path addresses a body node: indices of blocks from the root
	var walk func(node *Body, path []int)
	at := func(root *Body, path []int) *Body {
		n := root
		for _, i := range path {
			n = n.Blocks[i].Body
		}
		return n
	}
	walk = func(node *Body, path []int) {
		p := append([]int(nil), path...)
		for ai, a := range node.Attrs {
			c := b.Clone()
			n := at(c, p)
			n.Attrs = append(n.Attrs[:ai:ai], n.Attrs[ai+1:]...)
			out = append(out, c)
			for _, pv := range Pool {
				if pv.Native() == a.Expr.Native() {
					continue
				}
				c := b.Clone()
				at(c, p).Attrs[ai].Expr = pv
				out = append(out, c)
			}
		}
		{
			c := b.Clone()
			n := at(c, p)
			n.Attrs = append(n.Attrs, Attr{"zz", L("n")})
			out = append(out, c)
		}
		{
			c := b.Clone()
			n := at(c, p)
			n.Blocks = append(n.Blocks, Block{Type: "zzb", Body: &Body{}})
			out = append(out, c)
		}
		for bi, bl := range node.Blocks {
			{
				c := b.Clone()
				n := at(c, p)
				n.Blocks = append(n.Blocks[:bi:bi], n.Blocks[bi+1:]...)
				out = append(out, c)
			}
			{
				c := b.Clone()
				n := at(c, p)
				dup := n.Blocks[bi].clone()
				rest := append([]Block{dup}, n.Blocks[bi+1:]...)
				n.Blocks = append(n.Blocks[:bi+1:bi+1], rest...)
				out = append(out, c)
			}
			{
				c := b.Clone()
				n := at(c, p)
				n.Blocks[bi].Labels = append(n.Blocks[bi].Labels, "xl")
				out = append(out, c)
			}
			if len(bl.Labels) > 0 {
				c := b.Clone()
				n := at(c, p)
				n.Blocks[bi].Labels = n.Blocks[bi].Labels[:len(bl.Labels)-1]
				out = append(out, c)
			}
			if bl.Body != nil {
				walk(bl.Body, append(p, bi))
			}
		}
	}
	walk(b, nil)
	return out
}
