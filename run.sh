#!/bin/bash
# usage: ./run.sh <Cnn> <quick|thorough>        run a check (rebuilds against /repo's working tree)
#        ./run.sh <Cnn> replay <file>           re-run one recorded case with no explorer in the loop
#        ./run.sh setup                         warm the build cache
cd "$(dirname "$0")" || exit 2
export VERIF_DIR="$PWD"
export GOFLAGS=-mod=mod GOPROXY=off
unset GOSUMDB GOTOOLCHAIN GOWORK
GO=go
if ! $GO version >/dev/null 2>&1; then
  export GOTOOLCHAIN=local; GO=go1.26.8
fi
mkdir -p .work/bin evidence replays

if [ "$1" = setup ]; then
  rc=0
  for d in checks/c*/; do
    id=$(basename "$d")
    $GO build -o ".work/bin/$id" "./checks/$id" || rc=2
  done
  if [ -d checks/c17/race ]; then $GO build -race -o .work/bin/c17race ./checks/c17/race || rc=2; fi
  exit $rc
fi

ID="$1"; MODE="${2:-quick}"; shift; shift
id=$(echo "$ID" | tr 'A-Z' 'a-z')
if [ ! -d "checks/$id" ]; then echo "unknown check $ID" >&2; exit 2; fi
# Build into a private file and move it into place so concurrent runs never execute a half-written binary.
tmpbin=".work/bin/$id.$$"
if ! $GO build -o "$tmpbin" "./checks/$id" 2> ".work/build-$id.$$.log"; then
  cat ".work/build-$id.$$.log" >&2; rm -f "$tmpbin" ".work/build-$id.$$.log"
  echo "BUILD-FAILED property=$ID (harness or /repo does not compile; no verdict)" >&2
  exit 2
fi
rm -f ".work/build-$id.$$.log"
mv -f "$tmpbin" ".work/bin/$id"
export VERIF_GO="$GO"
".work/bin/$id" "$MODE" "$@" 2> ".work/last-$id.log"
rc=$?
cat ".work/last-$id.log" >&2
if [ $rc -ne 0 ] && [ $rc -ne 1 ]; then
  # The check process died (Go fatal error such as stack exhaustion or concurrent map access in the code under test).
  mkdir -p "replays/$ID"
  cp ".work/last-$id.log" "replays/$ID/crash.log" 2>/dev/null
  if grep -q -E '^(fatal error|panic:|goroutine .* \[running\])' "replays/$ID/crash.log" 2>/dev/null; then
    echo "VIOLATION property=$ID replay=$PWD/replays/$ID/crash.log"
    exit 1
  fi
  exit $rc
fi
exit $rc
