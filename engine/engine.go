// Package engine is the generic bounded-exhaustive explorer shared by all
// checks: it drives a deterministic enumeration of cases through the real
// implementation under a per-case oracle, counts what was covered, handles
// known findings, shrinks and records violations as replayable artefacts and
// writes the evidence file.
package engine

import (
	"crypto/sha256"
	"encoding/hex"
	"encoding/json"
	"fmt"
	"hash/fnv"
	"os"
	"path/filepath"
	"runtime"
	"runtime/debug"
	"sort"
	"strconv"
	"strings"
	"sync"
	"sync/atomic"
	"time"
)

type Verdict int

const (
	OK Verdict = iota
	Unspec
	Viol
)

// Outcome is what the oracle says about one case.
type Outcome struct {
	V      Verdict
	Sig    string // signature of a non-trivial observation; "" = trivial case
	Detail string // human-readable explanation of a violation
	Class  string // narrow name of the failing construct+condition (known-finding region)
}

func Pass(sig string) Outcome { return Outcome{V: OK, Sig: sig} }
func Skip() Outcome           { return Outcome{V: Unspec} }
func Fail(class, format string, a ...any) Outcome {
	return Outcome{V: Viol, Class: class, Detail: fmt.Sprintf(format, a...)}
}

// Case is one element of the enumerated space. Data must be JSON-serialisable
// and sufficient to re-run the case with no explorer in the loop.
type Case struct {
	ID   string
	Data any
}

type Check struct {
	ID          string
	Title       string
	Rule        string
	Technique   string
	Assumptions []string
	// Gen enumerates the whole domain of the tier deterministically,
	// simplest-first. emit returns false when the run must stop (deadline).
	Gen func(tier string, emit func(Case) bool)
	// Judge runs the real code on one case and applies the oracle. It may
	// panic; the engine records a panic as a violation of class "panic".
	Judge func(c Case) Outcome
	// Load decodes the Data of a stored case.
	Load func(raw json.RawMessage) (any, error)
	// Shrink optionally proposes smaller variants of a failing case.
	Shrink func(c Case) []Case
	// Extra adds per-check coverage keys to the evidence (called at the end).
	Extra func() map[string]any
	// Pre runs before enumeration (after known findings are replayed); it may
	// return additional violations (e.g. from an auxiliary pass).
	Pre func(tier string) []Violation
	// Budgets: internal deadlines after which the run stops with exhaustive=false.
	QuickBudget, ThoroughBudget time.Duration
	// StateKeys: when set, evidence reports states/transitions (model-checking keys).
	States  func() (states, transitions, traces int64)
	Workers int
	// HangLimit overrides the per-case watchdog limit (default 300 s).
	HangLimit time.Duration
}

// RunDeadline is the internal deadline of the current run (for generators that
// do substantial work of their own between two emitted cases).
var RunDeadline time.Time

type Violation struct {
	Case    Case
	Outcome Outcome
}

type knownFinding struct {
	Property string          `json:"property"`
	Status   string          `json:"status"` // "open" or "fixed"
	Class    string          `json:"class"`
	What     string          `json:"what"`
	Commit   string          `json:"commit,omitempty"`
	Witness  json.RawMessage `json:"witness,omitempty"`
	CaseID   string          `json:"case_id,omitempty"`
}

type replayFile struct {
	Property string          `json:"property"`
	CaseID   string          `json:"case_id"`
	Class    string          `json:"class"`
	Detail   string          `json:"detail"`
	Data     json.RawMessage `json:"data"`
}

func verifDir() string {
	if d := os.Getenv("VERIF_DIR"); d != "" {
		return d
	}
	return "/verif"
}

// Main is the entry point of every check binary:
//
//	<bin> quick | thorough | replay <file>
func Main(c *Check) {
	args := os.Args[1:]
	if len(args) == 0 {
		args = []string{"quick"}
	}
	switch args[0] {
	case "replay":
		if len(args) < 2 {
			fmt.Fprintln(os.Stderr, "usage: replay <file>")
			os.Exit(2)
		}
		os.Exit(replay(c, args[1]))
	case "quick", "thorough":
		os.Exit(run(c, args[0]))
	default:
		fmt.Fprintln(os.Stderr, "usage: quick|thorough|replay <file>")
		os.Exit(2)
	}
}

func safeJudge(c *Check, cs Case) (o Outcome) {
	defer func() {
		if r := recover(); r != nil {
			st := string(debug.Stack())
			o = Outcome{V: Viol, Class: "panic", Detail: fmt.Sprintf("panic: %v\n%s", r, trimStack(st))}
		}
	}()
	return c.Judge(cs)
}

func trimStack(s string) string {
	lines := strings.Split(s, "\n")
	var keep []string
	for _, l := range lines {
		if strings.Contains(l, "/repo/") || strings.Contains(l, "hashicorp/hcl") {
			keep = append(keep, strings.TrimSpace(l))
			if len(keep) >= 8 {
				break
			}
		}
	}
	return strings.Join(keep, "\n")
}

func replay(c *Check, path string) int {
	b, err := os.ReadFile(path)
	if err != nil {
		fmt.Fprintln(os.Stderr, err)
		return 2
	}
	var rf replayFile
	if err := json.Unmarshal(b, &rf); err != nil {
		fmt.Fprintln(os.Stderr, err)
		return 2
	}
	d, err := c.Load(rf.Data)
	if err != nil {
		fmt.Fprintln(os.Stderr, err)
		return 2
	}
	o := safeJudge(c, Case{ID: rf.CaseID, Data: d})
	switch o.V {
	case Viol:
		fmt.Printf("replay %s: VIOLATION class=%s\n%s\n", path, o.Class, o.Detail)
		return 1
	case Unspec:
		fmt.Printf("replay %s: unspecified (accepted)\n", path)
	default:
		fmt.Printf("replay %s: ok\n", path)
	}
	return 0
}

func loadKnown(id string) []knownFinding {
	b, err := os.ReadFile(filepath.Join(verifDir(), "known-findings.json"))
	if err != nil {
		return nil
	}
	var all struct {
		Findings []knownFinding `json:"findings"`
	}
	if err := json.Unmarshal(b, &all); err != nil {
		fmt.Fprintln(os.Stderr, "known-findings.json:", err)
		os.Exit(2)
	}
	var out []knownFinding
	for _, f := range all.Findings {
		if f.Property == id {
			out = append(out, f)
		}
	}
	return out
}

type worker struct {
	cur   atomic.Value // string: case id in progress
	since atomic.Int64
}

func run(c *Check, tier string) int {
	start := time.Now()
	seed := int64(0)
	if s := os.Getenv("VERIF_SEED"); s != "" {
		seed, _ = strconv.ParseInt(s, 10, 64)
	}
	budget := c.QuickBudget
	if tier == "thorough" {
		budget = c.ThoroughBudget
	}
	if b := os.Getenv("VERIF_BUDGET_S"); b != "" {
		if n, err := strconv.Atoi(b); err == nil {
			budget = time.Duration(n) * time.Second
		}
	}
	if budget == 0 {
		budget = 10 * time.Minute
	}
	deadline := start.Add(budget)
	RunDeadline = deadline

	// Known findings: replay each open witness; the region is active only
	// while the witness still fails with the recorded class.
	active := map[string]string{}
	var knownLines []string
	for _, kf := range loadKnown(c.ID) {
		if kf.Status != "open" {
			continue
		}
		d, err := c.Load(kf.Witness)
		if err != nil {
			fmt.Fprintf(os.Stderr, "known finding %s: cannot load witness: %v\n", kf.Class, err)
			return 2
		}
		o := safeJudge(c, Case{ID: kf.CaseID, Data: d})
		if o.V == Viol && o.Class == kf.Class {
			active[kf.Class] = kf.What
			knownLines = append(knownLines, fmt.Sprintf("KNOWN-FINDING: property=%s %s", c.ID, kf.What))
		} else if o.V == Viol {
			fmt.Fprintf(os.Stderr, "note: witness of known finding %q now fails with class %q; region not activated\n", kf.Class, o.Class)
		}
	}
	for _, l := range knownLines {
		fmt.Println(l)
	}

	var preViol []Violation
	if c.Pre != nil {
		preViol = c.Pre(tier)
	}

	nw := c.Workers
	if nw == 0 {
		nw = runtime.NumCPU()
	}
	type batch []Case
	ch := make(chan batch, nw*4)
	var evals, unspec, quarantined, violCount atomic.Int64
	var mu sync.Mutex
	sigs := map[uint64]struct{}{}
	viols := map[string][]Violation{} // per class, first few (smallest IDs first come first)
	quarClasses := map[string]int64{}
	workers := make([]*worker, nw)
	var wg sync.WaitGroup
	for i := 0; i < nw; i++ {
		w := &worker{}
		w.cur.Store("")
		workers[i] = w
		wg.Add(1)
		go func() {
			defer wg.Done()
			local := map[uint64]struct{}{}
			for b := range ch {
				for _, cs := range b {
					w.cur.Store(cs.ID)
					w.since.Store(time.Now().UnixNano())
					o := safeJudge(c, cs)
					w.cur.Store("")
					evals.Add(1)
					switch o.V {
					case Unspec:
						unspec.Add(1)
					case Viol:
						if _, q := active[o.Class]; q {
							quarantined.Add(1)
							mu.Lock()
							quarClasses[o.Class]++
							mu.Unlock()
							continue
						}
						violCount.Add(1)
						mu.Lock()
						if len(viols[o.Class]) < 3 {
							viols[o.Class] = append(viols[o.Class], Violation{cs, o})
						}
						mu.Unlock()
					}
					if o.Sig != "" {
						h := fnv.New64a()
						h.Write([]byte(o.Sig))
						local[h.Sum64()] = struct{}{}
					}
				}
			}
			mu.Lock()
			for k := range local {
				sigs[k] = struct{}{}
			}
			mu.Unlock()
		}()
	}

	// Watchdog: a single case running for more than hangLimit is reported as a
	// hang (the cases take micro- to milliseconds; the limit is generous).
	hangLimit := 300 * time.Second
	if c.HangLimit > 0 {
		hangLimit = c.HangLimit
	}
	stopWD := make(chan struct{})
	go func() {
		t := time.NewTicker(5 * time.Second)
		defer t.Stop()
		for {
			select {
			case <-stopWD:
				return
			case <-t.C:
				for _, w := range workers {
					id, _ := w.cur.Load().(string)
					if id != "" && time.Since(time.Unix(0, w.since.Load())) > hangLimit {
						p := writeRaw(c.ID, "hang", id, fmt.Sprintf("case %s did not finish within %s", id, hangLimit), nil)
						fmt.Printf("VIOLATION property=%s replay=%s\n", c.ID, p)
						os.Exit(1)
					}
				}
			}
		}
	}()

	var samples []any
	sampleAt := map[int64]bool{0: true, 1: true, 2: true}
	for _, k := range []int64{10, 100, 1000, 10000, 100000, 1000000} {
		sampleAt[k+seed%7] = true
	}
	var gen int64
	exhaustive := true
	cur := make(batch, 0, 128)
	emit := func(cs Case) bool {
		if sampleAt[gen] && len(samples) < 12 {
			samples = append(samples, map[string]any{"id": cs.ID, "case": cs.Data})
		}
		gen++
		cur = append(cur, cs)
		if len(cur) == cap(cur) {
			ch <- cur
			cur = make(batch, 0, 128)
			if time.Now().After(deadline) {
				exhaustive = false
				return false
			}
		}
		return true
	}
	c.Gen(tier, emit)
	if len(cur) > 0 {
		ch <- cur
	}
	close(ch)
	wg.Wait()
	close(stopWD)

	// Report violations: shrink, confirm 5x, write replay files.
	var lines []string
	classes := make([]string, 0, len(viols))
	for k := range viols {
		classes = append(classes, k)
	}
	sort.Strings(classes)
	var all []Violation
	all = append(all, preViol...)
	for _, k := range classes {
		vs := viols[k]
		sort.Slice(vs, func(i, j int) bool {
			return len(vs[i].Case.ID) < len(vs[j].Case.ID) || (len(vs[i].Case.ID) == len(vs[j].Case.ID) && vs[i].Case.ID < vs[j].Case.ID)
		})
		all = append(all, vs[0])
	}
	reported := 0
	for _, v := range all {
		v = shrink(c, v, active)
		stable := true
		if v.Outcome.Class != "race" && v.Outcome.Class != "aux" {
			for i := 0; i < 5; i++ {
				o := safeJudge(c, v.Case)
				if o.V != Viol {
					stable = false
					break
				}
			}
		}
		if !stable {
			// A verdict that does not reproduce is a harness problem, not a
			// violation: say so loudly but do not raise an alarm.
			fmt.Fprintf(os.Stderr, "UNSTABLE verdict for case %s (class %s): not reported\n", v.Case.ID, v.Outcome.Class)
			continue
		}
		raw, _ := json.Marshal(v.Case.Data)
		p := writeRaw(c.ID, v.Outcome.Class, v.Case.ID, v.Outcome.Detail, raw)
		lines = append(lines, fmt.Sprintf("VIOLATION property=%s replay=%s", c.ID, p))
		fmt.Fprintf(os.Stderr, "--- %s class=%s case=%s\n%s\n", c.ID, v.Outcome.Class, v.Case.ID, v.Outcome.Detail)
		reported++
	}
	for _, l := range lines {
		fmt.Println(l)
	}

	cov := map[string]any{
		"evaluations":         evals.Load(),
		"distinct_nontrivial": int64(len(sigs)),
		"rule":                c.Rule,
		"samples":             samples,
		"exhaustive":          exhaustive,
		"unspecified":         unspec.Load(),
		"quarantined":         quarantined.Load(),
		"workers":             nw,
	}
	if len(quarClasses) > 0 {
		cov["quarantined_by_region"] = quarClasses
	}
	if len(active) > 0 {
		var ks []string
		for k := range active {
			ks = append(ks, k)
		}
		sort.Strings(ks)
		cov["active_known_findings"] = ks
	}
	if !exhaustive {
		cov["stopped_by"] = fmt.Sprintf("internal deadline %s; cases 0..%d of the simplest-first enumeration were covered completely", budget, gen-1)
	}
	if c.States != nil {
		s, t, tr := c.States()
		cov["states"], cov["transitions"], cov["traces_validated_against_impl"] = s, t, tr
	}
	if c.Extra != nil {
		for k, v := range c.Extra() {
			cov[k] = v
		}
	}
	ev := map[string]any{
		"property_id": c.ID,
		"tier":        tier,
		"seed":        seed,
		"level":       "model_checking",
		"coverage":    cov,
		"assumptions": c.Assumptions,
		"wall_s":      time.Since(start).Seconds(),
		"violations":  reported,
		"technique":   c.Technique,
	}
	b, _ := json.MarshalIndent(ev, "", " ")
	os.MkdirAll(filepath.Join(verifDir(), "evidence"), 0o755)
	if err := os.WriteFile(filepath.Join(verifDir(), "evidence", c.ID+".json"), b, 0o644); err != nil {
		fmt.Fprintln(os.Stderr, err)
		return 2
	}
	fmt.Fprintf(os.Stderr, "%s %s: evaluations=%d distinct_nontrivial=%d unspecified=%d quarantined=%d violations=%d (classes=%d) exhaustive=%v wall=%.1fs\n",
		c.ID, tier, evals.Load(), len(sigs), unspec.Load(), quarantined.Load(), violCount.Load(), len(viols), exhaustive, time.Since(start).Seconds())
	if reported > 0 {
		return 1
	}
	return 0
}

func shrink(c *Check, v Violation, active map[string]string) Violation {
	if c.Shrink == nil {
		return v
	}
	for round := 0; round < 200; round++ {
		improved := false
		for _, cand := range c.Shrink(v.Case) {
			o := safeJudge(c, cand)
			if o.V != Viol {
				continue
			}
			if _, q := active[o.Class]; q {
				continue // never shrink into a recorded finding
			}
			if o.Class != v.Outcome.Class {
				continue
			}
			v = Violation{cand, o}
			improved = true
			break
		}
		if !improved {
			break
		}
	}
	return v
}

func writeRaw(id, class, caseID, detail string, data json.RawMessage) string {
	if data == nil {
		data = json.RawMessage("null")
	}
	rf := replayFile{Property: id, CaseID: caseID, Class: class, Detail: detail, Data: data}
	b, _ := json.MarshalIndent(rf, "", " ")
	h := sha256.Sum256(append([]byte(class+"\x00"), data...))
	dir := filepath.Join(verifDir(), "replays", id)
	os.MkdirAll(dir, 0o755)
	p := filepath.Join(dir, hex.EncodeToString(h[:6])+".json")
	os.WriteFile(p, b, 0o644)
	return p
}

// LoadAs is a helper for Check.Load implementations.
func LoadAs[T any](raw json.RawMessage) (any, error) {
	var v T
	if err := json.Unmarshal(raw, &v); err != nil {
		return nil, err
	}
	return v, nil
}

// Counter is a concurrency-safe named counter set for per-check extras.
type Counter struct {
	mu sync.Mutex
	m  map[string]int64
}

func (c *Counter) Add(k string, n int64) {
	c.mu.Lock()
	if c.m == nil {
		c.m = map[string]int64{}
	}
	c.m[k] += n
	c.mu.Unlock()
}

func (c *Counter) Snapshot() map[string]int64 {
	c.mu.Lock()
	defer c.mu.Unlock()
	out := map[string]int64{}
	for k, v := range c.m {
		out[k] = v
	}
	return out
}
