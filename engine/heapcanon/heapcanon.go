// Package heapcanon computes a canonical form of the object graph reachable
// from a list of roots, private fields included (reflect + unsafe). It is the
// state key of the explicit-state searches that merge states: two states get
// the same key only if their reachable object graphs are isomorphic, i.e. equal
// up to the numeric values of addresses:
//
//   - every pointer, map and slice backing array is numbered in the order of a
//     deterministic depth-first walk (fields in declaration order, slice
//     elements in index order, map entries sorted by the canonical form of
//     their keys); a second encounter is written as a reference to that number,
//     so aliasing (two attributes holding the same *Token, two slices over one
//     backing array, a cached pointer to a node that is also in a list) is part
//     of the key;
//   - a slice is written as (backing array, distance of its first element from
//     the end of that array, length, capacity, elements [0:len]). The backing
//     array is identified by the address one past its end, which all slices
//     cut from one array by s[i:j] share;
//   - a map whose keys are pointers is written after everything else: keys
//     already numbered by then are listed by number, the others are numbered
//     in the order of their own canonical forms.
//
// Correctness argument for merging on this key: Go code that does not look at
// address values, does not iterate maps in an order it then depends on and
// does not read slice elements beyond len behaves identically on isomorphic
// heaps; so equal keys have equal futures for every later operation sequence.
// The elements between len and cap of a slice are the one part of the heap
// that is not in the key (stated as an assumption by the checks that merge).
package heapcanon

import (
	"crypto/sha256"
	"fmt"
	"reflect"
	"sort"
	"strconv"
	"sync"
	"unsafe"
)

// Key is a 128-bit digest of a canonical form.
type Key [16]byte

// arrayKey identifies a backing array by the address one past its end. The
// address is kept as an integer: a pointer value there would point into
// whatever object follows the array, which the garbage collector must not see.
type arrayKey struct {
	end uintptr
	t   reflect.Type
}

type ptrKey struct {
	p unsafe.Pointer
	t reflect.Type
}

type deferredMap struct {
	slot int
	v    reflect.Value
}

type walker struct {
	buf      []byte
	ptrs     map[ptrKey]int
	arrays   map[arrayKey]int
	next     int
	deferred []deferredMap
	nslots   int
}

// Canon returns the canonical form of the graph reachable from roots. Every
// root must be a pointer, map, slice, string, number or bool (structs are
// passed by pointer so that their fields are addressable).
func Canon(roots ...any) []byte {
	w := &walker{ptrs: make(map[ptrKey]int, 2048), arrays: make(map[arrayKey]int, 1024), buf: make([]byte, 0, 1<<16)}
	w.canon(roots)
	return w.buf
}

var pool = sync.Pool{New: func() any {
	return &walker{ptrs: make(map[ptrKey]int, 2048), arrays: make(map[arrayKey]int, 1024), buf: make([]byte, 0, 1<<16)}
}}

// Hash returns the digest of Canon(roots...).
func Hash(roots ...any) Key {
	w := pool.Get().(*walker)
	w.canon(roots)
	s := sha256.Sum256(w.buf)
	w.buf = w.buf[:0]
	clear(w.ptrs)
	clear(w.arrays)
	w.next, w.nslots = 0, 0
	w.deferred = w.deferred[:0]
	pool.Put(w)
	var k Key
	copy(k[:], s[:16])
	return k
}

func (w *walker) canon(roots []any) {
	for i, r := range roots {
		w.buf = append(w.buf, "R"...)
		w.buf = strconv.AppendInt(w.buf, int64(i), 10)
		w.buf = append(w.buf, ':')
		if r == nil {
			w.buf = append(w.buf, "nil;"...)
			continue
		}
		w.walk(reflect.ValueOf(r))
		w.buf = append(w.buf, ';')
	}
	// maps with pointer keys, in the order they were met (they may in turn
	// meet more of them)
	for i := 0; i < len(w.deferred); i++ {
		d := w.deferred[i]
		w.buf = append(w.buf, "M"...)
		w.buf = strconv.AppendInt(w.buf, int64(d.slot), 10)
		w.buf = append(w.buf, '{')
		w.pointerKeyedMap(d.v)
		w.buf = append(w.buf, '}')
	}
}

// clean returns v without the read-only flag reflect puts on values reached
// through unexported fields. v must be addressable.
func clean(v reflect.Value) reflect.Value {
	if v.CanInterface() || !v.CanAddr() {
		return v
	}
	return reflect.NewAt(v.Type(), unsafe.Pointer(v.UnsafeAddr())).Elem()
}

func (w *walker) str(s string) {
	w.buf = strconv.AppendQuote(w.buf, s)
}

func (w *walker) num(prefix byte, n int) {
	w.buf = append(w.buf, prefix)
	w.buf = strconv.AppendInt(w.buf, int64(n), 10)
}

func (w *walker) walk(v reflect.Value) {
	switch v.Kind() {
	case reflect.Bool:
		if v.Bool() {
			w.buf = append(w.buf, 't')
		} else {
			w.buf = append(w.buf, 'f')
		}
	case reflect.Int, reflect.Int8, reflect.Int16, reflect.Int32, reflect.Int64:
		w.buf = strconv.AppendInt(w.buf, v.Int(), 10)
	case reflect.Uint, reflect.Uint8, reflect.Uint16, reflect.Uint32, reflect.Uint64, reflect.Uintptr:
		w.buf = strconv.AppendUint(w.buf, v.Uint(), 10)
	case reflect.Float32, reflect.Float64:
		w.buf = strconv.AppendFloat(w.buf, v.Float(), 'g', -1, 64)
	case reflect.Complex64, reflect.Complex128:
		w.buf = append(w.buf, fmt.Sprint(v.Complex())...)
	case reflect.String:
		w.str(v.String())
	case reflect.Pointer:
		if v.IsNil() {
			w.buf = append(w.buf, 'n')
			return
		}
		k := ptrKey{v.UnsafePointer(), v.Type()}
		if id, ok := w.ptrs[k]; ok {
			w.num('#', id)
			return
		}
		id := w.next
		w.next++
		w.ptrs[k] = id
		w.num('&', id)
		w.buf = append(w.buf, '(')
		w.walk(v.Elem())
		w.buf = append(w.buf, ')')
	case reflect.Interface:
		if v.IsNil() {
			w.buf = append(w.buf, 'n')
			return
		}
		e := v.Elem()
		w.buf = append(w.buf, 'i', '<')
		w.buf = append(w.buf, e.Type().String()...)
		w.buf = append(w.buf, '>')
		if !e.CanAddr() {
			switch e.Kind() {
			case reflect.Struct, reflect.Array:
				// a copy is as good as the boxed value: nothing can alias the
				// inside of an interface's value
				c := reflect.New(e.Type()).Elem()
				c.Set(clean2(e))
				e = c
			}
		}
		w.walk(e)
	case reflect.Struct:
		w.buf = append(w.buf, '{')
		for i := 0; i < v.NumField(); i++ {
			if i > 0 {
				w.buf = append(w.buf, ',')
			}
			f := v.Field(i)
			if v.CanAddr() {
				f = clean(f)
			}
			w.walk(f)
		}
		w.buf = append(w.buf, '}')
	case reflect.Array:
		w.buf = append(w.buf, '[')
		for i := 0; i < v.Len(); i++ {
			if i > 0 {
				w.buf = append(w.buf, ',')
			}
			e := v.Index(i)
			if v.CanAddr() {
				e = clean(e)
			}
			w.walk(e)
		}
		w.buf = append(w.buf, ']')
	case reflect.Slice:
		if v.IsNil() {
			w.buf = append(w.buf, 'n')
			return
		}
		es := v.Type().Elem().Size()
		c := v.Cap()
		if c == 0 || es == 0 {
			w.buf = append(w.buf, "s0["...)
			w.buf = strconv.AppendInt(w.buf, int64(v.Len()), 10)
			w.buf = append(w.buf, ']')
			return
		}
		end := uintptr(v.UnsafePointer()) + uintptr(c)*es
		ak := arrayKey{end, v.Type().Elem()}
		id, seen := w.arrays[ak]
		if !seen {
			id = w.next
			w.next++
			w.arrays[ak] = id
		}
		w.num('s', id)
		w.num('c', c)
		w.num('l', v.Len())
		if v.Type().Elem().Kind() == reflect.Uint8 {
			w.str(string(v.Bytes()))
			return
		}
		w.buf = append(w.buf, '[')
		for i := 0; i < v.Len(); i++ {
			if i > 0 {
				w.buf = append(w.buf, ',')
			}
			w.walk(clean(v.Index(i)))
		}
		w.buf = append(w.buf, ']')
	case reflect.Map:
		if v.IsNil() {
			w.buf = append(w.buf, 'n')
			return
		}
		k := ptrKey{v.UnsafePointer(), v.Type()}
		if id, ok := w.ptrs[k]; ok {
			w.num('#', id)
			return
		}
		id := w.next
		w.next++
		w.ptrs[k] = id
		w.num('m', id)
		if hasPointers(v.Type().Key()) {
			slot := w.nslots
			w.nslots++
			w.num('d', slot)
			w.num('l', v.Len())
			w.deferred = append(w.deferred, deferredMap{slot, v})
			return
		}
		type entry struct {
			k string
			v reflect.Value
		}
		var es []entry
		it := v.MapRange()
		for it.Next() {
			if it.Key().Kind() == reflect.String {
				es = append(es, entry{strconv.Quote(it.Key().String()), it.Value()})
				continue
			}
			sub := &walker{ptrs: map[ptrKey]int{}, arrays: map[arrayKey]int{}}
			sub.walk(addressable(it.Key()))
			es = append(es, entry{string(sub.buf), it.Value()})
		}
		sort.Slice(es, func(i, j int) bool { return es[i].k < es[j].k })
		w.buf = append(w.buf, '{')
		for i, e := range es {
			if i > 0 {
				w.buf = append(w.buf, ',')
			}
			w.buf = append(w.buf, e.k...)
			w.buf = append(w.buf, ':')
			w.walk(addressable(e.v))
		}
		w.buf = append(w.buf, '}')
	case reflect.Func:
		if v.IsNil() {
			w.buf = append(w.buf, 'n')
		} else {
			w.buf = append(w.buf, "func"...)
		}
	case reflect.Chan, reflect.UnsafePointer:
		if v.IsNil() {
			w.buf = append(w.buf, 'n')
		} else {
			w.buf = append(w.buf, "opaque"...)
		}
	default:
		w.buf = append(w.buf, '?')
	}
}

// clean2 strips the read-only flag from a non-addressable value by way of a
// round trip through an addressable copy made with unsafe-free means where
// possible; values taken out of interfaces are never flagged read-only unless
// the interface itself was reached through an unexported field.
func clean2(v reflect.Value) reflect.Value {
	if v.CanInterface() {
		return v
	}
	// reached through an unexported field: rebuild through the interface word
	p := reflect.New(v.Type())
	// reflect.Value.Set refuses read-only sources; copy field-wise through
	// unsafe instead
	src := valuePointer(v)
	if src == nil {
		return p.Elem()
	}
	typedmemmove(p.UnsafePointer(), src, v.Type().Size())
	return p.Elem()
}

// valuePointer returns the address of the storage of a non-addressable struct
// or array value held by a reflect.Value (the data word of the Value).
func valuePointer(v reflect.Value) unsafe.Pointer {
	type rvalue struct {
		typ  unsafe.Pointer
		ptr  unsafe.Pointer
		flag uintptr
	}
	rv := (*rvalue)(unsafe.Pointer(&v))
	const flagIndir = 1 << 7
	if rv.flag&flagIndir != 0 {
		return rv.ptr
	}
	// the value itself is stored in the pointer word (pointer-shaped struct)
	return unsafe.Pointer(&rv.ptr)
}

func typedmemmove(dst, src unsafe.Pointer, n uintptr) {
	copy(unsafe.Slice((*byte)(dst), n), unsafe.Slice((*byte)(src), n))
}

// addressable returns an addressable copy of a map key or element.
func addressable(v reflect.Value) reflect.Value {
	if v.CanAddr() {
		return clean(v)
	}
	switch v.Kind() {
	case reflect.Struct, reflect.Array:
		c := reflect.New(v.Type()).Elem()
		c.Set(clean2(v))
		return c
	}
	return v
}

func hasPointers(t reflect.Type) bool {
	switch t.Kind() {
	case reflect.Pointer, reflect.Map, reflect.Chan, reflect.Func, reflect.UnsafePointer, reflect.Interface, reflect.Slice:
		return true
	case reflect.Struct:
		for i := 0; i < t.NumField(); i++ {
			if hasPointers(t.Field(i).Type) {
				return true
			}
		}
	case reflect.Array:
		return hasPointers(t.Elem())
	}
	return false
}

// pointerKeyedMap writes the entries of a map whose keys contain pointers.
func (w *walker) pointerKeyedMap(v reflect.Value) {
	type entry struct {
		known bool
		id    int
		form  string
		k, v  reflect.Value
	}
	var es []entry
	it := v.MapRange()
	for it.Next() {
		k := it.Key()
		e := entry{k: k, v: it.Value()}
		if k.Kind() == reflect.Pointer && !k.IsNil() {
			if id, ok := w.ptrs[ptrKey{k.UnsafePointer(), k.Type()}]; ok {
				e.known, e.id = true, id
			}
		}
		if !e.known {
			// canonical form of the key on its own, with the numbering known
			// so far (a copy of it, so that the trial walk leaves no trace)
			sub := &walker{ptrs: make(map[ptrKey]int, len(w.ptrs)), arrays: make(map[arrayKey]int, len(w.arrays)), next: w.next}
			for a, b := range w.ptrs {
				sub.ptrs[a] = b
			}
			for a, b := range w.arrays {
				sub.arrays[a] = b
			}
			sub.walk(addressable(k))
			e.form = string(sub.buf)
		}
		es = append(es, e)
	}
	sort.SliceStable(es, func(i, j int) bool {
		a, b := es[i], es[j]
		if a.known != b.known {
			return a.known
		}
		if a.known {
			return a.id < b.id
		}
		return a.form < b.form
	})
	for i, e := range es {
		if i > 0 {
			w.buf = append(w.buf, ',')
		}
		w.walk(addressable(e.k))
		w.buf = append(w.buf, ':')
		w.walk(addressable(e.v))
	}
}
