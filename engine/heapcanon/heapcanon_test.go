package heapcanon

import (
	"testing"
)

type tok struct {
	b []byte
	n int
}

type node struct {
	content any
	next    *node
	set     map[*node]struct{}
	toks    []*tok
	tr      iface
	m       map[string]*tok
}

type iface interface{ x() }
type sval struct {
	name string
	p    *tok
}

func (sval) x() {}

func build(shareTok, stale bool) *node {
	t1 := &tok{b: []byte("a"), n: 1}
	t2 := t1
	if !shareTok {
		t2 = &tok{b: []byte("a"), n: 1}
	}
	a := &node{content: t1, toks: []*tok{t1, t2}, tr: sval{"r", t1}, m: map[string]*tok{"k": t2, "j": t1}}
	b := &node{content: "s", next: nil}
	a.next = b
	a.set = map[*node]struct{}{a: {}, b: {}}
	if stale {
		a.set[&node{content: "stale"}] = struct{}{}
	}
	return a
}

func TestIsomorphicEqual(t *testing.T) {
	for i := 0; i < 20; i++ {
		if string(Canon(build(true, true))) != string(Canon(build(true, true))) {
			t.Fatal("isomorphic graphs differ")
		}
	}
}

func TestAliasingDistinguished(t *testing.T) {
	if string(Canon(build(true, false))) == string(Canon(build(false, false))) {
		t.Fatal("shared vs. separate token objects not distinguished")
	}
	if string(Canon(build(true, false))) == string(Canon(build(true, true))) {
		t.Fatal("stale set member not seen")
	}
}

func TestSliceAliasing(t *testing.T) {
	type two struct{ a, b []int }
	base := make([]int, 4, 8)
	x := &two{base[:2], base[2:4]}
	y := &two{[]int{0, 0}, []int{0, 0}}
	if string(Canon(x)) == string(Canon(y)) {
		t.Fatal("slices over one array vs. two arrays not distinguished")
	}
	z := &two{make([]int, 2, 8), make([]int, 2, 2)}
	u := &two{make([]int, 2, 2), make([]int, 2, 2)}
	if string(Canon(z)) == string(Canon(u)) {
		t.Fatal("capacity not in the key")
	}
	base2 := make([]int, 4, 8)
	x2 := &two{base2[:2], base2[2:4]}
	if string(Canon(x)) != string(Canon(x2)) {
		t.Fatalf("isomorphic slice graphs differ:\n%s\n%s", Canon(x), Canon(x2))
	}
}

func TestMultipleRoots(t *testing.T) {
	a := build(true, false)
	b := build(true, false)
	if string(Canon(a, a.toks)) == string(Canon(a, b.toks)) {
		t.Fatal("root aliasing not distinguished")
	}
	if string(Canon(a, a.toks, map[string][]string{"x": {"1"}})) != string(Canon(b, b.toks, map[string][]string{"x": {"1"}})) {
		t.Fatal("isomorphic multi-root graphs differ")
	}
}
