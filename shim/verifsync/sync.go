//go:build verifsched

// Package verifsync is a drop-in replacement for the parts of package sync
// that hashicorp/hcl uses (or that a plausible change to it would use). It is
// substituted for "sync" in /repo's sources by `go build -overlay` when the
// C17 check builds its schedule explorer; /repo itself is never modified.
//
// While an exploration is running (Run), every operation is a scheduling
// point of a cooperative scheduler that runs exactly one goroutine at a time
// and follows a prescribed choice sequence; otherwise the operations behave
// like the real ones.
package verifsync

import (
	"fmt"
	realsync "sync"
)

// ---- scheduler ----

type thread struct {
	id      int
	wake    chan struct{}
	done    bool
	waiting func() bool // non-nil while blocked: reports whether the thread can proceed
	result  any
}

// PointRec describes one scheduling decision of an execution.
type PointRec struct {
	Enabled        int    // number of enabled threads (running thread first, then ascending ids)
	RunningEnabled bool   // the running thread could have continued
	Choice         int    // index chosen
	Label          string // where
}

// Exec is the record of one execution.
type Exec struct {
	Points   []PointRec
	Results  []any
	Failure  string // "deadlock", "divergence: ..." or ""
	Switches int
}

var (
	active   bool
	cur      *thread
	threads  []*thread
	prefix   []int
	rec      []PointRec
	failure  string
	mainWake chan struct{}
	aborted  bool
)

func controlled() bool { return active && cur != nil && !aborted }

// Filter, when set, selects which function-entry labels are scheduling
// points (lock operations always are).
var Filter func(label string) bool

// Point is a scheduling point at a function entry. Outside an exploration it does nothing.
func Point(label string) {
	if !controlled() {
		return
	}
	if Filter != nil && !Filter(label) {
		return
	}
	schedule(true, label)
}

// LockPoint is a scheduling point at an atomic operation (never filtered).
func LockPoint(label string) { lockPoint(label) }

// lockPoint is a scheduling point at a synchronisation operation.
func lockPoint(label string) {
	if !controlled() {
		return
	}
	schedule(true, label)
}

func enabledOthers() []*thread {
	var out []*thread
	for _, t := range threads {
		if t == cur || t.done {
			continue
		}
		if t.waiting == nil || t.waiting() {
			out = append(out, t)
		}
	}
	return out
}

// schedule takes one scheduling decision. selfEnabled says whether the
// running thread may continue.
func schedule(selfEnabled bool, label string) {
	var enabled []*thread
	if selfEnabled && cur != nil {
		enabled = append(enabled, cur)
	}
	enabled = append(enabled, enabledOthers()...)
	if len(enabled) == 0 {
		allDone := true
		for _, t := range threads {
			if !t.done {
				allDone = false
			}
		}
		if !allDone {
			failure = "deadlock: no enabled thread at " + label
		}
		finish()
		return
	}
	choice := 0
	step := len(rec)
	if step < len(prefix) {
		choice = prefix[step]
		if choice >= len(enabled) {
			failure = fmt.Sprintf("divergence: choice %d at step %d but only %d enabled (%s)", choice, step, len(enabled), label)
			finish()
			return
		}
	}
	rec = append(rec, PointRec{Enabled: len(enabled), RunningEnabled: selfEnabled && cur != nil, Choice: choice, Label: label})
	next := enabled[choice]
	if next == cur {
		return
	}
	prev := cur
	cur = next
	next.wake <- struct{}{}
	if prev != nil && !prev.done {
		<-prev.wake
	}
}

// finish ends the execution: wakes the main goroutine; the calling thread
// (if it is not done) parks forever.
func finish() {
	aborted = true
	me := cur
	cur = nil
	mainWake <- struct{}{}
	if me != nil && !me.done {
		select {} // abandoned (deadlock/divergence): the goroutine is leaked on purpose
	}
}

// Run executes fns as controlled threads following the given choice prefix
// (choice 0 afterwards) and returns the record. Must not be called concurrently.
func Run(fns []func() any, choicePrefix []int) Exec {
	threads = nil
	rec = nil
	failure = ""
	aborted = false
	prefix = choicePrefix
	mainWake = make(chan struct{}, 1)
	for i, fn := range fns {
		t := &thread{id: i, wake: make(chan struct{}, 1)}
		threads = append(threads, t)
		fn := fn
		go func() {
			<-t.wake
			func() {
				defer func() {
					if r := recover(); r != nil {
						t.result = fmt.Sprintf("panic: %v", r)
					}
				}()
				t.result = fn()
			}()
			t.done = true
			if !aborted {
				schedule(false, "exit")
			}
		}()
	}
	active = true
	cur = nil
	schedule(false, "start")
	<-mainWake
	active = false
	cur = nil
	ex := Exec{Points: rec, Failure: failure}
	for _, t := range threads {
		ex.Results = append(ex.Results, t.result)
	}
	for i, p := range rec {
		if i > 0 && p.Choice != 0 {
			ex.Switches++
		}
	}
	return ex
}

// block parks the running thread until can() holds.
func block(can func() bool, label string) {
	for !can() {
		cur.waiting = can
		schedule(false, label)
		if aborted {
			select {}
		}
		cur.waiting = nil
	}
}

// ---- sync types ----

type Locker = realsync.Locker

type Mutex struct {
	real   realsync.Mutex
	locked bool
}

func (m *Mutex) Lock() {
	if !controlled() {
		m.real.Lock()
		return
	}
	lockPoint("Mutex.Lock")
	block(func() bool { return !m.locked }, "Mutex.Lock(wait)")
	m.locked = true
}

func (m *Mutex) TryLock() bool {
	if !controlled() {
		return m.real.TryLock()
	}
	lockPoint("Mutex.TryLock")
	if m.locked {
		return false
	}
	m.locked = true
	return true
}

func (m *Mutex) Unlock() {
	if !controlled() {
		m.real.Unlock()
		return
	}
	if !m.locked {
		panic("verifsync: unlock of unlocked mutex")
	}
	m.locked = false
	lockPoint("Mutex.Unlock")
}

type RWMutex struct {
	real    realsync.RWMutex
	writer  bool
	readers int
}

func (m *RWMutex) Lock() {
	if !controlled() {
		m.real.Lock()
		return
	}
	lockPoint("RWMutex.Lock")
	block(func() bool { return !m.writer && m.readers == 0 }, "RWMutex.Lock(wait)")
	m.writer = true
}

func (m *RWMutex) Unlock() {
	if !controlled() {
		m.real.Unlock()
		return
	}
	if !m.writer {
		panic("verifsync: Unlock of unlocked RWMutex")
	}
	m.writer = false
	lockPoint("RWMutex.Unlock")
}

func (m *RWMutex) RLock() {
	if !controlled() {
		m.real.RLock()
		return
	}
	lockPoint("RWMutex.RLock")
	block(func() bool { return !m.writer }, "RWMutex.RLock(wait)")
	m.readers++
}

func (m *RWMutex) RUnlock() {
	if !controlled() {
		m.real.RUnlock()
		return
	}
	if m.readers <= 0 {
		panic("verifsync: RUnlock of unlocked RWMutex")
	}
	m.readers--
	lockPoint("RWMutex.RUnlock")
}

func (m *RWMutex) TryLock() bool {
	if !controlled() {
		return m.real.TryLock()
	}
	lockPoint("RWMutex.TryLock")
	if m.writer || m.readers > 0 {
		return false
	}
	m.writer = true
	return true
}

func (m *RWMutex) TryRLock() bool {
	if !controlled() {
		return m.real.TryRLock()
	}
	lockPoint("RWMutex.TryRLock")
	if m.writer {
		return false
	}
	m.readers++
	return true
}

type rlocker RWMutex

func (r *rlocker) Lock()   { (*RWMutex)(r).RLock() }
func (r *rlocker) Unlock() { (*RWMutex)(r).RUnlock() }

func (m *RWMutex) RLocker() Locker { return (*rlocker)(m) }

type Once struct {
	real    realsync.Once
	done    bool
	running bool
}

func (o *Once) Do(f func()) {
	if !controlled() {
		o.real.Do(func() { f(); o.done = true })
		return
	}
	lockPoint("Once.Do")
	if o.done {
		return
	}
	if o.running {
		block(func() bool { return o.done }, "Once.Do(wait)")
		return
	}
	o.running = true
	defer func() { o.done = true; o.running = false }()
	f()
}

type WaitGroup struct {
	real realsync.WaitGroup
	n    int
}

func (w *WaitGroup) Add(d int) {
	if !controlled() {
		w.real.Add(d)
		return
	}
	lockPoint("WaitGroup.Add")
	w.n += d
	if w.n < 0 {
		panic("verifsync: negative WaitGroup counter")
	}
}

func (w *WaitGroup) Done() { w.Add(-1) }

func (w *WaitGroup) Wait() {
	if !controlled() {
		w.real.Wait()
		return
	}
	lockPoint("WaitGroup.Wait")
	block(func() bool { return w.n == 0 }, "WaitGroup.Wait(wait)")
}

// Map and Pool: the real implementations with a scheduling point before every operation.
type Map struct{ real realsync.Map }

func (m *Map) Load(k any) (any, bool) { lockPoint("Map.Load"); return m.real.Load(k) }
func (m *Map) Store(k, v any)         { lockPoint("Map.Store"); m.real.Store(k, v) }
func (m *Map) LoadOrStore(k, v any) (any, bool) {
	lockPoint("Map.LoadOrStore")
	return m.real.LoadOrStore(k, v)
}
func (m *Map) LoadAndDelete(k any) (any, bool) {
	lockPoint("Map.LoadAndDelete")
	return m.real.LoadAndDelete(k)
}
func (m *Map) Delete(k any)              { lockPoint("Map.Delete"); m.real.Delete(k) }
func (m *Map) Swap(k, v any) (any, bool) { lockPoint("Map.Swap"); return m.real.Swap(k, v) }
func (m *Map) CompareAndSwap(k, o, n any) bool {
	lockPoint("Map.CompareAndSwap")
	return m.real.CompareAndSwap(k, o, n)
}
func (m *Map) CompareAndDelete(k, o any) bool {
	lockPoint("Map.CompareAndDelete")
	return m.real.CompareAndDelete(k, o)
}
func (m *Map) Range(f func(k, v any) bool) { lockPoint("Map.Range"); m.real.Range(f) }
func (m *Map) Clear()                      { lockPoint("Map.Clear"); m.real.Clear() }

type Pool struct {
	real realsync.Pool
	New  func() any
}

func (p *Pool) Get() any {
	lockPoint("Pool.Get")
	if controlled() {
		// a pool may return any previously Put value or a new one; under the
		// controlled scheduler it always allocates, which is one legal behaviour
		if p.New != nil {
			return p.New()
		}
		return nil
	}
	p.real.New = p.New
	return p.real.Get()
}

func (p *Pool) Put(x any) {
	lockPoint("Pool.Put")
	if controlled() {
		return
	}
	p.real.Put(x)
}

func OnceFunc(f func()) func() {
	var o Once
	return func() { o.Do(f) }
}

func OnceValue[T any](f func() T) func() T {
	var o Once
	var v T
	return func() T { o.Do(func() { v = f() }); return v }
}

func OnceValues[T1, T2 any](f func() (T1, T2)) func() (T1, T2) {
	var o Once
	var v1 T1
	var v2 T2
	return func() (T1, T2) { o.Do(func() { v1, v2 = f() }); return v1, v2 }
}

func NewCond(l Locker) *Cond { return &Cond{L: l} }

// Cond: waiting is modelled as blocking until a later Signal/Broadcast.
type Cond struct {
	L    Locker
	real *realsync.Cond
	gen  int
}

func (c *Cond) Wait() {
	if !controlled() {
		if c.real == nil {
			c.real = realsync.NewCond(c.L)
		}
		c.real.Wait()
		return
	}
	g := c.gen
	c.L.Unlock()
	block(func() bool { return c.gen != g }, "Cond.Wait")
	c.L.Lock()
}

func (c *Cond) Signal() {
	lockPoint("Cond.Signal")
	c.gen++
	if c.real != nil {
		c.real.Signal()
	}
}
func (c *Cond) Broadcast() {
	lockPoint("Cond.Broadcast")
	c.gen++
	if c.real != nil {
		c.real.Broadcast()
	}
}
