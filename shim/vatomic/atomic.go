//go:build verifsched

// Package vatomic replaces sync/atomic under the C17 overlay: every
// operation is a scheduling point, then performs the real atomic operation.
package vatomic

import (
	realatomic "sync/atomic"
	"unsafe"

	"github.com/hashicorp/hcl/v2/verifsync"
)

func p(s string) { verifsync.LockPoint("atomic." + s) }

func AddInt32(a *int32, d int32) int32     { p("AddInt32"); return realatomic.AddInt32(a, d) }
func AddInt64(a *int64, d int64) int64     { p("AddInt64"); return realatomic.AddInt64(a, d) }
func AddUint32(a *uint32, d uint32) uint32 { p("AddUint32"); return realatomic.AddUint32(a, d) }
func AddUint64(a *uint64, d uint64) uint64 { p("AddUint64"); return realatomic.AddUint64(a, d) }
func LoadInt32(a *int32) int32             { p("LoadInt32"); return realatomic.LoadInt32(a) }
func LoadInt64(a *int64) int64             { p("LoadInt64"); return realatomic.LoadInt64(a) }
func LoadUint32(a *uint32) uint32          { p("LoadUint32"); return realatomic.LoadUint32(a) }
func LoadUint64(a *uint64) uint64          { p("LoadUint64"); return realatomic.LoadUint64(a) }
func LoadPointer(a *unsafe.Pointer) unsafe.Pointer {
	p("LoadPointer")
	return realatomic.LoadPointer(a)
}
func StoreInt32(a *int32, v int32)    { p("StoreInt32"); realatomic.StoreInt32(a, v) }
func StoreInt64(a *int64, v int64)    { p("StoreInt64"); realatomic.StoreInt64(a, v) }
func StoreUint32(a *uint32, v uint32) { p("StoreUint32"); realatomic.StoreUint32(a, v) }
func StoreUint64(a *uint64, v uint64) { p("StoreUint64"); realatomic.StoreUint64(a, v) }
func StorePointer(a *unsafe.Pointer, v unsafe.Pointer) {
	p("StorePointer")
	realatomic.StorePointer(a, v)
}
func SwapInt32(a *int32, v int32) int32 { p("SwapInt32"); return realatomic.SwapInt32(a, v) }
func SwapInt64(a *int64, v int64) int64 { p("SwapInt64"); return realatomic.SwapInt64(a, v) }
func CompareAndSwapInt32(a *int32, o, n int32) bool {
	p("CASInt32")
	return realatomic.CompareAndSwapInt32(a, o, n)
}
func CompareAndSwapInt64(a *int64, o, n int64) bool {
	p("CASInt64")
	return realatomic.CompareAndSwapInt64(a, o, n)
}
func CompareAndSwapUint32(a *uint32, o, n uint32) bool {
	p("CASUint32")
	return realatomic.CompareAndSwapUint32(a, o, n)
}
func CompareAndSwapUint64(a *uint64, o, n uint64) bool {
	p("CASUint64")
	return realatomic.CompareAndSwapUint64(a, o, n)
}
func CompareAndSwapPointer(a *unsafe.Pointer, o, n unsafe.Pointer) bool {
	p("CASPointer")
	return realatomic.CompareAndSwapPointer(a, o, n)
}

type Bool struct{ v realatomic.Bool }

func (x *Bool) Load() bool                    { p("Bool.Load"); return x.v.Load() }
func (x *Bool) Store(b bool)                  { p("Bool.Store"); x.v.Store(b) }
func (x *Bool) Swap(b bool) bool              { p("Bool.Swap"); return x.v.Swap(b) }
func (x *Bool) CompareAndSwap(o, n bool) bool { p("Bool.CAS"); return x.v.CompareAndSwap(o, n) }

type Int32 struct{ v realatomic.Int32 }

func (x *Int32) Load() int32                    { p("Int32.Load"); return x.v.Load() }
func (x *Int32) Store(n int32)                  { p("Int32.Store"); x.v.Store(n) }
func (x *Int32) Add(d int32) int32              { p("Int32.Add"); return x.v.Add(d) }
func (x *Int32) Swap(n int32) int32             { p("Int32.Swap"); return x.v.Swap(n) }
func (x *Int32) CompareAndSwap(o, n int32) bool { p("Int32.CAS"); return x.v.CompareAndSwap(o, n) }

type Int64 struct{ v realatomic.Int64 }

func (x *Int64) Load() int64                    { p("Int64.Load"); return x.v.Load() }
func (x *Int64) Store(n int64)                  { p("Int64.Store"); x.v.Store(n) }
func (x *Int64) Add(d int64) int64              { p("Int64.Add"); return x.v.Add(d) }
func (x *Int64) Swap(n int64) int64             { p("Int64.Swap"); return x.v.Swap(n) }
func (x *Int64) CompareAndSwap(o, n int64) bool { p("Int64.CAS"); return x.v.CompareAndSwap(o, n) }

type Uint32 struct{ v realatomic.Uint32 }

func (x *Uint32) Load() uint32                    { p("Uint32.Load"); return x.v.Load() }
func (x *Uint32) Store(n uint32)                  { p("Uint32.Store"); x.v.Store(n) }
func (x *Uint32) Add(d uint32) uint32             { p("Uint32.Add"); return x.v.Add(d) }
func (x *Uint32) CompareAndSwap(o, n uint32) bool { p("Uint32.CAS"); return x.v.CompareAndSwap(o, n) }

type Uint64 struct{ v realatomic.Uint64 }

func (x *Uint64) Load() uint64                    { p("Uint64.Load"); return x.v.Load() }
func (x *Uint64) Store(n uint64)                  { p("Uint64.Store"); x.v.Store(n) }
func (x *Uint64) Add(d uint64) uint64             { p("Uint64.Add"); return x.v.Add(d) }
func (x *Uint64) CompareAndSwap(o, n uint64) bool { p("Uint64.CAS"); return x.v.CompareAndSwap(o, n) }

type Value struct{ v realatomic.Value }

func (x *Value) Load() any                    { p("Value.Load"); return x.v.Load() }
func (x *Value) Store(n any)                  { p("Value.Store"); x.v.Store(n) }
func (x *Value) Swap(n any) any               { p("Value.Swap"); return x.v.Swap(n) }
func (x *Value) CompareAndSwap(o, n any) bool { p("Value.CAS"); return x.v.CompareAndSwap(o, n) }

type Pointer[T any] struct{ v realatomic.Pointer[T] }

func (x *Pointer[T]) Load() *T                    { p("Pointer.Load"); return x.v.Load() }
func (x *Pointer[T]) Store(n *T)                  { p("Pointer.Store"); x.v.Store(n) }
func (x *Pointer[T]) Swap(n *T) *T                { p("Pointer.Swap"); return x.v.Swap(n) }
func (x *Pointer[T]) CompareAndSwap(o, n *T) bool { p("Pointer.CAS"); return x.v.CompareAndSwap(o, n) }
