#!/bin/bash
# usage: tools/run-against.sh <repo-dir> <Cnn> [quick|thorough]
# Builds check Cnn against an alternative copy of the repository (e.g. a scratch git worktree with a
# deliberate property-breaking edit) and runs it with evidence/replays redirected to <repo-dir>/../verif-out.
set -e
cd "$(dirname "$0")/.."
R=$(cd "$1" && pwd); ID="$2"; MODE="${3:-quick}"
id=$(echo "$ID" | tr 'A-Z' 'a-z')
W="$R/../verif-out-$id"; mkdir -p "$W"
export GOFLAGS=-mod=mod GOPROXY=off; unset GOSUMDB GOTOOLCHAIN GOWORK
sed "s#=> /repo#=> $R#" go.mod > "$W/go.mod"; cp go.sum "$W/go.sum"; cp known-findings.json "$W/" 2>/dev/null || true
go build -modfile="$W/go.mod" -o "$W/bin" "./checks/$id"
export VERIF_MODFILE="$W/go.mod"
set +e
VERIF_DIR="$W" "$W/bin" "$MODE"
rc=$?
echo "exit=$rc (evidence and replays under $W)"
exit $rc
