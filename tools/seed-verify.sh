#!/bin/bash
# usage: tools/seed-verify.sh <srcdir> <k> <name> <Cnn> [more Cnn...]
#   srcdir: directory holding patch-k.diff, demo-k_test.go, meta-k.json (output of an independent seeding agent)
# Confirms, in a fresh scratch worktree of /repo: the patch applies, the repository builds, its whole test suite
# passes, the demonstration fails with the patch and passes without it; then runs the named checks (quick tier)
# against the patched tree. Keeps everything under /verif/seeded/<name>/ and removes the worktree.
src="$1"; k="$2"; name="$3"; shift 3
export GOFLAGS=-mod=mod GOPROXY=off; unset GOSUMDB GOTOOLCHAIN GOWORK
D=/verif/seeded/$name; mkdir -p "$D"
cp "$src/patch-$k.diff" "$D/patch.diff"; cp "$src/demo-${k}_test.go" "$D/demo_test.go"; cp "$src/meta-$k.json" "$D/agent-meta.json" 2>/dev/null
W=/tmp/seedv-$name; rm -rf "$W"; mkdir -p "$W"
git -C /repo worktree add --detach "$W/wt" >/dev/null 2>&1 || exit 2
cd "$W/wt"
mkdir -p zz_demo; cp "$D/demo_test.go" zz_demo/demo_test.go
RACEFLAG=""; if grep -q '"needs_race_detector": *true' "$D/agent-meta.json" 2>/dev/null; then RACEFLAG="-race"; fi
go test $RACEFLAG -vet=off -count=1 ./zz_demo/ > "$W/demo-clean.log" 2>&1; clean_rc=$?
if ! git apply "$D/patch.diff" 2> "$W/apply.log"; then
  # the patch was written against an earlier HEAD of /repo: try a 3-way merge
  if git apply -3 "$D/patch.diff" 2>> "$W/apply.log" && ! git diff --name-only --diff-filter=U | grep -q .; then echo "patch applied with 3-way merge"; git reset -q; else echo "PATCH DOES NOT APPLY"; tail -5 "$W/apply.log"; fi
fi
go build ./... > "$W/build.log" 2>&1; build_rc=$?
go test $RACEFLAG -vet=off -count=1 ./zz_demo/ > "$W/demo-patched.log" 2>&1; patched_rc=$?
rm -rf zz_demo
go test -vet=off -count=1 ./... > "$W/suite.log" 2>&1; suite_rc=$?
echo "build=$build_rc suite=$suite_rc demo_clean=$clean_rc demo_patched=$patched_rc"
grep -v "^ok\|no test files" "$W/suite.log" | head -5
results=""
for c in "$@"; do
  id=$(echo $c | tr A-Z a-z)
  out=$(VERIF_BUDGET_S=${VERIF_BUDGET_S:-600} /verif/tools/run-against.sh "$W/wt" "$c" quick 2>&1)
  viol=$(echo "$out" | grep -c "^VIOLATION")
  classes=$(echo "$out" | grep "^--- " | sed 's/^--- [A-Z0-9]* class=\([^ ]*\).*/\1/' | sort -u | head -6 | tr '\n' ' ')
  echo "$c: violations=$viol classes: $classes"
  results="$results{\"check\":\"$c\",\"violation_lines\":$viol,\"classes\":\"$classes\"},"
  rm -rf "$W/verif-out-$id"
done
cat > "$D/verify.json" <<JSON
{"build_rc":$build_rc,"suite_rc":$suite_rc,"demo_rc_without_patch":$clean_rc,"demo_rc_with_patch":$patched_rc,"checks":[${results%,}],"demo_run_with_race":"$RACEFLAG","ran":"tools/seed-verify.sh in a scratch worktree of /repo HEAD $(git -C /repo rev-parse --short HEAD)"}
JSON
cd /; git -C /repo worktree remove --force "$W/wt"; rm -rf "$W"; git -C /repo worktree prune
