#!/bin/bash
# usage: tools/mutant.sh <name> <Cnn> [tier] < sed-script-or-patch
#   tools/mutant.sh name C01 quick -- 'python/sed command run inside the worktree'
# Creates a scratch worktree of /repo, applies the edit command given after "--", runs the check against it, removes the worktree.
name="$1"; id="$2"; tier="${3:-quick}"; shift 3; [ "$1" = "--" ] && shift
W=/tmp/mut-$name
rm -rf "$W"; mkdir -p "$W"
git -C /repo worktree add --detach "$W/wt" >/dev/null 2>&1 || exit 2
( cd "$W/wt" && eval "$@" ) || { echo "edit failed"; }
( cd "$W/wt" && git diff --stat | tail -1 )
if [ -n "$RUN_REPO_TESTS" ]; then ( cd "$W/wt" && GOFLAGS=-mod=mod GOPROXY=off go test -vet=off -count=1 ./... 2>&1 | grep -v "^ok\|no test files" | head -20; echo "repo tests done" ); fi
VERIF_BUDGET_S=${VERIF_BUDGET_S:-300} /verif/tools/run-against.sh "$W/wt" "$id" "$tier" 2>&1 | grep -E "^VIOLATION|^KNOWN|^---|exit=|evaluations=" | head -${MUT_LINES:-12}
git -C /repo worktree remove --force "$W/wt"; rm -rf "$W"; git -C /repo worktree prune
