#!/usr/bin/env python3
"""Builds /verif/seeded/<name>/meta.json from the seeding agent's meta and our own verification record."""
import json, os, glob, sys
for d in sorted(glob.glob('/verif/seeded/*/')):
    name = os.path.basename(d.rstrip('/'))
    prop = name.split('-')[0].upper()
    am, vr = {}, {}
    try: am = json.load(open(d + 'agent-meta.json'))
    except Exception: pass
    try: vr = json.load(open(d + 'verify.json'))
    except Exception: continue
    detected = [c for c in vr.get('checks', []) if c.get('violation_lines', 0) > 0]
    meta = {
        "property": prop,
        "summary": am.get('summary', ''),
        "needs_to_manifest": am.get('trigger', ''),
        "files": am.get('files', []),
        "written_by": "independent sub-agent given only the property text and a scratch worktree",
        "confirmed": {
            "builds": vr.get('build_rc') == 0,
            "repository_suite_passes_with_patch": vr.get('suite_rc') == 0,
            "demo_passes_without_patch": vr.get('demo_rc_without_patch') == 0,
            "demo_fails_with_patch": vr.get('demo_rc_with_patch') not in (0, None),
            "how": vr.get('ran', ''),
        },
        "checks_run": vr.get('checks', []),
        "detected_by": [c['check'] for c in detected],
    }
    try: meta.update(json.load(open(d + 'note.json')))
    except Exception: pass
    json.dump(meta, open(d + 'meta.json', 'w'), indent=1)
    ok = all(meta['confirmed'][k] for k in ('builds', 'repository_suite_passes_with_patch', 'demo_passes_without_patch', 'demo_fails_with_patch'))
    print(f"{name:10s} valid={ok} detected_by={meta['detected_by']}")
