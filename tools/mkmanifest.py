#!/usr/bin/env python3
"""Regenerates /verif/MANIFEST.json from the table below (one entry per claimed property)."""
import json, os, sys
HERE = os.path.dirname(os.path.dirname(os.path.abspath(__file__)))
props = [json.loads(l) for l in open(os.path.join(HERE, 'properties.jsonl'))]
ids = [p['id'] for p in props]

# id -> (technique, level text, level note, design ref)
CLAIMS = {
 'C03': ("bounded exhaustive enumeration of abstract configurations x every admissible JSON encoding x hcldec spec kinds, differential between the native and the JSON front end",
         "525 abstract configurations (literal pool, block sequences for six label arities, nesting, kind clashes) crossed with the full JSON choice tree of json/spec.md (duplicate names vs arrays vs joined blocks, object vs array-of-objects with every cut at label levels and the body, one-element body arrays, '//' properties, empty arrays) and 42 hcldec specs covering every spec kind plus schema perturbations: Decode of the native rendering and of each JSON encoding must agree on error presence and value, and Content must give the same attributes and per-type block sequences; the reference reading (ref/refbody) decides which pairs are comparable, must both fail, differ by design, or are unspecified.",
         "json/spec.md is silent on a null block value (Unspecified). Decorations are combined with all structures only in the thorough tier.",
         "DESIGN.md section 4 C03, Appendix C"),
 'C04': ("bounded exhaustive enumeration of logical contents x Body implementations (native, JSON, merged, dynblock-expanded) x all schemas x all ordered schema splits, checking the schema-processing laws against a reference model",
         "All sequences of <= 3 items over {a, b, x/0, x/1, x/2, y/0} realised as native, two JSON encodings, dynblock expansion (static, all-dynamic, first-run-dynamic) and every 2-file merge with every cut and syntax mix, x all schemas over {a,b,x,y} with <= 3 elements x every ordered 2-split incl. empty parts (649 splits per case): each matching item returned exactly once and in source order, exhaustive processing reports every unmatched item, partial processing leaves exactly the unmatched items in the remainder (observed through the complement schema and JustAttributes), two-step equals one-step, and the implementations agree for the same logical content.",
         "Two recorded findings, both in dynblock's expanded body (JustAttributes on a remainder reports consumed blocks; a label-count mismatch diagnostic is repeated by every later call on the remainder).",
         "DESIGN.md section 4 C04, Appendix C"),

 'C08': ("bounded exhaustive enumeration of hcldec spec trees x conforming and singly-perturbed bodies on the real decoder, checking type conformance against ImpliedType and the value against a reference decoder",
         "Every spec tree of depth <= 2 over all 18 spec kinds (depth 3 over a reduced alphabet; 4 363 specs) within the documented preconditions, x every conforming body over {absent, 2 values} per attribute and 0..3 blocks per type and every body within one edit (remove / replace a value by each of 8 pool values incl. null, unknown, dynamic and wrong types; extra attribute or block; remove or duplicate a block; add or drop a label; at any depth): Decode and PartialDecode never panic, the result type conforms to ImpliedType (equal where the implied type has no dynamic part), and an error-free result equals the reference decoder's value; ImpliedSchema / Variables / SourceRange never panic.",
         "The reference decoder (ref/refdec) is written from the hcldec documentation and never calls hcldec. Five recorded finding classes (three root causes pinned by the repository's own TestDecode cases 33, 37, 44).",
         "DESIGN.md section 4 C08"),
 'C18': ("bounded exhaustive enumeration of bodies mixing static and dynamic blocks x for_each collections x decoding specs, differential between dynblock expansion and a reference write-out of the blocks",
         "Three product families (iteration: 16 for_each collections of every iterable kind and size 0-2 incl. marked, unknown, dynamic, null x 4 iterator flavours incl. shadowing x 7 content forms x 4 label forms; interleaving: all layouts <= 3 of static and dynamic blocks; nesting: 6 shapes with inner blocks using outer iterators) x 8 decoding specs x native and JSON source: Decode(Expand(body)) must equal Decode(of the body written out with one static block per element in iteration order), unknown for_each must give a value of the implied type with only the affected part unknown, and expansion under the context pruned to the reported variables must give the same result.",
         "Mark propagation is compared after unmarking (C06's subject). The write-out (ref/refdec/refdyn.go) never calls dynblock.",
         "DESIGN.md section 4 C18"),

 'C02': ("bounded exhaustive enumeration of abstract body trees x renderings with <= 1 (thorough 2) layout deviations on the real structural parser, compared with the tree that was written",
         "Seven families of abstract body trees (attribute-only bodies over 6 names x 8 value kinds, every block form x every label sequence <= 2 over a 24-label alphabet covering every escape and template-looking text, all item sequences <= 3/2 over 14 representative items, all tree shapes <= 5 items, comment-text and duplicate-attribute families), each rendered canonically and with every single deviation (indentation, blank lines, each comment form in every slot, header gaps, CRLF, missing final newline, BOM): ParseConfig must report no errors and expose exactly the written attributes, block types, label strings, nesting and order, through the hclsyntax.Body fields, Body.Content with the derived schema, and JustAttributes; every rendering of a body that defines an attribute twice must be rejected.",
         "BOM acceptance and the content of a heredoc under CRLF are Unspecified. Byte positions of ranges belong to C14.",
         "DESIGN.md section 4 C02"),
 'C17': ("systematic schedule exploration: preemption-bounded depth-first search under a controlled cooperative scheduler of the real code (sync operations and function entries as scheduling points via go build -overlay), plus a separate free-running -race pass",
         "23 drivers (2-3 goroutines sharing one parsed expression or body, each with its own EvalContext and goroutine-specific contents): every schedule with at most k preemptions (k = 2 for the expression drivers, 1 for the 3-goroutine and body drivers in the quick tier; 3 / 2 thorough) is executed on the implementation; each goroutine's value and diagnostics must equal the result of the same call run alone, no deadlock or panic, no residue afterwards. Evidence reports schedules (states), scheduling decisions (transitions), maximum preemptions completed and replay divergences.",
         "A cooperative scheduler cannot see unsynchronised accesses or weak-memory effects: those are delegated to the free-running -race pass over the same driver bodies (auxiliary, not counted as model checking). For the body drivers Go map iteration order inside hcldec makes the sequence of scheduling points vary between executions; every executed schedule is still a real schedule within the bound. Instrumentation is generated at check time by overlay; if it does not build, the check falls back to lock points, then to the race pass only, and never raises an alarm for that.",
         "DESIGN.md section 4 C17"),

 'C06': ("bounded exhaustive two-run non-interference check over expression ASTs, hcldec-decoded bodies and dynamic-block bodies x marked variable x all content pairs (incl. unknown), on the real evaluator/decoder",
         "Every AST of the eleven expression families that refers to a variable, every such variable marked as a whole or on its first element/attribute, and every pair of same-type contents (pool alternatives, typed unknown, null); plus 26 body templates x 5 marked variables x every hcldec block spec kind (incl. blocks nested in dynamic content) decoded through dynblock.Expand + hcldec.Decode. For every pair of error-free runs whose unmarked results differ, both results must carry the mark. The whole product is enumerated.",
         "Trusted: go-cty mark bookkeeping. Two recorded findings (known-findings.json): dynamic block with marked for_each yielding zero blocks; object index with a known marked key (pinned by the repository's own test).",
         "DESIGN.md section 4 C06"),
 'C07': ("bounded exhaustive two-run scope-pruning check over expression ASTs (native and JSON-embedded) and bodies under hcldec specs / with dynamic blocks, on the real Variables walkers",
         "Every AST of the expression families plus 31 shadowing shapes, natively and as JSON string / array element / object key+value, and 26 body templates x 10 hcldec specs (hcldec.Variables, dynblock.VariablesHCLDec + ExpandVariablesHCLDec): evaluation (or Expand+Decode) in the scope restricted to the reported root names, and in a scope where every unreported name has a different value, must give the identical value and diagnostics as in the full scope; names that only occur bound must not be reported.",
         "Diagnostic detail text (scope-dependent suggestions) is not compared. One recorded finding: dynblock.VariablesHCLDec misses variables inside attributes-mode blocks (BlockAttrsSpec) in dynamic content.",
         "DESIGN.md section 4 C07"),
 'C09': ("bounded exhaustive enumeration of valid configurations x every single (and adjacent-pair) inter-token gap deviation, checking token-sequence preservation, value preservation and the formatting fixpoint on the real formatter",
         "69 adjacency-covering configurations and 46 expression shapes x 17 positions x 4 comment decorations (42 token types, 287 adjacent type pairs, 1075 triples), each with every inter-token gap replaced by {none, space, two spaces, tab, newline, inline comment, line comments} where the result still lexes to the same tokens and parses; LF and CRLF. Format(src) must lex to the same (type, bytes) sequence, parse to the same structure with the same attribute values, and be a fixpoint.",
         "The real lexer/parser only delimit the input domain (valid configurations with the same tokens in another layout). Style-only changes of the formatter are not violations.",
         "DESIGN.md section 4 C09"),
 'C10': ("bounded exhaustive enumeration of the same configuration x layout space through hclwrite.ParseConfig / File.Bytes / tree accessors, invariant check on the real loader",
         "Same space as C09. hclwrite.ParseConfig must not panic or report errors; File.Bytes() must have the source's token sequence and equal hclwrite.Format(src); Body.Attributes/Blocks/Labels (recursively) and every Expression.Variables() traversal must match what hclsyntax parsed; Attribute.Expr() holds the expression's tokens.",
         "hclsyntax is the reference for the structure of the source (the property states the relation to the source).",
         "DESIGN.md section 4 C10"),
 'C11': ("bounded exhaustive enumeration of values, labels and traversals through the real generator and back through the real parser/evaluator (round trip)",
         "All strings of length <= 3 over a 19-rune escape-relevant alphabet (+ 12 extra runes at length <= 2) in 7 positions, 41 numbers x 8 wrappers, typed nulls, depth-2 containers, a 29-key alphabet (keywords, non-identifiers) singly / in pairs / triples, label lists through NewBlock / AppendNewBlock / SetLabels read back three ways, and all traversals of <= 2-3 steps over 45 steps: generated source must parse, evaluate to the original after conversion to its type, and read back the same traversal steps and labels.",
         "Trusted: go-cty conversion/equality. One recorded finding: Block.Labels() of a constructed label '$${'.",
         "DESIGN.md section 4 C11"),
 'C12': ("explicit-state search over writer-API operation sequences from 10 initial files (incl. caller-side slice mutations): all histories up to depth 3 without state merging, breadth-first search with heap-isomorphism state merging beyond (depth 5 quick / 7 thorough over a 21-operation sub-alphabet, depth 5 over the core alphabet in thorough); every history / transition executed on fresh real hclwrite objects and compared with a map/list reference model",
         "65 (thorough 118) operations (SetAttributeValue/Raw/Traversal, Rename/RemoveAttribute, AppendNewBlock, AppendBlock incl. re-appending a removed block, RemoveBlock incl. a foreign block, SetType, SetLabels, AppendNewline, AppendUnstructuredTokens, caller-side overwrite/refill of handed-over token slices) on the root body and nested bodies, from empty / generated / parsed-with-comments / no-final-newline files: every sequence of length <= 3 replayed from scratch; deeper, a merged breadth-first search whose state key is the canonical form (up to address values, all aliasing included) of the private object graph of the real file, the caller's values, the complete model state and the model-to-real block binding: every transition is executed and checked for panics and documented return values, every new state gets the complete oracle. After the operations: no panic, Bytes() parses, parsed structure equals the model, read accessors agree, untouched items keep their tokens and comments, comments of the initial file survive unless their item was removed. Evidence reports states, transitions, traces and per-level frontier / transitions / new states of the merged search.",
         "The reference model (ref/refwriter) never imports hclwrite. Merging assumes hclwrite does not depend on address values, map iteration order or slice elements beyond len. One recorded finding: appending into a one-line block. Return values of edit operations that the documentation does not specify are not asserted.",
         "DESIGN.md section 4 C12, section 8 (as built), Appendix D"),
 'C14': ("bounded exhaustive enumeration of byte strings and single-byte edits through every scanning mode, RangeScanner and the JSON scanner, against a reference position counter; generated configurations with recorded construct spans for range fidelity",
         "All byte strings of length <= 4 over a 33-byte lexer alphabet (and every single-byte edit of 22 corpus configurations) through LexConfig/LexExpression/LexTemplate from two start positions: tiling, bytes = source slice, one EOF, lines/columns = reference counter (newlines + grapheme clusters) wherever the property demands it; RangeScanner with three split functions and three start positions; 63 expression forms x 8 wrappers x 9 contexts and block/label/body products with exact recorded spans for every range of an error-free parse (re-parse equivalence of every expression range); 1080 JSON documents x whitespace styles for node ranges.",
         "go-textseg grapheme segmentation is trusted. Lone CR, BOM, token boundaries inside a cluster and ill-formed UTF-8 columns are Unspecified (tiling is still demanded).",
         "DESIGN.md section 4 C14"),
 'C15': ("bounded exhaustive enumeration of byte strings and of every single token-level edit of a valid corpus through every front-end entry point, schema application and evaluation in seven scopes; totality / determinism / diagnostic well-formedness invariants",
         "All byte strings of length <= 3 over a 31-byte alphabet and every delete / duplicate / replace / insert of each of 49 damage elements at every token of 269 valid configs, expressions, templates and JSON documents, fed to 12 entry points (each twice): no panic, non-nil result, identical results, unusable result => error diagnostic, every diagnostic has severity, summary and in-bounds ranges; then 6 schemas x Content/PartialContent/JustAttributes recursively and evaluation of every reachable expression in 7 scopes (nil, empty, typical, dynamic, typed-unknown, marked, deep-marked).",
         "Coverage-guided mutation named in the property's quantifier is a different technique family and is not used; hangs are detected by the engine's watchdog (300 s per case).",
         "DESIGN.md section 4 C15"),
 'C16': ("bounded exhaustive enumeration of values of a family of tagged struct types through gohcl encode -> parse -> decode (native and an independently rendered JSON twin), plus every single structural edit of each document",
         "12 struct types covering every supported tag kind and field type; each string position takes all 209 strings of <= 2 atoms over the escape-relevant alphabet, map keys from a keyword/non-identifier alphabet, numeric extremes, nil/empty/1-2 element slices, pointers, full product of block multiplicities and labels: EncodeIntoBody/EncodeAsBlock -> ParseConfig -> DecodeBody (and hclsimple) must reproduce the value; four JSON twins must decode to the same value; every single edit of each document must yield diagnostics or a value, never a panic.",
         "nil and empty slices/maps are identified (documented normalisation). One recorded finding (thorough tier): lone CR followed by an escaped introducer in template mode.",
         "DESIGN.md section 4 C16"),
 'C19': ("bounded exhaustive canary sweep over expression ASTs and bodies x variable x canary placement, scanning every diagnostic and its text renderings on the real evaluator/decoder",
         "Every AST of the expression families that refers to a variable plus 400 erroneous forms aimed at the value-formatting diagnostic sites, and 16 body templates x 6 variables x 11 hcldec specs through dynblock.Expand + hcldec.Decode: each variable in turn is replaced by a marked value of the same shape whose strings, numbers, map keys and attribute names are high-entropy canaries; no diagnostic Summary/Detail and no NewDiagnosticTextWriter rendering (width 0/78, colour off/on) may contain a canary.",
         "Messages of application-supplied functions are out of scope (the function table returns canary-free errors). One recorded finding: the text writer prints the value of a for-expression iteration variable taken from a collection marked as a whole.",
         "DESIGN.md section 4 C19"),
 'C20': ("bounded exhaustive enumeration of traversal-shaped texts, constructor/call expressions and cty types, differential between static analysis and evaluation and between printer and parser, in both syntaxes",
         "Roots x all step sequences <= 3 over 11 steps x 5 layouts x 12 scopes (AbsTraversalForExpr/RelTraversalForExpr vs Value, ExprAsKeyword); the same plus 15 near-traversal steps through ParseTraversalAbs vs the expression parser and as JSON strings; tuple / object / call expressions (ExprList / ExprMap / ExprCall parts evaluate to the whole's elements) in native and JSON syntax; all cty types of depth <= 2 and a stated depth-3 reduction through TypeString -> parse -> TypeConstraint natively and as JSON strings.",
         "One recorded finding: TypeString of an object type whose first attribute is 'for'. JSON's stricter traversal grammar (json/spec.md delegates to the expression grammar) is counted, not judged: the property only demands agreement for texts the stand-alone parser accepts.",
         "DESIGN.md section 4 C20"),

 'C05': ("bounded exhaustive two-run refinement check (abstract run vs every concrete instantiation) over expression ASTs x abstracted variable x abstraction kind, on the real evaluator",
         "Every AST of the eleven expression families, every variable it refers to (one at a time and all at once), every abstraction kind (dynamic, typed unknown, not-null, string prefix, numeric bounds, collection length bounds) and every admitted concrete instantiation from the pool: the abstract result must approximate each concrete result (Appendix B relation: convertible type, equal known parts, typed unknown parts, satisfied refinements). The whole product is enumerated, so the statement is 'no program/abstraction/instantiation in the bounded space is unsound'.",
         "Trusted: go-cty refinement accessors and conversion. Pairs where either run errors are outside the property's antecedent. Not reached: more than one variable abstracted with refinements at once (all-at-once uses plain typed unknowns), instantiations outside the pool alternatives.",
         "DESIGN.md section 4 C05, Appendix B"),
 'C01': ("bounded exhaustive enumeration of expression/template ASTs x layout deviations on the real parser and evaluator, compared with a reference interpreter written from the specification",
         "Every AST of eleven families (all unary/binary/conditional forms over a 42-atom pool of every cty kind, all ordered operator pairs in both groupings, index/attr/splat/for/call/constructor/template products, two-level nesting) is rendered canonically and with every single layout deviation, redundant parenthesisation and CRLF variant, parsed and evaluated by the implementation and compared (value and exact type, or error presence) with an independent reference interpreter; all renderings must agree with each other. The result is a coverage statement over the whole bounded product.",
         "Trusted: go-cty values/conversion/unification/arithmetic. Spec-silent behaviours (DESIGN.md 3.2) are accepted as Unspecified. Not reached: ASTs beyond the family bounds, >1 simultaneous layout deviation in the quick tier, capsule types, user function specs beyond the 6-function table.",
         "DESIGN.md section 4 C01, Appendix A"),
 'C13': ("bounded exhaustive enumeration of byte strings and single-byte edits on the real JSON front end, differential against an independent RFC 8259 recogniser/decoder",
         "Every byte string up to length 4/5 over a 35-byte JSON-relevant alphabet, every single-byte edit of a corpus of grammar-generated documents, and every short template-relevant string is run through json.ParseExpression/json.Parse/Value(nil)/Value(ctx) and compared with an independent recogniser+decoder: a coverage statement over the whole bounded space, not a sample.",
         "Trusted: go-cty number arithmetic, encoding/json.Valid and unicode/utf8 (cross-check of the reference), hclsyntax.ParseTemplate as the oracle for template-mode strings. Not reached: inputs longer than the bound that are not one edit away from the corpus.",
         "DESIGN.md section 4 C13"),
}
NOT_YET = "check not built yet (work in progress; see DESIGN.md section 7)"

checks, na = [], []
for i in ids:
    if i in CLAIMS:
        tech, text, note, ref = CLAIMS[i]
        checks.append({
            "property_id": i,
            "quick_cmd": f"./run.sh {i} quick",
            "thorough_cmd": f"./run.sh {i} thorough",
            "evidence_file": f"/verif/evidence/{i}.json",
            "replay_cmd_template": f"./run.sh {i} replay {{path}}",
            "engine": "verif-engine",
            "level_claimed": {"category": "model_checking", "text": text, "design_ref": ref},
            "level_note": note,
            "technique": tech,
        })
    else:
        na.append({"property_id": i, "reason": NOT_YET})
m = {
 "version": 1,
 "setup_cmd": "./run.sh setup",
 "hooks": {
  "guard": "overlay (no source change in /repo; instrumentation is generated at check time with go build -overlay)",
  "enable": "checks build /repo's working tree through the replace directive in /verif/go.mod; C17 additionally passes -overlay with a generated sync shim",
  "baseline_off_cmd": "cd /repo && GOFLAGS=-mod=mod GOPROXY=off go test -vet=off -count=1 ./...",
  "source_commits": [],
  "add_only": True,
 },
 "engines": [{"name": "verif-engine", "path": "/verif/engine", "serves_properties": sorted(CLAIMS),
              "kind_free_text": "hand-written bounded-exhaustive explorer in Go: deterministic simplest-first enumeration of a stated finite space, every case executed on the real implementation under a reference-model / relational oracle, parallel workers, shrinking, replay files, known-findings handling, evidence writer"}],
 "checks": checks,
 "not_applicable": na,
 "notes": "All checks are bounded exhaustive explorations (model checking family). See DESIGN.md.",
}
json.dump(m, open(os.path.join(HERE, 'MANIFEST.json'), 'w'), indent=1)
print("claimed:", len(checks), "not_applicable:", len(na))
