#!/usr/bin/env python3
"""Regenerates /verif/MANIFEST.json from the table below (one entry per claimed property)."""
import json, os, sys
HERE = os.path.dirname(os.path.dirname(os.path.abspath(__file__)))
props = [json.loads(l) for l in open(os.path.join(HERE, 'properties.jsonl'))]
ids = [p['id'] for p in props]

# id -> (technique, level text, level note, design ref)
CLAIMS = {
 'C05': ("bounded exhaustive two-run refinement check (abstract run vs every concrete instantiation) over expression ASTs x abstracted variable x abstraction kind, on the real evaluator",
         "Every AST of the eleven expression families, every variable it refers to (one at a time and all at once), every abstraction kind (dynamic, typed unknown, not-null, string prefix, numeric bounds, collection length bounds) and every admitted concrete instantiation from the pool: the abstract result must approximate each concrete result (Appendix B relation: convertible type, equal known parts, typed unknown parts, satisfied refinements). The whole product is enumerated, so the statement is 'no program/abstraction/instantiation in the bounded space is unsound'.",
         "Trusted: go-cty refinement accessors and conversion. Pairs where either run errors are outside the property's antecedent. Not reached: more than one variable abstracted with refinements at once (all-at-once uses plain typed unknowns), instantiations outside the pool alternatives.",
         "DESIGN.md section 4 C05, Appendix B"),
 'C01': ("bounded exhaustive enumeration of expression/template ASTs x layout deviations on the real parser and evaluator, compared with a reference interpreter written from the specification",
         "Every AST of eleven families (all unary/binary/conditional forms over a 42-atom pool of every cty kind, all ordered operator pairs in both groupings, index/attr/splat/for/call/constructor/template products, two-level nesting) is rendered canonically and with every single layout deviation, redundant parenthesisation and CRLF variant, parsed and evaluated by the implementation and compared (value and exact type, or error presence) with an independent reference interpreter; all renderings must agree with each other. The result is a coverage statement over the whole bounded product.",
         "Trusted: go-cty values/conversion/unification/arithmetic. Spec-silent behaviours (DESIGN.md 3.2) are accepted as Unspecified. Not reached: ASTs beyond the family bounds, >1 simultaneous layout deviation in the quick tier, capsule types, user function specs beyond the 6-function table.",
         "DESIGN.md section 4 C01, Appendix A"),
 'C13': ("bounded exhaustive enumeration of byte strings and single-byte edits on the real JSON front end, differential against an independent RFC 8259 recogniser/decoder",
         "Every byte string up to length 4/5 over a 35-byte JSON-relevant alphabet, every single-byte edit of a corpus of grammar-generated documents, and every short template-relevant string is run through json.ParseExpression/json.Parse/Value(nil)/Value(ctx) and compared with an independent recogniser+decoder: a coverage statement over the whole bounded space, not a sample.",
         "Trusted: go-cty number arithmetic, encoding/json.Valid and unicode/utf8 (cross-check of the reference), hclsyntax.ParseTemplate as the oracle for template-mode strings. Not reached: inputs longer than the bound that are not one edit away from the corpus.",
         "DESIGN.md section 4 C13"),
}
NOT_YET = "check not built yet (work in progress; see DESIGN.md section 7)"

checks, na = [], []
for i in ids:
    if i in CLAIMS:
        tech, text, note, ref = CLAIMS[i]
        checks.append({
            "property_id": i,
            "quick_cmd": f"./run.sh {i} quick",
            "thorough_cmd": f"./run.sh {i} thorough",
            "evidence_file": f"/verif/evidence/{i}.json",
            "replay_cmd_template": f"./run.sh {i} replay {{path}}",
            "engine": "verif-engine",
            "level_claimed": {"category": "model_checking", "text": text, "design_ref": ref},
            "level_note": note,
            "technique": tech,
        })
    else:
        na.append({"property_id": i, "reason": NOT_YET})
m = {
 "version": 1,
 "setup_cmd": "./run.sh setup",
 "hooks": {
  "guard": "overlay (no source change in /repo; instrumentation is generated at check time with go build -overlay)",
  "enable": "checks build /repo's working tree through the replace directive in /verif/go.mod; C17 additionally passes -overlay with a generated sync shim",
  "baseline_off_cmd": "cd /repo && GOFLAGS=-mod=mod GOPROXY=off go test -vet=off -count=1 ./...",
  "source_commits": [],
  "add_only": True,
 },
 "engines": [{"name": "verif-engine", "path": "/verif/engine", "serves_properties": sorted(CLAIMS),
              "kind_free_text": "hand-written bounded-exhaustive explorer in Go: deterministic simplest-first enumeration of a stated finite space, every case executed on the real implementation under a reference-model / relational oracle, parallel workers, shrinking, replay files, known-findings handling, evidence writer"}],
 "checks": checks,
 "not_applicable": na,
 "notes": "All checks are bounded exhaustive explorations (model checking family). See DESIGN.md.",
}
json.dump(m, open(os.path.join(HERE, 'MANIFEST.json'), 'w'), indent=1)
print("claimed:", len(checks), "not_applicable:", len(na))
