#!/usr/bin/env python3
"""Prints the markdown table of /verif/seeded/*/meta.json (full: seeded/TABLE.md; --compact: DESIGN.md section 10)."""
import json, glob, os, sys, re
compact = '--compact' in sys.argv
def key(d):
    name = os.path.basename(d.rstrip('/'))
    m = re.match(r'c(\d+)-(\d+)', name)
    return (int(m.group(1)), int(m.group(2))) if m else (99, 0)
rows = []
stats = {'total': 0, 'valid': 0, 'detected': 0, 'own': 0}
for d in sorted(glob.glob('/verif/seeded/*/'), key=key):
    try: m = json.load(open(d + 'meta.json'))
    except Exception: continue
    name = os.path.basename(d.rstrip('/'))
    ok = all(m['confirmed'][k] for k in ('builds', 'repository_suite_passes_with_patch', 'demo_passes_without_patch', 'demo_fails_with_patch'))
    det = ', '.join(m['detected_by']) or '**not detected**'
    if m.get('superseded_by_fix'):
        det = f"(superseded by fix {m['superseded_by_fix']}, see note)"
    stats['total'] += 1
    stats['valid'] += ok
    stats['detected'] += bool(m['detected_by'])
    stats['own'] += m['property'] in m['detected_by']
    classes = []
    for c in m['checks_run']:
        if c.get('violation_lines', 0) > 0:
            cl = [x for x in c.get('classes', '').split() if x.startswith('c') or x == 'race' or x == 'panic']
            n = 2 if compact else 3
            classes.append(f"{c['check']}: " + ', '.join(cl[:n]) + (' ...' if len(cl) > n else ''))
    summ = (m.get('summary') or '').replace('|', '\\|').replace('\n', ' ')
    lim = 140 if compact else 400
    if len(summ) > lim: summ = summ[:lim - 3] + '...'
    if compact:
        rows.append(f"| {name} | {summ} | {det} | {'; '.join(classes)} |")
    else:
        need = (m.get('needs_to_manifest') or '').replace('|', '\\|').replace('\n', ' ')
        if len(need) > 300: need = need[:297] + '...'
        rows.append(f"| {name} | {m['property']} | {summ} | {need} | {'yes' if ok else 'see note'} | {det} | {'; '.join(classes)} | {m.get('note','')} |")
if compact:
    print("| change | what it changes | detected by | classes reported (first two) |")
    print("|---|---|---|---|")
else:
    print("| seeded change | property | what it changes | needs to manifest | confirmed (builds, suite passes, demo fails with / passes without) | detected by | classes reported | note |")
    print("|---|---|---|---|---|---|---|---|")
print('\n'.join(rows))
print()
print(f"{stats['total']} changes; {stats['valid']} confirmed on the current tree; {stats['detected']} detected by at least one check; {stats['own']} detected by the check of the property they were written against.")
