#!/usr/bin/env python3
"""Prints the markdown table of /verif/seeded/*/meta.json for DESIGN.md section 10."""
import json, glob, os
rows=[]
for d in sorted(glob.glob('/verif/seeded/*/')):
    try: m=json.load(open(d+'meta.json'))
    except Exception: continue
    name=os.path.basename(d.rstrip('/'))
    ok=all(m['confirmed'][k] for k in ('builds','repository_suite_passes_with_patch','demo_passes_without_patch','demo_fails_with_patch'))
    det=', '.join(m['detected_by']) or '**not detected**'
    classes=[]
    for c in m['checks_run']:
        if c.get('violation_lines',0)>0:
            cl=c.get('classes','').replace('--- output','').split()
            classes.append(f"{c['check']}: "+', '.join(cl[:3])+(' ...' if len(cl)>3 else ''))
    summ=(m.get('summary') or '').replace('|','\\|').replace('\n',' ')
    if len(summ)>230: summ=summ[:227]+'...'
    rows.append(f"| {name} | {m['property']} | {summ} | {'yes' if ok else 'NO'} | {det} | {'; '.join(classes)} |")
print("| seeded change | property | what it changes | confirmed (builds, suite passes, demo fails with / passes without) | detected by | classes reported |")
print("|---|---|---|---|---|---|")
print('\n'.join(rows))
