#!/bin/bash
# usage: tools/seed-recheck.sh <name> <Cnn> [quick|thorough]
# Re-runs one check against an already kept seeded change (seeded/<name>/patch.diff) in a scratch worktree.
name="$1"; c="$2"; mode="${3:-quick}"
W=/tmp/seedr-$name-$$; mkdir -p "$W"
git -C /repo worktree add --detach "$W/wt" >/dev/null 2>&1 || exit 2
( cd "$W/wt" && (git apply /verif/seeded/$name/patch.diff 2>/dev/null || git apply -3 /verif/seeded/$name/patch.diff) ) || echo "PATCH DOES NOT APPLY"
out=$(VERIF_BUDGET_S=${VERIF_BUDGET_S:-600} /verif/tools/run-against.sh "$W/wt" "$c" "$mode" 2>&1)
echo "$out" | grep -E "^VIOLATION|^--- |exhaustive=|^exit=" | head -12
git -C /repo worktree remove --force "$W/wt"; rm -rf "$W"; git -C /repo worktree prune
