package main

import (
	"fmt"
	"sort"
	"strings"

	"github.com/hashicorp/hcl/v2"
	"github.com/hashicorp/hcl/v2/ext/customdecode"
	"github.com/hashicorp/hcl/v2/ext/dynblock"
	"github.com/hashicorp/hcl/v2/hcldec"
	"github.com/hashicorp/hcl/v2/hclsyntax"
	hcljson "github.com/hashicorp/hcl/v2/json"
	"github.com/zclconf/go-cty/cty"

	"verif/engine"
	"verif/gen/pool"
)

type BodyCase struct {
	Text   string `json:"text"`
	Spec   string `json:"spec"`
	Syntax string `json:"syntax"` // native | json
}

const bodyRule = "bodies: 6 merged multi-file bodies (references to different variables at the same byte offsets of different files), 31 native body templates and 6 JSON bodies (attributes, static blocks, blocks not mentioned by the spec, dynamic blocks with default/custom/shadowing iterators, labels from the iterator, nested dynamics referring to outer iterators) x 14 hcldec specs (incl. custom-decoded expression closures, DefaultSpec with an attribute default, a four-level nesting spec and a spec that uses one block type name with different nested specs at three places); reported = hcldec.Variables (static bodies) or dynblock.ExpandVariablesHCLDec + dynblock.VariablesHCLDec (bodies with dynamic blocks); Expand+Decode in the full scope must equal Expand+Decode in the pruned and altered scopes; iterator names must not be reported"

var attrA = &hcldec.AttrSpec{Name: "a", Type: cty.DynamicPseudoType}
var inner = hcldec.ObjectSpec{"a": attrA}
var innerC = hcldec.ObjectSpec{"a": attrA, "c": &hcldec.BlockListSpec{TypeName: "c", Nested: hcldec.ObjectSpec{"a": attrA}}}

var specTable = map[string]hcldec.Spec{
	"attr": hcldec.ObjectSpec{"a": attrA},
	// attributes whose type makes hcldec hand the expression itself to a custom decoder
	// (ext/customdecode): a closure that is evaluated later, in the context it was decoded with
	"closure": hcldec.ObjectSpec{"a": &hcldec.AttrSpec{Name: "a", Type: customdecode.ExpressionClosureType},
		"b": &hcldec.BlockTupleSpec{TypeName: "b", Nested: hcldec.ObjectSpec{"a": &hcldec.AttrSpec{Name: "a", Type: customdecode.ExpressionClosureType}}}},
	"block":   hcldec.ObjectSpec{"b": &hcldec.BlockSpec{TypeName: "b", Nested: inner}},
	"list":    hcldec.ObjectSpec{"a": attrA, "b": &hcldec.BlockListSpec{TypeName: "b", Nested: inner}},
	"tuple":   hcldec.ObjectSpec{"b": &hcldec.BlockTupleSpec{TypeName: "b", Nested: inner}},
	"set":     hcldec.ObjectSpec{"b": &hcldec.BlockSetSpec{TypeName: "b", Nested: inner}},
	"map":     hcldec.ObjectSpec{"b": &hcldec.BlockMapSpec{TypeName: "b", LabelNames: []string{"k"}, Nested: hcldec.ObjectSpec{"a": &hcldec.AttrSpec{Name: "a", Type: cty.String}}}},
	"object":  hcldec.ObjectSpec{"b": &hcldec.BlockObjectSpec{TypeName: "b", LabelNames: []string{"k"}, Nested: inner}},
	"attrs":   hcldec.ObjectSpec{"b": &hcldec.BlockAttrsSpec{TypeName: "b", ElementType: cty.String}},
	"nested":  hcldec.ObjectSpec{"b": &hcldec.BlockListSpec{TypeName: "b", Nested: innerC}},
	"default": hcldec.ObjectSpec{"a": &hcldec.DefaultSpec{Primary: attrA, Default: &hcldec.LiteralSpec{Value: cty.StringVal("dflt")}}},
	"default-attr": hcldec.ObjectSpec{"a": &hcldec.DefaultSpec{Primary: attrA, Default: &hcldec.AttrSpec{Name: "dflt", Type: cty.DynamicPseudoType}},
		"b": &hcldec.BlockListSpec{TypeName: "b", Nested: hcldec.ObjectSpec{"a": &hcldec.DefaultSpec{Primary: attrA, Default: &hcldec.AttrSpec{Name: "dflt", Type: cty.DynamicPseudoType}}}}},
	"deep": hcldec.ObjectSpec{"b": &hcldec.BlockListSpec{TypeName: "b", Nested: hcldec.ObjectSpec{"a": attrA,
		"c": &hcldec.BlockTupleSpec{TypeName: "c", Nested: hcldec.ObjectSpec{"a": attrA,
			"d": &hcldec.BlockTupleSpec{TypeName: "d", Nested: hcldec.ObjectSpec{"a": attrA,
				"e": &hcldec.BlockTupleSpec{TypeName: "e", Nested: hcldec.ObjectSpec{"a": attrA}}}},
			"f": &hcldec.BlockTupleSpec{TypeName: "f", Nested: hcldec.ObjectSpec{"a": attrA}}}},
		"g": &hcldec.BlockTupleSpec{TypeName: "g", Nested: hcldec.ObjectSpec{"a": attrA}}}}},
	// one block type name at two nesting levels (and under two parents) with different nested specs
	"same-name": hcldec.ObjectSpec{
		"b": &hcldec.BlockListSpec{TypeName: "b", Nested: hcldec.ObjectSpec{"a": attrA}},
		"g": &hcldec.BlockListSpec{TypeName: "g", Nested: hcldec.ObjectSpec{
			"b": &hcldec.BlockListSpec{TypeName: "b", Nested: hcldec.ObjectSpec{"c": &hcldec.AttrSpec{Name: "c", Type: cty.DynamicPseudoType},
				"b": &hcldec.BlockTupleSpec{TypeName: "b", Nested: hcldec.ObjectSpec{"d": &hcldec.AttrSpec{Name: "d", Type: cty.DynamicPseudoType}}}}}}},
		"h": &hcldec.BlockListSpec{TypeName: "h", Nested: hcldec.ObjectSpec{
			"b": &hcldec.BlockAttrsSpec{TypeName: "b", ElementType: cty.DynamicPseudoType}}}},
}

type tmpl struct {
	text   string
	labels bool
	nested bool
	bound  []string // names bound by iterators that must not be reported
	isJSON bool
	merged bool   // several files separated by "---" lines, merged with hcl.MergeBodies
	only   string // when set: only with this spec
}

var templates = []tmpl{
	{text: "a = sa\n"},
	{text: "a = \"${sa}-${one + two}\"\nzz = nosuch\n"},
	{text: "a = [for one in ln: one + two]\n"},
	{text: "b {\n  a = one\n}\nother {\n  a = two\n}\n"},
	{text: "b {\n  a = one\n}\nb {\n  a = ls[0]\n}\n"},
	{text: "b \"l\" {\n  a = sa\n}\n", labels: true},
	{text: "dynamic \"b\" {\n  for_each = ls\n  content {\n    a = b.value\n  }\n}\n", bound: []string{"b"}},
	{text: "dynamic \"b\" {\n  for_each = ls\n  iterator = it\n  content {\n    a = \"${it.key}-${sa}\"\n  }\n}\n", bound: []string{"it"}},
	{text: "dynamic \"b\" {\n  for_each = ls\n  iterator = sa\n  content {\n    a = sa.value\n  }\n}\n", bound: []string{"sa"}},
	{text: "dynamic \"b\" {\n  for_each = ls\n  iterator = ls\n  content {\n    a = ls.value\n  }\n}\n"},
	{text: "dynamic \"b\" {\n  for_each = lo[0].b\n  iterator = lo\n  labels = [\"l\"]\n  content {\n    a = lo.key\n  }\n}\n", labels: true},
	{text: "dynamic \"b\" {\n  for_each = mn\n  iterator = mn\n  content {\n    a = \"${mn.key}${sa}\"\n    dynamic \"c\" {\n      for_each = [mn.value, one]\n      iterator = one\n      content {\n        a = one.value\n      }\n    }\n  }\n}\n", nested: true},
	{text: "dynamic \"b\" {\n  for_each = [for v in ln: v + one]\n  content {\n    a = b.value + two\n  }\n}\n", bound: []string{"b", "v"}},
	{text: "dynamic \"b\" {\n  for_each = mn\n  labels = [b.key]\n  content {\n    a = sa\n  }\n}\n", labels: true, bound: []string{"b"}},
	{text: "dynamic \"b\" {\n  for_each = mn\n  labels = [\"${s1}${b.key}\"]\n  content {\n    a = \"${b.value + one}\"\n  }\n}\n", labels: true, bound: []string{"b"}},
	{text: "a = sa\nb {\n  a = two\n}\ndynamic \"b\" {\n  for_each = bt ? ls : []\n  content {\n    a = b.value\n  }\n}\n", bound: []string{"b"}},
	{text: "dynamic \"other\" {\n  for_each = ls\n  content {\n    a = two\n  }\n}\nb {\n  a = one\n}\n", bound: []string{"other"}},
	{text: "b {\n  a = one\n  c {\n    a = two\n  }\n}\n", nested: true},
	{text: "dynamic \"b\" {\n  for_each = lo\n  content {\n    a = b.value.a\n    dynamic \"c\" {\n      for_each = b.value.b\n      content {\n        a = c.value + one\n      }\n    }\n  }\n}\n", nested: true, bound: []string{"b", "c"}},
	{text: "dynamic \"b\" {\n  for_each = lo\n  iterator = x\n  content {\n    a = sa\n    dynamic \"c\" {\n      for_each = ln\n      iterator = y\n      content {\n        a = \"${x.key}${y.value}${two}\"\n      }\n    }\n  }\n}\n", nested: true, bound: []string{"x", "y"}},
	{text: "b {\n  a = sa\n  dynamic \"c\" {\n    for_each = ls\n    content {\n      a = c.value\n    }\n  }\n}\n", nested: true, bound: []string{"c"}},
	{text: "dynamic \"b\" {\n  for_each = ln\n  content {\n    a = one\n    c {\n      a = b.value\n    }\n  }\n}\n", nested: true, bound: []string{"b"}},
	{text: "dynamic \"b\" {\n  for_each = ln\n  content {\n    a = one\n    dynamic \"c\" {\n      for_each = [b.value, two]\n      iterator = b\n      content {\n        a = b.value\n      }\n    }\n  }\n}\n", nested: true, bound: []string{"b"}},
	// DefaultSpec whose default is another attribute: the primary is absent / null / set
	{text: "dflt = sa\n", only: "default-attr"},
	{text: "a = null\ndflt = \"${sa}-${one}\"\n", only: "default-attr"},
	{text: "a = two\ndflt = sa\nb {\n  a = null\n  dflt = ls[0]\n}\nb {\n  dflt = one\n}\n", only: "default-attr"},
	// four levels of dynamic nesting with static siblings that refer to global variables named like the
	// iterators of deeper levels (globals c, d, e, f are defined by the scopes)
	{text: "dynamic \"b\" {\n  for_each = ln\n  content {\n    a = b.value\n    dynamic \"c\" {\n      for_each = [b.value, one]\n      content {\n        a = c.value\n        dynamic \"d\" {\n          for_each = [c.value]\n          content {\n            a = d.value + two\n            dynamic \"e\" {\n              for_each = [d.value]\n              content {\n                a = \"${b.key}${c.key}${d.key}${e.key}${sa}\"\n              }\n            }\n          }\n        }\n        f {\n          a = \"${d}${e}\"\n        }\n      }\n    }\n    g {\n      a = \"${c}${d}${e}\"\n    }\n  }\n}\n", only: "deep", bound: []string{"b"}},
	// the same block type name with different nested specs at different places, static and dynamic
	{text: "b {\n  a = sa\n}\ng {\n  b {\n    c = one\n    b {\n      d = two\n    }\n  }\n}\nh {\n  b {\n    x = s1\n    y = ls[0]\n  }\n}\n", only: "same-name"},
	{text: "g {\n  b {\n    c = one\n    b {\n      d = two\n    }\n  }\n}\nb {\n  a = sa\n}\n", only: "same-name"},
	{text: "b {\n  a = sa\n}\ng {\n  dynamic \"b\" {\n    for_each = ln\n    content {\n      c = b.value + one\n      dynamic \"b\" {\n        for_each = [two]\n        iterator = it\n        content {\n          d = \"${it.value}${s1}\"\n        }\n      }\n    }\n  }\n}\n", only: "same-name", bound: []string{"b", "it"}},
	{text: "dynamic \"b\" {\n  for_each = ls\n  content {\n    a = \"${b.value}${sa}\"\n  }\n}\ndynamic \"g\" {\n  for_each = [one]\n  content {\n    b {\n      c = g.value + two\n      b {\n        d = s1\n      }\n    }\n  }\n}", only: "same-name", bound: []string{"b", "g"}},
	// merged files whose references to different variables start at the same byte offsets
	{text: "a = sa\n---\nb {\n  a = ls\n}\n---\nb {\n  a = two\n}\n", merged: true, only: "list"},
	{text: "b {\n  a = s1\n}\n---\nb {\n  a = ls\n}\n---\na = one\n", merged: true, only: "list"},
	{text: "b {\n  a = s1\n}\n---\nb {\n  a = ls\n}\n", merged: true, only: "tuple"},
	{text: "b {\n  x = s1\n}\n---\nb {\n  x = ls[0]\n  y = sa\n}\n", merged: true, only: "attrs"},
	{text: "{\"a\": \"${sa}\"}\n---\nb {\n  a = \"${one}\"\n}\n---\n{\"b\": {\"a\": \"${two}\"}}", merged: true, only: "list"},
	{text: "dynamic \"b\" {\n  for_each = ls\n  content {\n    a = b.value\n  }\n}\n---\ndynamic \"b\" {\n  for_each = ln\n  content {\n    a = b.value\n  }\n}\n", merged: true, only: "list", bound: []string{"b"}},
	// JSON bodies
	{text: `{"a": "${sa}-${one}"}`, isJSON: true},
	{text: `{"a": ["${sa}", {"${s1}": "${two}"}]}`, isJSON: true},
	{text: `{"b": {"a": "${one}"}, "other": {"a": "${two}"}}`, isJSON: true},
	{text: `{"b": [{"a": "${one}"}, {"a": "${ls[0]}"}]}`, isJSON: true},
	{text: `{"b": {"l": {"a": "${sa}"}}}`, isJSON: true, labels: true},
	{text: `{"dynamic": {"b": {"for_each": "${ls}", "content": {"a": "${b.value}${sa}"}}}}`, isJSON: true, bound: []string{"b"}},
}

func genBodies(tier string, emit func(engine.Case) bool) {
	var specNames []string
	for k := range specTable {
		specNames = append(specNames, k)
	}
	sort.Strings(specNames)
	for ti, t := range templates {
		for _, sn := range specNames {
			if t.only != "" && t.only != sn {
				continue
			}
			if t.only == "" && (sn == "default-attr" || sn == "deep" || sn == "same-name") {
				continue
			}
			if t.only == "" && (sn == "nested") != t.nested {
				continue
			}
			needLabels := sn == "map" || sn == "object"
			if t.only == "" && needLabels != t.labels {
				continue
			}
			syn := "native"
			if t.isJSON {
				syn = "json"
			}
			if t.merged {
				syn = "merged"
			}
			id := fmt.Sprintf("body/%d/%s", ti, sn)
			if !emit(engine.Case{ID: id, Data: Data{Kind: "body", Family: "body", Src: t.text, Body: &BodyCase{Text: t.text, Spec: sn, Syntax: syn}}}) {
				return
			}
		}
	}
}

func judgeBody(d Data) engine.Outcome {
	bc := d.Body
	spec := specTable[bc.Spec]
	if spec == nil {
		return engine.Skip()
	}
	var body hcl.Body
	if bc.Syntax == "merged" {
		// several files (separated by a line "---"; a part that starts with "{" is JSON), merged;
		// all of them are called alike and start at the same position, as separately loaded files do
		var bodies []hcl.Body
		for _, part := range strings.Split(bc.Text, "\n---\n") {
			if strings.HasPrefix(part, "{") {
				f, diags := hcljson.Parse([]byte(part), "main.tf.json")
				if diags.HasErrors() {
					return engine.Skip()
				}
				bodies = append(bodies, f.Body)
			} else {
				f, diags := hclsyntax.ParseConfig([]byte(part), "main.tf", hcl.InitialPos)
				if diags.HasErrors() {
					return engine.Skip()
				}
				bodies = append(bodies, f.Body)
			}
		}
		body = hcl.MergeBodies(bodies)
	} else if bc.Syntax == "json" {
		f, diags := hcljson.Parse([]byte(bc.Text), "t.json")
		if diags.HasErrors() {
			return engine.Skip()
		}
		body = f.Body
	} else {
		f, diags := hclsyntax.ParseConfig([]byte(bc.Text), "t.hcl", hcl.InitialPos)
		if diags.HasErrors() {
			return engine.Skip()
		}
		body = f.Body
	}
	dynamic := strings.Contains(bc.Text, "dynamic")
	var bound []string
	for _, t := range templates {
		if t.text == bc.Text {
			bound = t.bound
		}
	}
	var reported map[string]bool
	how := "hcldec.Variables"
	if dynamic {
		how = "dynblock.ExpandVariablesHCLDec + dynblock.VariablesHCLDec"
		reported = rootNames(append(dynblock.ExpandVariablesHCLDec(body, spec), dynblock.VariablesHCLDec(body, spec)...))
	} else {
		reported = rootNames(hcldec.Variables(body, spec))
	}
	full, pruned, altered := scopes(reported)
	fns := pool.ImplFuncs()
	decode := func(vars map[string]cty.Value) outcome {
		ctx := &hcl.EvalContext{Variables: vars, Functions: fns}
		b := body
		if dynamic {
			b = dynblock.Expand(body, ctx)
		}
		v, diags := hcldec.Decode(b, spec, ctx)
		// expression closures are evaluated (in the context they captured) and replaced by their results
		v, _ = cty.Transform(v, func(_ cty.Path, val cty.Value) (cty.Value, error) {
			if val.Type() == customdecode.ExpressionClosureType && val.IsKnown() && !val.IsNull() {
				r, rd := customdecode.ExpressionClosureFromVal(val).Value()
				diags = append(diags, rd...)
				return r, nil
			}
			return val, nil
		})
		return summarize(v, diags)
	}
	o0, o1, o2 := decode(full), decode(pruned), decode(altered)
	var names []string
	for n := range reported {
		names = append(names, n)
	}
	sort.Strings(names)
	kind := "static"
	if dynamic {
		kind = "dynamic"
	}
	if !sameOutcome(o0, o1) {
		return engine.Fail("c07.body."+kind+"."+bc.Spec+".pruned-scope-differs", "spec %s, body:\n%s\n%s reported roots %v\nfull scope:   %s\npruned scope: %s", bc.Spec, bc.Text, how, names, o0, o1)
	}
	if !sameOutcome(o0, o2) {
		return engine.Fail("c07.body."+kind+"."+bc.Spec+".unreported-variable-matters", "spec %s, body:\n%s\n%s reported roots %v\nfull scope: %s\nunreported names changed: %s", bc.Spec, bc.Text, how, names, o0, o2)
	}
	for _, n := range bound {
		if reported[n] {
			return engine.Fail("c07.body."+kind+"."+bc.Spec+".bound-name-reported", "spec %s, body:\n%s\n%s reported roots %v include the iterator name %q", bc.Spec, bc.Text, how, names, n)
		}
	}
	counters.Add("evaluations_body", 3)
	return engine.Pass("body:" + bc.Syntax + ":" + bc.Spec + ":" + strings.Join(names, ",") + ":" + fmt.Sprint(o0.err))
}
