// C07 — Reported variable references are a complete dependency set.
//
// For every AST of the expression families (native syntax, and the same
// expression embedded in the JSON syntax), and for bodies under hcldec specs
// and with dynamic blocks (body.go): evaluation in the scope restricted to the
// reported root names, and in a scope where every unreported name is changed,
// must give the identical value and diagnostics as in the full scope.
package main

import (
	"fmt"
	"sort"
	"strings"
	"time"

	"github.com/hashicorp/hcl/v2"
	"github.com/hashicorp/hcl/v2/hclsyntax"
	hcljson "github.com/hashicorp/hcl/v2/json"
	"github.com/zclconf/go-cty/cty"

	"verif/engine"
	ex "verif/gen/expr"
	"verif/gen/fam"
	"verif/gen/pool"
	"verif/vfmt"
)

type Data struct {
	Kind   string    `json:"kind"` // expr | json | body
	Family string    `json:"family"`
	E      *ex.E     `json:"e,omitempty"`
	Src    string    `json:"src"`
	Body   *BodyCase `json:"body,omitempty"`
}

var counters engine.Counter

func gen(tier string, emit func(engine.Case) bool) {
	ok := true
	// shadowing shapes first (small), then all families
	for i, e := range shadowing() {
		if !emit(engine.Case{ID: fmt.Sprintf("shadow/%d", i), Data: Data{Kind: "expr", Family: "shadow", E: e, Src: ex.Canon(e)}}) {
			return
		}
		if !emit(engine.Case{ID: fmt.Sprintf("shadow-json/%d", i), Data: Data{Kind: "json", Family: "shadow", E: e, Src: ex.Canon(e)}}) {
			return
		}
	}
	fam.All(fam.Opts{Thorough: tier == "thorough"}, func(family, id string, e *ex.E) bool {
		ok = emit(engine.Case{ID: id, Data: Data{Kind: "expr", Family: family, E: e, Src: ex.Canon(e)}})
		if !ok {
			return false
		}
		// JSON embedding for a subset of the families (every 7th AST; all of the small families)
		if family == "F5-index" || family == "F6-splat" || family == "F7-for" || family == "F9-cons" || family == "F10-template" {
			ok = emit(engine.Case{ID: id + "/json", Data: Data{Kind: "json", Family: family, E: e, Src: ex.Canon(e)}})
		}
		return ok
	})
	if !ok {
		return
	}
	genBodies(tier, emit)
}

// shadowing: scoping constructs re-binding names that are also pool variables.
func shadowing() []*ex.E {
	v, one, ln, two := ex.Var("v"), ex.Var("one"), ex.Var("ln"), ex.Var("two")
	tf := func(kv, vv string, coll *ex.E, body ...ex.Part) ex.Part {
		return ex.Part{K: "for", E: coll, KeyVar: kv, ValVar: vv, Then: body, Strip: [][2]bool{{}, {}}}
	}
	return []*ex.E{
		ex.ForT("", "one", ln, ex.Bin("+", one, two), nil),
		ex.ForT("", "ln", ln, ln, nil),
		ex.ForT("", "one", ex.Tuple(one, two), one, nil),
		ex.ForT("one", "two", ex.Var("mn"), ex.Tuple(one, two), ex.Bin("!=", two, ex.Var("zero"))),
		ex.ForT("", "v", ln, ex.ForT("", "v", ex.Tuple(v, one), v, nil), nil),
		ex.ForT("", "v", ex.ForT("", "one", ln, one, nil), ex.Bin("+", v, one), nil),
		ex.ForO("one", "v", ex.Var("mn"), one, ex.Bin("+", v, two), nil, false),
		ex.ForO("k", "one", ex.Var("mn"), ex.Var("k"), one, ex.Bin(">", one, ex.Var("zero")), true),
		ex.Tuple(ex.ForT("", "one", ln, one, nil), one),
		ex.Bin("+", ex.Idx(ex.ForT("", "two", ln, two, nil), ex.Num("0")), two),
		ex.Splat(ex.ForT("", "one", ex.Var("lo"), one, nil), true, ex.SAttr("a")),
		ex.ForT("", "one", ex.Splat(ex.Var("lo"), true, ex.SAttr("a")), ex.Bin("+", one, two), nil),
		ex.ForT("", "lo", ex.Var("lo"), ex.Splat(ex.Attr(ex.Var("lo"), "b"), true), nil),
		ex.Tmpl("q", tf("", "one", ln, ex.Interp(one), ex.Lit(",")), ex.Interp(one)),
		ex.Tmpl("q", tf("one", "two", ex.Var("mn"), ex.Interp(one), ex.Lit("="), ex.Interp(two)), ex.Lit(";"), ex.Interp(two)),
		ex.Tmpl("h", tf("", "sa", ex.Var("ls"), ex.Interp(ex.Var("sa")), tf("", "sa", ex.Tuple(ex.Var("sa"), ex.Var("s1")), ex.Interp(ex.Var("sa"))))),
		ex.Tmpl("q", ex.Part{K: "if", E: ex.Var("bt"), Then: []ex.Part{tf("", "bt", ln, ex.Interp(ex.Var("bt")))}, HasElse: true, Else: []ex.Part{ex.Interp(ex.Var("bf"))}, Strip: [][2]bool{{}, {}, {}}}),
		ex.Obj(ex.IdItem("one", one), ex.ExItem(one, two), ex.ExItem(ex.Var("sa"), ex.Var("se"))),
		ex.Obj(ex.IdItem("sa", ex.Num("1")), ex.IdItem("zz", ex.Var("ls"))),
		ex.Obj(ex.ExItem(ex.Tmpl("q", ex.Lit("k"), ex.Interp(ex.Var("sa"))), ex.Num("1"))),
		ex.Idx(ex.Var("mn"), ex.Var("sa")), ex.Idx(ex.Var("ln"), ex.Bin("-", two, one)),
		ex.Attr(ex.Var("o"), "sa"), ex.Attr(ex.Var("oo"), "a"),
		ex.ForT("", "v", ex.Var("lo"), ex.Attr(v, "a"), ex.Bin(">", ex.Attr(v, "a"), one)),
		ex.ForO("", "v", ex.Var("ls"), v, ex.ForT("", "w", ex.Var("ln"), ex.Tuple(v, ex.Var("w"), two), nil), nil, false),
		ex.Call("cat", ex.Var("sa"), ex.Var("s1")), ex.CallX("cat", ex.Var("ls")),
		ex.Cond(ex.Var("bt"), ex.Var("one"), ex.Var("nosuch")),
		ex.Cond(ex.Var("bf"), ex.Var("nosuch"), ex.Var("one")),
		ex.Bin("||", ex.Var("bt"), ex.Var("nosuch")),
		// splat whose per-element traversal contains an index with a variable key, followed by further steps
		ex.Splat(ex.Var("lo"), true, ex.SAttr("b"), ex.SIdx(ex.Var("zero")), ex.SAttr("x")),
		ex.Splat(ex.Var("lo"), true, ex.SIdx(ex.Var("sa")), ex.SAttr("x")),
		ex.Splat(ex.Tuple(ex.Var("o"), ex.Var("oo")), true, ex.SIdx(ex.Var("sa")), ex.SAttr("a"), ex.SIdx(ex.Var("one"))),
		ex.Splat(ex.Var("lo"), true, ex.SIdx(ex.Tmpl("q", ex.Interp(ex.Var("sa")))), ex.SIdx(ex.Bin("+", one, two)), ex.SAttr("x")),
		ex.Splat(ex.Var("lo"), false, ex.SAttr("a"), ex.SIdx(ex.Var("zero")), ex.SAttr("x")),
		ex.ForT("", "v", ex.Var("lo"), ex.Splat(v, true, ex.SAttr("b"), ex.SIdx(one), ex.SAttr("x")), nil),
		ex.Call("cat", ex.Tmpl("q", ex.Interp(ex.Splat(ex.Var("lo"), true, ex.SIdx(ex.Var("s1")), ex.SAttr("x"))))),
	}
}

type outcome struct {
	v     cty.Value
	diags []string
	err   bool
}

func (o outcome) String() string {
	return fmt.Sprintf("value=%s errors=%v diags=%v", vfmt.V(o.v), o.err, o.diags)
}

func sameOutcome(a, b outcome) bool {
	if a.err != b.err || len(a.diags) != len(b.diags) {
		return false
	}
	for i := range a.diags {
		if a.diags[i] != b.diags[i] {
			return false
		}
	}
	return a.v.RawEquals(b.v)
}

func summarize(v cty.Value, diags hcl.Diagnostics) outcome {
	o := outcome{v: v, err: diags.HasErrors()}
	for _, d := range diags {
		s := fmt.Sprintf("%d|%s", d.Severity, d.Summary)
		if d.Subject != nil {
			s += "|" + d.Subject.String()
		}
		o.diags = append(o.diags, s)
	}
	sort.Strings(o.diags)
	return o
}

func rootNames(ts []hcl.Traversal) map[string]bool {
	m := map[string]bool{}
	for _, t := range ts {
		if !t.IsRelative() {
			m[t.RootName()] = true
		}
	}
	return m
}

var changed = cty.ObjectVal(map[string]cty.Value{"changed": cty.StringVal("CHANGED")})

// scopes: full, restricted to the reported names, and with every unreported name changed.
func scopes(reported map[string]bool) (full, pruned, altered map[string]cty.Value) {
	full, pruned, altered = map[string]cty.Value{}, map[string]cty.Value{}, map[string]cty.Value{}
	for k, v := range pool.Vars {
		full[k] = v
		if reported[k] {
			pruned[k] = v
			altered[k] = v
		} else {
			altered[k] = changed
		}
	}
	// names used as iteration variables in the families are also defined
	// globally (with a recognisable value): they must be shadowed, never read.
	for _, n := range []string{"k", "v", "w", "it", "b", "c", "d", "e", "f", "g", "x", "y"} {
		if _, ok := full[n]; !ok {
			full[n] = cty.StringVal("GLOBAL-" + n)
			if reported[n] {
				pruned[n] = full[n]
				altered[n] = full[n]
			} else {
				altered[n] = changed
			}
		}
	}
	return
}

func kindOf(e *ex.E) string {
	switch e.K {
	case "bin", "un":
		return e.K
	case "tmpl":
		return "tmpl"
	case "splat":
		return "splat"
	case "for":
		return "for"
	}
	return e.K
}

func judgeExpression(d Data, expr hcl.Expression, label string) engine.Outcome {
	reported := rootNames(expr.Variables())
	full, pruned, altered := scopes(reported)
	fns := pool.ImplFuncs()
	v0, d0 := expr.Value(&hcl.EvalContext{Variables: full, Functions: fns})
	o0 := summarize(v0, d0)
	v1, d1 := expr.Value(&hcl.EvalContext{Variables: pruned, Functions: fns})
	o1 := summarize(v1, d1)
	v2, d2 := expr.Value(&hcl.EvalContext{Variables: altered, Functions: fns})
	o2 := summarize(v2, d2)
	var names []string
	for n := range reported {
		names = append(names, n)
	}
	sort.Strings(names)
	if !sameOutcome(o0, o1) {
		return engine.Fail("c07."+label+"."+kindOf(d.E)+".pruned-scope-differs", "source: %s\nreported roots: %v\nfull scope:   %s\npruned scope: %s", d.Src, names, o0, o1)
	}
	if !sameOutcome(o0, o2) {
		return engine.Fail("c07."+label+"."+kindOf(d.E)+".unreported-variable-matters", "source: %s\nreported roots: %v\nfull scope:    %s\nunreported names changed: %s", d.Src, names, o0, o2)
	}
	// bound names must not be reported unless they also occur free
	free := map[string]bool{}
	for _, n := range pool.FreeNames(d.E) {
		free[n] = true
	}
	for n := range reported {
		if !free[n] {
			return engine.Fail("c07."+label+"."+kindOf(d.E)+".bound-name-reported", "source: %s\nreported roots %v include %q, which only occurs bound by a for expression/directive", d.Src, names, n)
		}
	}
	counters.Add("evaluations_"+label, 3)
	if len(names) == 0 {
		return engine.Pass("")
	}
	return engine.Pass(label + ":" + kindOf(d.E) + ":" + strings.Join(names, ",") + ":" + fmt.Sprint(o0.err))
}

func judge(c engine.Case) engine.Outcome {
	d := c.Data.(Data)
	switch d.Kind {
	case "body":
		return judgeBody(d)
	case "json":
		if d.E.K == "tmpl" && d.E.Form != "q" && d.E.Form != "b" {
			return engine.Skip()
		}
		// the expression as a JSON string template "${...}", as an array element and as object key and value
		src := d.Src
		if d.E.K == "tmpl" && d.E.Form == "b" {
			// bare template text is the string content itself
		} else {
			src = "${" + src + "}"
		}
		q := jsonQuote(src)
		// ... and as the value of a property whose name is repeated (first / second occurrence, nested)
		docs := []string{q, "[" + q + ", 1]", `{"k": 1, "k": ` + q + "}", `{"k": ` + q + `, "k": 1}`, `[{"k": {"j": 1}, "k": {"j": ` + q + "}}]", "{" + q + ": " + q + "}"}
		labels := []string{"json-string", "json-array", "json-dup-second", "json-dup-first", "json-dup-nested", "json-object"}
		if d.E.K == "tmpl" && d.E.Form == "q" && len(d.Src) >= 2 && !strings.Contains(d.Src, `\`) {
			// the content of a quoted template without escape sequences is
			// also a JSON string template by itself (no enclosing "${ }"):
			// as a string and as object key and value
			q2 := jsonQuote(d.Src[1 : len(d.Src)-1])
			docs = append(docs, q2, "{"+q2+": "+q2+"}", "{"+q2+": 1}")
			labels = append(labels, "json-string-direct", "json-object-direct", "json-object-key-direct")
		}
		// the expression in the key alone (the value must not report the same variables for it)
		docs = append(docs, "{"+q+": 1}")
		labels = append(labels, "json-object-key")
		var out engine.Outcome
		for i, doc := range docs {
			expr, diags := hcljson.ParseExpression([]byte(doc), "t.json")
			if diags.HasErrors() {
				return engine.Skip()
			}
			out = judgeExpression(d, expr, labels[i])
			if out.V == engine.Viol {
				return out
			}
		}
		return out
	}
	var expr hclsyntax.Expression
	var diags hcl.Diagnostics
	if d.E.K == "tmpl" && d.E.Form == "b" {
		expr, diags = hclsyntax.ParseTemplate([]byte(d.Src), "t.hcl", hcl.InitialPos)
	} else {
		expr, diags = hclsyntax.ParseExpression([]byte(d.Src), "t.hcl", hcl.InitialPos)
	}
	if diags.HasErrors() {
		return engine.Skip()
	}
	return judgeExpression(d, expr, "native")
}

func jsonQuote(s string) string {
	var sb strings.Builder
	sb.WriteByte('"')
	for _, c := range s {
		switch c {
		case '"':
			sb.WriteString(`\"`)
		case '\\':
			sb.WriteString(`\\`)
		case '\n':
			sb.WriteString(`\n`)
		case '\r':
			sb.WriteString(`\r`)
		case '\t':
			sb.WriteString(`\t`)
		default:
			if c < 0x20 {
				fmt.Fprintf(&sb, `\u%04x`, c)
			} else {
				sb.WriteRune(c)
			}
		}
	}
	sb.WriteByte('"')
	return sb.String()
}

func main() {
	engine.Main(&engine.Check{
		ID:        "C07",
		Title:     "Reported variable references are a complete dependency set",
		Technique: "bounded exhaustive two-run scope-pruning check over expression ASTs (native and JSON-embedded) and bodies under hcldec specs / with dynamic blocks, on the real Variables() walkers and evaluators",
		Rule: "every AST of the expression families plus 38 shadowing shapes (nested for re-binding pool names, splat inside for, template for, object keys bare/parenthesised/template, index keys), natively and embedded as JSON string / array element / value of a repeated property name / object key+value; bodies: see rule_bodies. " +
			"Each is evaluated in the full scope, in the scope restricted to the reported root names, and in a scope where every unreported name (including the names used as iteration variables) has a different value; value and diagnostics (severity, summary, subject) must be identical; names that only occur bound must not be reported. Non-trivial = at least one name reported; distinct = distinct (syntax, construct, reported names, error presence).",
		Assumptions: []string{"diagnostic detail text (which contains name suggestions that depend on the scope) is not compared"},
		Gen:         gen,
		Judge:       judge,
		Load:        engine.LoadAs[Data],
		Extra: func() map[string]any {
			m := map[string]any{"rule_bodies": bodyRule}
			for k, v := range counters.Snapshot() {
				m[k] = v
			}
			return m
		},
		QuickBudget:    5 * time.Minute,
		ThoroughBudget: 45 * time.Minute,
	})
}
