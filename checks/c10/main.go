// C10 — Loading a file into the writer AST and saving it loses nothing.
//
// Bounded exhaustive exploration: every configuration of the shared corpus
// verif/gen/cfgcorpus (the same finite product C09 uses) is loaded with the
// real hclwrite.ParseConfig; the oracle is the invariant the property states:
// no diagnostics / panic, File.Bytes() has the source's token sequence and
// equals hclwrite.Format(src), and the tree exposes every attribute, block,
// label and variable reference that the hclsyntax reading of the source has.
// The loading API's start position (where the first byte of src sits in a
// larger document) is a further dimension: a stated subset of the corpus is
// also loaded with non-initial start positions and must load, save and expose
// exactly what the load with hcl.InitialPos does (the tree holds no positions).
package main

import (
	"bytes"
	"fmt"
	"os"
	"regexp"
	"sort"
	"strings"

	"github.com/hashicorp/hcl/v2"
	"github.com/hashicorp/hcl/v2/hclsyntax"
	"github.com/hashicorp/hcl/v2/hclwrite"
	"github.com/zclconf/go-cty/cty"

	"verif/engine"
	"verif/gen/cfgcorpus"
)

type Data struct {
	Src  string `json:"src"`
	Base string `json:"base,omitempty"` // informational: corpus base the layout was derived from
	// Starts lists the additional start positions (third argument of
	// hclwrite.ParseConfig) the text is also loaded with; hcl.InitialPos is
	// always loaded first.
	Starts []Start `json:"starts,omitempty"`
}

// Start is a JSON-friendly hcl.Pos.
type Start struct {
	Line   int `json:"line"`
	Column int `json:"column"`
	Byte   int `json:"byte"`
}

func (s Start) pos() hcl.Pos { return hcl.Pos{Line: s.Line, Column: s.Column, Byte: s.Byte} }

// startAlphabet is the start-position dimension of the public loading API
// (ParseConfig(src, filename, start): "start" is the position of the first
// byte of src within a larger document). Byte offsets smaller than, inside
// and beyond the corpus texts; a column offset on the first line; a
// line/column-only offset (Byte 0); all three moved at once.
var startAlphabet = []Start{
	{Line: 1, Column: 1, Byte: 7},
	{Line: 5, Column: 3, Byte: 40},
	{Line: 2, Column: 1, Byte: 1},
	{Line: 4, Column: 2, Byte: 0},
	{Line: 100, Column: 1, Byte: 4096},
}

// startsFor is the stated subset: which start positions an entry is loaded
// with besides hcl.InitialPos.
//
//	quick:    base texts (and their CRLF/BOM twins): the whole alphabet;
//	          single-gap deviations: the first element (byte offset 7);
//	          pair deviations: none.
//	thorough: base texts and single-gap deviations: the whole alphabet;
//	          pair deviations: the first three elements.
func startsFor(tier string, edits int) []Start {
	if tier == "thorough" {
		if edits <= 1 {
			return startAlphabet
		}
		return startAlphabet[:3]
	}
	switch edits {
	case 0:
		return startAlphabet
	case 1:
		return startAlphabet[:1]
	}
	return nil
}

const startsRule = "Start-position dimension: besides hcl.InitialPos every text is also loaded with hclwrite.ParseConfig(src, filename, start) for start in " +
	"S = [{1,1,7}, {5,3,40}, {2,1,1}, {4,2,0}, {100,1,4096}] ({Line,Column,Byte}); quick: base texts and twins with all of S, single-gap deviations with S[:1], pair deviations with none; " +
	"thorough: base texts and single-gap deviations with all of S, pair deviations with S[:3]. "

var counters engine.Counter

func gen(tier string, emit func(engine.Case) bool) {
	st := cfgcorpus.Enumerate(tier, func(e cfgcorpus.Entry) bool {
		return emit(engine.Case{ID: e.ID, Data: Data{Src: e.Src, Base: e.Base, Starts: startsFor(tier, e.Edits)}})
	})
	counters.Add("corpus_bases", st.Bases)
	counters.Add("corpus_bases_outside_domain", st.BasesRejected)
	counters.Add("layout_candidates", st.Candidates)
	counters.Add("layout_duplicates", st.Duplicates)
	counters.Add("inputs", st.Emitted)
}

// ---- source-side reference reading ----

type srcView struct {
	src    []byte
	toks   []cfgcorpus.Tok
	ranges [][2]int
}

func insignificant(t hclsyntax.TokenType) bool {
	return t == hclsyntax.TokenComment || t == hclsyntax.TokenNewline
}

// within returns the significant (non-comment, non-newline) source tokens
// lying inside rng.
func (v *srcView) within(rng hcl.Range) []cfgcorpus.Tok {
	var out []cfgcorpus.Tok
	for i, t := range v.toks {
		if v.ranges[i][0] >= rng.Start.Byte && v.ranges[i][1] <= rng.End.Byte && v.ranges[i][0] < v.ranges[i][1] && !insignificant(t.Type) {
			out = append(out, t)
		}
	}
	return out
}

func significant(ts hclwrite.Tokens) []cfgcorpus.Tok {
	var out []cfgcorpus.Tok
	for _, t := range ts {
		if !insignificant(t.Type) {
			out = append(out, cfgcorpus.Tok{Type: t.Type, Bytes: string(t.Bytes)})
		}
	}
	return out
}

// slotAt names the syntactic slot of byte offset off in the source (used to
// derive classes for dropped / inserted tokens).
func slotAt(b *hclsyntax.Body, off int) string {
	in := func(r hcl.Range) bool { return off >= r.Start.Byte && off < r.End.Byte }
	for _, bl := range b.Blocks {
		if off < bl.TypeRange.Start.Byte || off >= bl.CloseBraceRange.End.Byte {
			continue
		}
		switch {
		case in(bl.TypeRange):
			return "block-type"
		case len(bl.LabelRanges) > 0 && off < bl.LabelRanges[0].Start.Byte:
			return "block-header-before-first-label"
		case off < bl.OpenBraceRange.Start.Byte:
			for _, lr := range bl.LabelRanges {
				if in(lr) {
					return "block-label"
				}
			}
			if len(bl.LabelRanges) > 0 && off < bl.LabelRanges[len(bl.LabelRanges)-1].Start.Byte {
				return "block-header-between-labels"
			}
			return "block-header-before-brace"
		case in(bl.OpenBraceRange) || in(bl.CloseBraceRange):
			return "block-brace"
		}
		return slotAt(bl.Body, off)
	}
	for _, a := range b.Attributes {
		if off < a.SrcRange.Start.Byte || off >= a.SrcRange.End.Byte {
			continue
		}
		switch {
		case in(a.NameRange):
			return "attribute-name"
		case off < a.EqualsRange.Start.Byte:
			return "attribute-before-equals"
		case off < a.Expr.Range().Start.Byte:
			return "attribute-after-equals"
		}
		return "expression"
	}
	return "body"
}

// matchTraversal checks, independently of any source range, that the
// significant tokens of a writer traversal spell the given hcl.Traversal:
// root name, ".name", legacy ".N" or "[key]" for every step.
func matchTraversal(ts []cfgcorpus.Tok, tr hcl.Traversal) bool {
	i := 0
	next := func(ty hclsyntax.TokenType) (string, bool) {
		if i < len(ts) && ts[i].Type == ty {
			i++
			return ts[i-1].Bytes, true
		}
		return "", false
	}
	for _, step := range tr {
		switch s := step.(type) {
		case hcl.TraverseRoot:
			if b, ok := next(hclsyntax.TokenIdent); !ok || b != s.Name {
				return false
			}
		case hcl.TraverseAttr:
			if _, ok := next(hclsyntax.TokenDot); !ok {
				return false
			}
			if b, ok := next(hclsyntax.TokenIdent); !ok || b != s.Name {
				return false
			}
		case hcl.TraverseIndex:
			if _, ok := next(hclsyntax.TokenDot); ok {
				if _, ok := next(hclsyntax.TokenNumberLit); !ok {
					return false
				}
				continue
			}
			if _, ok := next(hclsyntax.TokenOBrack); !ok {
				return false
			}
			switch {
			case s.Key.IsNull():
				if b, ok := next(hclsyntax.TokenIdent); !ok || b != "null" {
					return false
				}
			case s.Key.Type() == cty.Bool:
				want := "false"
				if s.Key.True() {
					want = "true"
				}
				if b, ok := next(hclsyntax.TokenIdent); !ok || b != want {
					return false
				}
			case s.Key.Type() == cty.Number:
				if _, ok := next(hclsyntax.TokenNumberLit); !ok {
					return false
				}
			case s.Key.Type() == cty.String:
				if _, ok := next(hclsyntax.TokenOHeredoc); ok {
					// a constant string key may also be written as a heredoc
					for i < len(ts) && ts[i].Type == hclsyntax.TokenStringLit {
						i++
					}
					if _, ok := next(hclsyntax.TokenCHeredoc); !ok {
						return false
					}
					// the newline that ends the heredoc
					next(hclsyntax.TokenNewline)
					break
				}
				if _, ok := next(hclsyntax.TokenOQuote); !ok {
					return false
				}
				for i < len(ts) && ts[i].Type == hclsyntax.TokenQuotedLit {
					i++
				}
				if _, ok := next(hclsyntax.TokenCQuote); !ok {
					return false
				}
			default:
				return false
			}
			if _, ok := next(hclsyntax.TokenCBrack); !ok {
				return false
			}
		default:
			return false
		}
	}
	return i == len(ts)
}

var slugRe = regexp.MustCompile(`[^a-z0-9]+`)

func slug(s string) string {
	s = slugRe.ReplaceAllString(strings.ToLower(s), "-")
	s = strings.Trim(s, "-")
	if len(s) > 60 {
		s = s[:60]
	}
	return s
}

type treeFail struct {
	class, msg string
}

// compareBody walks the writer tree against the reference reading.
func compareBody(path string, wb *hclwrite.Body, nb *hclsyntax.Body, v *srcView, sig *strings.Builder) *treeFail {
	ref := cfgcorpus.Summarise(nb)
	// attributes: names
	wattrs := wb.Attributes()
	var wnames, rnames []string
	for n := range wattrs {
		wnames = append(wnames, n)
	}
	for _, a := range ref.Attrs {
		rnames = append(rnames, a.Name)
	}
	sort.Strings(wnames)
	sort.Strings(rnames)
	if strings.Join(wnames, "\x00") != strings.Join(rnames, "\x00") {
		return &treeFail{"c10.attributes-differ", fmt.Sprintf("%sBody.Attributes() has names %q, the source has %q", path, wnames, rnames)}
	}
	for _, ra := range ref.Attrs {
		wa := wattrs[ra.Name]
		if wa == nil || wa.Expr() == nil {
			return &treeFail{"c10.attribute-nil", fmt.Sprintf("%sattribute %q has no node/expression", path, ra.Name)}
		}
		if got := wb.GetAttribute(ra.Name); got != wa {
			return &treeFail{"c10.get-attribute-differs", fmt.Sprintf("%sGetAttribute(%q) does not return the attribute listed by Attributes()", path, ra.Name)}
		}
		// the expression node holds the tokens of the source expression
		gotE := significant(wa.Expr().BuildTokens(nil))
		wantE := v.within(ra.Expr.Range())
		if !cfgcorpus.SameToks(gotE, wantE) {
			return &treeFail{"c10.expression-tokens-differ", fmt.Sprintf("%sattribute %q: Expr() holds tokens %s, the source expression (range %s) is %s", path, ra.Name, cfgcorpus.TokString(gotE), ra.Expr.Range(), cfgcorpus.TokString(wantE))}
		}
		// variables
		rvars := ra.Expr.Variables()
		wvars := wa.Expr().Variables()
		if len(rvars) != len(wvars) {
			return &treeFail{"c10.variables-count-differs", fmt.Sprintf("%sattribute %q: Expression.Variables() reports %d traversals, hclsyntax reports %d", path, ra.Name, len(wvars), len(rvars))}
		}
		fmt.Fprintf(sig, "%s=", ra.Name)
		// The order in which Variables() lists the traversals is not part of
		// the property ("exposes every variable reference"): compare as
		// multisets, pairing by spelling.
		type ser struct {
			toks []cfgcorpus.Tok
			key  string
			tr   hcl.Traversal
		}
		gotS := make([]ser, len(wvars))
		wantS := make([]ser, len(rvars))
		for i := range wvars {
			t := significant(wvars[i].BuildTokens(nil))
			gotS[i] = ser{toks: t, key: cfgcorpus.TokString(t)}
		}
		for i, rt := range rvars {
			t := v.within(rt.SourceRange())
			wantS[i] = ser{toks: t, key: cfgcorpus.TokString(t), tr: rt}
		}
		sort.SliceStable(gotS, func(i, j int) bool { return gotS[i].key < gotS[j].key })
		sort.SliceStable(wantS, func(i, j int) bool { return wantS[i].key < wantS[j].key })
		for i := range wantS {
			if gotS[i].key != wantS[i].key {
				return &treeFail{"c10.variable-traversal-differs", fmt.Sprintf("%sattribute %q: Variables() exposes %s, which the source does not have; the source has %s", path, ra.Name, gotS[i].key, wantS[i].key)}
			}
			if !matchTraversal(gotS[i].toks, wantS[i].tr) {
				return &treeFail{"c10.variable-traversal-misshapen", fmt.Sprintf("%sattribute %q: a variable is exposed as %s, which does not spell the traversal hclsyntax reports (root %q, %d steps)", path, ra.Name, gotS[i].key, wantS[i].tr.RootName(), len(wantS[i].tr))}
			}
			for _, t := range gotS[i].toks {
				sig.WriteString(t.Bytes)
			}
			sig.WriteByte(',')
			counters.Add("variable_traversals_compared", 1)
		}
		sig.WriteByte(';')
		counters.Add("attributes_compared", 1)
	}
	// blocks: same order, types, labels; recursively
	wblocks := wb.Blocks()
	if len(wblocks) != len(ref.Blocks) {
		return &treeFail{"c10.blocks-count-differs", fmt.Sprintf("%sBody.Blocks() has %d blocks, the source has %d", path, len(wblocks), len(ref.Blocks))}
	}
	for i, rb := range ref.Blocks {
		wbl := wblocks[i]
		if wbl.Type() != rb.Type {
			return &treeFail{"c10.block-type-differs", fmt.Sprintf("%sblock %d: Type() = %q, the source has %q", path, i, wbl.Type(), rb.Type)}
		}
		wl := wbl.Labels()
		if fmt.Sprintf("%q", wl) != fmt.Sprintf("%q", rb.Labels) {
			class := "c10.labels-differ"
			// which label is missing, and how is it written in the source?
			if len(wl) < len(rb.Labels) {
				j := 0
				for j < len(wl) && wl[j] == rb.Labels[j] {
					j++
				}
				if j < len(rb.LabelRanges) {
					lt := v.within(rb.LabelRanges[j])
					if len(lt) > 3 && lt[0].Type == hclsyntax.TokenOQuote {
						class = "c10.label-multi-token-quoted-omitted"
					} else if len(lt) > 0 && lt[0].Type == hclsyntax.TokenOQuote {
						class = "c10.label-quoted-omitted"
					} else {
						class = "c10.label-omitted"
					}
				}
			}
			return &treeFail{class, fmt.Sprintf("%sblock %d (%s): Labels() = %q, the source has %q", path, i, rb.Type, wl, rb.Labels)}
		}
		fmt.Fprintf(sig, "%s%q{", rb.Type, rb.Labels)
		counters.Add("blocks_compared", 1)
		if tf := compareBody(fmt.Sprintf("%s%s[%d].", path, rb.Type, i), wbl.Body(), nb.Blocks[i].Body, v, sig); tf != nil {
			return tf
		}
		sig.WriteByte('}')
	}
	return nil
}

// dumpBody writes everything the writer tree exposes through its public API:
// the body's full token stream (types, bytes, spacing), and for every
// attribute (in name order) its own tokens, its expression's tokens and the
// tokens of every variable traversal; for every block (in order) its type,
// labels, own tokens and, recursively, its body.
func dumpBody(w *strings.Builder, b *hclwrite.Body) {
	dumpToks := func(ts hclwrite.Tokens) {
		for _, t := range ts {
			fmt.Fprintf(w, "%d:%d:%q ", int(t.Type), t.SpacesBefore, t.Bytes)
		}
	}
	w.WriteString("body[")
	dumpToks(b.BuildTokens(nil))
	w.WriteString("]")
	attrs := b.Attributes()
	names := make([]string, 0, len(attrs))
	for n := range attrs {
		names = append(names, n)
	}
	sort.Strings(names)
	for _, n := range names {
		a := attrs[n]
		fmt.Fprintf(w, "attr %q same=%v [", n, b.GetAttribute(n) == a)
		dumpToks(a.BuildTokens(nil))
		w.WriteString("] expr[")
		if e := a.Expr(); e != nil {
			dumpToks(e.BuildTokens(nil))
			for _, tr := range e.Variables() {
				w.WriteString("] var[")
				dumpToks(tr.BuildTokens(nil))
			}
		} else {
			w.WriteString("nil")
		}
		w.WriteString("]")
	}
	for _, bl := range b.Blocks() {
		fmt.Fprintf(w, "block %q %q [", bl.Type(), bl.Labels())
		dumpToks(bl.BuildTokens(nil))
		w.WriteString("]{")
		dumpBody(w, bl.Body())
		w.WriteString("}")
	}
}

func firstDiff(a, b string) int {
	i := 0
	for i < len(a) && i < len(b) && a[i] == b[i] {
		i++
	}
	return i
}

func excerpt(s string, at int) string {
	lo, hi := at-60, at+60
	if lo < 0 {
		lo = 0
	}
	if hi > len(s) {
		hi = len(s)
	}
	return s[lo:hi]
}

// startClass names the aspect of the start position that differs from
// hcl.InitialPos.
func startClass(st Start) string {
	if st.Byte != 0 {
		return "c10.start-pos-nonzero-byte"
	}
	return "c10.start-pos-line-column-only"
}

// judgeStarts: the start position only says where the first byte of src sits
// in a larger document; the writer tree exposes no positions, so a load with
// any start must succeed like the load with hcl.InitialPos (which has already
// passed every clause against the reference reading) and give the same saved
// bytes and the same exposed tree.
func judgeStarts(d Data, src []byte, f0 *hclwrite.File, got0 []byte) *treeFail {
	if len(d.Starts) == 0 {
		return nil
	}
	var ref strings.Builder
	dumpBody(&ref, f0.Body())
	for _, st := range d.Starts {
		var f *hclwrite.File
		var wdiags hcl.Diagnostics
		var panicMsg, stage string
		var dump strings.Builder
		var got []byte
		func() {
			defer func() {
				if r := recover(); r != nil {
					panicMsg = fmt.Sprint(r)
				}
			}()
			stage = "load"
			f, wdiags = hclwrite.ParseConfig(src, "src.hcl", st.pos())
			if wdiags.HasErrors() || f == nil {
				return
			}
			stage = "save"
			got = f.Bytes()
			stage = "tree-walk"
			dumpBody(&dump, f.Body())
		}()
		counters.Add("start_positions_loaded", 1)
		cls := startClass(st)
		switch {
		case panicMsg != "":
			return &treeFail{cls + "." + stage + "-panic", fmt.Sprintf("hclwrite.ParseConfig(src, _, %+v): %s panics: %s (with hcl.InitialPos everything succeeds)", st, stage, panicMsg)}
		case wdiags.HasErrors() || f == nil:
			return &treeFail{cls + ".load-rejects-valid", fmt.Sprintf("hclwrite.ParseConfig(src, _, %+v) fails (file nil=%v): %s (with hcl.InitialPos it succeeds)", st, f == nil, wdiags.Error())}
		case !bytes.Equal(got, got0):
			// which construct: do the saved texts differ in their tokens or only
			// in spacing, and is there any token at all in the source?
			kind := ".saved-tokens-differ"
			ta, _, _ := cfgcorpus.Lex(got)
			tb, _, _ := cfgcorpus.Lex(got0)
			if cfgcorpus.SameToks(ta, tb) {
				kind = ".saved-spacing-differs"
				if len(tb) == 1 { // EOF only
					kind += ".token-free-file"
				}
			}
			return &treeFail{cls + kind, fmt.Sprintf("loaded with start %+v the unmodified tree saves as %q, loaded with hcl.InitialPos as %q", st, got, got0)}
		case dump.String() != ref.String():
			a, b := dump.String(), ref.String()
			at := firstDiff(a, b)
			return &treeFail{cls + ".exposed-tree-differs", fmt.Sprintf("loaded with start %+v the tree exposes different attributes/blocks/labels/traversals/tokens than with hcl.InitialPos; first difference at dump offset %d: %q vs %q", st, at, excerpt(a, at), excerpt(b, at))}
		}
	}
	return nil
}

func judge(c engine.Case) engine.Outcome {
	d := c.Data.(Data)
	src := []byte(d.Src)

	// Domain: configurations that scan and parse without error diagnostics.
	srcToks, srcRanges, lexOK := cfgcorpus.Lex(src)
	srcFile, diags := hclsyntax.ParseConfig(src, "src.hcl", hcl.InitialPos)
	if !lexOK || diags.HasErrors() {
		return engine.Pass("")
	}
	nb := srcFile.Body.(*hclsyntax.Body)
	view := &srcView{src: src, toks: srcToks, ranges: srcRanges}

	// Clause 1: loading succeeds without panicking.
	var f *hclwrite.File
	var wdiags hcl.Diagnostics
	var panicMsg string
	func() {
		defer func() {
			if r := recover(); r != nil {
				panicMsg = fmt.Sprint(r)
			}
		}()
		f, wdiags = hclwrite.ParseConfig(src, "src.hcl", hcl.InitialPos)
	}()
	if panicMsg != "" {
		return engine.Fail("c10.load-panic."+slug(panicMsg), "hclwrite.ParseConfig(%q) panics: %s", src, panicMsg)
	}
	if wdiags.HasErrors() || f == nil {
		return engine.Fail("c10.load-rejects-valid", "hclwrite.ParseConfig(%q) fails (file nil=%v): %s", src, f == nil, wdiags.Error())
	}

	// Clause 2: the unmodified tree serialises to the source's token sequence,
	// and to exactly the formatter's bytes.
	got := f.Bytes()
	// What Bytes returned stays what it was whatever is serialised afterwards
	// (this file again, another file): no storage shared between results.
	saved := string(got)
	otherFile, _ := hclwrite.ParseConfig([]byte("zz = [ 1,2 ]\nyy {\n}\n"), "other.hcl", hcl.InitialPos)
	var otherBytes, again []byte
	if otherFile != nil {
		otherBytes = otherFile.Bytes()
	}
	again = f.Bytes()
	if string(got) != saved || string(again) != saved || (otherFile != nil && string(otherBytes) != "zz = [1, 2]\nyy {\n}\n") ||
		(len(got) > 0 && len(again) > 0 && &got[0] == &again[0]) || (len(got) > 0 && len(otherBytes) > 0 && &got[0] == &otherBytes[0]) {
		return engine.Fail("c10.result-changed-by-later-call", "the bytes returned by File.Bytes() for %q changed after later Bytes calls (on the same file and on another file): first %q, now %q; second call %q; other file %q", src, saved, got, again, otherBytes)
	}
	want := hclwrite.Format(src)
	gotToks, _, _ := cfgcorpus.Lex(got)
	if td := cfgcorpus.DiffToks(srcToks, gotToks); td != nil {
		class := td.Class
		if (td.Kind == "dropped" || td.Kind == "inserted") && strings.HasPrefix(class, "tokens-") && td.At < len(srcRanges) {
			class += ".in-" + slotAt(nb, srcRanges[td.At][0])
		}
		return engine.Fail("c10."+class, "File.Bytes() of the unmodified tree of %q is %q (Format gives %q): %s", src, got, want, td.Msg)
	}
	if !bytes.Equal(got, want) {
		return engine.Fail("c10.bytes-differ-from-format", "File.Bytes() of the unmodified tree of %q is %q but hclwrite.Format gives %q", src, got, want)
	}

	// Clause 3: the tree exposes every attribute, block, label and variable.
	var sig strings.Builder
	var tf *treeFail
	func() {
		defer func() {
			if r := recover(); r != nil {
				tf = &treeFail{"c10.tree-walk-panic." + slug(fmt.Sprint(r)), fmt.Sprintf("walking the tree panics: %v", r)}
			}
		}()
		tf = compareBody("", f.Body(), nb, view, &sig)
	}()
	if tf != nil {
		return engine.Fail(tf.class, "tree of %q: %s", src, tf.msg)
	}
	// Clause 4: none of this depends on the start position given to the loader.
	if tf := judgeStarts(d, src, f, got); tf != nil {
		return engine.Fail(tf.class, "%q: %s", src, tf.msg)
	}
	if !bytes.Equal(src, got) {
		counters.Add("inputs_changed_by_save", 1)
	}
	return engine.Pass(string(got) + "\x00" + sig.String())
}

// shrink proposes smaller configurations: every line removed, every token
// removed, every gap removed or reduced to one space. Candidates outside the
// domain pass trivially in judge and are therefore never adopted.
func shrink(c engine.Case) []engine.Case {
	d := c.Data.(Data)
	var out []engine.Case
	add := func(s string) {
		if s != d.Src {
			out = append(out, engine.Case{ID: "shrunk:" + fmt.Sprintf("%q", s), Data: Data{Src: s, Base: d.Base, Starts: d.Starts}})
		}
	}
	lines := strings.SplitAfter(d.Src, "\n")
	if len(lines) > 1 {
		for i := range lines {
			add(strings.Join(append(append([]string{}, lines[:i]...), lines[i+1:]...), ""))
		}
	}
	_, ranges, ok := cfgcorpus.Lex([]byte(d.Src))
	if ok {
		for i := range ranges {
			if ranges[i][0] == ranges[i][1] {
				continue
			}
			add(d.Src[:ranges[i][0]] + d.Src[ranges[i][1]:])
			if i+1 < len(ranges) && ranges[i+1][0] < ranges[i+1][1] {
				add(d.Src[:ranges[i][0]] + d.Src[ranges[i+1][1]:]) // two adjacent tokens
			}
		}
		prev := 0
		for i := range ranges {
			if gap := d.Src[prev:ranges[i][0]]; gap != "" {
				add(d.Src[:prev] + d.Src[ranges[i][0]:])
				if gap != " " {
					add(d.Src[:prev] + " " + d.Src[ranges[i][0]:])
				}
			}
			prev = ranges[i][1]
		}
	}
	return out
}

func main() {
	if bad := cfgcorpus.Validate(); len(bad) > 0 {
		fmt.Fprintf(os.Stderr, "corpus bases that do not parse (harness error): %v\n", bad)
		os.Exit(2)
	}
	engine.Main(&engine.Check{
		ID:        "C10",
		Title:     "Loading a file into the writer AST and saving it loses nothing",
		Technique: "bounded exhaustive enumeration of layouts of a token-adjacency corpus; invariant (token sequence of the saved tree, equality with the formatter, tree vs hclsyntax reading) on the real loader",
		Rule: "corpus verif/gen/cfgcorpus (shared with C09): (a) " + fmt.Sprint(len(cfgcorpus.PairBases())) + " hand-written valid configurations covering every token adjacency of the native syntax, (b) the product of " +
			fmt.Sprint(len(cfgcorpus.Shapes())) + " expression shapes (every traversal shape) x " + fmt.Sprint(len(cfgcorpus.Positions())) + " positions x 4 comment decorations (parser-rejected combinations dropped); " +
			"every base also with CRLF line endings. Layout deviations: each gap between adjacent tokens is replaced by each of {none, space, two spaces, tab, newline, /*c*/, #c<nl>, //c<nl>}, " +
			"keeping the variants that still parse without errors and scan to the base's tokens plus the inserted newline/comment tokens. " +
			"quick: " + cfgcorpus.PlanFor("quick").String() + ". thorough: " + cfgcorpus.PlanFor("thorough").String() + ". " +
			startsRule +
			"Non-trivial = the input is an error-free configuration; distinct = distinct (saved text, attribute/block/label/variable listing).",
		Assumptions: []string{
			"hclsyntax.LexConfig and hclsyntax.ParseConfig define the input domain and the reference reading (attribute names, block types, labels, variable traversals and their source ranges)",
			"hclwrite.Format is the byte-level reference for File.Bytes(), as the property states; its own token fidelity is C09's subject",
		},
		Gen:    gen,
		Judge:  judge,
		Load:   engine.LoadAs[Data],
		Shrink: shrink,
		Extra: func() map[string]any {
			m := map[string]any{}
			for k, v := range counters.Snapshot() {
				m[k] = v
			}
			ty, pr, tr := cfgcorpus.AdjacencyCoverage()
			m["base_token_types"], m["base_adjacent_type_pairs"], m["base_adjacent_type_triples"] = ty, pr, tr
			return m
		},
		QuickBudget:    4 * 60e9,
		ThoroughBudget: 40 * 60e9,
	})
}
