// C02 — Native-syntax structure parses to exactly the written attributes and
// blocks.
//
// Bounded exhaustive exploration: abstract body trees (verif/gen/bodytree),
// each rendered canonically and in every layout with <= k deviations
// (indentation with spaces, tabs and mixes, blank lines, trailing blanks, every
// comment form in every legal slot, spacing of header/one-line gaps, blanks
// around the lines of heredoc values, CRLF, missing final newline, BOM), are
// parsed by
// the real hclsyntax.ParseConfig / hclparse.Parser.ParseHCL and the result is
// compared with the tree through three views: the hclsyntax.Body fields,
// hcl.Body.Content with a schema derived from the tree, and JustAttributes.
// Trees that define an attribute twice in one body must be rejected in every
// rendering.
package main

import (
	"fmt"
	"runtime/debug"
	"sort"
	"strings"
	"time"

	"github.com/hashicorp/hcl/v2"
	"github.com/hashicorp/hcl/v2/hclparse"
	"github.com/hashicorp/hcl/v2/hclsyntax"
	"github.com/zclconf/go-cty/cty"

	"verif/engine"
	bt "verif/gen/bodytree"
	"verif/vfmt"
)

type Data struct {
	Family   string  `json:"family"`
	Tree     bt.Tree `json:"tree"`
	K        int     `json:"k"`        // layout deviation bound
	Alphabet string  `json:"alphabet"` // comment/spacing alphabet: basic | extended
	Canon    string  `json:"canon"`    // informational: canonical rendering
	// Size (family F7): the tree is described by a size spec and rebuilt in the
	// judge; it is rendered in the file-wide layout variants only (Tree, K and
	// Alphabet are not used).
	Size *SizeSpec `json:"size,omitempty"`
}

var counters, famCount engine.Counter

// ---- expected attribute values --------------------------------------------

func num(n int64) cty.Value { return cty.NumberIntVal(n) }

// wantVals: the values the specification admits for a value kind. Under CRLF
// the line break inside a heredoc body may or may not keep its CR (spec
// silent: "Newline sequences (either U+000A or U+000D followed by U+000A)").
func wantVals(kind string, crlf bool) []cty.Value {
	switch kind {
	case "num":
		return []cty.Value{num(1)}
	case "str":
		return []cty.Value{cty.StringVal("s")}
	case "esc":
		s, ok := bt.Unescape(bt.EscSrc)
		if !ok {
			panic("EscSrc is not a StringLit")
		}
		return []cty.Value{cty.StringVal(s)}
	case "heredoc", "fheredoc":
		if crlf {
			return []cty.Value{cty.StringVal("x\n"), cty.StringVal("x\r\n")}
		}
		return []cty.Value{cty.StringVal("x\n")}
	case "tuple":
		return []cty.Value{cty.TupleVal([]cty.Value{num(1), num(2)})}
	case "object":
		return []cty.Value{cty.ObjectVal(map[string]cty.Value{"k": num(1)})}
	case "paren":
		return []cty.Value{num(3)}
	}
	panic("unknown value kind " + kind)
}

type mismatch struct {
	clause string // which clause of the oracle failed, on which construct
	detail string
}

func mm(clause, format string, a ...any) *mismatch {
	return &mismatch{clause: clause, detail: fmt.Sprintf(format, a...)}
}

// layout: the properties of a rendering the expected values depend on.
type layout struct {
	crlf bool
	// flushTab: a `<<-` body line is indented with blanks that include a tab.
	// hclsyntax/spec.md removes "the minimum number of leading spaces"; whether
	// a horizontal tab counts as one is not stated, so any amount of the
	// indentation may remain in the value (the content after it is demanded).
	flushTab bool
}

func checkValue(view, path string, it bt.Item, expr hcl.Expression, lay layout) *mismatch {
	crlf := lay.crlf
	if expr == nil {
		return mm(view+".attr-nil-expr", "%s: attribute %q has a nil expression", path, it.Name)
	}
	v, diags := expr.Value(nil)
	if diags.HasErrors() {
		return mm(view+".attr-value-error."+it.Val, "%s: attribute %q (%s value) does not evaluate: %s", path, it.Name, it.Val, diags.Error())
	}
	for _, w := range wantVals(it.Val, crlf) {
		if v.RawEquals(w) {
			return nil
		}
		if it.Val == "fheredoc" && lay.flushTab && v.Type() == cty.String && v.IsKnown() && !v.IsNull() && !v.IsMarked() &&
			strings.TrimLeft(v.AsString(), " \t") == w.AsString() {
			return nil
		}
	}
	return mm(view+".attr-value."+it.Val, "%s: attribute %q (%s value) = %s, want %s", path, it.Name, it.Val, vfmt.V(v), vfmt.V(wantVals(it.Val, crlf)[0]))
}

func slug(s string) string {
	var sb strings.Builder
	for _, c := range s {
		switch {
		case c >= 'a' && c <= 'z', c >= 'A' && c <= 'Z', c >= '0' && c <= '9', c == '-':
			sb.WriteRune(c)
		case c == '\\':
			sb.WriteString("_bs")
		case c == '"':
			sb.WriteString("_dq")
		case c == '$':
			sb.WriteString("_dollar")
		case c == '%':
			sb.WriteString("_pct")
		case c == '{':
			sb.WriteString("_lb")
		case c == '}':
			sb.WriteString("_rb")
		case c == ' ':
			sb.WriteString("_sp")
		default:
			fmt.Fprintf(&sb, "_u%04x", c)
		}
	}
	return sb.String()
}

func labelName(l bt.Label) string {
	if l.Quoted {
		return "quoted(" + slug(l.Text) + ")"
	}
	return "bare(" + slug(l.Text) + ")"
}

func splitItems(items []bt.Item) (attrs, blocks []bt.Item) {
	for _, it := range items {
		if it.Kind == "attr" {
			attrs = append(attrs, it)
		} else {
			blocks = append(blocks, it)
		}
	}
	return
}

func sortedKeys[V any](m map[string]V) []string {
	ks := make([]string, 0, len(m))
	for k := range m {
		ks = append(ks, k)
	}
	sort.Strings(ks)
	return ks
}

func wantNames(attrs []bt.Item) []string {
	var ns []string
	for _, a := range attrs {
		ns = append(ns, a.Name)
	}
	sort.Strings(ns)
	return ns
}

func blockKey(typ string, labels []string) string { return fmt.Sprintf("%s%q", typ, labels) }

func wantLabels(it bt.Item) []string {
	out := []string{}
	for _, l := range it.Labels {
		out = append(out, l.Want())
	}
	return out
}

// compareHeaders compares the sequence of block headers (type + labels) of a
// body with the tree, naming the clause that fails.
func compareHeaders(view, path string, want []bt.Item, n int, typ func(i int) string, labels func(i int) []string) *mismatch {
	if n != len(want) {
		return mm(view+".block-count", "%s: %d blocks, want %d", path, n, len(want))
	}
	var gotKeys, wantKeys []string
	for i := range want {
		gotKeys = append(gotKeys, blockKey(typ(i), labels(i)))
		wantKeys = append(wantKeys, blockKey(want[i].Name, wantLabels(want[i])))
	}
	if strings.Join(gotKeys, "\x00") == strings.Join(wantKeys, "\x00") {
		return nil
	}
	gs, ws := append([]string(nil), gotKeys...), append([]string(nil), wantKeys...)
	sort.Strings(gs)
	sort.Strings(ws)
	if strings.Join(gs, "\x00") == strings.Join(ws, "\x00") {
		return mm(view+".block-order", "%s: blocks in order %v, written as %v", path, gotKeys, wantKeys)
	}
	for i, w := range want {
		if typ(i) != w.Name {
			return mm(view+".block-type", "%s: block %d has type %q, want %q", path, i, typ(i), w.Name)
		}
		gl, wl := labels(i), wantLabels(w)
		if len(gl) != len(wl) {
			return mm(view+".label-count", "%s: block %d (%s) has labels %q, want %q", path, i, w.Name, gl, wl)
		}
		for j := range wl {
			if gl[j] != wl[j] {
				return mm(view+".label-text."+labelName(w.Labels[j]), "%s: block %d (%s) label %d written as %s is reported as %q, want %q", path, i, w.Name, j, w.Labels[j].Src(), gl[j], wl[j])
			}
		}
	}
	return mm(view+".block-headers", "%s: block headers %v, want %v", path, gotKeys, wantKeys)
}

// view 1: the hclsyntax.Body fields
func compareFields(view, path string, got *hclsyntax.Body, want []bt.Item, lay layout) *mismatch {
	if got == nil {
		return mm(view+".nil-body", "%s: nil body", path)
	}
	attrs, blocks := splitItems(want)
	gn, wn := sortedKeys(got.Attributes), wantNames(attrs)
	if strings.Join(gn, "\x00") != strings.Join(wn, "\x00") {
		return mm(view+".attr-set", "%s: attributes %q, want %q", path, gn, wn)
	}
	for _, a := range attrs {
		ga := got.Attributes[a.Name]
		if ga == nil || ga.Name != a.Name {
			return mm(view+".attr-name-field", "%s: Attributes[%q] is nil or carries another name", path, a.Name)
		}
		if m := checkValue(view, path, a, ga.Expr, lay); m != nil {
			return m
		}
	}
	if m := compareHeaders(view, path, blocks, len(got.Blocks),
		func(i int) string { return got.Blocks[i].Type },
		func(i int) []string { return got.Blocks[i].Labels }); m != nil {
		return m
	}
	for i, b := range blocks {
		gb := got.Blocks[i]
		if len(gb.LabelRanges) != len(gb.Labels) {
			return mm(view+".label-ranges-count", "%s: block %d has %d labels but %d label ranges", path, i, len(gb.Labels), len(gb.LabelRanges))
		}
		if m := compareFields(view, fmt.Sprintf("%s/%s[%d]", path, b.Name, i), gb.Body, b.Body, lay); m != nil {
			return m
		}
	}
	return nil
}

// schemaFor derives the body schema the tree implies; ok=false when two
// blocks of one type have different label counts (no schema describes that).
func schemaFor(items []bt.Item) (*hcl.BodySchema, bool) {
	s := &hcl.BodySchema{}
	counts := map[string]int{}
	for _, it := range items {
		if it.Kind == "attr" {
			s.Attributes = append(s.Attributes, hcl.AttributeSchema{Name: it.Name})
			continue
		}
		if n, seen := counts[it.Name]; seen {
			if n != len(it.Labels) {
				return nil, false
			}
			continue
		}
		counts[it.Name] = len(it.Labels)
		names := []string{}
		for i := range it.Labels {
			names = append(names, fmt.Sprintf("l%d", i))
		}
		s.Blocks = append(s.Blocks, hcl.BlockHeaderSchema{Type: it.Name, LabelNames: names})
	}
	return s, true
}

// views 2 and 3: hcl.Body.Content with the derived schema, JustAttributes on
// attribute-only bodies
func compareContent(path string, got hcl.Body, want []bt.Item, lay layout, local map[string]int64) *mismatch {
	if got == nil {
		return mm("content.nil-body", "%s: nil body", path)
	}
	attrs, blocks := splitItems(want)
	if len(blocks) == 0 {
		ja, diags := got.JustAttributes()
		if diags.HasErrors() {
			return mm("justattrs.diagnostics", "%s: JustAttributes on an attribute-only body reports %s", path, diags.Error())
		}
		gn, wn := sortedKeys(ja), wantNames(attrs)
		if strings.Join(gn, "\x00") != strings.Join(wn, "\x00") {
			return mm("justattrs.attr-set", "%s: JustAttributes gives %q, want %q", path, gn, wn)
		}
		for _, a := range attrs {
			if ja[a.Name] == nil || ja[a.Name].Name != a.Name {
				return mm("justattrs.attr-name-field", "%s: JustAttributes()[%q] is nil or carries another name", path, a.Name)
			}
			if m := checkValue("justattrs", path, a, ja[a.Name].Expr, lay); m != nil {
				return m
			}
		}
		local["view_justattributes_bodies"]++
	}
	schema, ok := schemaFor(want)
	if !ok {
		local["view_content_skipped_no_schema"]++
		return nil
	}
	content, diags := got.Content(schema)
	if diags.HasErrors() {
		return mm("content.diagnostics", "%s: Content with the schema derived from the tree reports %s", path, diags.Error())
	}
	local["view_content_bodies"]++
	gn, wn := sortedKeys(content.Attributes), wantNames(attrs)
	if strings.Join(gn, "\x00") != strings.Join(wn, "\x00") {
		return mm("content.attr-set", "%s: Content gives attributes %q, want %q", path, gn, wn)
	}
	for _, a := range attrs {
		if content.Attributes[a.Name].Name != a.Name {
			return mm("content.attr-name-field", "%s: Content attribute %q carries another name", path, a.Name)
		}
		if m := checkValue("content", path, a, content.Attributes[a.Name].Expr, lay); m != nil {
			return m
		}
	}
	if m := compareHeaders("content", path, blocks, len(content.Blocks),
		func(i int) string { return content.Blocks[i].Type },
		func(i int) []string { return content.Blocks[i].Labels }); m != nil {
		return m
	}
	for i, b := range blocks {
		if m := compareContent(fmt.Sprintf("%s/%s[%d]", path, b.Name, i), content.Blocks[i].Body, b.Body, lay, local); m != nil {
			return m
		}
	}
	return nil
}

func repoFrames() string {
	var keep []string
	for _, l := range strings.Split(string(debug.Stack()), "\n") {
		if strings.Contains(l, "hashicorp/hcl") || strings.Contains(l, "/hclsyntax/") || strings.Contains(l, "/hclparse/") {
			keep = append(keep, strings.TrimSpace(l))
			if len(keep) >= 10 {
				break
			}
		}
	}
	return strings.Join(keep, "\n")
}

// checkRendering applies the oracle to one source text.
// tag: a prefix of the failure class naming the construct under test, for the
// families whose trees are not small enough to speak for themselves ("" else).
func checkRendering(tree bt.Tree, tag string, dupWhere string, isDup bool, r bt.Rendering, local map[string]int64) (out *engine.Outcome) {
	dc := r.Class()
	fail := func(clause, format string, a ...any) *engine.Outcome {
		o := engine.Fail("c02."+tag+clause+"@"+dc, "%s\n  layout: %s\n  source: %s", clip(fmt.Sprintf(format, a...), 1500), dc, clipQ(r.Src))
		return &o
	}
	defer func() {
		if p := recover(); p != nil {
			out = fail("panic", "panic: %v\n%s", p, repoFrames())
		}
	}()
	src := []byte(r.Src)
	f, diags := hclsyntax.ParseConfig(src, "t.hcl", hcl.InitialPos)
	f2, diags2 := hclparse.NewParser().ParseHCL(src, "t.hcl")
	if diags.HasErrors() != diags2.HasErrors() {
		return fail("hclparse.acceptance-differs", "ParseConfig errors=%v but hclparse.ParseHCL errors=%v", diags.HasErrors(), diags2.HasErrors())
	}
	if isDup {
		// with or without a BOM: rejection is demanded either way
		if !diags.HasErrors() {
			return fail("duplicate-attribute-accepted."+dupWhere, "a body (%s) defines an attribute twice but parsing reports no error", dupWhere)
		}
		local["duplicate_renderings_rejected"]++
		return nil
	}
	if r.BOM() && diags.HasErrors() {
		// Unspecified (DESIGN 3.2): the spec says a BOM is "not permitted", the
		// implementation strips it. Rejecting is fine too.
		local["bom_rejected"]++
		return nil
	}
	if diags.HasErrors() {
		return fail("rejected", "a text that follows the structural grammar is rejected: %s", diags.Error())
	}
	if f == nil || f.Body == nil || f2 == nil || f2.Body == nil {
		return fail("nil-file", "nil file or body without error diagnostics")
	}
	pre := ""
	if r.BOM() {
		local["bom_accepted"]++
		pre = "bom-accepted."
	}
	body, ok := f.Body.(*hclsyntax.Body)
	if !ok {
		return fail("body-type", "File.Body is %T, not *hclsyntax.Body", f.Body)
	}
	lay := layout{crlf: r.CRLF(), flushTab: r.FlushTab}
	if r.FlushTab {
		local["renderings_flush_heredoc_tab_indented"]++
	}
	if m := compareFields("fields", "top", body, tree.Items, lay); m != nil {
		return fail(pre+m.clause, "hclsyntax.Body differs from what was written: %s", m.detail)
	}
	if m := compareContent("top", f.Body, tree.Items, lay, local); m != nil {
		return fail(pre+m.clause, "schema-driven view differs from what was written: %s", m.detail)
	}
	body2, ok := f2.Body.(*hclsyntax.Body)
	if !ok {
		return fail("hclparse.body-type", "hclparse File.Body is %T", f2.Body)
	}
	if m := compareFields("hclparse", "top", body2, tree.Items, lay); m != nil {
		return fail(pre+m.clause, "hclparse.ParseHCL result differs from what was written: %s", m.detail)
	}
	return nil
}

// clip shortens a long text (the sources of the size family reach megabytes).
func clip(s string, n int) string {
	if len(s) <= n {
		return s
	}
	return fmt.Sprintf("%s ...[%d bytes omitted]... %s", s[:n/2], len(s)-n/2*2, s[len(s)-n/2:])
}

func clipQ(src string) string {
	if len(src) <= 1200 {
		return fmt.Sprintf("%q", src)
	}
	return fmt.Sprintf("%q ...[%d bytes omitted]... %q", src[:600], len(src)-1200, src[len(src)-600:])
}

// judgeSize: family F7. Same oracle, the file-wide layout variants only.
func judgeSize(d Data) engine.Outcome {
	tree, ok := buildSize(*d.Size)
	if !ok {
		return engine.Skip() // not a spec of the enumerated space (hand-edited replay)
	}
	if _, isDup := tree.DupWhere(); isDup {
		return engine.Skip()
	}
	local := map[string]int64{}
	var failed *engine.Outcome
	n := int64(0)
	bt.ForEachGlobal(tree, &bt.Basic, d.Size.Layouts == "full", func(r bt.Rendering) bool {
		n++
		local["size_renderings_bytes"] += int64(len(r.Src))
		for _, kd := range r.Kinds() {
			local["renderings_with:"+kd]++
		}
		if o := checkRendering(tree, d.Size.tag(), "", false, r, local); o != nil {
			failed = o
			return false
		}
		return true
	})
	local["renderings"] += n
	local["size_renderings"] += n
	local["size_items_judged"] += int64(bt.Size(tree.Items))
	for k, v := range local {
		counters.Add(k, v)
	}
	counters.Add("size_cases_"+d.Size.Kind, 1)
	if failed != nil {
		return *failed
	}
	return engine.Pass("size:" + d.Size.String())
}

func judge(c engine.Case) engine.Outcome {
	d := c.Data.(Data)
	if d.Size != nil {
		return judgeSize(d)
	}
	if !d.Tree.Valid() {
		return engine.Skip() // not a tree of the enumerated space (only reachable through a hand-edited replay)
	}
	k := d.K
	if k < 1 {
		k = 1
	}
	where, isDup := d.Tree.DupWhere()
	local := map[string]int64{}
	var failed *engine.Outcome
	n := int64(0)
	bt.ForEach(d.Tree, k, bt.AlphabetByName(d.Alphabet), func(r bt.Rendering) bool {
		n++
		for _, kd := range r.Kinds() {
			local["renderings_with:"+kd]++
		}
		if o := checkRendering(d.Tree, "", where, isDup, r, local); o != nil {
			failed = o
			return false
		}
		return true
	})
	local["renderings"] += n
	for k, v := range local {
		counters.Add(k, v)
	}
	if failed != nil {
		return *failed
	}
	if isDup {
		return engine.Pass("dup(" + where + "):" + bt.Dump(d.Tree))
	}
	return engine.Pass(bt.Dump(d.Tree))
}

// shrink: drop one item anywhere, drop one label, simplify one value.
func shrink(c engine.Case) []engine.Case {
	d := c.Data.(Data)
	if d.Size != nil {
		return sizeShrink(c, d)
	}
	var out []engine.Case
	add := func(items []bt.Item) {
		t := bt.Tree{Items: items}
		if t.Items == nil {
			t.Items = []bt.Item{}
		}
		if !t.Valid() {
			return
		}
		out = append(out, engine.Case{ID: c.ID + "~", Data: Data{Family: d.Family, Tree: t, K: d.K, Alphabet: d.Alphabet, Canon: bt.Canon(t)}})
	}
	// enumerate positions on the original, apply each edit on a clone addressed by index path
	var paths [][]int
	var collect func(items []bt.Item, prefix []int)
	collect = func(items []bt.Item, prefix []int) {
		for i, it := range items {
			p := append(append([]int(nil), prefix...), i)
			paths = append(paths, p)
			collect(it.Body, p)
		}
	}
	collect(d.Tree.Items, nil)
	at := func(root *[]bt.Item, p []int) (*[]bt.Item, int) {
		body := root
		for _, i := range p[:len(p)-1] {
			body = &(*body)[i].Body
		}
		return body, p[len(p)-1]
	}
	for _, p := range paths {
		// remove the item
		root := bt.CloneItems(d.Tree.Items)
		body, i := at(&root, p)
		*body = append((*body)[:i:i], (*body)[i+1:]...)
		add(root)
		// hoist a block's body in place of the block
		root = bt.CloneItems(d.Tree.Items)
		body, i = at(&root, p)
		it := (*body)[i]
		if it.Kind == "block" && len(it.Body) > 0 && len(p) == 1 {
			add(bt.CloneItems(it.Body))
		}
		if it.Kind == "block" {
			for j := range it.Labels {
				root = bt.CloneItems(d.Tree.Items)
				body, i = at(&root, p)
				ls := (*body)[i].Labels
				(*body)[i].Labels = append(ls[:j:j], ls[j+1:]...)
				add(root)
			}
			if it.Form == bt.ML || it.Form == bt.OL1 {
				root = bt.CloneItems(d.Tree.Items)
				body, i = at(&root, p)
				(*body)[i].Form, (*body)[i].Body = bt.EOL, nil
				add(root)
			}
		}
		if it.Kind == "attr" && it.Val != "num" {
			root = bt.CloneItems(d.Tree.Items)
			body, i = at(&root, p)
			(*body)[i].Val = "num"
			add(root)
		}
	}
	return out
}

func main() {
	debug.SetGCPercent(400) // many short-lived strings per case; fewer collections
	engine.Main(&engine.Check{
		ID:        "C02",
		Title:     "Native-syntax structure parses to exactly the written attributes and blocks",
		Technique: "bounded exhaustive enumeration of abstract body trees x layout renderings on the real parser, compared with the tree itself (reference unescaper for labels) through three views",
		Rule: "Trees: F0 empty file; F1 attribute-only bodies (all 6 names x 8 value kinds; all ordered name pairs/triples; all value-kind pairs/triples(/quadruples thorough); every one-line block name x value; 9 keyword-like/odd identifiers as attribute name, block type and bare label), at top level and inside a block; " +
			"F2 one block in each of the 4 forms (multi-line, empty multi-line, empty one-line, single-attribute one-line) x every label sequence of length <= 2 (quick) / 3 (thorough) over a 24-label alphabet (bare identifiers, every escape, escaped template introducers, lone $ and %, comment-looking text, empty), also nested; " +
			"F3 every sequence of <= 3 (top level) / <= 2 (inside a block) items (thorough 4/3) over 14 representative items (8 value kinds, 6 block shapes incl. same-type blocks and a block ending in a heredoc); " +
			"F4 every tree shape with <= 5 items in total (thorough 6), <= 3 per body (4), nesting depth <= 2 (3); F5 small trees with an extended alphabet of 14 comment texts that look like other syntax plus extra spacing variants; " +
			"F6 every such body with one attribute name defined twice (top level, nested one and two levels, next to a single definition in the parent). " +
			"F7 size: N sibling items of one shape (20 shapes: an attribute of each of the 8 value kinds; a block in each of the 4 forms with 0, 1 or 2 labels) for N in {1..16} u {2^k-1, 2^k, 2^k+1 : k = 5..10} at top level (inside a block: k <= 8; thorough k <= 12 both), and the same N siblings followed by one more item of another shape (attribute, empty one-line block, one-line block with an argument, multi-line block; thorough also empty multi-line and two-label multi-line block, also inside a block) for k <= 8 (thorough 12); chains of D nested blocks, D in {1..16} u {31..33, 63..65, 127..129, 255..257} (thorough also 511..513, 1023..1025), innermost block in each of the 4 forms x 0/1/2 labels, enclosing bodies holding the nested block only or attribute + nested block + one-line block + attribute; F7 trees are rendered canonically and in the file-wide layouts only (CRLF, no final newline, tab-indented CRLF; thorough also CRLF without final newline, no indentation, tab indentation). " +
			"Renderings of each tree: canonical + every single deviation (quick; thorough adds every pair for the quick space): indentation none/tab/space-tab/tab-space (each also with CRLF); blank line, tab-only line or own-line comment before every item, before every closing brace and at end of file; inline comment before the first token of a line; trailing comment or trailing blanks (space, tab; also with CRLF) after every item, after every opening and closing brace; the lines of every heredoc value, `<<X` and `<<-X`: blanks (none, space, tab, space-tab, tab-space, the indentation of the attribute, one level deeper) before the closing marker, blanks after it, the same before the body line of `<<-X`, each in LF, CRLF, tab-indented LF and tab-indented CRLF files; no space/tab/inline comment in every gap of a block header, around '=', and inside one-line blocks; comments inside multi-line values; CRLF everywhere; missing final newline (also combined with a comment on the last line); every line-comment/blank-line/multi-line-comment deviation also in a CRLF file; BOM (unspecified: accepted or rejected, but the same tree if accepted). " +
			"Non-trivial = every rendering of the tree judged; distinct = distinct trees (canonical dump).",
		Assumptions: []string{
			"go-cty value equality is trusted; attribute values are fixed constants whose expected value is written down by hand",
			"the label reference unescaper (verif/gen/bodytree.Unescape) is the specification's escape table; it does not call the code under test",
			"spec-silent: BOM acceptance; whether a heredoc body line break keeps its CR in a CRLF file (either value accepted); how much of a tab-containing indentation the `<<-` flush rule removes (only the content after the indentation is demanded)",
			"the closing marker of a heredoc (`<<X` and `<<-X`) 'on a line of its own' may have whitespace (spaces, horizontal tabs: hclsyntax/spec.md 'Comments and Whitespace') before and after it on that line",
		},
		Gen:    genAll,
		Judge:  judge,
		Load:   engine.LoadAs[Data],
		Shrink: shrink,
		Extra: func() map[string]any {
			m := map[string]any{}
			by := map[string]int64{}
			for k, v := range counters.Snapshot() {
				if strings.HasPrefix(k, "renderings_with:") {
					by[strings.TrimPrefix(k, "renderings_with:")] = v
				} else {
					m[k] = v
				}
			}
			m["renderings_by_deviation_kind"] = by
			m["trees_by_family"] = famCount.Snapshot()
			return m
		},
		QuickBudget:    5 * time.Minute,
		ThoroughBudget: 50 * time.Minute, // ~92 M renderings since the heredoc-line / trailing-blank slots were added (was 65 M, 24 min)
	})
}
