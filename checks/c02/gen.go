package main

import (
	"fmt"

	"verif/engine"
	bt "verif/gen/bodytree"
)

// ---- alphabets -----------------------------------------------------------

var attrNames = []string{"a", "b", "foo-bar", "é", "for", "if"}

// extraIdents: "There are no globally-reserved words" (hclsyntax/spec.md
// "Keywords"); Identifier = ID_Start (ID_Continue | '-')*.
var extraIdents = []string{"null", "true", "in", "else", "endif", "a-", "a1", "A", "ünï"}

var blockTypes = []string{"b", "other", "foo-bar"}

// labelAlphabet: a bare identifier per identifier shape, and quoted labels
// covering every escape sequence of hclsyntax/spec.md and every text that
// looks like a template sequence or a comment without being one.
var labelAlphabet = []bt.Label{
	bt.Bare("lbl"),
	bt.Quoted("a b"),
	bt.Quoted(`x\"y`),
	bt.Quoted(`\\`),
	bt.Quoted(`\n`),
	bt.Quoted("é"),
	bt.Quoted(`\U0001F600`),
	bt.Quoted("\U0001F600"),
	bt.Quoted("$${a}"),
	bt.Quoted("%%{"),
	bt.Quoted("$"),
	bt.Quoted("a$b"),
	bt.Quoted("100%"),
	bt.Quoted(""),
	// beyond the minimum:
	bt.Bare("foo-bar"),
	bt.Bare("é"),
	bt.Bare("for"),
	bt.Quoted(`\t\r`),
	bt.Quoted(`\u00e9`),
	bt.Quoted("$$"),
	bt.Quoted("%%"),
	bt.Quoted("a$${b%%{c"),
	bt.Quoted("# /* //"),
	bt.Quoted("{"),
}

// typeFor keeps the label count per block type constant inside every tree the
// generator builds (so that a hcl.BodySchema exists for each body).
func typeFor(nlabels int) string { return blockTypes[nlabels%len(blockTypes)] }

func blk(labels []bt.Label, form string, body ...bt.Item) bt.Item {
	return bt.B(typeFor(len(labels)), labels, form, body...)
}

// withForm gives a block of the requested form a minimal body.
func withForm(typ string, labels []bt.Label, form string) bt.Item {
	switch form {
	case bt.ML, bt.OL1:
		return bt.B(typ, labels, form, bt.A("a", "num"))
	}
	return bt.B(typ, labels, form)
}

var forms = []string{bt.EOL, bt.EML, bt.OL1, bt.ML}

// ---- emission ------------------------------------------------------------

type emitter struct {
	emit   func(engine.Case) bool
	family string
	n      int
	k      int
	alpha  string
	stop   bool
}

func (e *emitter) begin(family string, k int, alpha string) {
	e.family, e.n, e.k, e.alpha = family, 0, k, alpha
}

func (e *emitter) tree(items ...bt.Item) bool {
	if e.stop {
		return false
	}
	t := bt.Tree{Items: items}
	if t.Items == nil {
		t.Items = []bt.Item{}
	}
	if !t.Valid() {
		panic("generator built an invalid tree: " + bt.Dump(t))
	}
	id := fmt.Sprintf("%s/k%d/%06d", e.family, e.k, e.n)
	e.n++
	famCount.Add(e.family, 1)
	if !e.emit(engine.Case{ID: id, Data: Data{Family: e.family, Tree: t, K: e.k, Alphabet: e.alpha, Canon: bt.Canon(t)}}) {
		e.stop = true
		return false
	}
	return true
}

// inContexts emits the body at top level and (when nested) as the body of a
// multi-line block with one label.
func (e *emitter) inContexts(nested bool, items ...bt.Item) bool {
	if !e.tree(items...) {
		return false
	}
	if nested && len(items) > 0 {
		return e.tree(blk([]bt.Label{bt.Bare("lbl")}, bt.ML, bt.CloneItems(items)...))
	}
	return true
}

// ---- families ------------------------------------------------------------

type bounds struct {
	seqLen       int // F3: item sequences up to this length at top level
	seqLenNested int // F3: ... inside a block
	labelLen     int // F2: label sequences up to this length over the full alphabet
	shapeItems   int // F4: total items
	shapePerBody int // F4: items per body
	shapeDepth   int // F4: block nesting depth
	attrLen      int // F1: attribute-only bodies up to this many attributes
}

var quickBounds = bounds{seqLen: 3, seqLenNested: 2, labelLen: 2, shapeItems: 5, shapePerBody: 3, shapeDepth: 2, attrLen: 3}
var thoroughBounds = bounds{seqLen: 4, seqLenNested: 3, labelLen: 3, shapeItems: 6, shapePerBody: 4, shapeDepth: 3, attrLen: 4}

// itemAlphabet: representative items for F3. Two items share the block type
// "other" (one label each) so that same-type blocks are told apart only by
// label and body.
func itemAlphabet(name string) []bt.Item {
	var out []bt.Item
	for _, v := range bt.ValKinds {
		out = append(out, bt.A(name, v))
	}
	out = append(out,
		blk(nil, bt.EOL),
		blk([]bt.Label{bt.Bare("lbl")}, bt.EML),
		blk([]bt.Label{bt.Quoted("a b")}, bt.OL1, bt.A("a", "str")),
		blk([]bt.Label{bt.Quoted("x"), bt.Bare("y")}, bt.ML, bt.A("a", "num")),
		blk(nil, bt.ML, bt.A("a", "heredoc")),
		blk(nil, bt.ML, bt.A("b", "num"), blk([]bt.Label{bt.Quoted("$${a}")}, bt.EOL)),
	)
	return out
}

var seqNames = []string{"a", "for", "é", "foo-bar", "b", "if"}

func genAll(tier string, emit func(engine.Case) bool) {
	e := &emitter{emit: emit}
	b := quickBounds
	if tier == "thorough" {
		b = thoroughBounds
	}
	sb := quickSize
	if tier == "thorough" {
		sb = thoroughSize
	}
	pass(e, b, 1, &sb)
	if tier == "thorough" && !e.stop {
		// second pass: the quick space again with every pair of deviations
		pass(e, quickBounds, 2, nil)
	}
}

func pass(e *emitter, b bounds, k int, sb *sizeBounds) {
	// F0: the empty file
	e.begin("F0-empty", k, "extended")
	e.tree()

	// F5 first (small trees, extended comment alphabet): comments that look like other syntax
	e.begin("F5-comments", k, "extended")
	for _, v := range bt.ValKinds {
		e.tree(bt.A("a", v))
	}
	for _, f := range forms {
		e.tree(withForm("other", []bt.Label{bt.Quoted("a b")}, f))
		e.tree(withForm("foo-bar", []bt.Label{bt.Bare("x"), bt.Bare("y")}, f))
	}
	e.tree(bt.A("a", "num"), blk(nil, bt.EOL), bt.A("b", "str"))
	e.tree(blk(nil, bt.ML, bt.A("a", "heredoc"), blk(nil, bt.OL1, bt.A("a", "num"))), bt.A("a", "tuple"))

	// F7: the size dimension (sibling counts and nesting depths across the
	// usual boundaries). Linear cost per case; emitted early so that a thorough
	// run that meets its deadline has still covered it.
	if sb != nil {
		sizeFamily(e, k, *sb)
	}

	// F1: attribute-only bodies
	e.begin("F1-attrs", k, "basic")
	for _, n := range attrNames {
		for _, v := range bt.ValKinds {
			e.inContexts(true, bt.A(n, v))
		}
	}
	// one-line blocks: every name x every one-line-capable value
	for _, n := range attrNames {
		for _, v := range bt.ValKinds {
			if bt.OneLineValue(v) {
				e.tree(blk(nil, bt.OL1, bt.A(n, v)))
			}
		}
	}
	// identifiers that are keywords elsewhere or have unusual shapes, in every identifier role
	for _, n := range extraIdents {
		e.inContexts(true, bt.A(n, "num"), bt.A("a", "str"))
		e.tree(bt.B(n, nil, bt.OL1, bt.A(n, "str")), bt.B(n, nil, bt.EOL))
		e.tree(bt.B("other", []bt.Label{bt.Bare(n)}, bt.EML), bt.B("foo-bar", []bt.Label{bt.Bare(n), bt.Bare(n)}, bt.ML, bt.A(n, "num")))
	}
	for _, n1 := range attrNames {
		for _, n2 := range attrNames {
			if n1 != n2 {
				e.inContexts(true, bt.A(n1, "num"), bt.A(n2, "num"))
			}
		}
	}
	for _, names := range [][]string{{"a", "b"}, {"for", "é"}} {
		for _, v1 := range bt.ValKinds {
			for _, v2 := range bt.ValKinds {
				e.inContexts(true, bt.A(names[0], v1), bt.A(names[1], v2))
			}
		}
	}
	if b.attrLen >= 3 {
		for _, v1 := range bt.ValKinds {
			for _, v2 := range bt.ValKinds {
				for _, v3 := range bt.ValKinds {
					e.inContexts(true, bt.A("a", v1), bt.A("foo-bar", v2), bt.A("if", v3))
				}
			}
		}
		for _, n1 := range attrNames {
			for _, n2 := range attrNames {
				for _, n3 := range attrNames {
					if n1 != n2 && n1 != n3 && n2 != n3 {
						e.tree(bt.A(n1, "num"), bt.A(n2, "str"), bt.A(n3, "num"))
					}
				}
			}
		}
	}
	if b.attrLen >= 4 {
		var rec func(items []bt.Item)
		rec = func(items []bt.Item) {
			if len(items) == 4 {
				e.tree(bt.CloneItems(items)...)
				return
			}
			for _, v := range bt.ValKinds {
				rec(append(items, bt.A(seqNames[len(items)], v)))
			}
		}
		rec(nil)
	}

	// F2: labels
	e.begin("F2-labels", k, "basic")
	for _, typ := range blockTypes {
		for _, f := range forms {
			for n := 0; n <= 2; n++ {
				e.tree(withForm(typ, append([]bt.Label(nil), []bt.Label{bt.Bare("lbl"), bt.Quoted("a b")}[:n]...), f))
			}
		}
	}
	var labelSeqs func(prefix []bt.Label, n int, f func([]bt.Label))
	labelSeqs = func(prefix []bt.Label, n int, f func([]bt.Label)) {
		if n == 0 {
			f(append([]bt.Label(nil), prefix...))
			return
		}
		for _, l := range labelAlphabet {
			labelSeqs(append(prefix, l), n-1, f)
		}
	}
	for n := 1; n <= b.labelLen; n++ {
		labelSeqs(nil, n, func(ls []bt.Label) {
			for _, f := range forms {
				e.tree(withForm(typeFor(len(ls)), ls, f))
			}
			// nested: the labelled block inside another block, next to an attribute
			e.tree(blk(nil, bt.ML, bt.A("a", "num"), withForm(typeFor(len(ls)), ls, bt.EOL)))
		})
	}

	// F3: sequences of representative items
	e.begin("F3-sequences", k, "basic")
	// by increasing length, so that the simplest come first
	for l := 1; l <= b.seqLen; l++ {
		seqsExact(e, nil, l, false)
		if l <= b.seqLenNested {
			seqsExact(e, nil, l, true)
		}
	}

	// F4: all tree shapes up to a total size
	e.begin("F4-shapes", k, "basic")
	for total := 1; total <= b.shapeItems; total++ {
		for _, body := range shapes(total, b.shapePerBody, b.shapeDepth, 0) {
			e.tree(body...)
		}
	}

	// F6: duplicate attribute definitions (every rendering must be rejected)
	e.begin("F6-duplicates", k, "basic")
	dupBodies := func(f func(items ...bt.Item)) {
		for _, n := range attrNames {
			f(bt.A(n, "num"), bt.A(n, "num"))
		}
		for _, v1 := range bt.ValKinds {
			for _, v2 := range bt.ValKinds {
				f(bt.A("a", v1), bt.A("a", v2))
			}
		}
		f(bt.A("a", "num"), bt.A("a", "num"), bt.A("a", "num"))
		for _, x := range itemAlphabet("b") {
			f(bt.A("a", "num"), x, bt.A("a", "str"))
			f(x, bt.A("a", "num"), bt.A("a", "str"))
			f(bt.A("a", "num"), bt.A("a", "str"), x)
		}
	}
	dupBodies(func(items ...bt.Item) { e.tree(items...) })
	// nested one level: alone, and next to a (single) definition of the same name in the parent
	dupBodies(func(items ...bt.Item) { e.tree(blk(nil, bt.ML, items...)) })
	dupBodies(func(items ...bt.Item) {
		e.tree(bt.A("a", "num"), blk([]bt.Label{bt.Quoted("a b")}, bt.ML, items...), bt.A("b", "num"))
	})
	// nested two levels (fewer combinations)
	for _, n := range attrNames {
		e.tree(blk(nil, bt.ML, bt.A(n, "num"), blk([]bt.Label{bt.Bare("lbl")}, bt.ML, bt.A(n, "num"), bt.A(n, "str"))))
	}
	for _, v := range bt.ValKinds {
		e.tree(blk(nil, bt.ML, blk(nil, bt.ML, bt.A("a", v), blk(nil, bt.EOL), bt.A("a", v))))
	}
}

func seqsExact(e *emitter, items []bt.Item, l int, nested bool) {
	if e.stop {
		return
	}
	if len(items) == l {
		if nested {
			e.tree(blk([]bt.Label{bt.Bare("lbl")}, bt.ML, bt.CloneItems(items)...))
		} else {
			e.tree(bt.CloneItems(items)...)
		}
		return
	}
	for _, it := range itemAlphabet(seqNames[len(items)]) {
		seqsExact(e, append(items, it), l, nested)
	}
}

// shapes enumerates every body with exactly `total` items in the whole
// subtree, at most perBody items per body and blocks nested at most
// maxDepth-depth levels below this body. Attributes are `name = 1` with
// positional names; the block type/labels follow from the nesting level.
func shapes(total, perBody, maxDepth, depth int) [][]bt.Item {
	return shapeSeq(total, perBody, perBody, maxDepth, depth)
}

var shapeNames = []string{"a", "b", "foo-bar", "é"}

func shapeSeq(total, slots, perBody, maxDepth, depth int) [][]bt.Item {
	if total == 0 {
		return [][]bt.Item{nil}
	}
	if slots == 0 {
		return nil
	}
	pos := perBody - slots
	var out [][]bt.Item
	labels := [][]bt.Label{{bt.Bare("lbl")}, nil, {bt.Quoted("a b"), bt.Bare("k")}, {bt.Quoted("x")}}[depth%4]
	// first item uses `used` items of the budget, the rest of the body the remainder
	for used := 1; used <= total; used++ {
		var firsts []bt.Item
		if used == 1 {
			firsts = append(firsts, bt.A(shapeNames[pos%len(shapeNames)], "num"))
			if depth < maxDepth {
				firsts = append(firsts, blk(labels, bt.EOL), blk(labels, bt.EML))
			}
		}
		if used == 2 && depth < maxDepth {
			firsts = append(firsts, blk(labels, bt.OL1, bt.A("a", "num")))
		}
		if used >= 2 && depth < maxDepth {
			for _, inner := range shapes(used-1, perBody, maxDepth, depth+1) {
				firsts = append(firsts, blk(labels, bt.ML, inner...))
			}
		}
		if len(firsts) == 0 {
			continue
		}
		rests := shapeSeq(total-used, slots-1, perBody, maxDepth, depth)
		for _, f := range firsts {
			for _, r := range rests {
				body := append([]bt.Item{f}, bt.CloneItems(r)...)
				out = append(out, body)
			}
		}
	}
	return out
}
