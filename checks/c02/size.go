package main

// F7: the size dimension. The property quantifies over *all* body trees, in
// particular over all numbers of sibling items and all nesting depths; F1..F6
// bound both by a handful. This family walks the two one-dimensional axes far
// out, with every item shape, across the boundaries a counter, a table or a
// buffer inside the parser would plausibly have (2^k-1, 2^k, 2^k+1).
//
// A case is described by a SizeSpec (the tree is rebuilt from it in the judge,
// so that the case data stays small); it is rendered canonically and in the
// file-wide layout variants of bodytree.ForEachGlobal, and judged by the same
// oracle as every other family (exactly the written items, through the three
// views).

import (
	"fmt"
	"strings"

	"verif/engine"
	bt "verif/gen/bodytree"
)

type SizeSpec struct {
	Kind string `json:"kind"` // "siblings": N items of one shape in one body | "depth": a chain of N nested blocks
	// Shape: siblings: the item shape (see sizeShapes); depth: the form and
	// labels of the innermost block (the enclosing ones are multi-line blocks
	// with the same labels).
	Shape string `json:"shape"`
	// Follow (siblings): shape of one more item written after the N siblings.
	Follow string `json:"follow,omitempty"`
	// Ctx (siblings): "top" | "nested" (the body of a multi-line block).
	Ctx string `json:"ctx,omitempty"`
	// Fill (depth): "pure" (every enclosing body holds the nested block only) |
	// "around" (attribute, nested block, a one-line block, attribute).
	Fill string `json:"fill,omitempty"`
	// Layouts: "base" (canonical, CRLF, no final newline, tab-indented CRLF) |
	// "full" (also CRLF without final newline, no indentation, tab indentation).
	Layouts string `json:"layouts"`
	N       int    `json:"n"`
}

func (s SizeSpec) String() string {
	return fmt.Sprintf("%s(%s follow=%s ctx=%s fill=%s layouts=%s n=%d)", s.Kind, s.Shape, s.Follow, s.Ctx, s.Fill, s.Layouts, s.N)
}

// class tag: the construct, without the size and without the label variant
// (one defect of one construct should give one class).
func (s SizeSpec) tag() string {
	base := s.Shape
	if i := strings.Index(base, "-l"); i >= 0 && strings.HasPrefix(base, "block-") {
		base = base[:i]
	}
	t := "size." + s.Kind + "." + base
	if s.Follow != "" {
		t += ".followed"
	}
	return t + "."
}

// ---- shapes ----------------------------------------------------------------

// attribute shapes: attr-<value kind>; block shapes: block-<form>[-l1|-l2].
var sizeBlockForms = []string{bt.EOL, bt.EML, bt.OL1, bt.ML}

func sizeShapes() []string {
	var out []string
	for _, v := range bt.ValKinds {
		out = append(out, "attr-"+v)
	}
	for _, suf := range []string{"", "-l1", "-l2"} {
		for _, f := range sizeBlockForms {
			out = append(out, "block-"+f+suf)
		}
	}
	return out
}

// followers: one more item of another shape after the siblings (the first
// four in the quick tier).
var sizeFollowers = []string{"attr-num", "block-eol", "block-ol1", "block-ml", "block-eml", "block-ml-l2"}

func sizeLabels(shape string, i int) (string, []bt.Label, bool) {
	form := strings.TrimPrefix(shape, "block-")
	var labels []bt.Label
	switch {
	case strings.HasSuffix(form, "-l1"):
		form = strings.TrimSuffix(form, "-l1")
		labels = []bt.Label{bt.Quoted(fmt.Sprintf("x%d", i))}
	case strings.HasSuffix(form, "-l2"):
		form = strings.TrimSuffix(form, "-l2")
		labels = []bt.Label{bt.Quoted(fmt.Sprintf("x%d", i)), bt.Bare("k")}
	}
	for _, f := range sizeBlockForms {
		if f == form {
			return form, labels, true
		}
	}
	return "", nil, false
}

// sizeItem builds the i-th item of a shape. Attribute names are distinct per
// index (a body must not define a name twice); the first label of a labelled
// block carries the index, so that order is observable.
func sizeItem(shape, prefix string, i int) (bt.Item, bool) {
	if strings.HasPrefix(shape, "attr-") {
		return bt.A(fmt.Sprintf("%s%d", prefix, i), strings.TrimPrefix(shape, "attr-")), true
	}
	if !strings.HasPrefix(shape, "block-") {
		return bt.Item{}, false
	}
	form, labels, ok := sizeLabels(shape, i)
	if !ok {
		return bt.Item{}, false
	}
	return withForm(typeFor(len(labels)), labels, form), true
}

func buildSize(s SizeSpec) (bt.Tree, bool) {
	if s.N < 1 || s.N > 1<<16 {
		return bt.Tree{}, false
	}
	switch s.Kind {
	case "siblings":
		items := make([]bt.Item, 0, s.N+1)
		for i := 0; i < s.N; i++ {
			it, ok := sizeItem(s.Shape, "a", i)
			if !ok {
				return bt.Tree{}, false
			}
			items = append(items, it)
		}
		if s.Follow != "" {
			it, ok := sizeItem(s.Follow, "z", s.N)
			if !ok {
				return bt.Tree{}, false
			}
			// same block type with another label count: no schema describes
			// that body; the generator never asks for it
			items = append(items, it)
		}
		if s.Ctx == "nested" {
			items = []bt.Item{blk([]bt.Label{bt.Bare("lbl")}, bt.ML, items...)}
		}
		t := bt.Tree{Items: items}
		return t, t.Valid()
	case "depth":
		form, labels, ok := sizeLabels(s.Shape, s.N-1)
		if !ok {
			return bt.Tree{}, false
		}
		cur := withForm(typeFor(len(labels)), labels, form)
		for lvl := s.N - 2; lvl >= 0; lvl-- {
			_, ls, _ := sizeLabels(s.Shape, lvl)
			body := []bt.Item{cur}
			if s.Fill == "around" {
				// a one-line block of another type (another label count) after
				// the nested block: the parser has to continue in the enclosing
				// body at every level on the way back
				other := make([]bt.Label, (len(ls)+1)%3)
				for j := range other {
					other[j] = bt.Bare("q")
				}
				body = []bt.Item{bt.A("a", "num"), cur, withForm(typeFor(len(other)), other, bt.OL1), bt.A("b", "str")}
			}
			cur = bt.B(typeFor(len(ls)), ls, bt.ML, body...)
		}
		t := bt.Tree{Items: []bt.Item{cur}}
		return t, t.Valid()
	}
	return bt.Tree{}, false
}

// ---- enumeration -----------------------------------------------------------

// boundary values: 1..16, then 2^k-1, 2^k, 2^k+1 for k = 5..kmax
func sizeValues(kmax int) []int {
	var out []int
	for n := 1; n <= 16; n++ {
		out = append(out, n)
	}
	for k := 5; k <= kmax; k++ {
		out = append(out, 1<<k-1, 1<<k, 1<<k+1)
	}
	return out
}

// sibK, sibNestedK, sibFollowK, depthK: largest k of the 2^k boundaries for N
// siblings alone at top level, alone inside a block, N siblings plus a
// follower, nesting depth. followers: how many of sizeFollowers.
// followNested: the followed bodies also inside a block.
type sizeBounds struct {
	sibK, sibNestedK, sibFollowK, depthK int
	followers                            int
	followNested                         bool
	layouts                              string
}

var quickSize = sizeBounds{sibK: 10, sibNestedK: 8, sibFollowK: 8, depthK: 8, followers: 4, layouts: "base"}
var thoroughSize = sizeBounds{sibK: 12, sibNestedK: 12, sibFollowK: 12, depthK: 10, followers: 6, followNested: true, layouts: "full"}

func (e *emitter) size(s SizeSpec) bool {
	if e.stop {
		return false
	}
	if _, ok := buildSizeCheap(s); !ok {
		panic("generator built an invalid size spec: " + s.String())
	}
	id := fmt.Sprintf("%s/k%d/%06d", e.family, e.k, e.n)
	e.n++
	famCount.Add(e.family, 1)
	if !e.emit(engine.Case{ID: id, Data: Data{Family: e.family, K: e.k, Alphabet: e.alpha, Size: &s, Tree: bt.Tree{Items: []bt.Item{}}}}) {
		e.stop = true
		return false
	}
	return true
}

// buildSizeCheap validates a spec on a small instance (the structure does not
// depend on N).
func buildSizeCheap(s SizeSpec) (bt.Tree, bool) {
	if s.N > 3 {
		s.N = 3
	}
	return buildSize(s)
}

func sizeFamily(e *emitter, k int, b sizeBounds) {
	e.begin("F7-size", k, "basic")
	shapes := sizeShapes()
	inK := func(n, kmax int) bool { return n <= 1<<kmax+1 }
	// siblings, by increasing N (simplest first)
	for _, n := range sizeValues(b.sibK) {
		for _, sh := range shapes {
			e.size(SizeSpec{Kind: "siblings", Shape: sh, Ctx: "top", N: n, Layouts: b.layouts})
			if inK(n, b.sibNestedK) {
				e.size(SizeSpec{Kind: "siblings", Shape: sh, Ctx: "nested", N: n, Layouts: b.layouts})
			}
			if !inK(n, b.sibFollowK) {
				continue
			}
			for _, fo := range sizeFollowers[:b.followers] {
				if fo == sh {
					continue
				}
				// (typeFor ties the block type to the label count, so a schema
				// exists for every such body)
				e.size(SizeSpec{Kind: "siblings", Shape: sh, Follow: fo, Ctx: "top", N: n, Layouts: b.layouts})
				if b.followNested {
					e.size(SizeSpec{Kind: "siblings", Shape: sh, Follow: fo, Ctx: "nested", N: n, Layouts: b.layouts})
				}
			}
		}
	}
	// nesting depth, by increasing D
	for _, n := range sizeValues(b.depthK) {
		for _, sh := range shapes {
			if !strings.HasPrefix(sh, "block-") {
				continue
			}
			for _, fill := range []string{"pure", "around"} {
				if n == 1 && fill == "around" {
					continue // no enclosing body
				}
				e.size(SizeSpec{Kind: "depth", Shape: sh, Fill: fill, N: n, Layouts: b.layouts})
			}
		}
	}
}

// sizeShrink: the same construct at smaller sizes.
func sizeShrink(c engine.Case, d Data) []engine.Case {
	var out []engine.Case
	s := *d.Size
	seen := map[int]bool{s.N: true}
	for _, n := range []int{s.N / 2, s.N * 3 / 4, s.N * 7 / 8, s.N - 1} {
		if n < 1 || seen[n] {
			continue
		}
		seen[n] = true
		s2 := s
		s2.N = n
		d2 := d
		d2.Size = &s2
		out = append(out, engine.Case{ID: c.ID + "~", Data: d2})
	}
	return out
}
