// C04 — Schema-driven body processing accounts for every item exactly once.
//
// Bounded exhaustive enumeration of logical body contents, each realised as
// every hcl.Body implementation (native, JSON in two encodings, merged bodies
// of native/JSON files split every way, dynblock-expanded bodies with static
// and dynamic blocks), processed with every schema within a bound, in one
// exhaustive step and in every ordered split of the schema into 2 (3) parts
// applied as PartialContent ... then Content / PartialContent /
// JustAttributes on the remainders. Every result is compared with the
// reference model ref/refbody (written from spec.md / json/spec.md; never
// calls hcl), which gives the laws L1-L5 of DESIGN.md C04.
package main

import (
	"encoding/json"
	"fmt"
	"hash/fnv"
	"math/big"
	"os"
	"runtime/debug"
	"sort"
	"strconv"
	"strings"
	"time"

	"github.com/hashicorp/hcl/v2"
	"github.com/hashicorp/hcl/v2/ext/dynblock"
	"github.com/hashicorp/hcl/v2/hclsyntax"
	hcljson "github.com/hashicorp/hcl/v2/json"
	"github.com/zclconf/go-cty/cty"

	"verif/engine"
	"verif/gen/absconf"
	"verif/ref/refbody"
)

// ---------------------------------------------------------------- case data

// Elem is one schema element.
type Elem struct {
	Name   string `json:"n"`
	Kind   string `json:"k"` // attr | req | block
	Labels int    `json:"l,omitempty"`
}

func (e Elem) String() string {
	switch e.Kind {
	case "attr":
		return e.Name + "?"
	case "req":
		return e.Name + "!"
	}
	return fmt.Sprintf("%s/%d", e.Name, e.Labels)
}

// Real says how the logical content is realised as an hcl.Body.
type Real struct {
	Kind    string `json:"kind"`              // native | json-compact | json-arrays | merged | expanded
	Cuts    []int  `json:"cuts,omitempty"`    // merged: file i holds content[Cuts[i-1]:Cuts[i]]
	Syntax  string `json:"syntax,omitempty"`  // merged: one letter per file, n(ative) or j(son)
	Dynamic []bool `json:"dynamic,omitempty"` // expanded: per maximal run of same-type blocks: written as one dynamic block
	// json-*: one "zero blocks" insertion into the encoded document (absconf/degenerate.go)
	Deg *absconf.Degenerate `json:"deg,omitempty"`
	// json-*: the document is not a file's top-level body but the body of a block `w` of a wrapper file:
	// block = {"w": DOC}, block-array = {"w": [{}, DOC]} (the second block), labelled = {"w": {"k": DOC}}
	Wrap string `json:"wrap,omitempty"`
	// expanded: one extra dynamic block whose for_each collection is empty (it denotes no block at all)
	Ghost *Ghost `json:"ghost,omitempty"`
}

// Ghost is a `dynamic "Type"` block with an empty for_each collection, written before the physical item
// that starts at content[Pos] (Pos == len(content): at the end), with Labels label expressions (a
// `labels = [...]` argument, absent when Labels == 0) and a content block.
type Ghost struct {
	Type   string `json:"type"`
	Labels int    `json:"labels,omitempty"`
	Pos    int    `json:"pos"`
	Form   string `json:"form"` // list: for_each = [] | map: for_each = {}
}

func (g Ghost) String() string {
	fe := "[]"
	if g.Form == "map" {
		fe = "{}"
	}
	return fmt.Sprintf("empty-dynamic(%s/%d for_each=%s)@%d", g.Type, g.Labels, fe, g.Pos)
}

func (g Ghost) text() string {
	var sb strings.Builder
	fe := "[]"
	if g.Form == "map" {
		fe = "{}"
	}
	fmt.Fprintf(&sb, "dynamic %q {\n  for_each = %s\n", g.Type, fe)
	if g.Labels > 0 {
		ls := []string{`"g"`, `"h"`, `"i"`}
		fmt.Fprintf(&sb, "  labels = [%s]\n", strings.Join(ls[:g.Labels], ", "))
	}
	sb.WriteString("  content {\n    id = 99\n  }\n}\n")
	return sb.String()
}

func (r Real) String() string {
	switch r.Kind {
	case "merged":
		return fmt.Sprintf("merged(%v,%s)", r.Cuts, r.Syntax)
	case "expanded":
		if r.Ghost != nil {
			return fmt.Sprintf("expanded(%v)+%s", r.Dynamic, *r.Ghost)
		}
		return fmt.Sprintf("expanded(%v)", r.Dynamic)
	}
	s := r.Kind
	if r.Deg != nil {
		s += "+" + r.Deg.String()
	}
	if r.Wrap != "" {
		s += " in " + r.Wrap
	}
	return s
}

// Pin restricts a case to one schema and one split (replays of shrunk cases).
type Pin struct {
	Schema []Elem `json:"schema"`
	Assign []int  `json:"assign"` // part index of each schema element
	Parts  int    `json:"parts"`
}

type Data struct {
	Content   absconf.Body `json:"content"`
	Real      Real         `json:"real"`
	Names     string       `json:"names"`      // schema name universe, e.g. "abxyz"
	MaxSchema int          `json:"max_schema"` // maximal number of schema elements
	Parts     int          `json:"parts"`      // 2, or 3 = splits into 2 and into 3 parts
	Swap      bool         `json:"swap,omitempty"`
	Chunk     int          `json:"chunk,omitempty"`  // this case covers the schemas i with i % Chunks == Chunk
	Chunks    int          `json:"chunks,omitempty"` // 0 or 1 = all schemas
	Pin       *Pin         `json:"pin,omitempty"`
	Text      []string     `json:"text,omitempty"` // informational: the source text(s)
}

var counters engine.Counter

// ---------------------------------------------------------------- schemas

func elemOptions(name string, swap bool) []Elem {
	switch name {
	case "a", "b", "c":
		o := []Elem{{name, "attr", 0}, {name, "req", 0}}
		if swap && name == "a" {
			o = append(o, Elem{name, "block", 0}) // attribute name requested as a block type
		}
		return o
	case "x", "y":
		o := []Elem{{name, "block", 0}, {name, "block", 1}, {name, "block", 2}}
		if swap && name == "x" {
			o = append(o, Elem{name, "attr", 0}) // block type requested as an attribute
		}
		return o
	case "z": // a name that never occurs in a content
		return []Elem{{name, "attr", 0}, {name, "req", 0}, {name, "block", 0}}
	case "s": // the shared name s (an argument AND blocks of that name are in the content), requested as an attribute
		return []Elem{{"s", "attr", 0}, {"s", "req", 0}}
	case "S": // the shared name s requested as a block type: a schema may hold both (slots s and S are independent)
		return []Elem{{"s", "block", 0}, {"s", "block", 1}}
	}
	return nil
}

// sharedNameTag: last class component of a case whose content has an argument and blocks of one name.
const sharedNameTag = "argument-and-block-share-name"

// sharedNames: the names that occur in the content both as an argument and as a block type. The native
// syntax keeps the two namespaces apart (`limit = 5` next to `limit "cpu" {}`); a schema names an item
// together with its kind, so the argument and the blocks are different items that share a name.
func sharedNames(content absconf.Body) map[string]bool {
	as, bs := map[string]bool{}, map[string]bool{}
	for _, it := range content {
		if it.IsAttr() {
			as[it.Attr] = true
		} else {
			bs[it.Block] = true
		}
	}
	out := map[string]bool{}
	for n := range as {
		if bs[n] {
			out[n] = true
		}
	}
	return out
}

// invalidSchema: spec.md "Within a schema, it is an error to request the same attribute name twice or to
// request a block type whose name is also an attribute name." The result of applying such a schema is not
// defined (and neither is the remaining body it leaves).
func invalidSchema(es []Elem, mask uint32) bool {
	as, bs := map[string]bool{}, map[string]bool{}
	for i, e := range es {
		if mask&(1<<i) == 0 {
			continue
		}
		if e.Kind == "block" {
			bs[e.Name] = true
		} else {
			as[e.Name] = true
		}
	}
	for n := range as {
		if bs[n] {
			return true
		}
	}
	return false
}

// schemas enumerates all schemas over the name universe with <= max elements
// (each name absent or with one of its options), smallest first.
func schemas(names string, max int, swap bool) [][]Elem {
	var out [][]Elem
	var rec func(i int, cur []Elem)
	rec = func(i int, cur []Elem) {
		if i == len(names) {
			out = append(out, append([]Elem(nil), cur...))
			return
		}
		rec(i+1, cur)
		if len(cur) < max {
			for _, o := range elemOptions(string(names[i]), swap) {
				rec(i+1, append(cur, o))
			}
		}
	}
	rec(0, nil)
	sort.SliceStable(out, func(i, j int) bool { return len(out[i]) < len(out[j]) })
	return out
}

var labelNames = []string{"l0", "l1", "l2"}

func hclSchema(es []Elem) *hcl.BodySchema {
	s := &hcl.BodySchema{}
	for _, e := range es {
		switch e.Kind {
		case "attr", "req":
			s.Attributes = append(s.Attributes, hcl.AttributeSchema{Name: e.Name, Required: e.Kind == "req"})
		default:
			s.Blocks = append(s.Blocks, hcl.BlockHeaderSchema{Type: e.Name, LabelNames: labelNames[:e.Labels]})
		}
	}
	return s
}

func refSchema(es []Elem) refbody.Schema {
	var s refbody.Schema
	for _, e := range es {
		switch e.Kind {
		case "attr", "req":
			s.Attrs = append(s.Attrs, refbody.AttrS{Name: e.Name, Required: e.Kind == "req"})
		default:
			s.Blocks = append(s.Blocks, refbody.BlockS{Type: e.Name, Labels: e.Labels})
		}
	}
	return s
}

func schemaString(es []Elem) string {
	p := make([]string, len(es))
	for i, e := range es {
		p[i] = e.String()
	}
	return "{" + strings.Join(p, " ") + "}"
}

// ---------------------------------------------------------------- realisation

var idSchemaHCL = &hcl.BodySchema{Attributes: []hcl.AttributeSchema{{Name: "id"}}}
var idSchemaRef = refbody.Schema{Attrs: []refbody.AttrS{{Name: "id"}}}
var evalCtx = &hcl.EvalContext{}

// runs returns, per item, the index of its physical source item when every
// maximal run of adjacent blocks with the same type and label count that is
// marked dynamic is written as one dynamic block; and the number of runs.
func blockRuns(content absconf.Body) (runOf []int, nruns int) {
	runOf = make([]int, len(content))
	for i, it := range content {
		runOf[i] = -1
		if it.IsAttr() {
			continue
		}
		if i > 0 && !content[i-1].IsAttr() && content[i-1].Block == it.Block && len(content[i-1].Labels) == len(it.Labels) {
			runOf[i] = runOf[i-1]
			continue
		}
		runOf[i] = nruns
		nruns++
	}
	return
}

func expandedText(content absconf.Body, dynamic []bool) (string, []int) {
	s, g, _ := expandedTextGhost(content, dynamic, nil)
	return s, g
}

// ghostFits: the position is the start of a physical item (not inside a run written as one dynamic block).
func ghostFits(content absconf.Body, dynamic []bool, pos int) bool {
	if pos <= 0 || pos >= len(content) {
		return pos >= 0 && pos <= len(content)
	}
	runOf, _ := blockRuns(content)
	return !(runOf[pos] >= 0 && runOf[pos] == runOf[pos-1] && dynamic[runOf[pos]])
}

func expandedTextGhost(content absconf.Body, dynamic []bool, ghost *Ghost) (string, []int, error) {
	if ghost != nil && !ghostFits(content, dynamic, ghost.Pos) {
		return "", nil, fmt.Errorf("%s: the position is not the start of a physical item", *ghost)
	}
	runOf, _ := blockRuns(content)
	groups := make([]int, len(content))
	var sb strings.Builder
	phys := 0
	for i := 0; i <= len(content); i++ {
		if ghost != nil && ghost.Pos == i {
			sb.WriteString(ghost.text())
			phys++
		}
		if i == len(content) {
			break
		}
		it := content[i]
		if it.IsAttr() || !dynamic[runOf[i]] {
			sb.WriteString(absconf.Native(absconf.Body{it}))
			groups[i] = phys
			phys++
			continue
		}
		j := i
		for j < len(content) && runOf[j] == runOf[i] {
			j++
		}
		n := len(it.Labels)
		fmt.Fprintf(&sb, "dynamic %q {\n  for_each = [", it.Block)
		for k := i; k < j; k++ {
			if k > i {
				sb.WriteString(", ")
			}
			sb.WriteString("[")
			for _, l := range content[k].Labels {
				sb.WriteString(absconf.NativeQuote(l) + ", ")
			}
			sb.WriteString(content[k].Body[0].Val.S + "]")
			groups[k] = phys
		}
		sb.WriteString("]\n")
		if n > 0 {
			sb.WriteString("  labels = [")
			for l := 0; l < n; l++ {
				if l > 0 {
					sb.WriteString(", ")
				}
				fmt.Fprintf(&sb, "%s.value[%d]", it.Block, l)
			}
			sb.WriteString("]\n")
		}
		fmt.Fprintf(&sb, "  content {\n    id = %s.value[%d]\n  }\n}\n", it.Block, n)
		phys++
		i = j - 1
	}
	return sb.String(), groups, nil
}

func parseNative(src string) (hcl.Body, error) {
	f, diags := hclsyntax.ParseConfig([]byte(src), "t.hcl", hcl.InitialPos)
	if diags.HasErrors() {
		return nil, fmt.Errorf("native text does not parse: %s\n%s", diags.Error(), src)
	}
	return f.Body, nil
}

func parseJSON(src string) (hcl.Body, error) {
	f, diags := hcljson.Parse([]byte(src), "t.json")
	if diags.HasErrors() {
		return nil, fmt.Errorf("JSON text does not parse: %s\n%s", diags.Error(), src)
	}
	return f.Body, nil
}

// realise builds the real body, its reference model and the source texts.
func realise(content absconf.Body, r Real) (hcl.Body, refbody.Model, []string, error) {
	switch r.Kind {
	case "native":
		src := absconf.Native(content)
		b, err := parseNative(src)
		return b, refbody.NewNative(content), []string{src}, err
	case "json-compact", "json-arrays":
		enc := absconf.Compact(content)
		if r.Kind == "json-arrays" {
			enc = absconf.ArrayHeavy(content)
		}
		doc := enc.Doc
		if r.Deg != nil {
			var err error
			if doc, err = r.Deg.Apply(doc); err != nil {
				return nil, nil, nil, err
			}
		}
		if r.Wrap != "" {
			return realiseWrapped(doc, r.Wrap)
		}
		src := doc.Render()
		b, err := parseJSON(src)
		return b, refbody.NewJSON(doc), []string{src}, err
	case "expanded":
		src, groups, err := expandedTextGhost(content, r.Dynamic, r.Ghost)
		if err != nil {
			return nil, nil, nil, err
		}
		b, err := parseNative(src)
		if err != nil {
			return nil, nil, nil, err
		}
		var ghosts []refbody.Ghost
		if r.Ghost != nil {
			// the block denotes nothing: the model's logical content is the content without it
			ghosts = []refbody.Ghost{{Type: r.Ghost.Type, Labels: r.Ghost.Labels}}
		}
		return dynblock.Expand(b, evalCtx), refbody.NewNativeGhosts(content, groups, ghosts), []string{src}, nil
	case "merged":
		var bodies []hcl.Body
		var texts []string
		m := &refbody.Merged{}
		start := 0
		for i, end := range r.Cuts {
			part := content[start:end]
			start = end
			if r.Syntax[i] == 'j' {
				enc := absconf.Compact(part)
				src := enc.Doc.Render()
				b, err := parseJSON(src)
				if err != nil {
					return nil, nil, nil, err
				}
				bodies, texts = append(bodies, b), append(texts, src)
				m.Children = append(m.Children, refbody.NewJSON(enc.Doc))
			} else {
				src := absconf.Native(part)
				b, err := parseNative(src)
				if err != nil {
					return nil, nil, nil, err
				}
				bodies, texts = append(bodies, b), append(texts, src)
				m.Children = append(m.Children, refbody.NewNative(part))
			}
		}
		return hcl.MergeBodies(bodies), m, texts, nil
	}
	return nil, nil, nil, fmt.Errorf("unknown realisation %q", r.Kind)
}

// realiseWrapped makes doc (a single JSON object) the body of a block `w` of a wrapper file and
// returns that block's body: the same logical content one nesting level down.
func realiseWrapped(doc *absconf.JNode, wrap string) (hcl.Body, refbody.Model, []string, error) {
	if doc.Kind != absconf.JObj {
		return nil, nil, nil, fmt.Errorf("wrap %q: a nested block body is always one JSON object", wrap)
	}
	var val *absconf.JNode
	idx, labels := 0, 0
	switch wrap {
	case "block":
		val = doc
	case "block-array":
		val, idx = &absconf.JNode{Kind: absconf.JArr, Elems: []*absconf.JNode{{Kind: absconf.JObj}, doc}}, 1
	case "labelled":
		val, labels = &absconf.JNode{Kind: absconf.JObj, Props: []absconf.JProp{{Name: "k", Val: doc}}}, 1
	default:
		return nil, nil, nil, fmt.Errorf("unknown wrap %q", wrap)
	}
	outer := &absconf.JNode{Kind: absconf.JObj, Props: []absconf.JProp{{Name: "w", Val: val}}}
	src := outer.Render()
	ob, err := parseJSON(src)
	if err != nil {
		return nil, nil, nil, err
	}
	oc, diags := ob.Content(&hcl.BodySchema{Blocks: []hcl.BlockHeaderSchema{{Type: "w", LabelNames: labelNames[:labels]}}})
	if diags.HasErrors() || len(oc.Blocks) != idx+1 {
		return nil, nil, nil, fmt.Errorf("wrapper file %s: %d blocks, diagnostics: %v", src, len(oc.Blocks), diags)
	}
	om := refbody.NewJSON(outer).Content(refbody.Schema{Blocks: []refbody.BlockS{{Type: "w", Labels: labels}}})
	if om.Errs != 0 || om.Unspec || len(om.Blocks) != idx+1 {
		return nil, nil, nil, fmt.Errorf("wrapper file %s: reference model does not give %d blocks", src, idx+1)
	}
	return oc.Blocks[idx].Body, om.Blocks[idx].Body, []string{src}, nil
}

// ---------------------------------------------------------------- observation

type robs struct {
	attrs  []string            // "name=key", sorted
	blocks map[string][]string // type -> `"labels"#id` in order
	nerr   int
	diags  hcl.Diagnostics
}

func (o robs) diag() string {
	if len(o.diags) == 0 {
		return ""
	}
	return o.diags.Error()
}

func numKey(v cty.Value, d hcl.Diagnostics) string {
	if d.HasErrors() || v.IsNull() || !v.IsKnown() {
		return "other"
	}
	v, _ = v.Unmark()
	if v.Type() == cty.Number {
		bf := v.AsBigFloat()
		if i, acc := bf.Int64(); acc == big.Exact {
			return "n:" + strconv.FormatInt(i, 10)
		}
		return "n:" + bf.Text('f', -1)
	}
	return "other" // (a JSON remainder read with JustAttributes shows would-be blocks as object-valued attributes)
}

func refKey(k string) string {
	if strings.HasPrefix(k, "n:") {
		return k
	}
	return "other"
}

func observeAttrs(attrs hcl.Attributes) []string {
	var out []string
	for name, a := range attrs {
		out = append(out, name+"="+numKey(a.Expr.Value(evalCtx)))
	}
	sort.Strings(out)
	return out
}

func observe(c *hcl.BodyContent, diags hcl.Diagnostics) robs {
	o := robs{blocks: map[string][]string{}}
	for _, d := range diags {
		if d.Severity == hcl.DiagError {
			o.nerr++
		}
	}
	o.diags = diags
	if c == nil {
		return o
	}
	o.attrs = observeAttrs(c.Attributes)
	for _, b := range c.Blocks {
		id := "-"
		if b.Body != nil {
			ic, _, _ := b.Body.PartialContent(idSchemaHCL)
			if ic != nil {
				if a, ok := ic.Attributes["id"]; ok {
					id = numKey(a.Expr.Value(evalCtx))
				}
			}
		}
		o.blocks[b.Type] = append(o.blocks[b.Type], blockKey(b.Labels, id))
	}
	return o
}

func blockKey(labels []string, id string) string {
	return strings.Join(labels, "\x00") + "#" + id
}

type wobs struct {
	attrs  []string
	blocks map[string][]string
}

func want(r refbody.Result) wobs {
	w := wobs{blocks: map[string][]string{}}
	for _, a := range r.Attrs {
		w.attrs = append(w.attrs, a.Name+"="+refKey(a.Key))
	}
	sort.Strings(w.attrs)
	for _, b := range r.Blocks {
		id := "-"
		ir, _ := b.Body.Partial(idSchemaRef)
		if len(ir.Attrs) == 1 {
			id = refKey(ir.Attrs[0].Key)
		}
		w.blocks[b.Type] = append(w.blocks[b.Type], blockKey(b.Labels, id))
	}
	return w
}

// mismatch compares one real result with the reference; it returns the failed
// clause ("" if none) and a description.
func mismatch(got robs, r refbody.Result, countErrs bool) (string, string) {
	if r.Unspec {
		return "", ""
	}
	if r.Errs > 0 && got.nerr == 0 {
		return "error-missing", fmt.Sprintf("the reference demands an error (%d erroneous items) but none was reported", r.Errs)
	}
	if r.Errs == 0 && got.nerr > 0 && !r.ErrUnspec {
		return "error-spurious", fmt.Sprintf("no item is erroneous but an error was reported: %s", got.diag())
	}
	if countErrs && got.nerr < r.Errs {
		return "error-count-low", fmt.Sprintf("%d items are erroneous but only %d errors were reported: %s", r.Errs, got.nerr, got.diag())
	}
	w := want(r)
	// attributes (names whose content is qualified by an error are skipped)
	filter := func(as []string) []string {
		var out []string
		for _, a := range as {
			if !r.UnspecNames[a[:strings.Index(a, "=")]] {
				out = append(out, a)
			}
		}
		return out
	}
	ga, wa := filter(got.attrs), filter(w.attrs)
	if strings.Join(ga, ",") != strings.Join(wa, ",") {
		return "attrs", fmt.Sprintf("attributes returned %v, expected %v", ga, wa)
	}
	types := map[string]bool{}
	for t := range got.blocks {
		types[t] = true
	}
	for t := range w.blocks {
		types[t] = true
	}
	var ts []string
	for t := range types {
		ts = append(ts, t)
	}
	sort.Strings(ts)
	for _, t := range ts {
		if r.UnspecNames[t] {
			continue
		}
		g, x := got.blocks[t], w.blocks[t]
		if strings.Join(g, " ") == strings.Join(x, " ") {
			continue
		}
		gs, xs := append([]string(nil), g...), append([]string(nil), x...)
		sort.Strings(gs)
		sort.Strings(xs)
		if strings.Join(gs, " ") == strings.Join(xs, " ") {
			return "block-order", fmt.Sprintf("blocks of type %q returned in the order %q, source order is %q", t, g, x)
		}
		if len(g) > len(x) {
			return "blocks-extra", fmt.Sprintf("blocks of type %q returned %q, expected %q", t, g, x)
		}
		return "blocks", fmt.Sprintf("blocks of type %q returned %q, expected %q", t, g, x)
	}
	return "", ""
}

// ---------------------------------------------------------------- judge

type failure struct {
	class  string
	detail string
	schema []Elem
	assign []int
	parts  int
}

// knownOpen: failure classes recorded as open known findings. A case that
// fails in several classes reports one that is *not* recorded first, so that
// a recorded defect never hides a new one.
var knownOpen = func() map[string]bool {
	m := map[string]bool{}
	dir := os.Getenv("VERIF_DIR")
	if dir == "" {
		dir = "/verif"
	}
	b, err := os.ReadFile(dir + "/known-findings.json")
	if err != nil {
		return m
	}
	var all struct {
		Findings []struct {
			Property, Status, Class string
		} `json:"findings"`
	}
	if json.Unmarshal(b, &all) == nil {
		for _, f := range all.Findings {
			if f.Property == "C04" && f.Status == "open" {
				m[f.Class] = true
			}
		}
	}
	return m
}()

// runner checks one realisation against its model; it keeps going after a
// failure (the first failure of every class is kept).
type runner struct {
	kind    string
	body    hcl.Body
	model   refbody.Model
	content absconf.Body
	// twin: for a merge of exactly one file, that file's body on its own; every
	// step is run on it too and must give the same observation (L5, directly).
	twin hcl.Body
	// realTag names the JSON "zero blocks" construct of the realisation, if any (suffix of every class)
	realTag string
	// ghost: the empty-for_each dynamic block of the realisation, if any
	ghost *Ghost
	fails map[string]*failure
	sig   sigAcc
	// current schema
	es  []Elem
	hs  map[uint32]*hcl.BodySchema
	rs  map[uint32]refbody.Schema
	cur struct {
		assign []int
		parts  int
	}
}

func (r *runner) fail(op, clause, detail string, tags ...string) {
	cl := "c04." + r.kind + "." + op + "." + clause
	for _, t := range tags {
		if t == "after-label-mismatch" {
			// one defect, whichever operation on the remainder shows it
			cl = "c04." + r.kind + ".on-remainder." + clause
		}
		cl += "." + t
	}
	if r.realTag != "" && !((r.ghost != nil || r.realTag == sharedNameTag) && len(tags) > 0) {
		// (a tag names one recorded defect of dynblock, whatever else the body holds: the class stays that defect's)
		cl += "." + r.realTag
	}
	if _, ok := r.fails[cl]; ok {
		return
	}
	r.fails[cl] = &failure{
		class:  cl,
		detail: fmt.Sprintf("schema %s split %v into %d parts; %s: %s", schemaString(r.es), r.cur.assign, r.cur.parts, op, detail),
		schema: r.es, assign: append([]int(nil), r.cur.assign...), parts: r.cur.parts,
	}
}

func (r *runner) schemaOf(mask uint32) (*hcl.BodySchema, refbody.Schema) {
	if h, ok := r.hs[mask]; ok {
		return h, r.rs[mask]
	}
	var sub []Elem
	for i, e := range r.es {
		if mask&(1<<i) != 0 {
			sub = append(sub, e)
		}
	}
	h, f := hclSchema(sub), refSchema(sub)
	r.hs[mask], r.rs[mask] = h, f
	return h, f
}

// arenaSchemas builds the schemas of the given parts as adjacent sub-slices of shared arrays and
// returns a function that reports whether the arrays still hold what was put there.
func arenaSchemas(es []Elem, masks []uint32) ([]*hcl.BodySchema, func() string) {
	var attrs []hcl.AttributeSchema
	var blocks []hcl.BlockHeaderSchema
	type span struct{ a0, a1, b0, b1 int }
	spans := make([]span, len(masks))
	for p, mask := range masks {
		spans[p].a0, spans[p].b0 = len(attrs), len(blocks)
		for i, e := range es {
			if mask&(1<<i) == 0 {
				continue
			}
			switch e.Kind {
			case "attr", "req":
				attrs = append(attrs, hcl.AttributeSchema{Name: e.Name, Required: e.Kind == "req"})
			default:
				blocks = append(blocks, hcl.BlockHeaderSchema{Type: e.Name, LabelNames: labelNames[:e.Labels]})
			}
		}
		spans[p].a1, spans[p].b1 = len(attrs), len(blocks)
	}
	// some spare room behind the last part too
	attrs = append(attrs, hcl.AttributeSchema{Name: "zz-spare"})[:len(attrs)]
	blocks = append(blocks, hcl.BlockHeaderSchema{Type: "zz-spare"})[:len(blocks)]
	out := make([]*hcl.BodySchema, len(masks))
	for p, sp := range spans {
		out[p] = &hcl.BodySchema{Attributes: attrs[sp.a0:sp.a1], Blocks: blocks[sp.b0:sp.b1]}
	}
	wantA := append([]hcl.AttributeSchema(nil), attrs[:len(attrs)+1]...)
	wantB := make([]string, 0, len(blocks)+1)
	for _, b := range blocks[:len(blocks)+1] {
		wantB = append(wantB, fmt.Sprintf("%s/%d", b.Type, len(b.LabelNames)))
	}
	return out, func() string {
		for i, a := range attrs[:len(wantA)] {
			if a != wantA[i] {
				return fmt.Sprintf("attribute schema slot %d is now %+v, was %+v", i, a, wantA[i])
			}
		}
		for i, b := range blocks[:len(wantB)] {
			if got := fmt.Sprintf("%s/%d", b.Type, len(b.LabelNames)); got != wantB[i] {
				return fmt.Sprintf("block schema slot %d is now %s, was %s", i, got, wantB[i])
			}
		}
		for p, sp := range spans {
			if len(out[p].Attributes) != sp.a1-sp.a0 || len(out[p].Blocks) != sp.b1-sp.b0 {
				return fmt.Sprintf("the slices of part %d changed length", p)
			}
		}
		return ""
	}
}

func blockTypeIn(es []Elem, mask uint32, name string) bool {
	for i, e := range es {
		if mask&(1<<i) != 0 && e.Name == name && e.Kind == "block" {
			return true
		}
	}
	return false
}

// schema checks one schema: one exhaustive step (L1, L2) and, for every
// ordered split into `parts` parts selected by want, the chains (L3, L4).
func (r *runner) schema(es []Elem, partsList []int, only []int) int64 {
	r.es = es
	r.hs, r.rs = map[uint32]*hcl.BodySchema{}, map[uint32]refbody.Schema{}
	countErrs := r.kind != "expanded"
	full := uint32(1)<<len(es) - 1
	hFull, rFull := r.schemaOf(full)
	r.cur.assign, r.cur.parts = nil, 0
	oneReal := observe(r.body.Content(hFull))
	oneRef := r.model.Content(rFull)
	if invalidSchema(es, full) {
		// the parts of a split may each be a proper schema while their union names s as an argument and as a
		// block type: the single step with the union is then not defined (spec.md), the steps are
		oneRef.Unspec = true
	}
	r.sig.add(oneReal)
	if cl, d := mismatch(oneReal, oneRef, countErrs); cl != "" {
		r.fail("content", cl, d)
		return 0
	}
	if r.twin != nil {
		if cl, d := sameObs(oneReal, observe(r.twin.Content(hFull)), false); cl != "" {
			r.fail("content", "one-file-merge-vs-file."+cl, "merge of one file vs the file itself: "+d)
		}
	}
	n := int64(0)
	for _, parts := range partsList {
		assignments(len(es), parts, func(a []int) bool {
			if only != nil {
				a = only
			} else if parts == 3 {
				// an assignment that leaves a part empty is a split into 2 parts
				var used [3]bool
				for _, p := range a {
					used[p] = true
				}
				if !(used[0] && used[1] && used[2]) {
					return true
				}
			}
			n++
			r.split(a, parts, oneReal, oneRef, countErrs)
			return only == nil
		})
	}
	return n
}

func (r *runner) split(assign []int, parts int, oneReal robs, oneRef refbody.Result, countErrs bool) {
	r.cur.assign, r.cur.parts = assign, parts
	masks := make([]uint32, parts)
	for i, p := range assign {
		masks[p] |= 1 << i
	}
	for _, m := range masks {
		if invalidSchema(r.es, m) {
			// one part requests the name as an argument and as a block type: neither that step's result nor
			// what it leaves is defined. The calls are made (no panic, the chain stays usable), nothing is compared.
			b := r.body
			for i := 0; i < parts; i++ {
				h, _ := r.schemaOf(masks[i])
				_, rem, _ := b.PartialContent(h)
				if rem == nil {
					r.fail(fmt.Sprintf("partial%d", i+1), "nil-remainder", "PartialContent returned a nil remaining body")
					return
				}
				b.Content(h)
				b = rem
			}
			b.JustAttributes()
			return
		}
	}
	curB, curM, curT := r.body, r.model, r.twin
	union := robs{blocks: map[string][]string{}}
	unionRefErrs, anyUnspec := 0, false
	unspecNames := map[string]bool{}
	labelMismatchBefore := false
	tags := func(clause string) []string {
		if clause == "error-spurious" && labelMismatchBefore {
			return []string{"after-label-mismatch"}
		}
		return nil
	}
	note := func(ref refbody.Result, mask uint32) {
		unionRefErrs += ref.Errs
		anyUnspec = anyUnspec || ref.Unspec
		for n := range ref.UnspecNames {
			unspecNames[n] = true
			if blockTypeIn(r.es, mask, n) {
				labelMismatchBefore = true
			}
		}
	}
	// The part schemas of one split are adjacent two-index sub-slices of one attribute array and one
	// block array (as an application gets by slicing one schema into parts): a callee that appends to
	// the slices it was given writes into the next part's schema.
	arena, intact := arenaSchemas(r.es, masks)
	defer func() {
		if d := intact(); d != "" {
			r.fail("schema-argument", "modified", "a schema passed to PartialContent / Content was modified by the callee: "+d)
		}
	}()
	for i := 0; i < parts; i++ {
		_, f := r.schemaOf(masks[i])
		h := arena[i]
		op := fmt.Sprintf("partial%d", i+1)
		pc, rem, pd := curB.PartialContent(h)
		pr, remM := curM.Partial(f)
		if rem == nil {
			r.fail(op, "nil-remainder", "PartialContent returned a nil remaining body")
			return
		}
		got := observe(pc, pd)
		if cl, d := mismatch(got, pr, countErrs); cl != "" {
			r.fail(op, cl, d, tags(cl)...)
			return
		}
		var remT hcl.Body
		if curT != nil {
			tc, tr, td := curT.PartialContent(h)
			remT = tr
			if cl, d := sameObs(got, observe(tc, td), false); cl != "" {
				r.fail(op, "one-file-merge-vs-file."+cl, "merge of one file vs the file itself: "+d)
			}
		}
		if i < parts-1 {
			accumulate(&union, got)
			note(pr, masks[i])
			curB, curM, curT = rem, remM, remT
			continue
		}
		// last part, ending 1: it was applied partially too; look at what remains (L3)
		lm := labelMismatchBefore
		for n := range pr.UnspecNames {
			if blockTypeIn(r.es, masks[i], n) {
				labelMismatchBefore = true
			}
		}
		r.remainder(rem, remM, remT, tags)
		// the same schema once more, on the remainder: everything it names has been consumed, so its
		// items are absent there (nothing is returned twice; for native, JSON and merged bodies a
		// required argument is then missing -- for dynamic-block-expanded bodies the property's laws
		// say nothing about required arguments on a remainder, and dynblock does not report them)
		{
			pcR, _, pdR := rem.PartialContent(h)
			prR, _ := remM.Partial(f)
			if cl, d := mismatch(observe(pcR, pdR), prR, countErrs); cl != "" && !(r.kind == "expanded" && cl == "error-missing") {
				op := "same-schema-on-remainder"
				if t := tags(cl); len(t) > 0 {
					op = "on-remainder" // the recorded dynblock defect: the label diagnostic repeats on every later call
				}
				r.fail(op, cl, d, tags(cl)...)
				labelMismatchBefore = lm
				return
			}
		}
		labelMismatchBefore = lm
		// ending 2: the last part is applied exhaustively to the same remainder (L4)
		first := got
		got = observe(curB.Content(h))
		ref := curM.Content(f)
		if cl, d := mismatch(got, ref, countErrs); cl != "" {
			r.fail("content-on-remainder", cl, d, tags(cl)...)
			return
		}
		if curT != nil {
			if cl, d := sameObs(got, observe(curT.Content(h)), false); cl != "" {
				r.fail("content-on-remainder", "one-file-merge-vs-file."+cl, "merge of one file vs the file itself: "+d)
			}
		}
		// A body may be used any number of times: the same remainder (or, with a
		// single part, the source body) is processed again, partially and
		// exhaustively, and must answer exactly as before.
		pc2, _, pd2 := curB.PartialContent(h)
		if cl, d := sameObs(first, observe(pc2, pd2), true); cl != "" {
			r.fail("reuse", "partial-again."+cl, "PartialContent with the same schema on the same body, before and after other calls: "+d)
		}
		if cl, d := sameObs(got, observe(curB.Content(h)), true); cl != "" {
			r.fail("reuse", "content-again."+cl, "Content with the same schema on the same body, twice: "+d)
		}
		accumulate(&union, got)
		note(ref, masks[i])
	}
	// L4 on the real results directly: the steps together equal the single step
	if anyUnspec || oneRef.Unspec {
		return
	}
	if (union.nerr > 0) != (oneReal.nerr > 0) {
		r.fail("two-step-vs-one-step", "error-presence", fmt.Sprintf("the steps reported %d errors, the single step %d (%s%s)", union.nerr, oneReal.nerr, union.diag(), oneReal.diag()))
		return
	}
	if (unionRefErrs > 0) != (oneRef.Errs > 0) {
		counters.Add("reference_l4_disagreements", 1) // the model itself must satisfy the law
	}
	for n := range oneRef.UnspecNames {
		unspecNames[n] = true
	}
	sort.Strings(union.attrs)
	if a, b := dropNames(union.attrs, unspecNames), dropNames(oneReal.attrs, unspecNames); strings.Join(a, ",") != strings.Join(b, ",") {
		r.fail("two-step-vs-one-step", "attrs", fmt.Sprintf("the steps returned attributes %v, the single step %v", a, b))
		return
	}
	for _, e := range r.es {
		if e.Kind != "block" || unspecNames[e.Name] {
			continue
		}
		if a, b := union.blocks[e.Name], oneReal.blocks[e.Name]; strings.Join(a, " ") != strings.Join(b, " ") {
			r.fail("two-step-vs-one-step", "blocks", fmt.Sprintf("the steps returned %q blocks %q, the single step %q", e.Name, a, b))
			return
		}
	}
}

// sameObs compares two observations of the real code that must be identical
// (the same operation repeated on one body; a one-file merge against its
// file). It returns the clause that differs.
func sameObs(a, b robs, exactCount bool) (string, string) {
	if (a.nerr > 0) != (b.nerr > 0) || (exactCount && a.nerr != b.nerr) {
		return "errors", fmt.Sprintf("%d errors (%s) vs %d errors (%s)", a.nerr, a.diag(), b.nerr, b.diag())
	}
	if strings.Join(a.attrs, ",") != strings.Join(b.attrs, ",") {
		return "attrs", fmt.Sprintf("attributes %v vs %v", a.attrs, b.attrs)
	}
	key := func(o robs) string {
		var ts []string
		for t, bs := range o.blocks {
			if len(bs) > 0 {
				ts = append(ts, t+":"+strings.Join(bs, " "))
			}
		}
		sort.Strings(ts)
		return strings.Join(ts, ";")
	}
	if key(a) != key(b) {
		return "blocks", fmt.Sprintf("blocks %q vs %q", key(a), key(b))
	}
	return "", ""
}

func observeJust(b hcl.Body) robs {
	attrs, diags := b.JustAttributes()
	o := robs{attrs: observeAttrs(attrs), blocks: map[string][]string{}, diags: diags}
	for _, d := range diags {
		if d.Severity == hcl.DiagError {
			o.nerr++
		}
	}
	return o
}

func dropNames(as []string, drop map[string]bool) []string {
	var out []string
	for _, a := range as {
		if !drop[a[:strings.Index(a, "=")]] {
			out = append(out, a)
		}
	}
	return out
}

func accumulate(u *robs, got robs) {
	u.attrs = append(u.attrs, got.attrs...)
	for t, bs := range got.blocks {
		u.blocks[t] = append(u.blocks[t], bs...)
	}
	u.nerr += got.nerr
	u.diags = append(u.diags, got.diags...)
}

// remainder observes the body that remains after every part of the schema
// was applied partially (L3): JustAttributes, and exhaustive processing with
// the complement schema (every name of the logical content that is not in the
// schema, with its own kind and label count).
func (r *runner) remainder(rem hcl.Body, remM refbody.Model, remT hcl.Body, tags func(string) []string) {
	inSchema := map[string]bool{}
	shared := sharedNames(r.content)
	for _, e := range r.es {
		inSchema[e.Name] = true
		// a name that the content uses for an argument and for blocks is two items: the schema covers the
		// one whose kind it names, the other one belongs to the complement
		if e.Kind == "block" {
			inSchema["block "+e.Name] = true
		} else {
			inSchema["attr "+e.Name] = true
		}
	}
	var comp []Elem
	seen := map[string]bool{}
	consumedBlocks, remainingBlocks := false, false
	for _, it := range r.content {
		name := it.Attr
		if !it.IsAttr() {
			name = it.Block
		}
		if shared[name] {
			if it.IsAttr() {
				name = "attr " + name
			} else {
				name = "block " + name
			}
		}
		if inSchema[name] {
			if !it.IsAttr() && blockTypeIn(r.es, ^uint32(0), it.Block) {
				consumedBlocks = true
			}
			continue
		}
		if !it.IsAttr() {
			remainingBlocks = true
		}
		if seen[name] {
			continue
		}
		seen[name] = true
		if it.IsAttr() {
			comp = append(comp, Elem{it.Attr, "attr", 0})
		} else {
			comp = append(comp, Elem{it.Block, "block", len(it.Labels)})
		}
	}
	if g := r.ghost; g != nil {
		// the empty dynamic block is an item of its type: consumed if the schema names the type as a block
		// type, otherwise part of the complement schema (with the label count it is written for)
		if blockTypeIn(r.es, ^uint32(0), g.Type) {
			consumedBlocks = true
		} else if !inSchema[g.Type] && !seen[g.Type] {
			seen[g.Type] = true
			comp = append(comp, Elem{g.Type, "block", g.Labels})
		}
	}
	ja := observeJust(rem)
	if cl, d := mismatch(ja, remM.JustAttributes(), false); cl != "" {
		var extra []string
		if cl == "error-spurious" && consumedBlocks && !remainingBlocks {
			extra = append(extra, "only-consumed-blocks")
		}
		r.fail("justattrs-on-remainder", cl, d, extra...)
	}
	if invalidSchema(comp, ^uint32(0)) {
		// the schema names neither the argument nor the blocks of a shared name: the complement would request
		// the name in both kinds, which no single schema may (spec.md). It is applied in two proper steps
		// instead: the arguments partially, then the block types exhaustively on what that leaves.
		var ca, cb []Elem
		for _, e := range comp {
			if e.Kind == "block" {
				cb = append(cb, e)
			} else {
				ca = append(ca, e)
			}
		}
		pc, rem2, pd := rem.PartialContent(hclSchema(ca))
		pr, remM2 := remM.Partial(refSchema(ca))
		if rem2 == nil {
			r.fail("complement-on-remainder", "nil-remainder", "PartialContent returned a nil remaining body")
			return
		}
		if cl, d := mismatch(observe(pc, pd), pr, r.kind != "expanded"); cl != "" {
			r.fail("complement-on-remainder", cl, d+" (arguments of the complement schema "+schemaString(comp)+", partially)", tags(cl)...)
			return
		}
		if cl, d := mismatch(observe(rem2.Content(hclSchema(cb))), remM2.Content(refSchema(cb)), r.kind != "expanded"); cl != "" {
			r.fail("complement-on-remainder", cl, d+" (block types of the complement schema "+schemaString(comp)+", after its arguments)", tags(cl)...)
		}
		return
	}
	got := observe(rem.Content(hclSchema(comp)))
	if cl, d := mismatch(got, remM.Content(refSchema(comp)), r.kind != "expanded"); cl != "" {
		r.fail("complement-on-remainder", cl, d+" (complement schema "+schemaString(comp)+")", tags(cl)...)
	}
	if remT != nil {
		if cl, d := sameObs(ja, observeJust(remT), false); cl != "" {
			r.fail("justattrs-on-remainder", "one-file-merge-vs-file."+cl, "merge of one file vs the file itself: "+d)
		}
		if cl, d := sameObs(got, observe(remT.Content(hclSchema(comp))), false); cl != "" {
			r.fail("complement-on-remainder", "one-file-merge-vs-file."+cl, "merge of one file vs the file itself: "+d)
		}
	}
	// the final remainder is used again after it was processed exhaustively
	if cl, d := sameObs(ja, observeJust(rem), true); cl != "" {
		r.fail("reuse", "justattrs-again."+cl, "JustAttributes on the same remainder before and after Content: "+d)
	}
}

type sigAcc struct {
	h     uint64
	n     int
	nerrs int
}

func (s *sigAcc) add(o robs) {
	h := fnv.New64a()
	h.Write([]byte(strings.Join(o.attrs, ",")))
	var ts []string
	for t, bs := range o.blocks {
		ts = append(ts, t+":"+strings.Join(bs, " "))
	}
	sort.Strings(ts)
	h.Write([]byte(strings.Join(ts, ";")))
	if o.nerr > 0 {
		h.Write([]byte("E"))
		s.nerrs++
	}
	s.h = s.h*1099511628211 + h.Sum64()
	s.n++
}

// assignments enumerates all maps of m elements to parts 0..k-1.
func assignments(m, k int, yield func([]int) bool) bool {
	a := make([]int, m)
	for {
		if !yield(a) {
			return false
		}
		i := m - 1
		for i >= 0 {
			a[i]++
			if a[i] < k {
				break
			}
			a[i] = 0
			i--
		}
		if i < 0 {
			return true
		}
	}
}

// kindOf names the implementation a failure class is attributed to (a merged
// body's failure is re-attributed to one of its files when that file alone
// fails, see judge).
func kindOf(r Real) string {
	if strings.HasPrefix(r.Kind, "json") {
		return "json"
	}
	return r.Kind
}

// mixOf distinguishes the syntax mixes of merges in the coverage counters.
func mixOf(r Real) string {
	if r.Kind != "merged" {
		return kindOf(r)
	}
	switch {
	case !strings.Contains(r.Syntax, "j"):
		return "merged-native"
	case !strings.Contains(r.Syntax, "n"):
		return "merged-json"
	}
	return "merged-mixed"
}

// runCase checks a realisation with all schemas and splits (or the pinned one).
func runCase(d Data, kind string, content absconf.Body, real Real) (*runner, []string, int64, error) {
	body, model, texts, err := realise(content, real)
	if err != nil {
		return nil, nil, 0, err
	}
	r := &runner{kind: kind, body: body, model: model, content: content, fails: map[string]*failure{}}
	if real.Deg != nil {
		r.realTag = real.Deg.Tag()
	}
	if real.Ghost != nil {
		r.ghost = real.Ghost
		r.realTag = "dynamic-block-empty-for-each"
	}
	if r.realTag == "" && len(sharedNames(content)) > 0 {
		r.realTag = sharedNameTag
	}
	if real.Kind == "merged" && len(real.Cuts) == 1 {
		tr := Real{Kind: "native"}
		if real.Syntax == "j" {
			tr = Real{Kind: "json-compact"}
		}
		if r.twin, _, _, err = realise(content, tr); err != nil {
			return nil, nil, 0, err
		}
	}
	splits := int64(0)
	if d.Pin != nil {
		var pl []int
		if d.Pin.Parts >= 2 {
			pl = []int{d.Pin.Parts}
		}
		splits = r.schema(d.Pin.Schema, pl, d.Pin.Assign)
		return r, texts, splits, nil
	}
	pl := []int{2}
	if d.Parts == 3 {
		pl = []int{2, 3}
	}
	for i, es := range schemas(d.Names, d.MaxSchema, d.Swap) {
		if d.Chunks > 1 && i%d.Chunks != d.Chunk {
			continue
		}
		splits += r.schema(es, pl, nil)
	}
	return r, texts, splits, nil
}

// first picks the failure a case reports: a class that is not a recorded open
// finding before a recorded one; a failure of the main observations before one
// of the JustAttributes side observation; then by class name.
func (r *runner) first() *failure {
	rank := func(f *failure) string {
		k := "0"
		if knownOpen[f.class] {
			k = "1"
		}
		if strings.Contains(f.class, ".justattrs-on-remainder.") {
			k += "1"
		} else {
			k += "0"
		}
		return k + f.class
	}
	var best *failure
	for _, f := range r.fails {
		if best == nil || rank(f) < rank(best) {
			best = f
		}
	}
	return best
}

func judge(c engine.Case) engine.Outcome {
	d := c.Data.(Data)
	kind := kindOf(d.Real)
	r, texts, splits, err := runCase(d, kind, d.Content, d.Real)
	if err != nil {
		return engine.Fail("c04.harness.realisation", "%v", err)
	}
	f := r.first()
	if f != nil && d.Real.Kind == "merged" {
		// A merged body delegates to its files: if one file alone fails the same
		// schema and split, the failure belongs to that file's implementation.
		start := 0
		for i, end := range d.Real.Cuts {
			part := d.Content[start:end]
			start = end
			cr := Real{Kind: "native"}
			if d.Real.Syntax[i] == 'j' {
				cr = Real{Kind: "json-compact"}
			}
			pd := d
			pd.Pin = &Pin{Schema: f.schema, Assign: f.assign, Parts: f.parts}
			cr2, _, _, err := runCase(pd, kindOf(cr), part, cr)
			if err != nil {
				continue
			}
			if cf := cr2.first(); cf != nil {
				f = &failure{class: cf.class, detail: fmt.Sprintf("(file %d of the merge fails on its own) %s", i+1, cf.detail), schema: f.schema, assign: f.assign, parts: f.parts}
				break
			}
		}
	}
	if f != nil {
		var others []string
		for cl := range r.fails {
			if cl != f.class && !(d.Real.Kind == "merged" && strings.HasSuffix(cl, f.class[strings.Index(f.class[4:], ".")+4:])) { // (not the merged twin of a re-attributed failure)
				others = append(others, cl)
			}
		}
		sort.Strings(others)
		more := ""
		if len(others) > 0 {
			more = "\n(the case also fails in: " + strings.Join(others, ", ") + ")"
		}
		return engine.Fail(f.class, "content:\n%srealised as %s:\n%s\n%s\n(failing schema %s, split %v)%s", absconf.Native(d.Content), d.Real, strings.Join(texts, "\n--- next file ---\n"), f.detail, schemaString(f.schema), f.assign, more)
	}
	counters.Add("schema_splits", splits)
	counters.Add("splits_"+mixOf(d.Real), splits)
	if len(d.Content) == 0 {
		return engine.Pass(fmt.Sprintf("%s|empty|%d", d.Real, r.sig.n))
	}
	return engine.Pass(fmt.Sprintf("%s|%s|%d|%x|%d/%d", d.Real, strings.ReplaceAll(absconf.Native(d.Content), "\n", ";"), d.Chunk, r.sig.h, r.sig.nerrs, r.sig.n))
}

// ---------------------------------------------------------------- generator

// item alphabet of logical contents: attributes a,b(,c) and blocks x,y with
// 0..2 labels; the value of attribute i is 10+i, the body of block i is
// `id = 20+i` (so every item is identifiable), labels alternate k/m.
type alt struct {
	attr   string
	block  string
	labels int
}

func mkItem(a alt, pos int) absconf.Item {
	if a.attr != "" {
		return absconf.A(a.attr, absconf.Num(fmt.Sprint(10+pos)))
	}
	var ls []string
	for l := 0; l < a.labels; l++ {
		if (pos+l)%2 == 0 {
			ls = append(ls, "k")
		} else {
			ls = append(ls, "m")
		}
	}
	return absconf.B(a.block, ls, absconf.A("id", absconf.Num(fmt.Sprint(20+pos))))
}

func contents(alpha []alt, maxLen int, yield func(absconf.Body) bool) {
	for n := 0; n <= maxLen; n++ {
		idx := make([]int, n)
		for {
			var b absconf.Body
			for i, k := range idx {
				b = append(b, mkItem(alpha[k], i))
			}
			if !yield(b) {
				return
			}
			i := n - 1
			for i >= 0 {
				idx[i]++
				if idx[i] < len(alpha) {
					break
				}
				idx[i] = 0
				i--
			}
			if i < 0 {
				break
			}
		}
	}
}

func dupAttr(b absconf.Body) bool {
	seen := map[string]bool{}
	for _, it := range b {
		if it.IsAttr() {
			if seen[it.Attr] {
				return true
			}
			seen[it.Attr] = true
		}
	}
	return false
}

// mixedArity: blocks of one type with different label counts (JSON cannot
// express that under any single schema).
func mixedArity(b absconf.Body) bool {
	ar := map[string]int{}
	for _, it := range b {
		if it.IsAttr() {
			continue
		}
		if n, ok := ar[it.Block]; ok && n != len(it.Labels) {
			return true
		}
		ar[it.Block] = len(it.Labels)
	}
	return false
}

func realisations(content absconf.Body, thorough bool) []Real {
	var out []Real
	n := len(content)
	if !dupAttr(content) {
		out = append(out, Real{Kind: "native"})
		if !mixedArity(content) {
			out = append(out, Real{Kind: "json-compact"}, Real{Kind: "json-arrays"})
		}
		_, nruns := blockRuns(content)
		out = append(out, Real{Kind: "expanded", Dynamic: make([]bool, nruns)})
		if nruns > 0 {
			if thorough {
				for mask := 1; mask < 1<<nruns; mask++ {
					dyn := make([]bool, nruns)
					for r := 0; r < nruns; r++ {
						dyn[r] = mask&(1<<r) != 0
					}
					out = append(out, Real{Kind: "expanded", Dynamic: dyn})
				}
			} else {
				dyn := make([]bool, nruns)
				for r := range dyn {
					dyn[r] = true
				}
				out = append(out, Real{Kind: "expanded", Dynamic: dyn})
				if nruns > 1 {
					dyn2 := make([]bool, nruns)
					dyn2[0] = true
					out = append(out, Real{Kind: "expanded", Dynamic: dyn2})
				}
			}
		}
	}
	// merged: one file (hcl.MergeBodies of a single body), and the content cut into 2 and into 3
	// consecutive files in every way (empty files included), every file native or JSON. Quick keeps
	// the three-file merges of three-item contents to all-native files (every cut) and native/JSON/native
	// (one item per file).
	for _, k := range []int{1, 2, 3} {
		var cutsets [][]int
		var rec func(start int, cur []int)
		rec = func(start int, cur []int) {
			if len(cur) == k-1 {
				cutsets = append(cutsets, append(append([]int(nil), cur...), n))
				return
			}
			for c := start; c <= n; c++ {
				rec(c, append(cur, c))
			}
		}
		rec(0, nil)
		for _, cuts := range cutsets {
			// each file must be expressible: unique attribute names, uniform label counts for JSON
			start := 0
			okN, okJ := make([]bool, k), make([]bool, k)
			for i, end := range cuts {
				part := content[start:end]
				start = end
				okN[i] = !dupAttr(part)
				okJ[i] = okN[i] && !mixedArity(part)
			}
			for mask := 0; mask < 1<<k; mask++ {
				syn := make([]byte, k)
				valid := true
				for i := 0; i < k; i++ {
					if mask&(1<<i) != 0 {
						syn[i] = 'j'
						valid = valid && okJ[i]
					} else {
						syn[i] = 'n'
						valid = valid && okN[i]
					}
				}
				if k == 3 && !thorough && n >= 3 && string(syn) != "nnn" && !(string(syn) == "njn" && cuts[0] == 1 && cuts[1] == 2) {
					continue
				}
				if valid {
					out = append(out, Real{Kind: "merged", Cuts: cuts, Syntax: string(syn)})
				}
			}
		}
	}
	// JSON "zero blocks" encodings (appended so that the identifiers of the cases above stay stable)
	if !dupAttr(content) && !mixedArity(content) {
		out = append(out, degenerateRealisations(content, thorough)...)
	}
	// expanded bodies with one dynamic block that generates nothing (appended last: identifiers above stay stable)
	if !dupAttr(content) {
		out = append(out, ghostRealisations(content, thorough)...)
	}
	return out
}

// ghostRealisations: dynblock-expanded bodies with ONE extra `dynamic "T"` block whose for_each is an empty
// collection. T ranges over the block types x and y of the schema alphabet, so the block stands alone
// (no other block of its type), or before / between / after static and generated blocks of its type.
// Label expressions: as many as the blocks of type T in the content have (every label count that occurs);
// for a type without blocks in the content 0 and 1 (quick, contents of 2 items: 0) -- schemas ask for the
// type with 0, 1 and 2 labels, where the count differs the type is unspecified for that schema (refbody.Ghost).
//
// quick: contents of <= 2 items; the other blocks all static and all runs dynamic; `for_each = []` at every
// physical position and `for_each = {}` at the end.
// thorough: contents of <= 2 items: label counts 0..2 for absent types, every subset of runs dynamic, both
// forms at every position; contents of 3 items: the quick selection. (Quick schema space, thorough: splits into 3.)
func ghostRealisations(content absconf.Body, thorough bool) []Real {
	full := thorough && len(content) <= 2
	if len(content) > 2 && !thorough {
		return nil
	}
	_, nruns := blockRuns(content)
	var dyns [][]bool
	dyns = append(dyns, make([]bool, nruns))
	if full {
		for mask := 1; mask < 1<<nruns; mask++ {
			dyn := make([]bool, nruns)
			for r := range dyn {
				dyn[r] = mask&(1<<r) != 0
			}
			dyns = append(dyns, dyn)
		}
	} else if nruns > 0 {
		dyn := make([]bool, nruns)
		for r := range dyn {
			dyn[r] = true
		}
		dyns = append(dyns, dyn)
	}
	var out []Real
	for _, typ := range []string{"x", "y"} {
		var arities []int
		has := map[int]bool{}
		for _, it := range content {
			if !it.IsAttr() && it.Block == typ && !has[len(it.Labels)] {
				has[len(it.Labels)] = true
				arities = append(arities, len(it.Labels))
			}
		}
		sort.Ints(arities)
		switch {
		case len(arities) > 0 && !full:
		case full:
			arities = []int{0, 1, 2}
		case len(content) <= 1:
			arities = []int{0, 1}
		default:
			arities = []int{0}
		}
		for _, labels := range arities {
			for _, dyn := range dyns {
				for pos := 0; pos <= len(content); pos++ {
					if !ghostFits(content, dyn, pos) {
						continue
					}
					out = append(out, Real{Kind: "expanded", Dynamic: dyn, Ghost: &Ghost{Type: typ, Labels: labels, Pos: pos, Form: "list"}})
					if full || pos == len(content) {
						out = append(out, Real{Kind: "expanded", Dynamic: dyn, Ghost: &Ghost{Type: typ, Labels: labels, Pos: pos, Form: "map"}})
					}
				}
			}
		}
	}
	return out
}

// degenerateRealisations: the two fixed JSON encodings with one "zero blocks" insertion each
// (absconf/degenerate.go), and the compact encoding as the body of a wrapper block.
//
// quick: contents of <= 2 items; every form for the types x and y at the end of the top-level body and
// the forms null / [] at every other position of it (array-form top-level body: as new elements, plus the
// empty object as a new element); at every label level of every block property every level form under the
// label k at the end and null / [] at every other position, and the empty object at every position of an
// array-form label level. Contents of <= 1 item also as the body of a wrapper block (block, block-array,
// labelled), plain and with the body-level insertions.
// thorough: labels k and z; contents of <= 2 items: every form at every position (also inside the element
// objects of an array-form top-level body); contents of 3 items: the quick selection of forms and positions;
// wrapper blocks for contents of <= 2 items. (These cases use the quick schema space, with splits into 3.)
func degenerateRealisations(content absconf.Body, thorough bool) []Real {
	maxLen, maxWrap := 2, 1
	opt := absconf.DegOptions{Types: []string{"x", "y"}, Labels: []string{"k"}, Arity: absconf.BlockArity(content)}
	if thorough {
		maxLen, maxWrap = 3, 2
		opt.Labels, opt.Full = []string{"k", "z"}, len(content) <= 2
	}
	var out []Real
	if len(content) > maxLen {
		return nil
	}
	for _, kind := range []string{"json-compact", "json-arrays"} {
		enc := absconf.Compact(content)
		if kind == "json-arrays" {
			enc = absconf.ArrayHeavy(content)
		}
		absconf.Degenerates(enc.Doc, opt, func(d absconf.Degenerate) bool {
			out = append(out, Real{Kind: kind, Deg: &d})
			return true
		})
	}
	if len(content) <= maxWrap {
		for _, wrap := range []string{"block", "block-array", "labelled"} {
			out = append(out, Real{Kind: "json-compact", Wrap: wrap})
			absconf.Degenerates(absconf.Compact(content).Doc, opt, func(d absconf.Degenerate) bool {
				if d.Site == "body-object" && len(d.Path) == 0 {
					out = append(out, Real{Kind: "json-compact", Deg: &d, Wrap: wrap})
				}
				return true
			})
		}
	}
	return out
}

func gen(tier string, emit func(engine.Case) bool) {
	thorough := tier == "thorough"
	alpha := []alt{{attr: "a"}, {attr: "b"}, {block: "x"}, {block: "x", labels: 1}, {block: "x", labels: 2}, {block: "y"}}
	names, maxSchema, parts, maxLen := "abxy", 3, 2, 3
	if thorough {
		alpha = []alt{{attr: "a"}, {attr: "b"}, {block: "x"}, {block: "x", labels: 1}, {block: "x", labels: 2}, {block: "y"}, {block: "y", labels: 1}}
		names, maxSchema, parts = "abxyz", 4, 3
	}
	n := 0
	stopped := false
	defer func() {
		if !stopped {
			genShared(thorough, emit)
		}
	}()
	contents(alpha, maxLen, func(b absconf.Body) bool {
		n++
		for ri, r := range realisations(b, thorough) {
			d := Data{Content: b, Real: r, Names: names, MaxSchema: maxSchema, Parts: parts, Swap: thorough}
			if (r.Kind == "merged" && len(r.Cuts) == 3) || r.Deg != nil || r.Wrap != "" || r.Ghost != nil {
				// merges of three files, JSON zero-blocks encodings and wrapper blocks: the smaller schema space
				d.Names, d.MaxSchema, d.Swap = "abxy", 3, false
			}
			chunks := 1
			if thorough && d.MaxSchema > 3 {
				chunks = 16 // keep thorough cases small (about 1500 splits each)
			}
			for ch := 0; ch < chunks; ch++ {
				d.Chunk, d.Chunks = ch, chunks
				if !emit(engine.Case{ID: fmt.Sprintf("%d/%04d/%02d-%s/%02d", len(b), n, ri, r.Kind, ch), Data: d}) {
					stopped = true
					return false
				}
			}
		}
		return true
	})
}

// genShared: the *shared name* family (emitted after the contents above, whose identifiers stay as they were).
// Contents: every sequence of <= 3 items over {s =, s {}, s "l" {}, a =, x {}} (thorough: + x "l" {}) that holds
// the argument s AND at least one block of type s -- in the native syntax the argument and block namespaces are
// separate, so these are different items that share a name. Realised as every body kind like any other content
// (native; both JSON encodings, where the document has two properties named s and the schema alone decides what
// they are; dynblock-expanded, static and with the s blocks generated; merges of 1 and 2 files, every cut and every
// syntax mix, so that the argument and the blocks sit in one file or in different files; thorough: 3 files, contents
// of 3 items all-native in every cut and native/JSON/native with one item per file), without
// the JSON zero-blocks and empty-dynamic-block insertions. Sequences that define the argument twice: merges only.
// Schemas: all over the slots s (the name as optional / required attribute), S (the name as block type with 0 or 1
// labels), a, x with <= 3 elements (thorough: 4) -- so the name is requested as an attribute only, as a
// block type only, or as both; every ordered split puts the two requests into different parts in both orders, or
// into the same part. spec.md calls a single schema that requests a name in both kinds an error, so a part (or the
// one-step union) of that shape is executed but not compared (invalidSchema); all other steps are compared with the
// reference as usual, and the complement schema of the final remainder counts the argument and the blocks separately.
func genShared(thorough bool, emit func(engine.Case) bool) {
	alpha := []alt{{attr: "s"}, {block: "s"}, {block: "s", labels: 1}, {attr: "a"}, {block: "x"}}
	names, maxSchema, parts := "sSax", 3, 2
	if thorough {
		alpha = append(alpha, alt{block: "x", labels: 1})
		maxSchema, parts = 4, 3
	}
	n := 0
	contents(alpha, 3, func(b absconf.Body) bool {
		if len(sharedNames(b)) == 0 {
			return true
		}
		n++
		ri := 0
		// (the quick selection of realisations in both tiers; thorough adds the merges of 3 files of that selection)
		for _, r := range realisations(b, false) {
			if r.Deg != nil || r.Wrap != "" || r.Ghost != nil || (!thorough && r.Kind == "merged" && len(r.Cuts) == 3) {
				continue
			}
			d := Data{Content: b, Real: r, Names: names, MaxSchema: maxSchema, Parts: parts}
			if !emit(engine.Case{ID: fmt.Sprintf("shared-name/%d/%04d/%02d-%s/00", len(b), n, ri, r.Kind), Data: d}) {
				return false
			}
			ri++
		}
		return true
	})
}

// ---------------------------------------------------------------- shrink

func shrink(c engine.Case) (out []engine.Case) {
	defer func() { recover() }() // never let a panic of the code under test escape from shrinking
	d := c.Data.(Data)
	if d.Pin == nil {
		// pin the schema and split of the failure the case reports
		r, _, _, err := runCase(d, kindOf(d.Real), d.Content, d.Real)
		if err != nil {
			return nil
		}
		var cands []*failure
		if f := r.first(); f != nil {
			cands = append(cands, f)
		}
		for _, f := range r.fails {
			cands = append(cands, f)
		}
		for _, f := range cands {
			nd := d
			nd.Pin = &Pin{Schema: f.schema, Assign: f.assign, Parts: f.parts}
			out = append(out, engine.Case{ID: c.ID + "~", Data: nd})
		}
		return out
	}
	// pinned: drop schema elements, then content items (merged / expanded layouts are kept where possible)
	for i := range d.Pin.Schema {
		nd := d
		p := *d.Pin
		p.Schema = append(append([]Elem(nil), d.Pin.Schema[:i]...), d.Pin.Schema[i+1:]...)
		if len(d.Pin.Assign) == len(d.Pin.Schema) {
			p.Assign = append(append([]int(nil), d.Pin.Assign[:i]...), d.Pin.Assign[i+1:]...)
		}
		nd.Pin = &p
		out = append(out, engine.Case{ID: c.ID + "s", Data: nd})
	}
	for i := range d.Content {
		nd := d
		nd.Content = append(append(absconf.Body{}, d.Content[:i]...), d.Content[i+1:]...)
		switch d.Real.Kind {
		case "merged":
			cuts := append([]int(nil), d.Real.Cuts...)
			for j := range cuts {
				if cuts[j] > i {
					cuts[j]--
				}
			}
			nd.Real.Cuts = cuts
		case "expanded":
			_, nruns := blockRuns(nd.Content)
			dyn := make([]bool, nruns)
			all := true
			for _, b := range d.Real.Dynamic {
				all = all && b
			}
			any := false
			for _, b := range d.Real.Dynamic {
				any = any || b
			}
			if any && !all {
				continue
			}
			for r := range dyn {
				dyn[r] = all && any
			}
			nd.Real.Dynamic = dyn
			if g := d.Real.Ghost; g != nil {
				ng := *g
				if ng.Pos > i {
					ng.Pos--
				}
				if !ghostFits(nd.Content, dyn, ng.Pos) {
					continue
				}
				nd.Real.Ghost = &ng
			}
		}
		if d.Real.Deg != nil {
			// the same kind of insertion (site, name, form) at any place of the smaller document
			for _, alt := range degenerateRealisations(nd.Content, true) {
				if alt.Kind == d.Real.Kind && alt.Wrap == d.Real.Wrap && alt.Deg != nil && alt.Deg.Site == d.Real.Deg.Site && alt.Deg.Name == d.Real.Deg.Name && alt.Deg.Form == d.Real.Deg.Form {
					ad := nd
					ad.Real = alt
					out = append(out, engine.Case{ID: c.ID + "c", Data: ad})
				}
			}
			continue
		}
		out = append(out, engine.Case{ID: c.ID + "c", Data: nd})
	}
	return out
}

func countMode(tier string) {
	var cases, splits int64
	per := map[string]int64{}
	gen(tier, func(c engine.Case) bool {
		d := c.Data.(Data)
		key := fmt.Sprint(d.Names, d.MaxSchema, d.Parts, d.Swap)
		if _, ok := per[key]; !ok {
			n := int64(0)
			for _, es := range schemas(d.Names, d.MaxSchema, d.Swap) {
				m := len(es)
				n += 1 << m
				if d.Parts == 3 {
					// onto maps to 3 parts: 3^m - 3*2^m + 3
					p3 := int64(1)
					for i := 0; i < m; i++ {
						p3 *= 3
					}
					if m >= 3 {
						n += p3 - 3*(1<<m) + 3
					}
				}
			}
			per[key] = n
			fmt.Println("schemas", len(schemas(d.Names, d.MaxSchema, d.Swap)), "splits per case", n)
		}
		cases++
		if d.Chunks > 1 {
			splits += per[key] / int64(d.Chunks)
		} else {
			splits += per[key]
		}
		k := d.Real.Kind
		if k == "merged" {
			k = fmt.Sprintf("merged%d", len(d.Real.Cuts))
		}
		if d.Real.Ghost != nil {
			k = "expanded+empty-dynamic"
		}
		if len(sharedNames(d.Content)) > 0 {
			k = "shared-name " + k
		}
		per["cases "+k]++
		return true
	})
	fmt.Println("cases", cases, "splits", splits, per)
}

func main() {
	if len(os.Args) > 2 && os.Args[1] == "count" {
		countMode(os.Args[2])
		return
	}
	debug.SetGCPercent(800) // the cases allocate many tiny short-lived objects; the live heap is a few MB
	engine.Main(&engine.Check{
		ID:        "C04",
		Title:     "Schema-driven body processing accounts for every item exactly once",
		Technique: "bounded exhaustive enumeration of logical contents x Body implementations x schemas x ordered schema splits; every Content / PartialContent / JustAttributes result compared with a set/sequence reference model, two-step vs one-step compared directly",
		Rule: "logical contents: every sequence of <= 3 items over {a=, b=, x{}, x \"l\"{}, x \"l\" \"l\"{}, y{}} (thorough: + y \"l\"{}), each item identifiable (attribute value 10+i, block body `id = 20+i`, labels alternate k/m); sequences with a repeated attribute name only as merges that put the definitions in different files; blocks of one type with different label counts not as JSON. " +
			"Realised as: native; JSON compact (one object, adjacent blocks joined) and JSON array-heavy (arrays at every level); JSON 'zero blocks' encodings (contents of <= 2 items, thorough <= 3): each of those two documents with ONE insertion of a property for the block type x or y whose value holds no block body -- null, [], {}, [{}], {\"k\": null}, {\"k\": []}, {\"k\": {}}, {\"k\": {\"m\": null}}, {\"k\": {\"m\": []}} at the end of the top-level body and null / [] at every other property position (array-form body: as a new element at every position, and the empty object {} as a new element at every position), so alone, before, between and after real blocks of the same type (repeated property names); and at every label level of every block property a label k with null, [], {}, {\"k\": null}, {\"k\": []} (as far as levels remain) at the end and null / [] at every other position, and {} at every position of an array-form label level (thorough: every form at every position, labels k and z); contents of <= 1 item (thorough <= 2) also one nesting level down, as the body of a block w of a wrapper file ({\"w\": DOC}, {\"w\": [{}, DOC]}, {\"w\": {\"k\": DOC}}), plain and with the body-level insertions; dynblock.Expand of the native body with all blocks static, with every maximal run of same-type blocks written as one dynamic block with a constant for_each, and with only the first run dynamic (thorough: every subset of runs); the expanded body (contents of <= 2 items, thorough <= 3; other blocks all static / all runs dynamic, thorough: every subset) with ONE extra dynamic block of type x or y whose for_each is an empty collection ([] before every physical item and at the end, {} at the end; thorough: both everywhere), written with a content block and with as many label expressions as the blocks of that type in the content have, for a type without blocks 0 and 1 (thorough 0..2) -- a block that generates nothing, alone of its type or before / between / after static and generated blocks of its type; hcl.MergeBodies of ONE file (native or JSON; every step is also run on the file itself and must give the same observation), of the content cut into 2 consecutive files in every way incl. empty files with every file native or JSON, and cut into 3 consecutive files in every way (contents of <= 2 items: every syntax mix; 3 items: all-native for every cut and native/JSON/native with one item per file; thorough: every mix), so that files that contribute nothing to a step occur at every position. " +
			"Shared-name family (after the contents above): every sequence of <= 3 items over {s=, s{}, s \"l\"{}, a=, x{}} (thorough: + x \"l\"{}) that holds the argument s AND a block of type s (one name in both namespaces of the native syntax), realised as native, both JSON encodings (two properties named s; the schema decides what they are), expanded (static / s blocks generated), merges of 1 and 2 files in every cut and syntax mix (thorough: 3 files), x ALL schemas with <= 3 (thorough 4) elements over the slots 's as optional/required attribute', 's as block type with 0 or 1 labels', a, x -- the name requested in one kind, in the other, or in both -- x every ordered split, so the two requests fall into different parts in both orders or into one part; a part (or one-step union) that requests the name in both kinds is an erroneous schema by spec.md and is executed without comparison, the other steps are compared as usual and the complement of the final remainder counts the argument and the blocks separately (if it would need both kinds: arguments partially, then block types exhaustively). " +
			"x ALL schemas over the names a,b,x,y with <= 3 elements (attribute optional/required; block type with 0, 1 or 2 labels; names absent from a content play the part of unknown names) -- thorough: over a,b,x,y,z with <= 4 elements, z (never present) as optional/required attribute or block type, plus the kind swaps 'a requested as a block type' and 'x requested as an attribute' (merges of 3 files: the quick schema space) " +
			"x EVERY ordered assignment of the schema elements to 2 parts, empty parts included (thorough: also every assignment onto 3 non-empty parts). Per schema: Content(schema). Per split: PartialContent(part 1) [, PartialContent(part 2)] and then on the remainder both Content(last part) and PartialContent(last part) followed, on the final remainder, by JustAttributes and by Content(complement schema = every name of the content outside the schema with its own kind and label count). Bodies are reused: the source body serves all schemas and splits of a case; every remainder is processed partially, exhaustively, partially again and exhaustively again with the same schema, and the final remainder answers JustAttributes before and after its exhaustive processing -- repeated calls must give identical observations (incl. the number of errors). " +
			"Every result is compared with ref/refbody (L1-L3): attribute names and values, per-type block sequences with labels and block identity, error presence, number of errors >= number of erroneous items (not for expanded bodies, where one dynamic block stands for several items); the union of the steps is compared with the single step directly (L4); all implementations are held to the same reference on the same logical content (L5). A case = (content, realisation[, schema chunk]) and covers all its schemas and splits; the check keeps going after a failure and reports per case the failure class that is not yet a recorded finding.",
		Assumptions: []string{
			"the reference model ref/refbody is the specification's reading of spec.md 'Schema-driven Processing' / 'Partial Processing of Body Content' / 'Dynamic Attributes Processing' and json/spec.md 'Structural Elements'; where those are silent (label-count mismatch content, duplicate attribute content, null / empty label levels in JSON) the model marks the affected names unspecified and only error presence is compared",
			"a JSON property named after a requested block type is 'a definition of zero or more blocks of that type' whatever its value (json/spec.md), so it is consumed by the step that requests the type: where the value's meaning is not specified (null, an empty label level) that step's own result is not compared, but the property is absent from the remaining body and every later step is compared as usual; [] below the label levels is specified as zero blocks and compared in every step",
			"a dynamic block whose for_each collection is empty denotes no block: the logical content is the content without it, and the step that requests its type consumes it (returns nothing for it, it is gone from the remaining body); not compared: the type's part of a step whose label count differs from the number of label expressions written, and whether an exhaustive / dynamic-attributes step that still finds the block (its type was never requested) reports an error for it",
			"spec.md: 'Within a schema, it is an error to request ... a block type whose name is also an attribute name': the result of a step with such a schema (and the remaining body it leaves) is not compared; two proper schemas that request one name as an attribute and as a block type in different steps are each defined: in a syntax with separate namespaces (native, expanded) the argument and the blocks are different items, each selected by the request of its kind only and otherwise left in the remaining body; in JSON a property is whatever the first schema that names it says (json/spec.md), and it is then gone from the remaining body",
			"expression evaluation of number literals and of the dynblock iterator object is trusted (used to identify attributes and blocks)",
		},
		Gen:    gen,
		Judge:  judge,
		Load:   engine.LoadAs[Data],
		Shrink: shrink,
		Extra: func() map[string]any {
			m := map[string]any{"reference_l4_disagreements": 0}
			for k, v := range counters.Snapshot() {
				m[k] = v
			}
			return m
		},
		QuickBudget:    4 * time.Minute,
		ThoroughBudget: 40 * time.Minute,
	})
}
