package main

import (
	"fmt"
	"strings"

	"github.com/hashicorp/hcl/v2"
	"github.com/hashicorp/hcl/v2/hclsyntax"
	hcljson "github.com/hashicorp/hcl/v2/json"
	"github.com/zclconf/go-cty/cty"
	"github.com/zclconf/go-cty/cty/convert"
	"github.com/zclconf/go-cty/cty/function"

	"verif/engine"
	"verif/vfmt"
)

// ---------------------------------------------------------------------------
// pools

// element / argument expressions, native syntax
var nativeElems = []string{`1`, `"s"`, `true`, `null`, `v`, `w.a`, `[1, v]`, `{a = 1}`, `id(k)`, `"x${k}"`, `u`, `m`, `nope`, `(for)`}

// object constructor key forms, native syntax. Bare identifiers are literal
// attribute names (hclsyntax/spec.md "Collection Values").
var nativeKeys = []string{`a`, `b-c`, `"q"`, `(k)`, `"x${k}"`, `true`, `null`, `1`, `if`, `k`, `for`, `w.a`, `(w.a)`, `(null)`, `(v)`, `(u)`, `null.a`, `true.b.c`, `w.a["b"]`}
var nativeVals = []string{`1`, `"s"`, `v`, `[1]`, `u`, `nope`, `m`}

var bareIdent = map[string]bool{`a`: true, `b-c`: true, `true`: true, `null`: true, `if`: true, `k`: true, `for`: true}

var callNames = []string{"id", "pair", "cat", "str", "ns::f", "nofn"}

// JSON syntax
var jsonElems = []string{`1`, `"s"`, `true`, `null`, `"${v}"`, `"x${w.a}"`, `[1,"${k}"]`, `{"a":1}`, `"${u}"`, `"${m}"`, `"${nope}"`, `"${id(k)}"`}
var jsonKeys = []string{`a`, `b-c`, `${k}`, `x${k}`, `for`, `1`, `${nope}`, `${null}`, `${v}`, `${u}`}
var jsonVals = []string{`1`, `"s"`, `"${v}"`, `[1]`, `"${u}"`, `"${nope}"`}

func newStaticCtx() *hcl.EvalContext {
	dyn := func(name string, lenient bool) function.Parameter {
		return function.Parameter{Name: name, Type: cty.DynamicPseudoType, AllowNull: true, AllowUnknown: lenient, AllowDynamicType: lenient, AllowMarked: lenient}
	}
	vp := dyn("xs", true)
	return &hcl.EvalContext{
		Variables: map[string]cty.Value{
			"v":   cty.ObjectVal(map[string]cty.Value{"a": cty.StringVal("va"), "b": cty.ListVal([]cty.Value{cty.NumberIntVal(1), cty.NumberIntVal(2)})}),
			"w":   cty.ObjectVal(map[string]cty.Value{"a": cty.StringVal("wa")}),
			"k":   cty.StringVal("kk"),
			"u":   cty.UnknownVal(cty.String),
			"m":   cty.StringVal("mm").Mark("secret"),
			"l":   cty.ListVal([]cty.Value{cty.StringVal("x"), cty.StringVal("y")}),
			"for": cty.StringVal("FOR"),
		},
		Functions: map[string]function.Function{
			"id": function.New(&function.Spec{
				Params: []function.Parameter{dyn("x", true)},
				Type:   func(args []cty.Value) (cty.Type, error) { return args[0].Type(), nil },
				Impl:   func(args []cty.Value, _ cty.Type) (cty.Value, error) { return args[0], nil },
			}),
			"pair": function.New(&function.Spec{
				Params: []function.Parameter{dyn("a", false), dyn("b", false)},
				Type: func(args []cty.Value) (cty.Type, error) {
					return cty.Tuple([]cty.Type{args[0].Type(), args[1].Type()}), nil
				},
				Impl: func(args []cty.Value, _ cty.Type) (cty.Value, error) { return cty.TupleVal(args), nil },
			}),
			"cat": function.New(&function.Spec{
				VarParam: &vp,
				Type: func(args []cty.Value) (cty.Type, error) {
					tys := make([]cty.Type, len(args))
					for i, a := range args {
						tys[i] = a.Type()
					}
					return cty.Tuple(tys), nil
				},
				Impl: func(args []cty.Value, _ cty.Type) (cty.Value, error) {
					if len(args) == 0 {
						return cty.EmptyTupleVal, nil
					}
					return cty.TupleVal(args), nil
				},
			}),
			"str": function.New(&function.Spec{
				Params: []function.Parameter{{Name: "s", Type: cty.String}},
				Type:   function.StaticReturnType(cty.String),
				Impl: func(args []cty.Value, _ cty.Type) (cty.Value, error) {
					return cty.StringVal("<" + args[0].AsString() + ">"), nil
				},
			}),
			"ns::f": function.New(&function.Spec{
				Params: []function.Parameter{dyn("x", true)},
				Type:   func(args []cty.Value) (cty.Type, error) { return cty.Tuple([]cty.Type{args[0].Type()}), nil },
				Impl:   func(args []cty.Value, _ cty.Type) (cty.Value, error) { return cty.TupleVal(args), nil },
			}),
		},
	}
}

// ---------------------------------------------------------------------------
// rendering

func renderStatic(d Data) string {
	n := len(d.Elems)
	var sb strings.Builder
	switch d.Fam + "/" + d.Syntax {
	case "list/native":
		switch d.Layout {
		case 0:
			sb.WriteString("[" + strings.Join(d.Elems, ", ") + "]")
		case 1:
			sb.WriteString("[" + strings.Join(d.Elems, ", "))
			if n > 0 {
				sb.WriteString(",")
			}
			sb.WriteString("]")
		default:
			sb.WriteString("[\n")
			for i, e := range d.Elems {
				sb.WriteString("  " + e)
				if i < n-1 {
					sb.WriteString(",")
				}
				sb.WriteString("\n")
			}
			sb.WriteString("]")
		}
	case "list/json":
		if d.Layout == 0 {
			sb.WriteString("[" + strings.Join(d.Elems, ",") + "]")
		} else {
			sb.WriteString(" [ " + strings.Join(d.Elems, " ,\n ") + " ]\n")
		}
	case "map/native":
		switch d.Layout {
		case 0:
			sb.WriteString("{")
			for i := range d.Elems {
				if i > 0 {
					sb.WriteString(", ")
				}
				sb.WriteString(d.Keys[i] + " = " + d.Elems[i])
			}
			sb.WriteString("}")
		case 1:
			sb.WriteString("{\n")
			for i := range d.Elems {
				sb.WriteString("  " + d.Keys[i] + ": " + d.Elems[i] + "\n")
			}
			sb.WriteString("}")
		default:
			sb.WriteString("{\n")
			for i := range d.Elems {
				sb.WriteString("  " + d.Keys[i] + " = " + d.Elems[i] + ",\n")
			}
			sb.WriteString("}")
		}
	case "map/json":
		sep, colon := ",", ":"
		if d.Layout != 0 {
			sep, colon = " ,\n ", " : "
		}
		sb.WriteString("{")
		for i := range d.Elems {
			if i > 0 {
				sb.WriteString(sep)
			}
			sb.Write(jsonQuote(d.Keys[i], false))
			sb.WriteString(colon + d.Elems[i])
		}
		sb.WriteString("}")
	case "call/native", "call/json":
		ell := ""
		if d.Expand {
			ell = "..."
		}
		if d.Layout == 0 || d.Expand {
			sb.WriteString(d.Name + "(" + strings.Join(d.Elems, ", ") + ell + ")")
		} else {
			sb.WriteString(d.Name + "(\n")
			for _, e := range d.Elems {
				sb.WriteString("  " + e + ",\n")
			}
			sb.WriteString(")")
		}
		if d.Syntax == "json" {
			return string(jsonQuote(sb.String(), false))
		}
	}
	return sb.String()
}

func mkStatic(d Data) engine.Case {
	d.Elems = append([]string{}, d.Elems...)
	d.Keys = append([]string{}, d.Keys...)
	d.Text = renderStatic(d)
	return engine.Case{ID: fmt.Sprintf("%s|%s|%d|%s", d.Fam, d.Syntax, d.Layout, d.Text), Data: d}
}

func genStatic(n int, thorough bool, emit func(engine.Case) bool) bool {
	maxElems, maxPairs, maxJSONArgs := 3, 2, 2
	if thorough {
		maxElems, maxPairs, maxJSONArgs = 4, 3, 3
	}
	if n <= maxElems {
		ok := seqs(nativeElems, n, func(el []string) bool {
			for layout := 0; layout < 3; layout++ {
				if !emit(mkStatic(Data{Fam: "list", Syntax: "native", Elems: el, Layout: layout})) {
					return false
				}
			}
			for _, name := range callNames {
				for layout := 0; layout < 2; layout++ {
					if !emit(mkStatic(Data{Fam: "call", Syntax: "native", Name: name, Elems: el, Layout: layout})) {
						return false
					}
				}
				if n <= maxJSONArgs {
					if !emit(mkStatic(Data{Fam: "call", Syntax: "json", Name: name, Elems: el})) {
						return false
					}
				}
			}
			return true
		}) && seqs(jsonElems, n, func(el []string) bool {
			for layout := 0; layout < 2; layout++ {
				if !emit(mkStatic(Data{Fam: "list", Syntax: "json", Elems: el, Layout: layout})) {
					return false
				}
			}
			return true
		})
		if !ok {
			return false
		}
		// expansion of the final argument: the static call has no way to say
		// so; enumerated to show the static view is still obtained.
		if n >= 1 && n <= 2 {
			exp := []string{`l`, `[1, "s"]`, `v.b`, `null`, `u`}
			ok := seqs(nativeElems[:4], n-1, func(el []string) bool {
				for _, last := range exp {
					for _, name := range []string{"cat", "pair", "id"} {
						args := append(append([]string{}, el...), last)
						if !emit(mkStatic(Data{Fam: "call", Syntax: "native", Name: name, Elems: args, Expand: true})) {
							return false
						}
					}
				}
				return true
			})
			if !ok {
				return false
			}
		}
	}
	if n <= maxPairs {
		pairs := func(keys, vals []string, syntax string, layouts int) bool {
			var all [][2]string
			for _, k := range keys {
				for _, v := range vals {
					all = append(all, [2]string{k, v})
				}
			}
			idx := make([]string, len(all))
			for i := range all {
				idx[i] = fmt.Sprint(i)
			}
			return seqs(idx, n, func(sel []string) bool {
				ks := make([]string, n)
				vs := make([]string, n)
				for i, s := range sel {
					var j int
					fmt.Sscan(s, &j)
					ks[i], vs[i] = all[j][0], all[j][1]
				}
				for layout := 0; layout < layouts; layout++ {
					if !emit(mkStatic(Data{Fam: "map", Syntax: syntax, Keys: ks, Elems: vs, Layout: layout})) {
						return false
					}
				}
				return true
			})
		}
		if !pairs(nativeKeys, nativeVals, "native", 3) {
			return false
		}
		if !pairs(jsonKeys, jsonVals, "json", 2) {
			return false
		}
	}
	return true
}

// ---------------------------------------------------------------------------
// oracles

func parseStatic(d Data) (hcl.Expression, hcl.Diagnostics, string) {
	text := renderStatic(d)
	if d.Syntax == "json" {
		e, diags := hcljson.ParseExpression([]byte(text), "t.json")
		return e, diags, text
	}
	e, diags := hclsyntax.ParseExpression([]byte(text), "t.hcl", hcl.InitialPos)
	return e, diags, text
}

func evalAll(exprs []hcl.Expression, ctx *hcl.EvalContext) ([]cty.Value, bool, string) {
	vals := make([]cty.Value, len(exprs))
	anyErr := false
	why := ""
	for i, x := range exprs {
		v, diags := x.Value(ctx)
		vals[i] = v
		if diags.HasErrors() {
			anyErr = true
			if why == "" {
				why = fmt.Sprintf("part %d: %s", i, diags.Error())
			}
		}
	}
	return vals, anyErr, why
}

func judgeList(d Data) engine.Outcome {
	e, pd, text := parseStatic(d)
	if pd.HasErrors() {
		counters.Add("static_parse_rejected", 1)
		return engine.Pass("")
	}
	ctx := newStaticCtx()
	list, ld := hcl.ExprList(e)
	if ld.HasErrors() {
		// hclsyntax/spec.md "Static List": "The tuple construction syntax can be
		// interpreted as a static list"; json/spec.md: "must be a JSON array".
		return engine.Fail("c20.static-list-rejected."+d.Syntax, "ExprList(%s) fails: %s", text, ld.Error())
	}
	if len(list) != len(d.Elems) {
		return engine.Fail("c20.static-list-length."+d.Syntax, "ExprList(%s) has %d elements, the source has %d", text, len(list), len(d.Elems))
	}
	whole, wd := e.Value(ctx)
	vals, anyErr, why := evalAll(list, ctx)
	if anyErr != wd.HasErrors() {
		return engine.Fail("c20.static-list-vs-value.error-presence."+d.Syntax, "%s: static elements error=%v (%s) but the whole error=%v (%s)", text, anyErr, why, wd.HasErrors(), wd.Error())
	}
	if anyErr {
		return engine.Pass("list|E|" + why)
	}
	if whole.IsMarked() || !whole.IsKnown() || whole.IsNull() || !whole.Type().IsTupleType() || whole.LengthInt() != len(vals) {
		return engine.Fail("c20.static-list-vs-value.shape."+d.Syntax, "%s evaluates to %s, static list has %d elements", text, vfmt.V(whole), len(vals))
	}
	for i, got := range whole.AsValueSlice() {
		if !got.RawEquals(vals[i]) {
			return engine.Fail("c20.static-list-vs-value.element."+d.Syntax, "%s: element %d of the value is %s but static element %d evaluates to %s", text, i, vfmt.V(got), i, vfmt.V(vals[i]))
		}
	}
	return engine.Pass("list|" + vfmt.V(whole))
}

func judgeMap(d Data) engine.Outcome {
	e, pd, text := parseStatic(d)
	if pd.HasErrors() {
		// e.g. first key `for` (hclsyntax/spec.md: "{for = 1, baz = 2} is a syntax error")
		counters.Add("static_parse_rejected", 1)
		return engine.Pass("")
	}
	if d.Syntax == "native" && len(d.Keys) > 0 && d.Keys[0] == "for" {
		return engine.Pass("") // a for expression, not an object constructor
	}
	ctx := newStaticCtx()
	pairs, md := hcl.ExprMap(e)
	if md.HasErrors() {
		return engine.Fail("c20.static-map-rejected."+d.Syntax, "ExprMap(%s) fails: %s", text, md.Error())
	}
	if len(pairs) != len(d.Elems) {
		return engine.Fail("c20.static-map-length."+d.Syntax, "ExprMap(%s) has %d pairs, the source has %d", text, len(pairs), len(d.Elems))
	}
	keyExprs := make([]hcl.Expression, len(pairs))
	valExprs := make([]hcl.Expression, len(pairs))
	for i, p := range pairs {
		keyExprs[i], valExprs[i] = p.Key, p.Value
	}
	if d.Syntax == "native" {
		for i, k := range d.Keys {
			if !bareIdent[k] {
				continue
			}
			// "an identifier is interpreted as a literal attribute name"
			kv, kd := keyExprs[i].Value(ctx)
			if kd.HasErrors() || !kv.RawEquals(cty.StringVal(k)) {
				return engine.Fail("c20.static-map-bare-key-value", "%s: key expression %d (bare identifier %s) evaluates to %s (errors: %v)", text, i, k, vfmt.V(kv), kd.HasErrors())
			}
			if kw := hcl.ExprAsKeyword(keyExprs[i]); kw != k {
				return engine.Fail("c20.static-map-bare-key-keyword", "%s: ExprAsKeyword of key %d (bare identifier %s) = %q", text, i, k, kw)
			}
		}
	}
	if d.Syntax == "native" {
		// a key whose text is a static traversal when it stands as an expression of its own (references,
		// also those rooted at the keywords true / false / null) is one as a key too
		for i, k := range d.Keys {
			ke, kd := hclsyntax.ParseExpression([]byte(k), "k.hcl", hcl.InitialPos)
			if kd.HasErrors() {
				continue
			}
			want, wd := hcl.AbsTraversalForExpr(ke)
			if wd.HasErrors() {
				continue
			}
			got, gd := hcl.AbsTraversalForExpr(keyExprs[i])
			if gd.HasErrors() {
				return engine.Fail("c20.static-map-key-traversal-rejected", "%s: key %d (%s) is a static traversal as an expression of its own, but AbsTraversalForExpr of the key expression fails: %s", text, i, k, gd.Error())
			}
			if len(got) != len(want) || got.RootName() != want.RootName() {
				return engine.Fail("c20.static-map-key-traversal-differs", "%s: key %d (%s): traversal of the key expression has %d steps from root %q, of the same text as an expression %d steps from root %q", text, i, k, len(got), got.RootName(), len(want), want.RootName())
			}
		}
	}
	whole, wd := e.Value(ctx)
	kvals, kErr, kwhy := evalAll(keyExprs, ctx)
	vvals, vErr, vwhy := evalAll(valExprs, ctx)
	partsErr, why := kErr || vErr, kwhy+vwhy
	names := make([]string, len(kvals))
	if !kErr {
		for i, kv := range kvals {
			kv, _ = kv.Unmark()
			if kv.IsNull() {
				partsErr, why = true, why+fmt.Sprintf(" key %d is null", i)
				continue
			}
			sv, err := convert.Convert(kv, cty.String)
			if err != nil {
				partsErr, why = true, why+fmt.Sprintf(" key %d: %s", i, err)
				continue
			}
			if !sv.IsKnown() {
				// the whole is then of unknown type; nothing to compare
				return engine.Skip()
			}
			names[i] = sv.AsString()
		}
	}
	if !partsErr {
		seen := map[string]bool{}
		for _, n := range names {
			if seen[n] {
				// duplicate keys: unspecified in the native syntax (DESIGN 3.2), an
				// error in JSON (json/spec.md); either way outside this property.
				return engine.Skip()
			}
			seen[n] = true
		}
	}
	if partsErr != wd.HasErrors() {
		return engine.Fail("c20.static-map-vs-value.error-presence."+d.Syntax, "%s: static pairs error=%v (%s) but the whole error=%v (%s)", text, partsErr, why, wd.HasErrors(), wd.Error())
	}
	if partsErr {
		return engine.Pass("map|E|" + why)
	}
	if whole.IsMarked() || !whole.IsKnown() || whole.IsNull() || !whole.Type().IsObjectType() || len(whole.Type().AttributeTypes()) != len(names) {
		return engine.Fail("c20.static-map-vs-value.shape."+d.Syntax, "%s evaluates to %s, static map has keys %q", text, vfmt.V(whole), names)
	}
	for i, n := range names {
		if !whole.Type().HasAttribute(n) {
			return engine.Fail("c20.static-map-vs-value.key."+d.Syntax, "%s evaluates to %s, which lacks the attribute %q that static key %d evaluates to", text, vfmt.V(whole), n, i)
		}
		if got := whole.GetAttr(n); !got.RawEquals(vvals[i]) {
			return engine.Fail("c20.static-map-vs-value.value."+d.Syntax, "%s: attribute %q of the value is %s but static value %d evaluates to %s", text, n, vfmt.V(got), i, vfmt.V(vvals[i]))
		}
	}
	return engine.Pass("map|" + vfmt.V(whole))
}

func judgeCall(d Data) engine.Outcome {
	e, pd, text := parseStatic(d)
	if pd.HasErrors() {
		counters.Add("static_parse_rejected", 1)
		return engine.Pass("")
	}
	// The whole whose value the static view must reproduce: the native call
	// expression. For JSON that is the content of the string (json/spec.md
	// "Static Call": interpreted as a native syntax expression, not a template).
	var wholeExpr hcl.Expression = e
	if d.Syntax == "json" {
		nd := d
		nd.Syntax = "native"
		ne, npd := hclsyntax.ParseExpression([]byte(renderStatic(nd)), "t.hcl", hcl.InitialPos)
		if npd.HasErrors() {
			return engine.Pass("")
		}
		wholeExpr = ne
	}
	ctx := newStaticCtx()
	call, cd := hcl.ExprCall(e)
	if cd.HasErrors() {
		return engine.Fail("c20.static-call-rejected."+d.Syntax, "ExprCall(%s) fails: %s", text, cd.Error())
	}
	if call.Name != d.Name {
		// "The called function name is returned verbatim"
		return engine.Fail("c20.static-call-name."+d.Syntax, "ExprCall(%s).Name = %q, want %q", text, call.Name, d.Name)
	}
	if len(call.Arguments) != len(d.Elems) {
		return engine.Fail("c20.static-call-arity."+d.Syntax, "ExprCall(%s) has %d arguments, the source has %d", text, len(call.Arguments), len(d.Elems))
	}
	if d.Expand {
		// StaticCall cannot express "..."; hclsyntax/spec.md "Static Call"
		// returns the argument expressions "with no further interpretation", so
		// how the static view relates to the expanded call is unspecified.
		return engine.Skip()
	}
	whole, wd := wholeExpr.Value(ctx)
	args, anyErr, why := evalAll(call.Arguments, ctx)
	fn, exists := ctx.Functions[call.Name]
	if !exists {
		if !wd.HasErrors() {
			return engine.Fail("c20.static-call-vs-value.unknown-function."+d.Syntax, "%s: no function %q in the table but evaluation succeeds with %s", text, call.Name, vfmt.V(whole))
		}
		return engine.Pass("call|E|no function")
	}
	if anyErr {
		if !wd.HasErrors() {
			return engine.Fail("c20.static-call-vs-value.error-presence."+d.Syntax, "%s: a static argument fails (%s) but evaluation succeeds with %s", text, why, vfmt.V(whole))
		}
		return engine.Pass("call|E|" + why)
	}
	// "The given arguments are mapped onto the function's parameters": each
	// argument is converted to its parameter's type (spec.md, function calls
	// use the standard conversion rules), then the function is called.
	params, varParam := fn.Params(), fn.VarParam()
	var err error
	if len(args) < len(params) || (varParam == nil && len(args) > len(params)) {
		err = fmt.Errorf("wrong number of arguments")
	}
	for i := range args {
		if err != nil {
			break
		}
		p := varParam
		if i < len(params) {
			p = &params[i]
		}
		args[i], err = convert.Convert(args[i], p.Type)
	}
	var res cty.Value
	if err == nil {
		res, err = fn.Call(args)
	}
	if (err != nil) != wd.HasErrors() {
		return engine.Fail("c20.static-call-vs-value.error-presence."+d.Syntax, "%s: calling %s with the static arguments gives error=%v but evaluation gives error=%v (%s)", text, call.Name, err, wd.HasErrors(), wd.Error())
	}
	if err != nil {
		return engine.Pass("call|E|" + call.Name + ": " + err.Error())
	}
	if !res.RawEquals(whole) {
		return engine.Fail("c20.static-call-vs-value.result."+d.Syntax, "%s: calling %s with the static arguments gives %s but evaluation gives %s", text, call.Name, vfmt.V(res), vfmt.V(whole))
	}
	return engine.Pass("call|" + call.Name + "|" + vfmt.V(whole))
}
