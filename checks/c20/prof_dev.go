//go:build c20prof

package main

import (
	"os"
	"runtime/pprof"
	"time"
)

func init() {
	if pf := os.Getenv("C20_PROF"); pf != "" {
		f, _ := os.Create(pf)
		pprof.StartCPUProfile(f)
		go func() { time.Sleep(28 * time.Second); pprof.StopCPUProfile(); f.Close() }()
	}
}
