// C20 — Static analysis of an expression agrees with its evaluation and
// round-trips.
//
// Bounded exhaustive enumeration, on the real code, of
//
//	(a) fam "eval":  traversal-shaped native expressions x scopes: the static
//	    traversal (hcl.AbsTraversalForExpr / RelTraversalForExpr) applied to the
//	    scope agrees with evaluating the expression; hcl.ExprAsKeyword is the
//	    name exactly for a single bare identifier;
//	(b) fam "parse": the same texts plus near-traversal texts through
//	    hclsyntax.ParseTraversalAbs and, as a JSON string, through the JSON
//	    syntax: whatever is accepted denotes, step for step, the traversal of
//	    the native expression parser;
//	(c) fam "list" / "map" / "call": tuple constructors, object constructors
//	    and function calls (native) and arrays / objects / call strings (JSON):
//	    evaluating the parts returned by hcl.ExprList / ExprMap / ExprCall
//	    reproduces the elements / attributes / call result of the whole;
//	(c') fam "jtree": nested JSON values used as expressions, with property
//	    names and strings that are special elsewhere in the JSON syntax ("//",
//	    "", "/", "dynamic", template sequences, duplicates) at every nesting
//	    level: the static decomposition all the way down (ExprMap / ExprList),
//	    evaluated leaf by leaf, rebuilds the value of the whole at every node;
//	(d) fam "type": cty types: typeexpr.TypeString parses back through
//	    typeexpr.TypeConstraint to the identical type, natively and as a JSON
//	    string.
//
// See trav.go, static.go, types.go for the generators and oracles.
package main

import (
	"time"

	"verif/engine"
)

// Data is sufficient to re-run one case. Which fields are used depends on Fam.
type Data struct {
	Fam string `json:"fam"` // eval | parse | list | map | call | jtree | type

	// eval, parse: a traversal-shaped text = Root followed by Steps, rendered
	// with layout Rend; or (parse only) a hand-written text Raw.
	Root  string   `json:"root,omitempty"`
	Steps []string `json:"steps,omitempty"`
	Rend  int      `json:"rend,omitempty"`
	Raw   string   `json:"raw,omitempty"`
	IsRaw bool     `json:"is_raw,omitempty"`

	// list, map, call
	Syntax string   `json:"syntax,omitempty"` // native | json
	Name   string   `json:"name,omitempty"`   // call: function name
	Keys   []string `json:"keys,omitempty"`   // map: key texts
	Elems  []string `json:"elems,omitempty"`  // list elements / map values / call arguments
	Layout int      `json:"layout,omitempty"`
	Expand bool     `json:"expand,omitempty"` // call: final argument followed by "..."

	// type: the type in the check's own notation (see types.go)
	Type string `json:"type,omitempty"`

	// jtree: a JSON text used as an expression, and how the expression is
	// obtained (expr | attr | block-attr)
	JSON string `json:"json,omitempty"`
	Ctx  string `json:"ctx,omitempty"`

	Text string `json:"text,omitempty"` // informational: the source text
}

var counters engine.Counter

func judge(c engine.Case) engine.Outcome {
	d := c.Data.(Data)
	o := judgeFam(d)
	switch {
	case o.V == engine.Viol:
		counters.Add("cases_"+d.Fam+"_failed", 1)
	case o.V == engine.Unspec:
		counters.Add("cases_"+d.Fam+"_unspecified", 1)
	case o.Sig == "":
		counters.Add("cases_"+d.Fam+"_trivial", 1)
	default:
		counters.Add("cases_"+d.Fam+"_compared", 1)
	}
	return o
}

func judgeFam(d Data) engine.Outcome {
	switch d.Fam {
	case "eval":
		return judgeEval(d)
	case "parse":
		return judgeParse(d)
	case "list":
		return judgeList(d)
	case "map":
		return judgeMap(d)
	case "call":
		return judgeCall(d)
	case "jtree":
		return judgeJTree(d)
	case "type":
		return judgeType(d)
	}
	return engine.Skip()
}

func gen(tier string, emit func(engine.Case) bool) {
	thorough := tier == "thorough"
	// Families are interleaved by size: everything of size n of every family
	// comes before anything of size n+1, so the simplest failing case of each
	// family is met early and a deadline cuts all families at a similar depth.
	if !genTypes(1, 2, thorough, emit) {
		return
	}
	maxSteps := 3
	if thorough {
		maxSteps = 4
	}
	for n := 0; n <= maxSteps; n++ {
		if !genEval(n, emit) {
			return
		}
		if !genParse(n, thorough, emit) {
			return
		}
		if !genStatic(n, thorough, emit) {
			return
		}
		if !genJTree(n, thorough, emit) {
			return
		}
	}
	if !genParseRaw(emit) {
		return
	}
	if !genTypes(3, 3, thorough, emit) {
		return
	}
	if thorough {
		if !genTypes(4, 4, thorough, emit) {
			return
		}
		// the longest traversals last: 5 steps, family (a) only
		if !genEval(maxSteps+1, emit) {
			return
		}
	}
}

func shrink(c engine.Case) []engine.Case {
	d := c.Data.(Data)
	var out []engine.Case
	switch d.Fam {
	case "eval", "parse":
		if d.IsRaw {
			for i := range d.Raw {
				out = append(out, mkParseRaw(d.Raw[:i]+d.Raw[i+1:]))
			}
			return out
		}
		mk := func(root string, steps []string, rend int) engine.Case {
			if d.Fam == "eval" {
				return mkEval(root, steps, rend)
			}
			return mkParse(root, steps, rend)
		}
		for i := range d.Steps {
			s := append(append([]string{}, d.Steps[:i]...), d.Steps[i+1:]...)
			out = append(out, mk(d.Root, s, d.Rend))
		}
		if d.Rend != 0 {
			out = append(out, mk(d.Root, d.Steps, 0))
		}
		if d.Root != "v" {
			out = append(out, mk("v", d.Steps, d.Rend))
		}
		// replace a step by one that comes earlier in the alphabet, so that
		// the reported witness of a class does not depend on worker timing
		alphabet := append(append([]string{}, baseSteps...), nearSteps...)
		for i, cur := range d.Steps {
			for _, a := range alphabet {
				if a == cur {
					break
				}
				s := append([]string{}, d.Steps...)
				s[i] = a
				out = append(out, mk(d.Root, s, d.Rend))
			}
		}
	case "list", "map", "call":
		for i := range d.Elems {
			nd := d
			nd.Elems = append(append([]string{}, d.Elems[:i]...), d.Elems[i+1:]...)
			if d.Fam == "map" {
				nd.Keys = append(append([]string{}, d.Keys[:i]...), d.Keys[i+1:]...)
			}
			out = append(out, mkStatic(nd))
		}
		if d.Layout != 0 {
			nd := d
			nd.Layout = 0
			out = append(out, mkStatic(nd))
		}
	case "jtree":
		return shrinkJTree(d)
	case "type":
		t, err := parseTy(d.Type)
		if err != nil {
			return nil
		}
		for _, s := range t.smaller() {
			out = append(out, mkType(s.String()))
		}
	}
	return out
}

func main() {
	engine.Main(&engine.Check{
		ID:        "C20",
		Title:     "Static analysis of an expression agrees with its evaluation and round-trips",
		Technique: "bounded exhaustive enumeration of traversal texts x scopes, constructor/call texts and cty types; differential between static view and evaluation, between the stand-alone/JSON and the expression parser, and printer/parser round trip",
		Rule: "(a) eval: roots {v,w,for,if,true,null} x all sequences of <= 3 (quick) / <= 5 (thorough) steps over {.a .b .0 .1 [0] [1] [\"a\"] [\"b\"] [\"0\"] [2] .zz} x 5 layouts (plain, parenthesised, parenthesised with newlines, top-level newlines, spaced); each text is applied to all 12 scopes (6 value shapes incl. unknown/dynamic and marked, root absent, no variable table, nil context, 3 child/parent arrangements); " +
			"(b) parse: roots {v,for,if,true,null} x all sequences of <= 3 / <= 4 steps over those 11 plus 15 near-traversal steps ([*] .* [v] [true] [null] [-1] [1.5] template/escaped/empty/non-ASCII string keys, calls, keyword attribute) x 4 layouts (quick: 3-step sequences with roots {v,for,true} and 3 layouts), plus 107 hand-written texts; each through ParseTraversalAbs, ParseExpression+AbsTraversalForExpr and as a JSON string; " +
			"(c) list/map/call: tuple constructors of <= 3 / <= 4 elements from a 14-expression pool x 3 layouts, object constructors of <= 2 / <= 3 pairs (16 key forms x 7 values) x 3 layouts, calls of 6 function names with <= 3 / <= 4 arguments x 2 layouts (+ final-argument expansion), JSON arrays (12-element pool, 2 layouts), JSON objects (10 key forms x 6 values, 2 layouts), JSON call strings (<= 2 / <= 3 arguments); " +
			"(c') jtree: JSON value trees = a focus (array of <= 2 / <= 3 elements from a 15-leaf pool incl. \"//\" \"\" \"/\" null and template / traversal / call strings; object of <= 2 / <= 3 properties, 14 names {a // / empty dynamic ${k} x${k} $${k} %{if} kk ${u} ${null} ${nope} ${1}} x 3 values, all name sequences incl. duplicates) under every sequence of <= 1 / <= 2 wrappers (3 array positions, 14 single-property objects, 4 two-property objects with a \"//\" sibling), plus foci of <= 1 member under every sequence of 2 / 3 wrappers; each obtained as json.ParseExpression, as a body attribute (JustAttributes) and as an attribute of a block body that has a real \"//\" comment; every node decomposed with ExprMap/ExprList, every string and property name also through AbsTraversalForExpr/ExprCall; " +
			"(d) type: every cty type of depth <= 2 over {string,number,bool,any,list,set,map,tuple of <= 2,object of <= 2 attributes named from {a,b-c,é,for,if,null,true}}; depth 3: every depth-2 type under list/set/map/1-tuple/1-attribute object (7 names), all 21 name pairs x pairs from a 13-type reduced set as 2-attribute objects, 2-tuples of every type of depth <= 2 with each of the reduced set in both orders (thorough: every pair of types of depth <= 2; depth 4 likewise over the one-child depth-3 types). " +
			"Non-trivial = a static view was obtained and compared; distinct = distinct (traversal shape, per-scope value or error) / (accepting parsers, steps) / (value) / (tree shape, value) / (type string) observations.",
		Assumptions: []string{
			"go-cty value operations (RawEquals, Type.Equals, conversion, function.Call) are trusted",
			"evaluation of the whole expression (Expression.Value) is the reference for the static views, as the property states; its own conformance is C01's subject",
			"keyword roots true/false/null are compared against the same text with root v (hclsyntax/spec.md, Static Traversal: they behave as references to variables of those names)",
		},
		Gen:    gen,
		Judge:  judge,
		Load:   engine.LoadAs[Data],
		Shrink: shrink,
		Extra: func() map[string]any {
			m := map[string]any{}
			for k, v := range counters.Snapshot() {
				m[k] = v
			}
			return m
		},
		QuickBudget:    4 * time.Minute,
		ThoroughBudget: 40 * time.Minute,
	})
}
