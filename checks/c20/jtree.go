package main

// Family "jtree": nested JSON expressions.
//
// json/spec.md gives several strings a special meaning *somewhere* in the JSON
// syntax: the property name "//" is a comment in an object that represents a
// body, an array of objects is flattened and null means "nothing" where a body
// or block labels are expected, property names and strings are templates in
// full expression mode. None of these conventions applies to a JSON value
// interpreted as an *expression* other than the last one: "Each property of
// the JSON object represents an attribute of the HCL object type"
// (Expressions / Objects), "Each of the key/value pairs in the object is
// presented as a pair of expressions" (Static Map), "Each of the values in the
// array is interpreted as an expression and returned" (Static List).
//
// The family enumerates small JSON value trees whose property names and
// strings are drawn from such special spellings, at every nesting level, and
// decomposes each tree *statically all the way down* (hcl.ExprMap on objects,
// hcl.ExprList on arrays); the leaves and the property-name expressions are
// evaluated one by one and the value rebuilt from them must be the value the
// expression evaluates to as a whole - at the root and at every inner node.
// Independently of evaluation, the static view of an object must present the
// property names of the source, all of them, in order (checked in
// literal-only mode against the check's own reading of the JSON text with
// encoding/json), a static list the elements of the source, and only objects
// are static maps, only arrays static lists, only strings static calls and
// static traversals ("must be a JSON object / a JSON array / a string").

import (
	"bytes"
	stdjson "encoding/json"
	"fmt"
	"strings"

	"github.com/hashicorp/hcl/v2"
	"github.com/hashicorp/hcl/v2/hclsyntax"
	hcljson "github.com/hashicorp/hcl/v2/json"
	"github.com/zclconf/go-cty/cty"
	"github.com/zclconf/go-cty/cty/convert"

	"verif/engine"
	"verif/vfmt"
)

// ---------------------------------------------------------------------------
// trees

type jnode struct {
	kind  byte     // 'o' object, 'a' array, 's' string, 'l' number / true / false / null
	names []string // 'o': property names, in source order, duplicates kept
	kids  []*jnode // 'o': property values; 'a': elements
	str   string   // 's': the string; 'l': the JSON text
}

func jStr(s string) *jnode       { return &jnode{kind: 's', str: s} }
func jLit(s string) *jnode       { return &jnode{kind: 'l', str: s} }
func jArr(kids ...*jnode) *jnode { return &jnode{kind: 'a', kids: kids} }
func jObj1(n string, v *jnode) *jnode {
	return &jnode{kind: 'o', names: []string{n}, kids: []*jnode{v}}
}

func (n *jnode) render(sb *strings.Builder) {
	switch n.kind {
	case 'o':
		sb.WriteByte('{')
		for i, k := range n.kids {
			if i > 0 {
				sb.WriteByte(',')
			}
			sb.Write(jsonQuote(n.names[i], false))
			sb.WriteByte(':')
			k.render(sb)
		}
		sb.WriteByte('}')
	case 'a':
		sb.WriteByte('[')
		for i, k := range n.kids {
			if i > 0 {
				sb.WriteByte(',')
			}
			k.render(sb)
		}
		sb.WriteByte(']')
	case 's':
		sb.Write(jsonQuote(n.str, false))
	default:
		sb.WriteString(n.str)
	}
}

func (n *jnode) String() string {
	var sb strings.Builder
	n.render(&sb)
	return sb.String()
}

// shape: the structure without the leaf contents, for the signature.
func (n *jnode) shape(sb *strings.Builder) {
	switch n.kind {
	case 'o':
		sb.WriteByte('{')
		for i, k := range n.kids {
			if i > 0 {
				sb.WriteByte(',')
			}
			sb.WriteString(jtNameCat(n.names[i])[:2])
			k.shape(sb)
		}
		sb.WriteByte('}')
	case 'a':
		sb.WriteByte('[')
		for _, k := range n.kids {
			k.shape(sb)
		}
		sb.WriteByte(']')
	default:
		sb.WriteByte(n.kind)
	}
}

// parseJTree is the check's own reading of a JSON text (encoding/json token
// stream): order and duplicates of property names are kept.
func parseJTree(text string) (*jnode, error) {
	dec := stdjson.NewDecoder(bytes.NewReader([]byte(text)))
	dec.UseNumber()
	var value func() (*jnode, error)
	value = func() (*jnode, error) {
		tok, err := dec.Token()
		if err != nil {
			return nil, err
		}
		switch t := tok.(type) {
		case stdjson.Delim:
			switch t {
			case '{':
				n := &jnode{kind: 'o'}
				for dec.More() {
					kt, err := dec.Token()
					if err != nil {
						return nil, err
					}
					name, ok := kt.(string)
					if !ok {
						return nil, fmt.Errorf("property name is not a string")
					}
					v, err := value()
					if err != nil {
						return nil, err
					}
					n.names = append(n.names, name)
					n.kids = append(n.kids, v)
				}
				_, err := dec.Token()
				return n, err
			case '[':
				n := &jnode{kind: 'a'}
				for dec.More() {
					v, err := value()
					if err != nil {
						return nil, err
					}
					n.kids = append(n.kids, v)
				}
				_, err := dec.Token()
				return n, err
			}
			return nil, fmt.Errorf("unexpected delimiter %v", t)
		case string:
			return jStr(t), nil
		case stdjson.Number:
			return jLit(t.String()), nil
		case bool:
			return jLit(fmt.Sprint(t)), nil
		case nil:
			return jLit("null"), nil
		}
		return nil, fmt.Errorf("unexpected token %v", tok)
	}
	n, err := value()
	if err != nil {
		return nil, err
	}
	if dec.More() {
		return nil, fmt.Errorf("trailing content")
	}
	return n, nil
}

// ---------------------------------------------------------------------------
// pools

// Property names. Each is special somewhere in the JSON syntax or in an
// extension that reads JSON bodies, or evaluates specially as a name:
// "//" body comment; "/" and "" near misses of it; "dynamic" (ext/dynblock
// block type); template sequences (interpolation alone, within text, escaped,
// directive); "kk" = the result of "${k}" (a duplicate only after
// evaluation); unknown, null, undefined and number results.
var jtNames = []string{`a`, `//`, `/`, ``, `dynamic`, `${k}`, `x${k}`, `$${k}`, `%{if true}t%{endif}`, `kk`, `${u}`, `${null}`, `${nope}`, `${1}`}

// property values of the focus objects
var jtVals = []*jnode{jLit(`1`), jStr(`${v.a}`), jStr(`//`)}

// array elements
var jtLeaves = []*jnode{
	jLit(`1`), jStr(`s`), jLit(`true`), jLit(`null`), jStr(`//`), jStr(``), jStr(`/`), jStr(`${v}`), jStr(`x${k}`),
	jStr(`${u}`), jStr(`${m}`), jStr(`${nope}`), jStr(`v.a`), jStr(`id(k)`), jStr(`dynamic`),
}

// A wrapper puts a tree one nesting level down: as an array element or as the
// value of a property, with or without siblings.
type jtWrapper func(x *jnode) *jnode

func jtWrappers() []jtWrapper {
	ws := []jtWrapper{
		func(x *jnode) *jnode { return jArr(x) },
		func(x *jnode) *jnode { return jArr(jLit(`1`), x) },
		func(x *jnode) *jnode { return jArr(x, jStr(`//`)) },
	}
	for _, name := range jtNames {
		name := name
		ws = append(ws, func(x *jnode) *jnode { return jObj1(name, x) })
	}
	two := func(n1 string, v1 *jnode, n2 string, v2 *jnode) *jnode {
		return &jnode{kind: 'o', names: []string{n1, n2}, kids: []*jnode{v1, v2}}
	}
	ws = append(ws,
		func(x *jnode) *jnode { return two(`//`, jLit(`1`), `a`, x) },
		func(x *jnode) *jnode { return two(`a`, x, `//`, jLit(`1`)) },
		func(x *jnode) *jnode { return two(`a`, jLit(`1`), `//`, x) },
		func(x *jnode) *jnode { return two(`//`, x, `a`, jLit(`1`)) },
	)
	return ws
}

// jtFocus calls f with every focus tree: arrays of <= maxElems leaves, objects
// of <= maxPairs properties. Objects of 3 properties take the value of
// property i from jtVals[i] (the names are the dimension of interest there).
func jtFocus(maxElems, maxPairs int, f func(*jnode) bool) bool {
	idx := func(n int) []string {
		out := make([]string, n)
		for i := range out {
			out[i] = fmt.Sprint(i)
		}
		return out
	}
	atoi := func(s string) int {
		var j int
		fmt.Sscan(s, &j)
		return j
	}
	for n := 0; n <= maxElems || n <= maxPairs; n++ {
		if n <= maxElems {
			ok := seqs(idx(len(jtLeaves)), n, func(sel []string) bool {
				a := &jnode{kind: 'a'}
				for _, s := range sel {
					a.kids = append(a.kids, jtLeaves[atoi(s)])
				}
				return f(a)
			})
			if !ok {
				return false
			}
		}
		if n <= maxPairs {
			nv := len(jtVals)
			if n >= 3 {
				nv = 1
			}
			ok := seqs(idx(len(jtNames)*nv), n, func(sel []string) bool {
				o := &jnode{kind: 'o'}
				for i, s := range sel {
					j := atoi(s)
					o.names = append(o.names, jtNames[j/nv])
					if n >= 3 {
						o.kids = append(o.kids, jtVals[i%len(jtVals)])
					} else {
						o.kids = append(o.kids, jtVals[j%nv])
					}
				}
				return f(o)
			})
			if !ok {
				return false
			}
		}
	}
	return true
}

// how the expression is obtained
var jtCtxKinds = []string{"expr", "attr", "block-attr"}

func mkJTree(ctxKind, text string) engine.Case {
	return engine.Case{ID: "jtree|" + ctxKind + "|" + text, Data: Data{Fam: "jtree", Syntax: "json", Ctx: ctxKind, JSON: text, Text: text}}
}

// genJTree emits the trees of nesting level `level` (number of wrappers around
// the focus). Quick: levels 0-1 with every focus tree (arrays of <= 2
// elements, objects of <= 2 properties), level 2 with focus trees of <= 1
// member. Thorough: one more member and one more level.
func genJTree(level int, thorough bool, emit func(engine.Case) bool) bool {
	fullLevels, maxLevel := 1, 2
	maxElems, maxPairs := 2, 2
	if thorough {
		fullLevels, maxLevel = 2, 3
		maxElems, maxPairs = 3, 3
	}
	if level > maxLevel {
		return true
	}
	if level > fullLevels {
		maxElems, maxPairs = 1, 1
	}
	ws := jtWrappers()
	idx := make([]string, len(ws))
	for i := range idx {
		idx[i] = fmt.Sprint(i)
	}
	return jtFocus(maxElems, maxPairs, func(focus *jnode) bool {
		return seqs(idx, level, func(sel []string) bool {
			t := focus
			for i := len(sel) - 1; i >= 0; i-- {
				var j int
				fmt.Sscan(sel[i], &j)
				t = ws[j](t)
			}
			text := t.String()
			for _, ck := range jtCtxKinds {
				if !emit(mkJTree(ck, text)) {
					return false
				}
			}
			return true
		})
	})
}

// ---------------------------------------------------------------------------
// oracle

func jtNameCat(name string) string {
	switch {
	case name == "//":
		return "comment-name"
	case name == "":
		return "empty-name"
	case name == "/":
		return "slash-name"
	case strings.Contains(name, "$${") || strings.Contains(name, "%%{"):
		return "escaped-template-name"
	case strings.Contains(name, "${") || strings.Contains(name, "%{"):
		return "template-name"
	case name == "dynamic":
		return "dynamic-name"
	}
	return "plain-name"
}

func jtKindName(k byte) string {
	switch k {
	case 'o':
		return "object"
	case 'a':
		return "array"
	case 's':
		return "string"
	}
	return "literal"
}

// jtExpr obtains the hcl.Expression for the JSON text in the given way.
func jtExpr(ctxKind, text string) (hcl.Expression, bool) {
	switch ctxKind {
	case "expr":
		e, diags := hcljson.ParseExpression([]byte(text), "t.json")
		return e, !diags.HasErrors()
	case "attr":
		f, diags := hcljson.Parse([]byte(`{"m":`+text+`}`), "t.json")
		if diags.HasErrors() {
			return nil, false
		}
		attrs, diags := f.Body.JustAttributes()
		if diags.HasErrors() || attrs["m"] == nil {
			return nil, false
		}
		return attrs["m"].Expr, true
	case "block-attr":
		// the body that holds the attribute has a (real) "//" comment property
		f, diags := hcljson.Parse([]byte(`{"b":{"//":"c","m":`+text+`}}`), "t.json")
		if diags.HasErrors() {
			return nil, false
		}
		c, diags := f.Body.Content(&hcl.BodySchema{Blocks: []hcl.BlockHeaderSchema{{Type: "b"}}})
		if diags.HasErrors() || len(c.Blocks) != 1 {
			return nil, false
		}
		bc, diags := c.Blocks[0].Body.Content(&hcl.BodySchema{Attributes: []hcl.AttributeSchema{{Name: "m"}}})
		if diags.HasErrors() || bc.Attributes["m"] == nil {
			return nil, false
		}
		return bc.Attributes["m"].Expr, true
	}
	return nil, false
}

type jtWalker struct {
	ctx   *hcl.EvalContext
	text  string
	fail  *engine.Outcome
	unspc bool // an unspecified situation was met; nothing above it can be compared
	nodes int
}

func (w *jtWalker) failf(class, format string, args ...any) {
	if w.fail == nil {
		o := engine.Fail(class, "%s: %s", w.text, fmt.Sprintf(format, args...))
		w.fail = &o
	}
}

func (w *jtWalker) stop() bool { return w.fail != nil || w.unspc }

// notStatic demands that the analyses which json/spec.md reserves for another
// JSON type are refused for this node.
func (w *jtWalker) notStatic(e hcl.Expression, kind byte, path string) {
	if kind != 'a' {
		if l, d := hcl.ExprList(e); !d.HasErrors() {
			w.failf("c20.json-static-list.accepts-"+jtKindName(kind), "at %s: ExprList accepts a JSON %s (%d elements); json/spec.md: a static list must be a JSON array", path, jtKindName(kind), len(l))
		}
	}
	if kind != 'o' {
		if m, d := hcl.ExprMap(e); !d.HasErrors() {
			w.failf("c20.json-static-map.accepts-"+jtKindName(kind), "at %s: ExprMap accepts a JSON %s (%d pairs); json/spec.md: a static map must be a JSON object", path, jtKindName(kind), len(m))
		}
	}
	if kind != 's' {
		if c, d := hcl.ExprCall(e); !d.HasErrors() {
			w.failf("c20.json-static-call.accepts-"+jtKindName(kind), "at %s: ExprCall accepts a JSON %s (%s); json/spec.md: a static call must be a string", path, jtKindName(kind), c.Name)
		}
		if t, d := hcl.AbsTraversalForExpr(e); !d.HasErrors() {
			w.failf("c20.json-traversal.accepts-"+jtKindName(kind), "at %s: AbsTraversalForExpr accepts a JSON %s (%s); json/spec.md: a static traversal must be a string", path, jtKindName(kind), travString(t))
		}
	}
}

// stringStatic: json/spec.md Static Call / Static Traversal: the content of
// the string is interpreted as a native syntax expression and the analysis is
// delegated to that expression. Same classes as family "parse" / "call".
func (w *jtWalker) stringStatic(se hcl.Expression, content, path string) {
	ne, pd := hclsyntax.ParseExpression([]byte(content), "n.hcl", hcl.InitialPos)
	nativeClass := "not-a-traversal"
	var nt hcl.Traversal
	var nc *hcl.StaticCall
	nativeTrav, nativeCall := false, false
	if pd.HasErrors() {
		nativeClass = "parse-error"
	} else {
		var d hcl.Diagnostics
		nt, d = hcl.AbsTraversalForExpr(ne)
		nativeTrav = !d.HasErrors()
		nc, d = hcl.ExprCall(ne)
		nativeCall = !d.HasErrors()
	}
	jt, jd := hcl.AbsTraversalForExpr(se)
	switch jsonTrav := !jd.HasErrors(); {
	case jsonTrav && !nativeTrav:
		w.failf("c20.json-traversal-accepts-non-traversal."+nativeClass, "at %s: the string %q is accepted as static traversal %s but the native expression is none", path, content, travString(jt))
	case jsonTrav:
		if diff := travDiff(jt, nt); diff != "" {
			w.failf("c20.json-traversal-differs", "at %s: the string %q gives %s but the native expression gives %s (%s)", path, content, travString(jt), travString(nt), diff)
		}
		if len(nt) == 1 {
			if jk, nk := hcl.ExprAsKeyword(se), hcl.ExprAsKeyword(ne); jk != nk {
				w.failf("c20.json-keyword-differs", "at %s: the string %q: ExprAsKeyword = %q, native %q", path, content, jk, nk)
			}
		}
	case nativeTrav && constructOnlyNativeAccepts(content) == "other":
		w.failf("c20.json-traversal-rejects-plain-traversal", "at %s: the string %q is not accepted as a static traversal although the native expression is one (%s)", path, content, travString(nt))
	}
	jc, cd := hcl.ExprCall(se)
	switch jsonCall := !cd.HasErrors(); {
	case jsonCall != nativeCall:
		w.failf("c20.static-call-acceptance.json", "at %s: the string %q: ExprCall accepted=%v but for the native expression accepted=%v", path, content, jsonCall, nativeCall)
	case jsonCall:
		if jc.Name != nc.Name {
			w.failf("c20.static-call-name.json", "at %s: the string %q: ExprCall name %q, native %q", path, content, jc.Name, nc.Name)
		}
		if len(jc.Arguments) != len(nc.Arguments) {
			w.failf("c20.static-call-arity.json", "at %s: the string %q: ExprCall has %d arguments, native %d", path, content, len(jc.Arguments), len(nc.Arguments))
			return
		}
		for i := range jc.Arguments {
			jv, jd := jc.Arguments[i].Value(w.ctx)
			nv, nd := nc.Arguments[i].Value(w.ctx)
			if jd.HasErrors() != nd.HasErrors() || (!nd.HasErrors() && !jv.RawEquals(nv)) {
				w.failf("c20.static-call-argument.json", "at %s: the string %q: argument %d evaluates to %s, native %s", path, content, i, outcomeString(jv, jd), outcomeString(nv, nd))
			}
		}
	}
}

// walk decomposes e statically according to the check's own reading n of the
// source, evaluates the parts and returns the value rebuilt from them (and
// whether a part failed). At every container it compares with e.Value.
func (w *jtWalker) walk(e hcl.Expression, n *jnode, path string) (cty.Value, bool) {
	w.nodes++
	w.notStatic(e, n.kind, path)
	if w.stop() {
		return cty.DynamicVal, true
	}
	switch n.kind {
	case 's':
		w.stringStatic(e, n.str, path)
		v, d := e.Value(w.ctx)
		return v, d.HasErrors()
	case 'l':
		v, d := e.Value(w.ctx)
		return v, d.HasErrors()
	case 'a':
		list, ld := hcl.ExprList(e)
		if ld.HasErrors() {
			w.failf("c20.static-list-rejected.json", "at %s: ExprList fails on a JSON array: %s", path, ld.Error())
			return cty.DynamicVal, true
		}
		if len(list) != len(n.kids) {
			// which element is missing is decided below by the values; the count
			// alone already contradicts "Each of the values in the array is ...
			// returned".
			w.failf("c20.static-list-length.json", "at %s: ExprList has %d elements, the array has %d", path, len(list), len(n.kids))
			return cty.DynamicVal, true
		}
		vals := make([]cty.Value, len(list))
		partsErr := false
		for i, x := range list {
			v, bad := w.walk(x, n.kids[i], fmt.Sprintf("%s[%d]", path, i))
			if w.stop() {
				return cty.DynamicVal, true
			}
			vals[i], partsErr = v, partsErr || bad
		}
		whole, wd := e.Value(w.ctx)
		if partsErr != wd.HasErrors() {
			w.failf("c20.static-list-vs-value.error-presence.json", "at %s: static elements error=%v but the array evaluates with error=%v (%s)", path, partsErr, wd.HasErrors(), wd.Error())
		}
		if partsErr {
			return cty.DynamicVal, true
		}
		rebuilt := cty.TupleVal(vals)
		if !whole.RawEquals(rebuilt) {
			class := "c20.static-list-vs-value.element.json"
			if whole.IsMarked() || !whole.IsKnown() || whole.IsNull() || !whole.Type().IsTupleType() || whole.LengthInt() != len(vals) {
				class = "c20.static-list-vs-value.shape.json"
			}
			w.failf(class, "at %s: the array evaluates to %s but its static elements evaluate to %s", path, vfmt.V(whole), vfmt.V(rebuilt))
		}
		return rebuilt, false
	}

	// object
	pairs, md := hcl.ExprMap(e)
	if md.HasErrors() {
		w.failf("c20.static-map-rejected.json", "at %s: ExprMap fails on a JSON object: %s", path, md.Error())
		return cty.DynamicVal, true
	}
	// "Each of the key/value pairs in the object is presented as a pair of
	// expressions": in literal-only mode (nil context; json/spec.md Strings:
	// "the exact sequence of unicode characters represented") the key
	// expressions must spell the property names of the source, in order.
	lit := make([]string, len(pairs))
	for i, p := range pairs {
		w.notStatic(p.Key, 's', path+"<name>")
		kv, kd := p.Key.Value(nil)
		if kd.HasErrors() || kv.IsMarked() || !kv.IsKnown() || kv.IsNull() || kv.Type() != cty.String {
			w.failf("c20.json-static-map.key-not-literal", "at %s: key expression %d in literal-only mode gives %s", path, i, outcomeString(kv, kd))
			return cty.DynamicVal, true
		}
		lit[i] = kv.AsString()
	}
	for i := 0; i < len(lit) || i < len(n.names); i++ {
		switch {
		case i >= len(n.names):
			w.failf("c20.json-static-map.extra-pair", "at %s: ExprMap presents %d pairs %q, the object has the %d properties %q", path, len(lit), lit, len(n.names), n.names)
		case i >= len(lit) || (lit[i] != n.names[i] && len(lit) < len(n.names)):
			w.failf("c20.json-static-map.omits-property."+jtNameCat(n.names[i]), "at %s: ExprMap presents the pairs %q, the object has the properties %q: property %d (%q) is not presented", path, lit, n.names, i, n.names[i])
		case lit[i] != n.names[i]:
			w.failf("c20.json-static-map.key-differs."+jtNameCat(n.names[i]), "at %s: ExprMap presents the pairs %q, the object has the properties %q", path, lit, n.names)
		}
		if w.stop() {
			return cty.DynamicVal, true
		}
	}

	partsErr, unknownName := false, false
	names := make([]string, len(pairs))
	known := make([]bool, len(pairs))
	vals := make([]cty.Value, len(pairs))
	for i, p := range pairs {
		w.stringStatic(p.Key, n.names[i], path+"<name>")
		v, bad := w.walk(p.Value, n.kids[i], path+"."+string(jsonQuote(n.names[i], false)))
		if w.stop() {
			return cty.DynamicVal, true
		}
		vals[i], partsErr = v, partsErr || bad
		kv, kd := p.Key.Value(w.ctx)
		if kd.HasErrors() {
			partsErr = true
			continue
		}
		if kv.IsMarked() {
			// what becomes of the marks of a name is not in the specification
			w.unspc = true
			return cty.DynamicVal, true
		}
		// "its result is converted to string ...; If such a conversion is not
		// possible, an error is produced"; "If any evaluated property name
		// strings produce null values, an error is produced"
		sv, err := convert.Convert(kv, cty.String)
		if err != nil || sv.IsNull() {
			partsErr = true
			continue
		}
		if !sv.IsKnown() {
			// "If any produce unknown values, the entire object's result is an
			// unknown value of the dynamic pseudo-type"
			unknownName = true
			continue
		}
		names[i], known[i] = sv.AsString(), true
	}
	if !partsErr {
		seen := map[string]bool{}
		for i, nm := range names {
			if !known[i] {
				continue
			}
			if seen[nm] {
				// the same name twice: evaluation of the whole is an error by
				// json/spec.md; which pairs "make up" the object is then moot.
				w.unspc = true
				return cty.DynamicVal, true
			}
			seen[nm] = true
		}
	}
	whole, wd := e.Value(w.ctx)
	if partsErr != wd.HasErrors() {
		w.failf("c20.static-map-vs-value.error-presence.json", "at %s: static pairs error=%v but the object evaluates with error=%v (%s)", path, partsErr, wd.HasErrors(), wd.Error())
	}
	if partsErr {
		return cty.DynamicVal, true
	}
	if unknownName {
		if !whole.RawEquals(cty.DynamicVal) {
			w.failf("c20.static-map-vs-value.unknown-name.json", "at %s: a static key evaluates to an unknown string but the object evaluates to %s", path, vfmt.V(whole))
		}
		return cty.DynamicVal, false
	}
	attrs := map[string]cty.Value{}
	for i, nm := range names {
		attrs[nm] = vals[i]
	}
	rebuilt := cty.ObjectVal(attrs)
	if !whole.RawEquals(rebuilt) {
		switch {
		case whole.IsMarked() || !whole.IsKnown() || whole.IsNull() || !whole.Type().IsObjectType():
			w.failf("c20.static-map-vs-value.shape.json", "at %s: the object evaluates to %s but its static pairs evaluate to %s", path, vfmt.V(whole), vfmt.V(rebuilt))
		default:
			for i, nm := range names {
				if !whole.Type().HasAttribute(nm) {
					w.failf("c20.static-map-vs-value.key.json", "at %s: the object evaluates to %s, which lacks the attribute %q that static key %d evaluates to", path, vfmt.V(whole), nm, i)
				} else if got := whole.GetAttr(nm); !got.RawEquals(vals[i]) {
					w.failf("c20.static-map-vs-value.value.json", "at %s: attribute %q of the value is %s but static value %d evaluates to %s", path, nm, vfmt.V(got), i, vfmt.V(vals[i]))
				}
			}
			for nm := range whole.Type().AttributeTypes() {
				if _, ok := attrs[nm]; !ok {
					w.failf("c20.static-map-vs-value.attribute-without-pair."+jtNameCat(nm), "at %s: the object evaluates to %s; no static pair evaluates to its attribute %q", path, vfmt.V(whole), nm)
				}
			}
			w.failf("c20.static-map-vs-value.shape.json", "at %s: the object evaluates to %s but its static pairs evaluate to %s", path, vfmt.V(whole), vfmt.V(rebuilt))
		}
	}
	return rebuilt, false
}

func judgeJTree(d Data) engine.Outcome {
	tree, err := parseJTree(d.JSON)
	if err != nil {
		return engine.Pass("") // not JSON; not this family's subject
	}
	e, ok := jtExpr(d.Ctx, d.JSON)
	if !ok {
		counters.Add("static_parse_rejected", 1)
		return engine.Pass("")
	}
	w := &jtWalker{ctx: newStaticCtx(), text: d.Ctx + " " + d.JSON}
	v, bad := w.walk(e, tree, "$")
	counters.Add("jtree_nodes_decomposed", int64(w.nodes))
	if w.fail != nil {
		return *w.fail
	}
	if w.unspc {
		return engine.Skip()
	}
	var sb strings.Builder
	sb.WriteString("jt|")
	tree.shape(&sb)
	if bad {
		sb.WriteString("|E")
	} else {
		sb.WriteString("|" + vfmt.V(v))
	}
	return engine.Pass(sb.String())
}

// shrinkJTree: every tree with one member removed anywhere, every container
// child in place of the root, and the plain expression context.
func shrinkJTree(d Data) []engine.Case {
	tree, err := parseJTree(d.JSON)
	if err != nil {
		return nil
	}
	var out []engine.Case
	if d.Ctx != "expr" {
		out = append(out, mkJTree("expr", d.JSON))
	}
	for _, k := range tree.kids {
		if k.kind == 'o' || k.kind == 'a' {
			out = append(out, mkJTree(d.Ctx, k.String()))
		}
	}
	var removals func(n *jnode) []*jnode
	removals = func(n *jnode) []*jnode {
		var res []*jnode
		for i := range n.kids {
			c := &jnode{kind: n.kind}
			c.kids = append(append([]*jnode{}, n.kids[:i]...), n.kids[i+1:]...)
			if n.kind == 'o' {
				c.names = append(append([]string{}, n.names[:i]...), n.names[i+1:]...)
			}
			res = append(res, c)
		}
		for i, k := range n.kids {
			for _, sub := range removals(k) {
				c := &jnode{kind: n.kind, names: n.names, kids: append([]*jnode{}, n.kids...)}
				c.kids[i] = sub
				res = append(res, c)
			}
		}
		return res
	}
	for _, t := range removals(tree) {
		out = append(out, mkJTree(d.Ctx, t.String()))
	}
	return out
}
