package main

import (
	"fmt"
	"sort"
	"strings"

	"github.com/hashicorp/hcl/v2"
	"github.com/hashicorp/hcl/v2/ext/typeexpr"
	"github.com/hashicorp/hcl/v2/hclsyntax"
	hcljson "github.com/hashicorp/hcl/v2/json"
	"github.com/zclconf/go-cty/cty"

	"verif/engine"
)

// The check's own type notation (independent of typeexpr):
//
//	s n b y            string number bool any
//	L(T) S(T) M(T)     list set map
//	T[T;T]             tuple
//	O{name=T;name=T}   object (names contain none of "=;{}")
type ty struct {
	kind  byte // s n b y L S M T O
	elems []*ty
	names []string // O only, parallel to elems
}

func (t *ty) String() string {
	switch t.kind {
	case 's', 'n', 'b', 'y':
		return string(t.kind)
	case 'L', 'S', 'M':
		return string(t.kind) + "(" + t.elems[0].String() + ")"
	case 'T':
		parts := make([]string, len(t.elems))
		for i, e := range t.elems {
			parts[i] = e.String()
		}
		return "T[" + strings.Join(parts, ";") + "]"
	default:
		parts := make([]string, len(t.elems))
		for i, e := range t.elems {
			parts[i] = t.names[i] + "=" + e.String()
		}
		return "O{" + strings.Join(parts, ";") + "}"
	}
}

func parseTy(s string) (*ty, error) {
	t, rest, err := parseTyPrefix(s)
	if err != nil {
		return nil, err
	}
	if rest != "" {
		return nil, fmt.Errorf("trailing %q", rest)
	}
	return t, nil
}

func parseTyPrefix(s string) (*ty, string, error) {
	if s == "" {
		return nil, "", fmt.Errorf("empty type")
	}
	k := s[0]
	switch k {
	case 's', 'n', 'b', 'y':
		return &ty{kind: k}, s[1:], nil
	case 'L', 'S', 'M':
		if len(s) < 2 || s[1] != '(' {
			return nil, "", fmt.Errorf("expected ( in %q", s)
		}
		e, rest, err := parseTyPrefix(s[2:])
		if err != nil {
			return nil, "", err
		}
		if !strings.HasPrefix(rest, ")") {
			return nil, "", fmt.Errorf("expected ) in %q", rest)
		}
		return &ty{kind: k, elems: []*ty{e}}, rest[1:], nil
	case 'T':
		if len(s) < 2 || s[1] != '[' {
			return nil, "", fmt.Errorf("expected [ in %q", s)
		}
		rest := s[2:]
		t := &ty{kind: 'T'}
		for {
			if strings.HasPrefix(rest, "]") {
				return t, rest[1:], nil
			}
			if len(t.elems) > 0 {
				if !strings.HasPrefix(rest, ";") {
					return nil, "", fmt.Errorf("expected ; in %q", rest)
				}
				rest = rest[1:]
			}
			e, r, err := parseTyPrefix(rest)
			if err != nil {
				return nil, "", err
			}
			t.elems = append(t.elems, e)
			rest = r
		}
	case 'O':
		if len(s) < 2 || s[1] != '{' {
			return nil, "", fmt.Errorf("expected { in %q", s)
		}
		rest := s[2:]
		t := &ty{kind: 'O'}
		for {
			if strings.HasPrefix(rest, "}") {
				return t, rest[1:], nil
			}
			if len(t.elems) > 0 {
				if !strings.HasPrefix(rest, ";") {
					return nil, "", fmt.Errorf("expected ; in %q", rest)
				}
				rest = rest[1:]
			}
			eq := strings.IndexByte(rest, '=')
			if eq < 0 {
				return nil, "", fmt.Errorf("expected = in %q", rest)
			}
			name := rest[:eq]
			e, r, err := parseTyPrefix(rest[eq+1:])
			if err != nil {
				return nil, "", err
			}
			t.names = append(t.names, name)
			t.elems = append(t.elems, e)
			rest = r
		}
	}
	return nil, "", fmt.Errorf("unknown type kind in %q", s)
}

func (t *ty) cty() cty.Type {
	switch t.kind {
	case 's':
		return cty.String
	case 'n':
		return cty.Number
	case 'b':
		return cty.Bool
	case 'y':
		return cty.DynamicPseudoType
	case 'L':
		return cty.List(t.elems[0].cty())
	case 'S':
		return cty.Set(t.elems[0].cty())
	case 'M':
		return cty.Map(t.elems[0].cty())
	case 'T':
		tys := make([]cty.Type, len(t.elems))
		for i, e := range t.elems {
			tys[i] = e.cty()
		}
		return cty.Tuple(tys)
	default:
		m := make(map[string]cty.Type, len(t.elems))
		for i, e := range t.elems {
			m[t.names[i]] = e.cty()
		}
		return cty.Object(m)
	}
}

func (t *ty) hasAny() bool {
	if t.kind == 'y' {
		return true
	}
	for _, e := range t.elems {
		if e.hasAny() {
			return true
		}
	}
	return false
}

// firstKeyFor reports whether the type contains an object type whose first
// attribute in sorted order (the order TypeString emits) is named "for".
func (t *ty) firstKeyFor() bool {
	if t.kind == 'O' && len(t.names) > 0 {
		names := append([]string{}, t.names...)
		sort.Strings(names)
		if names[0] == "for" {
			return true
		}
	}
	for _, e := range t.elems {
		if e.firstKeyFor() {
			return true
		}
	}
	return false
}

// smaller proposes simpler types for shrinking: each child, and the type with
// one element / attribute removed or replaced by string.
func (t *ty) smaller() []*ty {
	var out []*ty
	out = append(out, t.elems...)
	if t.kind == 'T' || t.kind == 'O' {
		for i := range t.elems {
			c := &ty{kind: t.kind}
			for j := range t.elems {
				if j != i {
					c.elems = append(c.elems, t.elems[j])
					if t.kind == 'O' {
						c.names = append(c.names, t.names[j])
					}
				}
			}
			out = append(out, c)
		}
	}
	for i, e := range t.elems {
		if e.kind != 's' {
			c := &ty{kind: t.kind, names: t.names, elems: append([]*ty{}, t.elems...)}
			c.elems[i] = &ty{kind: 's'}
			out = append(out, c)
		}
		for _, se := range e.smaller() {
			c := &ty{kind: t.kind, names: t.names, elems: append([]*ty{}, t.elems...)}
			c.elems[i] = se
			out = append(out, c)
		}
	}
	return out
}

// ---------------------------------------------------------------------------
// generation (notation strings, simplest first)

// `-` is allowed inside identifiers (hclsyntax/spec.md "Identifiers"); é is
// ID_Start; for/if/null/true are identifiers that are keywords elsewhere.
var attrNames = []string{"a", "b-c", "é", "for", "if", "null", "true"}

var prims = []string{"s", "n", "b", "y"}

// reduced set used where the full product would be too large
var reduced2 = []string{"s", "n", "b", "y", "L(s)", "S(y)", "M(n)", "T[]", "T[b;y]", "O{}", "O{for=s}", "O{a=y;for=b}", "O{é=n}"}

func mkType(notation string) engine.Case {
	return engine.Case{ID: "type|" + notation, Data: Data{Fam: "type", Type: notation}}
}

// level2 is every type of depth exactly 2 over prims.
func level2() []string {
	var out []string
	for _, c := range prims {
		out = append(out, "L("+c+")", "S("+c+")", "M("+c+")")
	}
	out = append(out, "T[]")
	for _, c := range prims {
		out = append(out, "T["+c+"]")
	}
	for _, c := range prims {
		for _, d := range prims {
			out = append(out, "T["+c+";"+d+"]")
		}
	}
	out = append(out, "O{}")
	for _, n := range attrNames {
		for _, c := range prims {
			out = append(out, "O{"+n+"="+c+"}")
		}
	}
	for i, n1 := range attrNames {
		for _, n2 := range attrNames[i+1:] {
			for _, c := range prims {
				for _, d := range prims {
					out = append(out, "O{"+n1+"="+c+";"+n2+"="+d+"}")
				}
			}
		}
	}
	return out
}

// wrap1 emits every one-child constructor over each of inner.
func wrap1(inner []string, f func(string) bool) bool {
	for _, c := range inner {
		for _, s := range []string{"L(" + c + ")", "S(" + c + ")", "M(" + c + ")", "T[" + c + "]"} {
			if !f(s) {
				return false
			}
		}
		for _, n := range attrNames {
			if !f("O{" + n + "=" + c + "}") {
				return false
			}
		}
	}
	return true
}

// level3 calls f with the depth-3 types of the stated family.
func level3(thorough bool, f func(string) bool) bool {
	l2 := level2()
	upTo2 := append(append([]string{}, prims...), l2...)
	if !wrap1(l2, f) {
		return false
	}
	// 2-attribute objects: all name pairs x pairs from the reduced set with at
	// least one child of depth 2
	for i, n1 := range attrNames {
		for _, n2 := range attrNames[i+1:] {
			for ci, c := range reduced2 {
				for di, d := range reduced2 {
					if ci < len(prims) && di < len(prims) {
						continue // depth 2, already covered
					}
					if !f("O{" + n1 + "=" + c + ";" + n2 + "=" + d + "}") {
						return false
					}
				}
			}
		}
	}
	// 2-tuples with at least one element of depth 2. quick: every type of
	// depth <= 2 paired (both orders) with each type of the reduced set;
	// thorough: every pair of types of depth <= 2.
	if !thorough {
		inReduced := map[string]bool{}
		for _, r := range reduced2 {
			inReduced[r] = true
		}
		for ci, c := range upTo2 {
			for di, d := range reduced2 {
				if ci < len(prims) && di < len(prims) {
					continue
				}
				if !f("T[" + c + ";" + d + "]") {
					return false
				}
				if !inReduced[c] { // otherwise the swapped pair is met anyway
					if !f("T[" + d + ";" + c + "]") {
						return false
					}
				}
			}
		}
		return true
	}
	for ci, c := range upTo2 {
		for di, d := range upTo2 {
			if ci < len(prims) && di < len(prims) {
				continue
			}
			if !f("T[" + c + ";" + d + "]") {
				return false
			}
		}
	}
	return true
}

func level4(f func(string) bool) bool {
	// the non-product part of depth 3, used as children at depth 4
	var l3 []string
	wrap1(level2(), func(s string) bool { l3 = append(l3, s); return true })
	if !wrap1(l3, f) {
		return false
	}
	for _, c := range l3 {
		for _, d := range reduced2 {
			for _, s := range []string{
				"T[" + c + ";" + d + "]", "T[" + d + ";" + c + "]",
				"O{a=" + c + ";for=" + d + "}", "O{a=" + d + ";for=" + c + "}",
				"O{for=" + c + ";if=" + d + "}", "O{é=" + c + ";true=" + d + "}",
			} {
				if !f(s) {
					return false
				}
			}
		}
	}
	return true
}

func genTypes(from, to int, thorough bool, emit func(engine.Case) bool) bool {
	f := func(s string) bool { return emit(mkType(s)) }
	for depth := from; depth <= to; depth++ {
		switch depth {
		case 1:
			for _, p := range prims {
				if !f(p) {
					return false
				}
			}
		case 2:
			for _, s := range level2() {
				if !f(s) {
					return false
				}
			}
		case 3:
			if !level3(thorough, f) {
				return false
			}
		case 4:
			if !level4(f) {
				return false
			}
		}
	}
	return true
}

// ---------------------------------------------------------------------------
// oracle

func judgeType(d Data) engine.Outcome {
	t, err := parseTy(d.Type)
	if err != nil {
		return engine.Skip() // malformed replay input
	}
	want := t.cty()
	s := typeexpr.TypeString(want)
	if t.firstKeyFor() {
		counters.Add("type_cases_with_object_first_key_for", 1)
	}

	// One defect, one class: TypeString sorts the attribute names and emits
	// the first one directly after "{", so a first attribute named `for`
	// makes the object constructor read as a for expression
	// (hclsyntax/spec.md "Collection Values": "{for = 1, baz = 2} is a syntax
	// error"). The class is derived from the type, not from the error text.
	fail := func(clause, format string, a ...any) engine.Outcome {
		if t.firstKeyFor() {
			return engine.Fail("c20.typestring-object-first-key-for", "TypeString(%s) = %s does not read back (%s): %s", d.Type, s, clause, fmt.Sprintf(format, a...))
		}
		return engine.Fail("c20.type-roundtrip."+clause, "TypeString(%s) = %s: %s", d.Type, s, fmt.Sprintf(format, a...))
	}

	check := func(syntax string, e hcl.Expression) *engine.Outcome {
		got, gd := typeexpr.TypeConstraint(e)
		if gd.HasErrors() {
			o := fail(syntax+".constraint-error", "TypeConstraint fails: %s", gd.Error())
			return &o
		}
		if !got.Equals(want) {
			o := fail(syntax+".different-type", "TypeConstraint gives %s", typeexpr.TypeString(got))
			return &o
		}
		if !t.hasAny() {
			// an exact type: typeexpr.Type must agree as well
			got, gd := typeexpr.Type(e)
			if gd.HasErrors() || !got.Equals(want) {
				o := fail(syntax+".exact-type", "Type gives %s (errors: %v)", typeexpr.TypeString(got), gd.HasErrors())
				return &o
			}
		}
		return nil
	}

	e, pd := hclsyntax.ParseExpression([]byte(s), "t.hcl", hcl.InitialPos)
	if pd.HasErrors() {
		return fail("native.parse-error", "ParseExpression fails: %s", pd.Error())
	}
	if o := check("native", e); o != nil {
		return *o
	}
	for _, esc := range []bool{false, true} {
		if esc && !hasNonASCII(s) {
			continue
		}
		je, jd := hcljson.ParseExpression(jsonQuote(s, esc), "t.json")
		if jd.HasErrors() {
			return fail("json.parse-error", "json.ParseExpression of the quoted string fails: %s", jd.Error())
		}
		if o := check("json", je); o != nil {
			return *o
		}
	}
	return engine.Pass("type|" + s)
}
