package main

import (
	"bytes"
	stdjson "encoding/json"
	"fmt"
	"strings"

	"github.com/hashicorp/hcl/v2"
	"github.com/hashicorp/hcl/v2/hclsyntax"
	hcljson "github.com/hashicorp/hcl/v2/json"
	"github.com/zclconf/go-cty/cty"

	"verif/engine"
	"verif/vfmt"
)

// ---------------------------------------------------------------------------
// texts

// steps of family (a): every one is an attribute access or an index with a
// constant key, so every sequence is a static traversal per hclsyntax/spec.md
// "Static Traversal".
var baseSteps = []string{`.a`, `.b`, `.0`, `.1`, `[0]`, `[1]`, `["a"]`, `["b"]`, `["0"]`, `[2]`, `.zz`}

// additional steps of family (b): things that look like traversal steps but
// (mostly) are not; the stand-alone parser must reject them or agree.
var nearSteps = []string{`[*]`, `.*`, `[v]`, `[true]`, `[null]`, `[-1]`, `[1.5]`, `["a${v}"]`, `["$${a}"]`, `["a\tb%%{"]`, `[""]`, `()`, `(0)`, `.for`, `["é"]`}

// Roots. hclsyntax/spec.md "Keywords": no globally reserved words; `for`, `if`
// are keywords only directly after "[" / "{" and inside for expressions, so
// they are ordinary variable names here. `true`, `false`, `null` are literal
// keywords in expressions and the spec ("Static Traversal") says the static
// view re-interprets them as variable names: they get the twin oracle in (a).
var evalRoots = []string{"v", "w", "for", "if", "true", "null"}
var parseRoots = []string{"v", "for", "if", "true", "null"}
var parseRootsLong = []string{"v", "for", "true"} // quick tier, 3-step sequences

func isKeywordRoot(r string) bool { return r == "true" || r == "false" || r == "null" }

const (
	rendPlain = iota
	rendParen
	rendParenNL
	rendNL
	rendSpaced
)

func stepWith(step, sep string) string {
	switch {
	case strings.HasPrefix(step, "."):
		if sep == "\n" {
			return step // the newline goes between the steps
		}
		return "." + sep + step[1:]
	case len(step) > 2 && (step[0] == '[' || step[0] == '('):
		return step[:1] + sep + step[1:len(step)-1] + sep + step[len(step)-1:]
	}
	return step
}

func renderTrav(root string, steps []string, rend int) string {
	var sb strings.Builder
	switch rend {
	case rendPlain, rendParen:
		if rend == rendParen {
			sb.WriteString("(")
		}
		sb.WriteString(root)
		for _, s := range steps {
			sb.WriteString(s)
		}
		if rend == rendParen {
			sb.WriteString(")")
		}
	case rendParenNL, rendNL:
		if rend == rendParenNL {
			sb.WriteString("(\n")
		}
		sb.WriteString(root)
		for _, s := range steps {
			sb.WriteString("\n")
			sb.WriteString(stepWith(s, "\n"))
		}
		if rend == rendParenNL {
			sb.WriteString("\n)")
		}
	case rendSpaced:
		sb.WriteString(root)
		for _, s := range steps {
			sb.WriteString(" ")
			sb.WriteString(stepWith(s, " "))
		}
	}
	return sb.String()
}

func mkEval(root string, steps []string, rend int) engine.Case {
	text := renderTrav(root, steps, rend)
	st := append([]string{}, steps...)
	return engine.Case{
		ID:   fmt.Sprintf("eval|%d|%s", rend, text),
		Data: Data{Fam: "eval", Root: root, Steps: st, Rend: rend, Text: text},
	}
}

func mkParse(root string, steps []string, rend int) engine.Case {
	text := renderTrav(root, steps, rend)
	st := append([]string{}, steps...)
	return engine.Case{
		ID:   fmt.Sprintf("parse|%d|%s", rend, text),
		Data: Data{Fam: "parse", Root: root, Steps: st, Rend: rend, Text: text},
	}
}

func mkParseRaw(text string) engine.Case {
	return engine.Case{ID: "parse|raw|" + text, Data: Data{Fam: "parse", Raw: text, IsRaw: true, Text: text}}
}

// seqs calls f with every sequence of exactly n elements of alphabet.
func seqs(alphabet []string, n int, f func([]string) bool) bool {
	buf := make([]string, 0, n)
	var rec func(k int) bool
	rec = func(k int) bool {
		if k == 0 {
			return f(buf)
		}
		for _, a := range alphabet {
			buf = append(buf, a)
			ok := rec(k - 1)
			buf = buf[:len(buf)-1]
			if !ok {
				return false
			}
		}
		return true
	}
	return rec(n)
}

func rendsFor(n int, all []int) []int {
	if n > 0 {
		return all
	}
	var out []int
	for _, r := range all {
		if r != rendNL && r != rendSpaced { // identical to plain without steps
			out = append(out, r)
		}
	}
	return out
}

func genEval(n int, emit func(engine.Case) bool) bool {
	rends := rendsFor(n, []int{rendPlain, rendParen, rendParenNL, rendNL, rendSpaced})
	return seqs(baseSteps, n, func(steps []string) bool {
		for _, root := range evalRoots {
			for _, rend := range rends {
				if !emit(mkEval(root, steps, rend)) {
					return false
				}
			}
		}
		return true
	})
}

func genParse(n int, thorough bool, emit func(engine.Case) bool) bool {
	alphabet := append(append([]string{}, baseSteps...), nearSteps...)
	// The parenthesised layout starts with "(", which the stand-alone grammar
	// never accepts: one or two steps are enough to show that (quick).
	rends := rendsFor(n, []int{rendPlain, rendParen, rendNL, rendSpaced})
	if n > 2 && !thorough {
		rends = []int{rendPlain, rendNL, rendSpaced}
	}
	roots := parseRoots
	if n > 2 && !thorough {
		roots = parseRootsLong
	}
	return seqs(alphabet, n, func(steps []string) bool {
		for _, root := range roots {
			for _, rend := range rends {
				if !emit(mkParse(root, steps, rend)) {
					return false
				}
			}
		}
		return true
	})
}

var rawTexts = []string{
	``, ` `, `v.a.`, `v[`, `v[0`, `v["a"`, `v["a`, `v.a b`, `v,`, `v.a + 1`, `1`, `"v"`, `[v]`, `{}`, `!v`, `-v`, `v ? 1 : 2`,
	`v.a # c`, "v.a // c\n", `v /* c */ .a`, `/* c */ v`, "v[<<E\na\nE\n]", "v[<<-E\n  a\n  E\n]", `v[0x1]`, `v[1e2]`, `v[01]`, `v[1_0]`, `v[0.0]`,
	`v["é"]`, `v["\n"]`, `v["\\"]`, `v["\""]`, `v["$"]`, `v["%"]`, `v["$$"]`, `v["%%"]`, `v["${"]`, `v["%{if true}x%{endif}"]`,
	`é.é`, `a-b.c-d`, `a-b[0]`, `v::f`, `v::f()`, "v.a\n", "\nv", "\n\nv\n\n.a\n\n", `v[0]]`, `f(v)`, `f(v).a`, `v[0][*].a`, `v.*.a`, `v[*]`, `v["a"]["b"]`,
	`v . a`, `v. a`, `v .a`, `v[ "a" ]`, `v.0a`, `v.a0`, `v.0.a`, `v.00`, `v.1e2`, `true`, `false`, `null`, `true.true`, `null[null]`, `false["false"]`,
	`for`, `in`, `if`, `else`, `endif`, `endfor`, `for.in`, `v.in.if`, `(v).a`, `(v)[0]`, `((v))`, `(v.a).b`, `v[(0)]`, `v[("a")]`, `v.a...`, `v...`, `v.a=1`,
	`v.a==v.a`, `v&&v`, `v[0]+1`, `[for x in v: x]`, `{for k, x in v: k => x}`, `v[0]["a"].b.0`, `v.a[0].b["c"]`, `V.A`, `_v._a`, `v.a-b`, `v[1e999999999]`, `v[1e-999999999]`,
	`v[99999999999999999999999999999999999999999999]`, `v[0.1]`, `v[.5]`, `v[5.]`, `v["a" ]`, `v["a"] `, ` v`, "\tv\t.a", "v\r\n.a", "\ufeffv",
}

func genParseRaw(emit func(engine.Case) bool) bool {
	for _, t := range rawTexts {
		if !emit(mkParseRaw(t)) {
			return false
		}
	}
	return true
}

// ---------------------------------------------------------------------------
// scopes

var (
	valObj = cty.ObjectVal(map[string]cty.Value{
		"a": cty.ListVal([]cty.Value{
			cty.ObjectVal(map[string]cty.Value{"a": cty.StringVal("aa0"), "b": cty.ListVal([]cty.Value{cty.StringVal("x"), cty.StringVal("y")})}),
			cty.ObjectVal(map[string]cty.Value{"a": cty.StringVal("aa1"), "b": cty.ListVal([]cty.Value{cty.StringVal("z"), cty.StringVal("w")})}),
		}),
		"b": cty.ObjectVal(map[string]cty.Value{
			"a": cty.ListVal([]cty.Value{cty.StringVal("ba0"), cty.StringVal("ba1")}),
			"b": cty.MapVal(map[string]cty.Value{"0": cty.StringVal("bb0"), "a": cty.StringVal("bba")}),
			"0": cty.NumberIntVal(70),
		}),
		"0": cty.TupleVal([]cty.Value{cty.True, cty.NullVal(cty.String)}),
	})
	valListOfObj = cty.ListVal([]cty.Value{
		cty.ObjectVal(map[string]cty.Value{"a": cty.ObjectVal(map[string]cty.Value{"a": cty.NumberIntVal(1), "b": cty.NumberIntVal(2)}), "b": cty.ListVal([]cty.Value{cty.NumberIntVal(10), cty.NumberIntVal(20)})}),
		cty.ObjectVal(map[string]cty.Value{"a": cty.ObjectVal(map[string]cty.Value{"a": cty.NumberIntVal(3), "b": cty.NumberIntVal(4)}), "b": cty.ListVal([]cty.Value{cty.NumberIntVal(30), cty.NumberIntVal(40)})}),
	})
	valMapOfLists = cty.MapVal(map[string]cty.Value{
		"a": cty.ListVal([]cty.Value{cty.ListVal([]cty.Value{cty.NumberIntVal(1), cty.NumberIntVal(2)}), cty.ListVal([]cty.Value{cty.NumberIntVal(3)})}),
		"b": cty.ListVal([]cty.Value{cty.ListVal([]cty.Value{cty.NumberIntVal(4)}), cty.ListVal([]cty.Value{cty.NumberIntVal(5), cty.NumberIntVal(6)})}),
		"0": cty.ListVal([]cty.Value{cty.ListVal([]cty.Value{cty.NumberIntVal(7)})}),
	})
	valTuple = cty.TupleVal([]cty.Value{
		cty.StringVal("s"),
		cty.ObjectVal(map[string]cty.Value{"a": cty.ListVal([]cty.Value{cty.True, cty.False}), "b": cty.ObjectVal(map[string]cty.Value{"a": cty.StringVal("tba")})}),
		cty.TupleVal([]cty.Value{cty.ObjectVal(map[string]cty.Value{"b": cty.NullVal(cty.DynamicPseudoType), "a": cty.NumberIntVal(1)})}),
	})
	valUnknown = cty.ObjectVal(map[string]cty.Value{
		"a": cty.UnknownVal(cty.List(cty.Object(map[string]cty.Type{"a": cty.String, "b": cty.List(cty.String)}))),
		"b": cty.DynamicVal,
		"0": cty.UnknownVal(cty.Map(cty.Number)),
	})
	valMarked = cty.ObjectVal(map[string]cty.Value{
		"a": cty.ListVal([]cty.Value{cty.StringVal("m0"), cty.StringVal("m1")}).Mark("inner"),
		"b": cty.MapVal(map[string]cty.Value{"a": cty.StringVal("mba").Mark("leaf"), "b": cty.StringVal("mbb")}),
	}).Mark("outer")
	scopeVals = []cty.Value{valObj, valListOfObj, valMapOfLists, valTuple, valUnknown, valMarked}
)

const numScopes = 12

// mkScope builds scope number i for a root variable name and returns the
// context plus the flattened map of the variables visible from it.
func mkScope(i int, root string) (*hcl.EvalContext, map[string]cty.Value) {
	switch {
	case i < 6:
		vars := map[string]cty.Value{root: scopeVals[i], "other": valListOfObj}
		return &hcl.EvalContext{Variables: vars}, vars
	case i == 6: // root absent
		vars := map[string]cty.Value{"other": valObj}
		return &hcl.EvalContext{Variables: vars}, vars
	case i == 7: // no variables at all
		return &hcl.EvalContext{}, map[string]cty.Value{}
	case i == 8: // empty child, root in the parent
		parent := &hcl.EvalContext{Variables: map[string]cty.Value{root: valListOfObj}}
		child := parent.NewChild()
		child.Variables = map[string]cty.Value{}
		return child, map[string]cty.Value{root: valListOfObj}
	case i == 9: // child shadows parent
		parent := &hcl.EvalContext{Variables: map[string]cty.Value{root: valObj, "other": valTuple}}
		child := parent.NewChild()
		child.Variables = map[string]cty.Value{root: valMapOfLists}
		return child, map[string]cty.Value{root: valMapOfLists, "other": valTuple}
	case i == 10: // nil context
		return nil, map[string]cty.Value{}
	default: // child without a variable table, root in the parent
		parent := &hcl.EvalContext{Variables: map[string]cty.Value{root: valTuple}}
		child := parent.NewChild()
		return child, map[string]cty.Value{root: valTuple}
	}
}

// ---------------------------------------------------------------------------
// traversals

func travString(t hcl.Traversal) string {
	var sb strings.Builder
	for _, s := range t {
		switch s := s.(type) {
		case hcl.TraverseRoot:
			sb.WriteString("R(" + s.Name + ")")
		case hcl.TraverseAttr:
			sb.WriteString(".A(" + s.Name + ")")
		case hcl.TraverseIndex:
			sb.WriteString(".I(" + vfmt.V(s.Key) + ")")
		case hcl.TraverseSplat:
			sb.WriteString(".*")
		default:
			fmt.Fprintf(&sb, ".?%T", s)
		}
	}
	return sb.String()
}

func travShape(t hcl.Traversal) string {
	var sb strings.Builder
	for _, s := range t {
		switch s := s.(type) {
		case hcl.TraverseRoot:
			sb.WriteString("R")
		case hcl.TraverseAttr:
			sb.WriteString("A")
		case hcl.TraverseIndex:
			if s.Key.Type() == cty.String {
				sb.WriteString("S")
			} else {
				sb.WriteString("N")
			}
		default:
			sb.WriteString("?")
		}
	}
	return sb.String()
}

// travDiff compares two traversals step for step (kind, name, key), ignoring
// source ranges. "" = equal.
func travDiff(a, b hcl.Traversal) string {
	if len(a) != len(b) {
		return fmt.Sprintf("%d steps vs %d steps", len(a), len(b))
	}
	for i := range a {
		switch x := a[i].(type) {
		case hcl.TraverseRoot:
			y, ok := b[i].(hcl.TraverseRoot)
			if !ok || x.Name != y.Name {
				return fmt.Sprintf("step %d differs", i)
			}
		case hcl.TraverseAttr:
			y, ok := b[i].(hcl.TraverseAttr)
			if !ok || x.Name != y.Name {
				return fmt.Sprintf("step %d differs", i)
			}
		case hcl.TraverseIndex:
			y, ok := b[i].(hcl.TraverseIndex)
			if !ok || !x.Key.RawEquals(y.Key) {
				return fmt.Sprintf("step %d differs", i)
			}
		case hcl.TraverseSplat:
			if _, ok := b[i].(hcl.TraverseSplat); !ok {
				return fmt.Sprintf("step %d differs", i)
			}
		default:
			return fmt.Sprintf("step %d of unknown kind %T", i, x)
		}
	}
	return ""
}

func outcomeString(v cty.Value, diags hcl.Diagnostics) string {
	if diags.HasErrors() {
		for _, d := range diags {
			if d.Severity == hcl.DiagError {
				return "E:" + d.Summary
			}
		}
	}
	return vfmt.V(v)
}

func rootKind(root string) string {
	if isKeywordRoot(root) {
		return "keyword-root"
	}
	return "variable-root"
}

// ---------------------------------------------------------------------------
// (a) static traversal vs evaluation

func judgeEval(d Data) engine.Outcome {
	text := renderTrav(d.Root, d.Steps, d.Rend)
	paren := d.Rend == rendParen || d.Rend == rendParenNL
	kwRoot := isKeywordRoot(d.Root)
	e, pd := hclsyntax.ParseExpression([]byte(text), "t.hcl", hcl.InitialPos)
	if pd.HasErrors() {
		// e.g. chained legacy indexes `.0.1` (hclsyntax/spec.md: "renders the
		// resulting sequence invalid"). Grammar acceptance is C01/C02's subject.
		return engine.Pass("")
	}
	abs, ad := hcl.AbsTraversalForExpr(e)
	rel, rd := hcl.RelTraversalForExpr(e)
	kw := hcl.ExprAsKeyword(e)

	// ExprAsKeyword: "A static keyword ... is a single identifier". Nothing is
	// documented about parentheses around a single identifier, and the doc
	// comment about true/false/null is self-contradictory ("cannot not be
	// accepted"), so those two situations are not asserted.
	if len(d.Steps) > 0 && kw != "" {
		return engine.Fail("c20.keyword-for-multi-step-traversal", "ExprAsKeyword(%q) = %q, but the expression is not a single identifier", text, kw)
	}
	if len(d.Steps) == 0 && !paren && !kwRoot && kw != d.Root {
		return engine.Fail("c20.keyword-not-recognised", "ExprAsKeyword(%q) = %q, want %q", text, kw, d.Root)
	}

	if ad.HasErrors() != rd.HasErrors() {
		// "Any expression accepted by AbsTraversalForExpr is also accepted by RelTraversalForExpr."
		return engine.Fail("c20.rel-abs-acceptance-differs", "%q: AbsTraversalForExpr error=%v but RelTraversalForExpr error=%v", text, ad.HasErrors(), rd.HasErrors())
	}
	if ad.HasErrors() {
		if !paren {
			// hclsyntax/spec.md Static Traversal: a variable expression with
			// attribute access and constant index operations can be
			// interpreted as a static traversal (and true/false/null too).
			return engine.Fail("c20.static-traversal-rejected."+rootKind(d.Root), "AbsTraversalForExpr(%q) fails: %s", text, ad.Error())
		}
		// Whether a parenthesised traversal is a static traversal is not specified.
		counters.Add("eval_parenthesised_not_static", 1)
		return engine.Pass("")
	}
	if abs.IsRelative() || len(abs) == 0 {
		return engine.Fail("c20.abs-traversal-not-absolute", "AbsTraversalForExpr(%q) = %s is not absolute", text, travString(abs))
	}
	if !rel.IsRelative() || len(rel) != len(abs) {
		return engine.Fail("c20.rel-traversal-shape", "RelTraversalForExpr(%q) = %s (abs: %s)", text, travString(rel), travString(abs))
	}
	if first, ok := rel[0].(hcl.TraverseAttr); !ok || first.Name != abs.RootName() {
		return engine.Fail("c20.rel-traversal-shape", "RelTraversalForExpr(%q) does not start with the attribute %q: %s", text, abs.RootName(), travString(rel))
	}
	if abs.RootName() != d.Root {
		return engine.Fail("c20.static-traversal-root-name."+rootKind(d.Root), "AbsTraversalForExpr(%q) has root %q", text, abs.RootName())
	}

	// Every scope of the table (the text is parsed once, the static views and
	// the expression are applied to each scope).
	var twin hcl.Expression
	if kwRoot {
		// "behaving as if they were references to variables of those names":
		// the reference is the evaluation of the same text with root v in the
		// same scope with v bound to the same value.
		var tpd hcl.Diagnostics
		twin, tpd = hclsyntax.ParseExpression([]byte(renderTrav("v", d.Steps, d.Rend)), "t.hcl", hcl.InitialPos)
		if tpd.HasErrors() {
			return engine.Skip()
		}
	}
	var sig strings.Builder
	sig.WriteString(rootKind(d.Root)[:3] + "|" + travShape(abs))
	for scope := 0; scope < numScopes; scope++ {
		ctx, flat := mkScope(scope, d.Root)
		var want cty.Value
		var wd hcl.Diagnostics
		if kwRoot {
			tctx, _ := mkScope(scope, "v")
			want, wd = twin.Value(tctx)
		} else {
			want, wd = e.Value(ctx)
		}

		got, gd := abs.TraverseAbs(ctx)
		if gd.HasErrors() != wd.HasErrors() {
			return engine.Fail("c20.traverse-abs-vs-value.error-presence."+rootKind(d.Root),
				"%q in scope %d: static traversal %s gives error=%v (%s) but evaluation gives error=%v (%s)", text, scope, travString(abs), gd.HasErrors(), gd.Error(), wd.HasErrors(), wd.Error())
		}
		if !wd.HasErrors() && !got.RawEquals(want) {
			return engine.Fail("c20.traverse-abs-vs-value.value."+rootKind(d.Root),
				"%q in scope %d: static traversal %s gives %s but evaluation gives %s", text, scope, travString(abs), vfmt.V(got), vfmt.V(want))
		}

		obj := cty.ObjectVal(flat)
		rgot, rgd := rel.TraverseRel(obj)
		if rgd.HasErrors() != wd.HasErrors() {
			return engine.Fail("c20.traverse-rel-vs-value.error-presence."+rootKind(d.Root),
				"%q in scope %d: relative traversal %s on the scope object gives error=%v (%s) but evaluation gives error=%v (%s)", text, scope, travString(rel), rgd.HasErrors(), rgd.Error(), wd.HasErrors(), wd.Error())
		}
		if !wd.HasErrors() && !rgot.RawEquals(want) {
			return engine.Fail("c20.traverse-rel-vs-value.value."+rootKind(d.Root),
				"%q in scope %d: relative traversal %s on the scope object gives %s but evaluation gives %s", text, scope, travString(rel), vfmt.V(rgot), vfmt.V(want))
		}
		if wd.HasErrors() {
			counters.Add("eval_scope_outcomes_error", 1)
		} else {
			counters.Add("eval_scope_outcomes_value", 1)
		}
		sig.WriteString("|" + outcomeString(want, wd))
	}
	return engine.Pass(sig.String())
}

// ---------------------------------------------------------------------------
// (b) stand-alone traversal parser and JSON strings vs the expression parser

func jsonQuote(s string, escapeNonASCII bool) []byte {
	var buf bytes.Buffer
	enc := stdjson.NewEncoder(&buf)
	enc.SetEscapeHTML(false)
	enc.Encode(s)
	out := bytes.TrimRight(buf.Bytes(), "\n")
	if !escapeNonASCII {
		return out
	}
	var sb bytes.Buffer
	for _, r := range string(out) {
		switch {
		case r < 0x80:
			sb.WriteRune(r)
		case r >= 0x10000:
			r -= 0x10000
			fmt.Fprintf(&sb, `\u%04x\u%04x`, 0xd800+(r>>10), 0xdc00+(r&0x3ff))
		default:
			fmt.Fprintf(&sb, `\u%04x`, r)
		}
	}
	return sb.Bytes()
}

// constructOnlyNativeAccepts names, for the class of a "native accepts, JSON
// string rejects" failure, the construct that the stand-alone traversal
// grammar lacks. It looks at the token stream only.
func constructOnlyNativeAccepts(text string) string {
	toks, _ := hclsyntax.LexExpression([]byte(text), "t.hcl", hcl.InitialPos)
	var sig []hclsyntax.Token
	for _, t := range toks {
		if t.Type != hclsyntax.TokenNewline && t.Type != hclsyntax.TokenComment {
			sig = append(sig, t)
		}
	}
	for i := 0; i+1 < len(sig); i++ {
		if sig[i].Type == hclsyntax.TokenDot && sig[i+1].Type == hclsyntax.TokenNumberLit {
			return "legacy-index"
		}
	}
	for i := 0; i+2 < len(sig); i++ {
		if sig[i].Type == hclsyntax.TokenOBrack && sig[i+1].Type == hclsyntax.TokenIdent && sig[i+2].Type == hclsyntax.TokenCBrack {
			switch string(sig[i+1].Bytes) {
			case "true", "false", "null":
				return "keyword-index-key"
			}
		}
	}
	for i := 0; i+1 < len(sig); i++ {
		if sig[i].Type == hclsyntax.TokenOBrack && sig[i+1].Type == hclsyntax.TokenOHeredoc {
			return "heredoc-index-key"
		}
	}
	return "other"
}

func judgeParse(d Data) engine.Outcome {
	text := d.Raw
	if !d.IsRaw {
		text = renderTrav(d.Root, d.Steps, d.Rend)
	}
	src := []byte(text)

	e, pd := hclsyntax.ParseExpression(src, "t.hcl", hcl.InitialPos)
	var native hcl.Traversal
	nativeOK := false
	nativeWhy := "the expression parser rejects it: " + pd.Error()
	if !pd.HasErrors() {
		var nd hcl.Diagnostics
		native, nd = hcl.AbsTraversalForExpr(e)
		nativeOK = !nd.HasErrors()
		nativeWhy = "the parsed expression is not a static traversal"
	}
	nativeClass := "not-a-traversal"
	if pd.HasErrors() {
		nativeClass = "parse-error"
	}

	sig := ""
	// stand-alone parser
	alone, ald := hclsyntax.ParseTraversalAbs(src, "t.hcl", hcl.InitialPos)
	if !ald.HasErrors() {
		if !nativeOK {
			return engine.Fail("c20.standalone-accepts-non-traversal."+nativeClass, "ParseTraversalAbs(%q) accepts (%s) but %s", text, travString(alone), nativeWhy)
		}
		if diff := travDiff(alone, native); diff != "" {
			return engine.Fail("c20.standalone-traversal-differs", "ParseTraversalAbs(%q) = %s but AbsTraversalForExpr(ParseExpression) = %s (%s)", text, travString(alone), travString(native), diff)
		}
		sig += "S"
	}

	// JSON string. json/spec.md "Static Traversal": "The content of the string
	// is interpreted as a native syntax expression (not a template ...) and
	// then static traversal analysis is delegated to that expression."
	for variant, esc := range []bool{false, true} {
		if esc && !hasNonASCII(text) {
			continue
		}
		je, jd := hcljson.ParseExpression(jsonQuote(text, esc), "t.json")
		if jd.HasErrors() {
			counters.Add("json_quote_rejected", 1) // JSON acceptance is C13's subject
			continue
		}
		jt, jtd := hcl.AbsTraversalForExpr(je)
		jsonOK := !jtd.HasErrors()
		if jsonOK && !nativeOK {
			return engine.Fail("c20.json-traversal-accepts-non-traversal."+nativeClass, "JSON string %q (variant %d) is accepted as static traversal %s but %s", text, variant, travString(jt), nativeWhy)
		}
		if jsonOK {
			if diff := travDiff(jt, native); diff != "" {
				return engine.Fail("c20.json-traversal-differs", "JSON string %q (variant %d) gives %s but the native expression gives %s (%s)", text, variant, travString(jt), travString(native), diff)
			}
			if len(native) == 1 {
				if jk, nk := hcl.ExprAsKeyword(je), hcl.ExprAsKeyword(e); jk != nk {
					return engine.Fail("c20.json-keyword-differs", "JSON string %q: ExprAsKeyword = %q, native %q", text, jk, nk)
				}
			}
			sig += "J"
		}
		if !jsonOK && nativeOK {
			// One cause, one class: the JSON syntax parses the string with the
			// stand-alone traversal grammar, which lacks some constructs the
			// expression grammar treats as constant traversal steps. Anything
			// else the JSON syntax rejects is a different failure.
			construct := constructOnlyNativeAccepts(text)
			class := "c20.json-traversal-rejects-expression-only-step"
			if construct == "other" {
				class = "c20.json-traversal-rejects-plain-traversal"
			} else {
				// json/spec.md delegates to the native expression, while the
				// implementation uses the stand-alone traversal grammar, which
				// lacks legacy index / bool / null / heredoc keys. The property
				// itself only demands agreement for texts the stand-alone
				// parser accepts, so this divergence is counted, not judged.
				return engine.Skip()
			}
			return engine.Fail(class,
				"JSON string %q (variant %d) is not accepted as a static traversal although the native expression it contains is one (%s; construct: %s); json/spec.md delegates the analysis to the native expression", text, variant, travString(native), construct)
		}
	}
	if sig == "" {
		return engine.Pass("")
	}
	return engine.Pass(sig + "|" + travString(native))
}

func hasNonASCII(s string) bool {
	for i := 0; i < len(s); i++ {
		if s[i] >= 0x80 {
			return true
		}
	}
	return false
}
