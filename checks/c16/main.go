// C16 — Struct encoding and decoding are inverse, in both syntaxes.
//
// Bounded exhaustive exploration of values of a family of tagged Go struct
// types (see types.go) through the real gohcl.EncodeIntoBody / EncodeAsBlock →
// hclwrite bytes → hclsyntax.ParseConfig → gohcl.DecodeBody (and
// hclsimple.Decode), the JSON twin of each document through json.Parse →
// gohcl.DecodeBody, and every single perturbation of each document through
// the decoder ("diagnostics, never a panic").
package main

import (
	"encoding/json"
	"fmt"
	"reflect"
	"sort"
	"strings"
	"unicode"

	"github.com/hashicorp/hcl/v2"
	"github.com/hashicorp/hcl/v2/gohcl"
	"github.com/hashicorp/hcl/v2/hclsimple"
	"github.com/hashicorp/hcl/v2/hclsyntax"
	"github.com/hashicorp/hcl/v2/hclwrite"
	hcljson "github.com/hashicorp/hcl/v2/json"
	"github.com/zclconf/go-cty/cty"
	"github.com/zclconf/go-cty/cty/convert"

	"verif/engine"
)

type Data struct {
	Type   string          `json:"type"`   // key of the types registry
	Family string          `json:"family"` // which field family the generator varied
	Val    json.RawMessage `json:"val"`    // encoding/json form of the Go value
	Pert   *Pert           `json:"pert,omitempty"`
	Expr   *ExprCase       `json:"expr,omitempty"` // family decode-expression: Type and Val unused
}

var counters engine.Counter

// ---- comparison ------------------------------------------------------------

// equalNorm is reflect.DeepEqual with the documented normalisation: a nil
// slice/map and an empty one are the same value (gohcl gives no guarantee
// about which one decoding produces: zero blocks decode to a nil slice), and
// cty.Value fields are compared with RawEquals after converting the decoded
// value to the original's type (DESIGN 3.1; the native syntax has no list/map
// constructors, only tuple/object ones).
func equalNorm(got, want reflect.Value) bool {
	if got.Type() != want.Type() {
		return false
	}
	switch want.Kind() {
	case reflect.Ptr:
		if got.IsNil() || want.IsNil() {
			return got.IsNil() == want.IsNil()
		}
		return equalNorm(got.Elem(), want.Elem())
	case reflect.Slice:
		if got.Len() != want.Len() {
			return false
		}
		for i := 0; i < want.Len(); i++ {
			if !equalNorm(got.Index(i), want.Index(i)) {
				return false
			}
		}
		return true
	case reflect.Map:
		if got.Len() != want.Len() {
			return false
		}
		for _, k := range want.MapKeys() {
			gv := got.MapIndex(k)
			if !gv.IsValid() || !equalNorm(gv, want.MapIndex(k)) {
				return false
			}
		}
		return true
	case reflect.Struct:
		if want.Type() == ctyValueType {
			g, w := got.Interface().(cty.Value), want.Interface().(cty.Value)
			if g == cty.NilVal || w == cty.NilVal {
				return g == cty.NilVal && w == cty.NilVal
			}
			if !w.IsKnown() {
				// an unknown result (only in the expression cases): same type;
				// refinements of unknown values are not specified
				return !g.IsKnown() && g.Type().Equals(w.Type())
			}
			c, err := convert.Convert(g, w.Type())
			if err != nil {
				return false
			}
			return c.RawEquals(w)
		}
		for i := 0; i < want.NumField(); i++ {
			if !equalNorm(got.Field(i), want.Field(i)) {
				return false
			}
		}
		return true
	case reflect.Float32, reflect.Float64:
		return got.Float() == want.Float()
	default:
		return got.Interface() == want.Interface()
	}
}

// nilnessPreserved: for attribute-typed slices and maps (elements that are
// not structs / pointers to structs, i.e. not block fields) the real encoder
// writes null for nil and an empty constructor for empty, and the decoder
// reads them back as such, so the inverse law holds exactly; for block slices
// zero blocks necessarily decode to nil.
func nilnessPreserved(got, want reflect.Value) bool {
	if got.Type() != want.Type() {
		return false
	}
	switch want.Kind() {
	case reflect.Ptr:
		if got.IsNil() || want.IsNil() {
			return got.IsNil() == want.IsNil()
		}
		return nilnessPreserved(got.Elem(), want.Elem())
	case reflect.Slice:
		et := want.Type().Elem()
		for et.Kind() == reflect.Ptr {
			et = et.Elem()
		}
		if et.Kind() != reflect.Struct && got.IsNil() != want.IsNil() {
			return false
		}
		for i := 0; i < want.Len() && i < got.Len(); i++ {
			if !nilnessPreserved(got.Index(i), want.Index(i)) {
				return false
			}
		}
	case reflect.Map:
		if got.IsNil() != want.IsNil() {
			return false
		}
	case reflect.Struct:
		if want.Type() == ctyValueType {
			return true
		}
		for i := 0; i < want.NumField(); i++ {
			if !nilnessPreserved(got.Field(i), want.Field(i)) {
				return false
			}
		}
	}
	return true
}

func show(v reflect.Value) string {
	b, err := json.Marshal(v.Interface())
	if err != nil {
		return fmt.Sprintf("%+v", v.Interface())
	}
	return string(b)
}

func load(d Data) (reflect.Type, reflect.Value, error) {
	rt, ok := types[d.Type]
	if !ok {
		return nil, reflect.Value{}, fmt.Errorf("unknown type %q", d.Type)
	}
	vp := reflect.New(rt)
	if err := json.Unmarshal(d.Val, vp.Interface()); err != nil {
		return nil, reflect.Value{}, err
	}
	return rt, vp, nil
}

// ---- defect regions --------------------------------------------------------
// Narrow predicates on the case that recognise one construct under one
// condition; used to give a genuine defect its own class.

// firstKeyFor: some map/object-valued attribute (at any depth of the document)
// whose first key in generation order (lexicographic) is exactly `for`.
func firstKeyFor(b *Body) bool {
	var lit func(l *Lit) bool
	lit = func(l *Lit) bool {
		if l.Kind == kMap && len(l.Keys) > 0 {
			ks := append([]string{}, l.Keys...)
			sort.Strings(ks)
			if ks[0] == "for" {
				return true
			}
		}
		for _, e := range l.Elems {
			if lit(e) {
				return true
			}
		}
		return false
	}
	for _, it := range b.Items {
		if it.Block {
			if firstKeyFor(it.Body) {
				return true
			}
		} else if lit(it.Val) {
			return true
		}
	}
	return false
}

// loneCRThenDoubledIntroducer: some string in expression position (attribute
// value or map key at any depth; labels are literal in JSON) contains a CR not
// followed by LF and, later, `$${` or `%%{` (which the template-mode twin has
// to write as `$$${` / `%%%{`).
func loneCRThenDoubledIntroducer(b *Body) bool {
	str := func(s string) bool {
		for i := 0; i < len(s); i++ {
			if s[i] == '\r' && (i+1 >= len(s) || s[i+1] != '\n') {
				rest := s[i+1:]
				if strings.Contains(rest, "$${") || strings.Contains(rest, "%%{") {
					return true
				}
			}
		}
		return false
	}
	var lit func(l *Lit) bool
	lit = func(l *Lit) bool {
		if l.Kind == kStr && str(l.Str) {
			return true
		}
		for _, k := range l.Keys {
			if str(k) {
				return true
			}
		}
		for _, e := range l.Elems {
			if lit(e) {
				return true
			}
		}
		return false
	}
	for _, it := range b.Items {
		if it.Block {
			if loneCRThenDoubledIntroducer(it.Body) {
				return true
			}
		} else if lit(it.Val) {
			return true
		}
	}
	return false
}

// anyExprString: pred holds for some string in expression position (attribute
// value string or map / object key at any depth; labels are literal in JSON).
func anyExprString(b *Body, pred func(string) bool) bool {
	var lit func(l *Lit) bool
	lit = func(l *Lit) bool {
		if l.Kind == kStr && pred(l.Str) {
			return true
		}
		for _, k := range l.Keys {
			if pred(k) {
				return true
			}
		}
		for _, e := range l.Elems {
			if lit(e) {
				return true
			}
		}
		return false
	}
	for _, it := range b.Items {
		if it.Block {
			if anyExprString(it.Body, pred) {
				return true
			}
		} else if lit(it.Val) {
			return true
		}
	}
	return false
}

// templateSourceStartsWithBOM: with a non-nil EvalContext a JSON string is
// "parsed as a template" of the native syntax (json/spec.md, Strings), and
// hclsyntax/spec.md says of native syntax source "UTF-8 encoded Unicode byte
// order marks are not permitted". A string that begins with U+FEFF therefore
// has no specified direct representation as a JSON template string (the
// implementation strips the mark: hclsyntax.scanTokens / stripUTF8BOM), so the
// template-mode twins of such a value are outside the specified domain; the
// literal-mode twins and the native round trip are still required to hold.
func templateSourceStartsWithBOM(doc *Body) bool {
	return anyExprString(doc, func(s string) bool { return strings.HasPrefix(s, "\ufeff") })
}

func classFor(clause string, d Data, doc *Body) string {
	if (clause == "generated-unparseable" || clause == "encode-panic") && firstKeyFor(doc) {
		return "c16.generated-unparseable.map-first-key-for"
	}
	if c := strings.Replace(strings.Replace(clause, "-merged", "", 1), "-comments", "", 1); (c == "json-template-value-mismatch" || c == "hclsimple-json-template-value-mismatch") && loneCRThenDoubledIntroducer(doc) {
		return "c16.json-template-value-mismatch.lone-cr-then-doubled-introducer"
	}
	cls := "c16." + clause + "." + d.Family
	if anyString(doc, func(s string) bool {
		for _, r := range s {
			if r >= 0x80 && !unicode.IsPrint(r) {
				return true
			}
		}
		return false
	}) {
		// some string of the value (label, attribute value, element, key)
		// contains a non-ASCII rune that is not unicode.IsPrint
		cls += ".nonprint-multibyte-rune"
	}
	// a label / a string in expression position that is exactly one of the
	// strings with a meaning of their own in one of the two syntaxes
	for _, sp := range syntaxSpecial {
		eq := func(s string) bool { return s == sp.S }
		if anyString(doc, eq) {
			if anyExprString(doc, eq) {
				return cls + ".string-" + sp.Slug
			}
			return cls + ".label-" + sp.Slug
		}
	}
	return cls
}

// anyString: pred holds for some string anywhere in the document, labels included.
func anyString(b *Body, pred func(string) bool) bool {
	if anyExprString(b, pred) {
		return true
	}
	for _, it := range b.Items {
		if !it.Block {
			continue
		}
		for _, l := range it.Labels {
			if pred(l) {
				return true
			}
		}
		if anyString(it.Body, pred) {
			return true
		}
	}
	return false
}

// ---- oracle 1 and 2: the inverse law ---------------------------------------

type source struct {
	name string
	src  []byte
}

func encode(fn func(f *hclwrite.File)) (src []byte, panicked any) {
	defer func() {
		if r := recover(); r != nil {
			panicked = r
		}
	}()
	f := hclwrite.NewEmptyFile()
	fn(f)
	return f.Bytes(), nil
}

func judgeRoundTrip(d Data, rt reflect.Type, vp reflect.Value) engine.Outcome {
	_, doc := toBody(vp.Elem())
	fail := func(clause, format string, a ...any) engine.Outcome {
		return engine.Fail(classFor(clause, d, doc), "type %s value %s: "+format, append([]any{d.Type, show(vp)}, a...)...)
	}

	// -- encode with the real encoder
	var srcs []source
	add := func(name string, fn func(f *hclwrite.File)) *engine.Outcome {
		src, p := encode(fn)
		if p != nil {
			o := fail("encode-panic", "%s panicked: %v", name, p)
			return &o
		}
		srcs = append(srcs, source{name, src})
		return nil
	}
	if o := add("EncodeIntoBody(&v)", func(f *hclwrite.File) { gohcl.EncodeIntoBody(vp.Interface(), f.Body()) }); o != nil {
		return *o
	}
	if o := add("EncodeIntoBody(v)", func(f *hclwrite.File) { gohcl.EncodeIntoBody(vp.Elem().Interface(), f.Body()) }); o != nil {
		return *o
	}
	if rt.NumField() == 1 && rt.Field(0).Name == "Blk" {
		if o := add("EncodeAsBlock(&v.Blk)", func(f *hclwrite.File) {
			f.Body().AppendBlock(gohcl.EncodeAsBlock(vp.Elem().Field(0).Addr().Interface(), "blk"))
		}); o != nil {
			return *o
		}
		if o := add("EncodeAsBlock(v.Blk)", func(f *hclwrite.File) {
			f.Body().AppendBlock(gohcl.EncodeAsBlock(vp.Elem().Field(0).Interface(), "blk"))
		}); o != nil {
			return *o
		}
	}

	// -- oracle 1: generated source parses and decodes to the original
	for _, s := range srcs {
		f, diags := hclsyntax.ParseConfig(s.src, "x.hcl", hcl.InitialPos)
		if diags.HasErrors() {
			return fail("generated-unparseable", "%s produced source that does not parse: %s\n%s", s.name, diags.Error(), s.src)
		}
		fresh := reflect.New(rt)
		diags = gohcl.DecodeBody(f.Body, nil, fresh.Interface())
		if diags.HasErrors() {
			return fail("native-decode-error", "DecodeBody of the output of %s reports: %s\n%s", s.name, diags.Error(), s.src)
		}
		if !equalNorm(fresh, vp) {
			return fail("native-value-mismatch", "DecodeBody of the output of %s gives %s\n%s", s.name, show(fresh), s.src)
		}
		if !nilnessPreserved(fresh, vp) {
			return fail("native-nil-vs-empty", "DecodeBody of the output of %s turns a nil attribute collection into an empty one or vice versa: %s\n%s", s.name, show(fresh), s.src)
		}
		fresh = reflect.New(rt)
		if err := hclsimple.Decode("x.hcl", s.src, nil, fresh.Interface()); err != nil {
			return fail("hclsimple-native-error", "hclsimple.Decode(x.hcl) of the output of %s reports: %s\n%s", s.name, err, s.src)
		}
		if !equalNorm(fresh, vp) {
			return fail("hclsimple-native-value-mismatch", "hclsimple.Decode(x.hcl) of the output of %s gives %s\n%s", s.name, show(fresh), s.src)
		}
	}
	counters.Add("native_round_trips", int64(len(srcs)))

	// -- the independently rendered native twin (base of the perturbations)
	{
		src := renderNative(doc)
		f, diags := hclsyntax.ParseConfig(src, "x.hcl", hcl.InitialPos)
		if diags.HasErrors() {
			return fail("twin-native-unparseable", "independently rendered native document does not parse: %s\n%s", diags.Error(), src)
		}
		fresh := reflect.New(rt)
		if diags = gohcl.DecodeBody(f.Body, nil, fresh.Interface()); diags.HasErrors() {
			return fail("twin-native-decode-error", "DecodeBody of the independently rendered native document reports: %s\n%s", diags.Error(), src)
		}
		if !equalNorm(fresh, vp) {
			return fail("twin-native-value-mismatch", "DecodeBody of the independently rendered native document gives %s\n%s", show(fresh), src)
		}
	}

	// -- oracle 2: the JSON twin, literal-only mode (nil context) and full
	// expression mode (empty context; template introducers escaped)
	// x nesting form: per-block label nesting (objects / arrays of objects)
	// and the merged label tree of each run of blocks of one type (objects /
	// arrays of objects); a merged form that renders to the same bytes as a
	// per-block one (no two consecutive blocks of one type) is not repeated.
	rendered := map[string]bool{}
	bomUnspecified := templateSourceStartsWithBOM(doc)
	if bomUnspecified {
		counters.Add("template_twins_unspecified_leading_bom", 1)
	}
	for _, o := range []jsonOpts{
		{tmpl: false, arrays: false}, {tmpl: false, arrays: true}, {tmpl: true, arrays: false}, {tmpl: true, arrays: true},
		{tmpl: false, arrays: false, merged: true}, {tmpl: false, arrays: true, merged: true}, {tmpl: true, arrays: false, merged: true}, {tmpl: true, arrays: true, merged: true},
		{tmpl: false, arrays: false, comments: true}, {tmpl: true, arrays: true, merged: true, comments: true},
	} {
		if o.tmpl && bomUnspecified {
			continue
		}
		src := renderJSON(doc, o)
		if key := fmt.Sprint(o.tmpl) + string(src); rendered[key] {
			continue
		} else {
			rendered[key] = true
		}
		var ctx *hcl.EvalContext
		mode := "literal"
		if o.tmpl {
			ctx = &hcl.EvalContext{}
			mode = "template"
		}
		if o.merged {
			mode += "-merged"
		}
		if o.comments {
			mode += "-comments"
		}
		f, diags := hcljson.Parse(src, "x.json")
		if diags.HasErrors() {
			return fail("json-"+mode+"-unparseable", "JSON twin does not parse: %s\n%s", diags.Error(), src)
		}
		fresh := reflect.New(rt)
		if diags = gohcl.DecodeBody(f.Body, ctx, fresh.Interface()); diags.HasErrors() {
			return fail("json-"+mode+"-decode-error", "DecodeBody(ctx nil=%v) of the JSON twin reports: %s\n%s", ctx == nil, diags.Error(), src)
		}
		if !equalNorm(fresh, vp) {
			return fail("json-"+mode+"-value-mismatch", "DecodeBody(ctx nil=%v) of the JSON twin gives %s\n%s", ctx == nil, show(fresh), src)
		}
		fresh = reflect.New(rt)
		if err := hclsimple.Decode("x.json", src, ctx, fresh.Interface()); err != nil {
			return fail("hclsimple-json-"+mode+"-error", "hclsimple.Decode(x.json, ctx nil=%v) reports: %s\n%s", ctx == nil, err, src)
		}
		if !equalNorm(fresh, vp) {
			return fail("hclsimple-json-"+mode+"-value-mismatch", "hclsimple.Decode(x.json, ctx nil=%v) gives %s\n%s", ctx == nil, show(fresh), src)
		}
		counters.Add("json_round_trips", 2)
	}
	return engine.Pass(d.Type + "\x00" + string(srcs[len(srcs)-1].src))
}

// editLine deletes ("line-del") or duplicates ("line-dup") line n of src.
func editLine(src []byte, op string, n int) ([]byte, bool) {
	lines := strings.SplitAfter(string(src), "\n")
	if n >= len(lines) || lines[n] == "" {
		return nil, false
	}
	var sb strings.Builder
	for i, l := range lines {
		if i == n {
			if op == "line-dup" {
				sb.WriteString(l + l)
			}
			continue
		}
		sb.WriteString(l)
	}
	return []byte(sb.String()), true
}

// ---- oracle 3: perturbed documents ------------------------------------------

func judgePert(d Data, rt reflect.Type, vp reflect.Value) engine.Outcome {
	p := *d.Pert
	_, doc := toBody(vp.Elem())
	var target *Item
	ok := true
	if p.Syntax != "encoded" {
		if target, ok = p.apply(doc); !ok {
			return engine.Pass("") // not applicable to this document (only after shrinking)
		}
	}
	var body hcl.Body
	var src []byte
	var pdiags hcl.Diagnostics
	switch p.Syntax {
	case "encoded":
		// line edits of the real encoder's output (target == nil: no expectation beyond "no panic")
		enc, pv := encode(func(f *hclwrite.File) { gohcl.EncodeIntoBody(vp.Interface(), f.Body()) })
		if pv != nil {
			return engine.Pass("") // reported by the round-trip case of the same value
		}
		src, ok = editLine(enc, p.Op, p.Arg)
		if !ok {
			return engine.Pass("")
		}
		f, diags := hclsyntax.ParseConfig(src, "x.hcl", hcl.InitialPos)
		pdiags = diags
		if f != nil {
			body = f.Body
		}
	case "native":
		src = renderNative(doc)
		f, diags := hclsyntax.ParseConfig(src, "x.hcl", hcl.InitialPos)
		pdiags = diags
		if f != nil {
			body = f.Body
		}
	default:
		src = renderJSON(doc, jsonOpts{})
		f, diags := hcljson.Parse(src, "x.json")
		pdiags = diags
		if f != nil {
			body = f.Body
		}
	}
	if body == nil {
		return engine.Pass("")
	}
	fresh := reflect.New(rt)
	var diags hcl.Diagnostics
	if r := func() (r any) {
		defer func() { r = recover() }()
		diags = gohcl.DecodeBody(body, nil, fresh.Interface())
		return nil
	}(); r != nil {
		return engine.Fail(fmt.Sprintf("c16.decode-panic.%s.%s", p.Op, p.Syntax), "type %s: DecodeBody panicked on a perturbed (%s) document: %v\n%s", d.Type, p, r, src)
	}
	isErr := diags.HasErrors() || pdiags.HasErrors()
	counters.Add("perturbed_"+p.Op, 1)

	// What doc.go promises about the edit.
	switch {
	case p.Op == "add-attr" || p.Op == "add-block":
		// "If no "remain" field is present then any attributes or blocks not
		// matched by another valid tag will cause an error diagnostic."
		if !isErr {
			return engine.Fail("c16.unexpected-item-accepted."+p.Op+"."+p.Syntax, "type %s: DecodeBody accepted a document with an item no field is tagged for (%s)\n%s", d.Type, p, src)
		}
	case p.Op == "del" && target != nil && target.kind == "attr" && !target.ptr:
		// "optional fields behave like attr fields, but they are optional and
		// will not give parsing errors if they are missing."
		if !isErr {
			return engine.Fail("c16.missing-required-attr-accepted."+p.Syntax, "type %s: DecodeBody accepted a document without the required attribute %q (%s)\n%s", d.Type, target.Name, p, src)
		}
	case p.Op == "del" && target != nil && target.kind == "optional":
		if isErr {
			return engine.Fail("c16.missing-optional-attr-rejected."+p.Syntax, "type %s: DecodeBody rejects a document without the optional attribute %q: %s\n%s", d.Type, target.Name, diags.Error(), src)
		}
		target.fv.Set(reflect.Zero(target.fv.Type())) // the rest of the value is unaffected
		if !equalNorm(fresh, vp) {
			return engine.Fail("c16.missing-optional-attr-value."+p.Syntax, "type %s: without optional attribute %q DecodeBody gives %s, want %s\n%s", d.Type, target.Name, show(fresh), show(vp), src)
		}
	}
	if !isErr {
		return engine.Pass(fmt.Sprintf("%s/%s/%s/ok/%s", d.Type, p.Op, p.Syntax, show(fresh)))
	}
	var sums []string
	for _, dg := range append(pdiags, diags...) {
		sums = append(sums, dg.Summary)
	}
	sort.Strings(sums)
	return engine.Pass(fmt.Sprintf("%s/%s%v#%d/%s/%s", d.Type, p.Op, p.Path, p.Arg, p.Syntax, strings.Join(sums, ";")))
}

func judge(c engine.Case) engine.Outcome {
	d := c.Data.(Data)
	if d.Expr != nil {
		return judgeDecodeExpression(*d.Expr)
	}
	rt, vp, err := load(d)
	if err != nil {
		panic("harness: cannot load case: " + err.Error())
	}
	if d.Pert != nil && d.Pert.Op == "expr" {
		return judgeExprPert(d, rt, vp)
	}
	if d.Pert != nil {
		return judgePert(d, rt, vp)
	}
	return judgeRoundTrip(d, rt, vp)
}

// ---- oracle 3b: an attribute given as an expression over an EvalContext -------

// judgeExprPert: the document of the value with one attribute replaced by an
// expression of exprTable, decoded with exprCtx through gohcl.DecodeBody and
// hclsimple.Decode. Expectation: see exprs.go.
func judgeExprPert(d Data, rt reflect.Type, vp reflect.Value) engine.Outcome {
	p := *d.Pert
	_, doc := toBody(vp.Elem())
	target, ok := p.apply(doc)
	if !ok || target == nil || !target.fv.IsValid() {
		return engine.Pass("")
	}
	e := exprTable[p.Arg]
	var src []byte
	name := "x.hcl"
	if p.Syntax == "json" {
		src, name = renderJSON(doc, jsonOpts{tmpl: true}), "x.json"
	} else {
		src = renderNative(doc)
	}
	ftype := target.fv.Type()
	where := fmt.Sprintf("attribute %q (Go type %s) = %s", target.Name, ftype, e.Src)
	cls := func(clause string) string {
		return fmt.Sprintf("c16.%s.%s.into-%s.%s", clause, e.valueClass(), goKind(ftype), p.Syntax)
	}
	wantErr, want, judged := expectDecode(e, ftype)
	if judged && !wantErr {
		target.fv.Set(want) // the rest of the value is unaffected
	}
	unspecified := false
	for _, via := range []string{"DecodeBody", "hclsimple"} {
		fresh := reflect.New(rt)
		var isErr bool
		var msg string
		if r := func() (r any) {
			defer func() { r = recover() }()
			if via == "hclsimple" {
				if err := hclsimple.Decode(name, src, exprCtx(), fresh.Interface()); err != nil {
					isErr, msg = true, err.Error()
				}
				return nil
			}
			var f *hcl.File
			var pdiags hcl.Diagnostics
			if p.Syntax == "json" {
				f, pdiags = hcljson.Parse(src, name)
			} else {
				f, pdiags = hclsyntax.ParseConfig(src, name, hcl.InitialPos)
			}
			if pdiags.HasErrors() {
				isErr, msg = true, "parse: "+pdiags.Error()
				return nil
			}
			if diags := gohcl.DecodeBody(f.Body, exprCtx(), fresh.Interface()); diags.HasErrors() {
				isErr, msg = true, diags.Error()
			}
			return nil
		}(); r != nil {
			return engine.Fail(cls("decode-panic.expr"),
				"type %s, %s: %s with an EvalContext panicked: %v\n%s", d.Type, where, via, r, src)
		}
		counters.Add("perturbed_expr", 1)
		if !judged {
			unspecified = true
			continue
		}
		switch {
		case wantErr && !isErr:
			return engine.Fail(cls("expr-problem-accepted"), "type %s, %s: %s reports no error and gives %s; the expression result (%s) cannot be held by the field\n%s", d.Type, where, via, show(fresh), e.valueClass(), src)
		case !wantErr && isErr:
			return engine.Fail(cls("expr-decode-error"), "type %s, %s: %s reports: %s\n%s", d.Type, where, via, msg, src)
		case !wantErr && !equalNorm(fresh, vp):
			return engine.Fail(cls("expr-value-mismatch"), "type %s, %s: %s gives %s, want %s\n%s", d.Type, where, via, show(fresh), show(vp), src)
		}
	}
	if unspecified {
		counters.Add("expr_outcome_unspecified", 1)
		return engine.Skip()
	}
	if wantErr {
		return engine.Pass(fmt.Sprintf("%s/expr%v/%s/%s/error", d.Type, p.Path, e.Src, p.Syntax))
	}
	return engine.Pass(fmt.Sprintf("%s/expr%v/%s/%s/%s", d.Type, p.Path, e.Src, p.Syntax, showGo(target.fv)))
}

// ---- shrinking ---------------------------------------------------------------

// shrinkSites applies the n-th simplification (drop a rune of a string, an
// element of a slice, a key of a map, nil a pointer) to v; false if n is out of range.
func shrinkSite(v reflect.Value, n *int) bool {
	hit := func() bool { *n--; return *n < 0 }
	switch v.Kind() {
	case reflect.String:
		rs := []rune(v.String())
		for i := range rs {
			if hit() {
				v.SetString(string(rs[:i]) + string(rs[i+1:]))
				return true
			}
		}
	case reflect.Ptr:
		if v.IsNil() {
			return false
		}
		if hit() {
			v.Set(reflect.Zero(v.Type()))
			return true
		}
		return shrinkSite(v.Elem(), n)
	case reflect.Slice:
		for i := 0; i < v.Len(); i++ {
			if v.Index(i).Kind() == reflect.Ptr && v.Index(i).IsNil() {
				continue
			}
			if hit() {
				v.Set(reflect.AppendSlice(v.Slice(0, i), v.Slice(i+1, v.Len())))
				return true
			}
		}
		for i := 0; i < v.Len(); i++ {
			if shrinkSite(v.Index(i), n) {
				return true
			}
		}
	case reflect.Map:
		keys := v.MapKeys()
		sort.Slice(keys, func(i, j int) bool { return keys[i].String() < keys[j].String() })
		for _, k := range keys {
			if hit() {
				v.SetMapIndex(k, reflect.Value{})
				return true
			}
		}
	case reflect.Struct:
		if v.Type() == ctyValueType {
			return false
		}
		for i := 0; i < v.NumField(); i++ {
			if shrinkSite(v.Field(i), n) {
				return true
			}
		}
	}
	return false
}

func shrink(c engine.Case) []engine.Case {
	d := c.Data.(Data)
	if d.Expr != nil {
		return nil
	}
	var out []engine.Case
	for k := 0; k < 200; k++ {
		_, vp, err := load(d)
		if err != nil {
			return out
		}
		n := k
		if !shrinkSite(vp.Elem(), &n) {
			break
		}
		out = append(out, mkCase(d.Type, d.Family, vp.Interface(), d.Pert))
	}
	return out
}

func mkCase(typ, family string, ptr any, p *Pert) engine.Case {
	b, err := json.Marshal(ptr)
	if err != nil {
		panic(err)
	}
	id := typ + "/" + family + "/" + string(b)
	if p != nil {
		id += "/" + p.String()
	}
	return engine.Case{ID: id, Data: Data{Type: typ, Family: family, Val: b, Pert: p}}
}

func main() {
	engine.Main(&engine.Check{
		ID:        "C16",
		Title:     "Struct encoding and decoding are inverse, in both syntaxes",
		Technique: "bounded exhaustive enumeration of struct values and of single edits of their documents; round trip through the real encoder/parsers/decoder, differential against an independent document model rendered in both syntaxes",
		Rule:      rule,
		Assumptions: []string{
			"go-cty (gocty conversion, convert, NFC normalisation of strings), encoding/json, strconv and reflect are trusted",
			"the document model (model.go) is the reference for what a value denotes; its native rendering is itself checked to decode to the value, so a wrong model shows up as twin-* failures rather than silently",
			"decode targets are always fresh zero values of well-formed types; panics on ill-formed target types are documented behaviour and out of scope",
		},
		Gen:    gen,
		Judge:  judge,
		Load:   engine.LoadAs[Data],
		Shrink: shrink,
		Extra: func() map[string]any {
			m := map[string]any{}
			for k, v := range counters.Snapshot() {
				m[k] = v
			}
			return m
		},
		QuickBudget:    8 * 60e9,
		ThoroughBudget: 40 * 60e9,
	})
}
