package main

import (
	"bytes"
	"fmt"
	"math"
	"reflect"

	"github.com/hashicorp/hcl/v2/gohcl"
	"github.com/hashicorp/hcl/v2/hclwrite"
	"github.com/zclconf/go-cty/cty"

	"verif/engine"
)

var rule = fmt.Sprintf("Struct family (types.go): Strs, Nums, Opts (attr/optional of string, int kinds, bool, float kinds, []string, []int, [][]string, map[string]string, map[string]bool, *string/*int/*bool/*float64, cty-tagged struct, []struct), Cty (cty.Value attribute), "+
	"H0/H1/H2 (block fields as struct, *struct, []struct, []*struct whose body type has 0/1/2 labels, between two attributes), Deep (labelled blocks inside labelled blocks), WrapL0/L1/L2/Mid (gohcl.EncodeAsBlock). "+
	"Values: one field family varied at a time from a fixed base value. String positions (attribute, *string, list element, map value, map key, object attribute, every label, nested attribute) take ALL strings of <= 2 atoms over "+
	"{a, space, \", \\, $, %%, {, }, LF, TAB, é, U+1F600, ${, %%{} (%d distinct strings; all NFC); two-element positions (list of 2, both labels of a block, labels of 2 repeated blocks, 2 map keys) take all pairs of strings of <= 1 atom (%dx%d); "+
	"map keys additionally from {a, for, if, in, else, null, true, false, \"\", 'a b', 0, a.b, -, a-b, é, ${x}} singly (each first) and in all unordered pairs; ints {0, ±1, min/max of the type}; floats {0, 0.5, -1.5, 0.1, 1e20, 1e-7, max, smallest denormal}; "+
	"slices and repeated blocks of length 0..2 (nil and empty); pointers nil/non-nil; block multiplicities as the full product One x Ptr{nil,set} x |Many| 0..2 x |PMany| 0..2; Deep shapes as the full product of 0..2 mid blocks x (0..2 leaf blocks x only{nil,set}) each. "+
	"Nil elements of []*struct are outside the domain (the encoder documents no representation for them). Every value is encoded (EncodeIntoBody by pointer and by value, EncodeAsBlock for Wrap*), parsed, decoded into a fresh value (DecodeBody, hclsimple) and compared with "+
	"reflect.DeepEqual modulo nil == empty for slices/maps and convert-to-original-type for cty.Value; its document model is rendered independently as native text and as 4 JSON twins (object/array forms x literal-only/template mode) which must decode to the same value. "+
	"Oracle 3: every single edit of the document of each value whose swept strings have <= 1 atom (all structural cases, all single-atom strings, the diagonal of the pair positions) (delete/duplicate an item, add an unexpected attribute / block, attribute<->block, add / remove a label, replace an attribute value by each of 16 literals of other types -- the latter only for the non-swept, structural values) in both syntaxes, and every single line deletion / duplication of the real encoder's output, must decode without panic; "+
	"unexpected items and missing required attributes must give error diagnostics, a missing optional attribute must give the value with that field zero (doc.go). "+
	"thorough: additionally strings of <= 3 atoms over the alphabet extended by {CR, NUL, DEL, U+2028, ~, U+FFFD} (%d strings) at every single string position and all pairs of <= 2-atom strings at the two-element positions (no perturbations for these). "+
	"Non-trivial = the round trip succeeded (sig = generated source) or the perturbed document was decoded (sig = edit, outcome, diagnostic summaries or decoded value).",
	len(strs(atomsQuick, 2)), len(strs(atomsQuick, 1)), len(strs(atomsQuick, 1)), len(strs(atomsExt, 3)))

var atomsQuick = []string{"a", " ", "\"", "\\", "$", "%", "{", "}", "\n", "\t", "é", "\U0001F600", "${", "%{"}
var atomsExt = append(append([]string{}, atomsQuick...), "\r", "\x00", "\x7f", "\u2028", "~", "\ufffd")

var keyAlphabet = []string{"a", "for", "if", "in", "else", "null", "true", "false", "", "a b", "0", "a.b", "-", "a-b", "é", "${x}"}

// strs returns all distinct concatenations of at most n atoms, shortest first.
func strs(atoms []string, n int) []string {
	seen := map[string]bool{"": true}
	out := []string{""}
	level := []string{""}
	for i := 0; i < n; i++ {
		var next []string
		for _, p := range level {
			for _, a := range atoms {
				s := p + a
				next = append(next, s)
				if !seen[s] {
					seen[s] = true
					out = append(out, s)
				}
			}
		}
		level = next
	}
	return out
}

type stop struct{}

type bounds struct {
	S    []string // strings for single positions
	P    []string // strings for each component of a pair position
	pert bool
}

func sp(s string) *string { return &s }

func gen(tier string, emit func(engine.Case) bool) {
	defer func() {
		if r := recover(); r != nil {
			if _, ok := r.(stop); !ok {
				panic(r)
			}
		}
	}()
	seen := map[string]bool{}
	run := func(b bounds) {
		small := map[string]bool{}
		for _, s := range strs(atomsQuick, 1) {
			small[s] = true
		}
		var out outFn
		out = func(typ, family string, ptr any, sweep ...string) {
			c := mkCase(typ, family, ptr, nil)
			if seen[c.ID] {
				return
			}
			seen[c.ID] = true
			if !emit(c) {
				panic(stop{})
			}
			if !b.pert {
				return
			}
			// swept strings: perturb only if at most one distinct non-base string is involved and it has <= 1 atom
			distinct, have := "", false
			for _, w := range sweep {
				if w == "k0" || w == "n0" {
					continue
				}
				if !small[w] || (have && w != distinct) {
					return
				}
				distinct, have = w, true
			}
			_, doc := toBody(reflect.ValueOf(ptr).Elem())
			for _, p := range perturbations(doc) {
				if p.Op == "retype" && len(sweep) > 0 {
					continue // value replacement does not depend on the swept string: structural cases only
				}
				for _, syn := range []string{"native", "json"} {
					q := p
					q.Syntax = syn
					if !emit(mkCase(typ, family, ptr, &q)) {
						panic(stop{})
					}
				}
			}
			// every single line deletion / duplication of the real encoder's output
			enc, pv := encode(func(f *hclwrite.File) { gohcl.EncodeIntoBody(ptr, f.Body()) })
			if pv != nil {
				return
			}
			for i, n := 0, bytes.Count(enc, []byte("\n")); i < n; i++ {
				for _, op := range []string{"line-del", "line-dup"} {
					if !emit(mkCase(typ, family, ptr, &Pert{Op: op, Arg: i, Syntax: "encoded"})) {
						panic(stop{})
					}
				}
			}
		}
		genAll(b, out)
	}
	run(bounds{S: strs(atomsQuick, 2), P: strs(atomsQuick, 1), pert: true})
	if tier == "thorough" {
		run(bounds{S: strs(atomsExt, 3), P: strs(atomsQuick, 2), pert: false})
	}
}

// outFn emits one value (and its perturbations); sweep, if given, is the swept
// string of a <=2-atom sweep: only <=1-atom strings get perturbations.
type outFn func(typ, family string, ptr any, sweep ...string)

func genAll(b bounds, out outFn) {
	genOpts(b, out)
	genNums(b, out)
	genStrs(b, out)
	genCty(b, out)
	genHolder(b, out, "H0", 0, func(l []string, x string) L0 { return L0{X: x} })
	genHolder(b, out, "H1", 1, func(l []string, x string) L1 { return L1{N: l[0], X: x} })
	genHolder(b, out, "H2", 2, func(l []string, x string) L2 { return L2{K: l[0], N: l[1], X: x} })
	genWrap(b, out)
	genDeep(b, out)
}

func genOpts(b bounds, out outFn) {
	full := func() Opts {
		return Opts{S: "s", I: 3, R: "r", B: true, F: 0.5, L: []string{"l"}, M: map[string]string{"k": "v"}, P: sp("p"), O: Obj{X: "x", Y: 2}}
	}
	out("Opts", "optional-zero", &Opts{})
	v := full()
	out("Opts", "optional-set", &v)
	// each optional field zero / each alone non-zero
	rt := reflect.TypeOf(Opts{})
	for i := 0; i < rt.NumField(); i++ {
		if rt.Field(i).Name == "R" {
			continue
		}
		v := full()
		fv := reflect.ValueOf(&v).Elem().Field(i)
		fv.Set(reflect.Zero(fv.Type()))
		out("Opts", "optional-zero", &v)
		w := Opts{R: "r"}
		f := full()
		reflect.ValueOf(&w).Elem().Field(i).Set(reflect.ValueOf(f).Field(i))
		out("Opts", "optional-set", &w)
	}
	out("Opts", "optional-zero", &Opts{L: []string{}, M: map[string]string{}, P: sp("")})
	for _, s := range b.S {
		out("Opts", "optional-string", &Opts{S: s, R: s}, s)
	}
}

func genNums(b bounds, out outFn) {
	base := func() Nums {
		i, t, f := 5, true, 2.5
		return Nums{I: 1, I64: 2, I8: 3, U64: 4, B: true, F: 0.5, F32: 0.25, LI: []int{1, 2}, MB: map[string]bool{"k": true}, PI: &i, PB: &t, PF: &f}
	}
	v := base()
	out("Nums", "attr-int", &v)
	for _, i := range []int{0, 1, -1, math.MaxInt64, math.MinInt64, 1 << 53, 1<<53 + 1} {
		v := base()
		v.I = i
		out("Nums", "attr-int", &v)
		v = base()
		v.I64 = int64(i)
		out("Nums", "attr-int", &v)
		v = base()
		j := i
		v.PI = &j
		out("Nums", "attr-ptr-num", &v)
		v = base()
		v.LI = []int{i, 0, i}
		out("Nums", "attr-list-int", &v)
	}
	for _, i := range []int8{0, -1, math.MaxInt8, math.MinInt8} {
		v := base()
		v.I8 = i
		out("Nums", "attr-int", &v)
	}
	for _, u := range []uint64{0, 1, math.MaxInt64 + 1, math.MaxUint64} {
		v := base()
		v.U64 = u
		out("Nums", "attr-int", &v)
	}
	for _, f := range []float64{0, 0.5, -1.5, 0.1, 1e20, 1e-7, math.MaxFloat64, math.SmallestNonzeroFloat64, -math.MaxFloat64, 1.0 / 3.0, 123456789.125} {
		v := base()
		v.F = f
		out("Nums", "attr-float", &v)
		v = base()
		g := f
		v.PF = &g
		out("Nums", "attr-ptr-num", &v)
	}
	for _, f := range []float32{0, 0.5, -1.5, 0.1, 1e20, math.MaxFloat32, math.SmallestNonzeroFloat32} {
		v := base()
		v.F32 = f
		out("Nums", "attr-float", &v)
	}
	for _, t := range []bool{false, true} {
		v := base()
		v.B = t
		out("Nums", "attr-bool", &v)
		v = base()
		u := t
		v.PB = &u
		out("Nums", "attr-bool", &v)
		v = base()
		v.MB = map[string]bool{"x": t, "y": !t}
		out("Nums", "attr-bool", &v)
	}
	for _, li := range [][]int{nil, {}, {0}, {-1, 1}} {
		v := base()
		v.LI = li
		out("Nums", "attr-list-int", &v)
	}
	for _, mb := range []map[string]bool{nil, {}} {
		v := base()
		v.MB = mb
		out("Nums", "attr-map-empty", &v)
	}
	v = base()
	v.PI, v.PB, v.PF = nil, nil, nil
	out("Nums", "attr-ptr-num", &v)
}

func genStrs(b bounds, out outFn) {
	base := func() Strs {
		return Strs{S: "s0", P: sp("p0"), L: []string{"l0", "l1"}, M: map[string]string{"k0": "v0"}, O: Obj{X: "x0", Y: 7}, LL: [][]string{{"a"}}, LO: []Obj{{X: "q", Y: 1}}}
	}
	v := base()
	out("Strs", "attr-string", &v)
	for _, s := range b.S {
		v := base()
		v.S = s
		out("Strs", "attr-string", &v, s)
	}
	v = base()
	v.P = nil
	out("Strs", "attr-ptr-string", &v)
	for _, s := range b.S {
		v := base()
		v.P = sp(s)
		out("Strs", "attr-ptr-string", &v, s)
	}
	for _, l := range [][]string{nil, {}} {
		v := base()
		v.L = l
		out("Strs", "attr-list-string", &v)
	}
	for _, s := range b.S {
		v := base()
		v.L = []string{s}
		out("Strs", "attr-list-string", &v, s)
	}
	for _, s := range b.P {
		for _, t := range b.P {
			v := base()
			v.L = []string{s, t}
			out("Strs", "attr-list-string", &v, s, t)
		}
	}
	for _, m := range []map[string]string{nil, {}} {
		v := base()
		v.M = m
		out("Strs", "attr-map-empty", &v)
	}
	for _, s := range b.S {
		v := base()
		v.M = map[string]string{"k": s}
		out("Strs", "attr-map-value", &v, s)
	}
	for _, k := range keyAlphabet {
		v := base()
		v.M = map[string]string{k: "v"}
		out("Strs", "attr-map-key", &v)
	}
	for _, k := range b.S {
		v := base()
		v.M = map[string]string{k: "v"}
		out("Strs", "attr-map-key", &v, k)
	}
	for i, k1 := range keyAlphabet {
		for _, k2 := range keyAlphabet[i+1:] {
			v := base()
			v.M = map[string]string{k1: "1", k2: "2"}
			out("Strs", "attr-map-key", &v)
		}
	}
	for _, k1 := range b.P {
		for _, k2 := range b.P {
			if k1 < k2 {
				v := base()
				v.M = map[string]string{k1: "1", k2: "2"}
				out("Strs", "attr-map-key", &v, k1, k2)
			}
		}
	}
	for _, s := range b.S {
		v := base()
		v.O = Obj{X: s, Y: -1}
		out("Strs", "attr-object", &v, s)
	}
	for _, ll := range [][][]string{nil, {}, {nil}, {{}}, {nil, {}}, {{"a"}, {}}, {{"a", "b"}, {"c"}}} {
		v := base()
		v.LL = ll
		out("Strs", "attr-list-list", &v)
	}
	for _, s := range b.P {
		for _, t := range b.P {
			v := base()
			v.LL = [][]string{{s}, {t, s}}
			out("Strs", "attr-list-list", &v, s, t)
		}
	}
	for _, lo := range [][]Obj{nil, {}, {{}}, {{X: "a", Y: 1}, {X: "b", Y: 2}}} {
		v := base()
		v.LO = lo
		out("Strs", "attr-list-object", &v)
	}
	for _, s := range b.P {
		for _, t := range b.P {
			v := base()
			v.LO = []Obj{{X: s, Y: 1}, {X: t, Y: 2}}
			out("Strs", "attr-list-object", &v, s, t)
		}
	}
}

func genCty(b bounds, out outFn) {
	str := cty.StringVal
	num := cty.NumberIntVal
	vals := []cty.Value{
		cty.NullVal(cty.DynamicPseudoType), cty.NullVal(cty.String), cty.NullVal(cty.List(cty.String)),
		cty.True, cty.False, num(0), num(-1), num(1 << 62), cty.NumberFloatVal(0.5), cty.NumberFloatVal(-1.5), cty.MustParseNumberVal("1e20"),
		cty.ListValEmpty(cty.String), cty.ListVal([]cty.Value{str("a"), str("b")}), cty.ListVal([]cty.Value{num(1), num(2)}),
		cty.SetVal([]cty.Value{str("b"), str("a")}), cty.SetValEmpty(cty.Number),
		cty.EmptyTupleVal, cty.TupleVal([]cty.Value{str("a"), num(1), cty.True, cty.NullVal(cty.String)}),
		cty.TupleVal([]cty.Value{cty.EmptyTupleVal, cty.EmptyObjectVal}),
		cty.MapValEmpty(cty.String), cty.MapVal(map[string]cty.Value{"a": str("1"), "b": str("2")}),
		cty.EmptyObjectVal, cty.ObjectVal(map[string]cty.Value{"a": str("x"), "b": num(1), "c": cty.ListVal([]cty.Value{cty.True})}),
		cty.ListVal([]cty.Value{cty.MapVal(map[string]cty.Value{"k": num(1)})}),
		cty.MapVal(map[string]cty.Value{"k": cty.ListVal([]cty.Value{str("e")})}),
		cty.ObjectVal(map[string]cty.Value{"o": cty.ObjectVal(map[string]cty.Value{"p": cty.NullVal(cty.Number)})}),
	}
	for _, v := range vals {
		out("Cty", "cty-value", &TCty{V: v})
	}
	for _, s := range b.S {
		out("Cty", "cty-string", &TCty{V: str(s)}, s)
	}
	for _, k := range keyAlphabet {
		out("Cty", "cty-map-key", &TCty{V: cty.MapVal(map[string]cty.Value{k: str("v")})})
		out("Cty", "cty-object-key", &TCty{V: cty.ObjectVal(map[string]cty.Value{k: num(1)})})
	}
	for _, k := range b.P {
		out("Cty", "cty-object-key", &TCty{V: cty.ObjectVal(map[string]cty.Value{k: num(1), "z": str(k)})}, k)
	}
}

// labelSets enumerates the label tuples of one block: each label over S with
// the others at base, and all pairs over P x P.
func labelSets(b bounds, nl int, base []string) [][]string {
	switch nl {
	case 0:
		return [][]string{{}}
	case 1:
		var out [][]string
		for _, s := range b.S {
			out = append(out, []string{s})
		}
		return out
	}
	var out [][]string
	for _, s := range b.S {
		out = append(out, []string{s, base[1]}, []string{base[0], s})
	}
	for _, s := range b.P {
		for _, t := range b.P {
			out = append(out, []string{s, t})
		}
	}
	return out
}

func genHolder[T any](b bounds, out outFn, name string, nl int, mk func(l []string, x string) T) {
	baseL := []string{"k0", "n0"}
	lbl := func(i int) []string { return []string{"k" + string(rune('0'+i)), "n" + string(rune('0'+i))} }
	base := func() Holder[T] { return Holder[T]{A: 1, One: mk(baseL, "x"), Z: "z"} }

	// multiplicities: the full product, distinct labels and attributes per block
	for ptr := 0; ptr < 2; ptr++ {
		for nm := 0; nm <= 2; nm++ {
			for np := 0; np <= 2; np++ {
				for empties := 0; empties < 2; empties++ {
					v := base()
					n := 1
					if ptr == 1 {
						t := mk(lbl(n), "xp")
						v.Ptr = &t
						n++
					}
					for i := 0; i < nm; i++ {
						v.Many = append(v.Many, mk(lbl(n), "xm"+string(rune('0'+i))))
						n++
					}
					for i := 0; i < np; i++ {
						t := mk(lbl(n), "xq"+string(rune('0'+i)))
						v.PMany = append(v.PMany, &t)
						n++
					}
					if empties == 1 {
						if nm > 0 && np > 0 {
							continue
						}
						if nm == 0 {
							v.Many = []T{}
						}
						if np == 0 {
							v.PMany = []*T{}
						}
					}
					out(name, "block-multiplicity", &v)
				}
			}
		}
	}
	// repeated blocks with identical labels (and identical content)
	{
		v := base()
		v.Many = []T{mk(baseL, "same"), mk(baseL, "same")}
		t1, t2 := mk(baseL, "same"), mk(baseL, "same")
		v.PMany = []*T{&t1, &t2}
		out(name, "block-multiplicity", &v)
	}
	// labels x block field shape
	for _, ls := range labelSets(b, nl, baseL) {
		if nl == 0 {
			break
		}
		v := base()
		v.One = mk(ls, "x")
		out(name, "label-struct-block", &v, ls...)
		v = base()
		t := mk(ls, "x")
		v.Ptr = &t
		out(name, "label-ptr-block", &v, ls...)
		v = base()
		v.Many = []T{mk(ls, "x")}
		out(name, "label-slice-block", &v, ls...)
		v = base()
		t2 := mk(ls, "x")
		v.PMany = []*T{&t2}
		out(name, "label-ptrslice-block", &v, ls...)
	}
	// labels of two repeated blocks: all pairs for the first label (the
	// second, if any, mirrors the other block's first)
	if nl > 0 {
		for _, s := range b.P {
			for _, t := range b.P {
				la, lb := []string{s, t}, []string{t, s}
				v := base()
				v.Many = []T{mk(la, "x0"), mk(lb, "x1")}
				out(name, "label-slice-block", &v, s, t)
				v = base()
				t1, t2 := mk(la, "x0"), mk(lb, "x1")
				v.PMany = []*T{&t1, &t2}
				out(name, "label-ptrslice-block", &v, s, t)
			}
		}
	}
	// strings in a nested attribute
	for _, s := range b.S {
		v := base()
		v.One = mk(baseL, s)
		v.Many = []T{mk(baseL, "x0"), mk(baseL, s)}
		out(name, "block-nested-attr", &v, s)
	}
}

func genWrap(b bounds, out outFn) {
	base := []string{"k0", "n0"}
	out("WrapL0", "encode-as-block", &Wrap[L0]{Blk: L0{X: "x"}})
	out("WrapL0", "encode-as-block", &Wrap[L0]{})
	for _, ls := range labelSets(b, 1, base) {
		out("WrapL1", "encode-as-block-label", &Wrap[L1]{Blk: L1{N: ls[0], X: "x"}}, ls...)
	}
	for _, ls := range labelSets(b, 2, base) {
		out("WrapL2", "encode-as-block-label", &Wrap[L2]{Blk: L2{K: ls[0], N: ls[1], X: "x"}}, ls...)
		out("WrapMid", "encode-as-block-label", &Wrap[Mid]{Blk: Mid{K: ls[0], N: ls[1], I: 1, Leaves: []Leaf{{N: ls[1], V: []string{ls[0]}}}}}, ls...)
	}
}

func genDeep(b bounds, out outFn) {
	// shapes: the full product
	mkMid := func(id string, nleaf int, only bool) Mid {
		m := Mid{K: "k" + id, N: "n" + id, I: len(id)}
		for i := 0; i < nleaf; i++ {
			m.Leaves = append(m.Leaves, Leaf{N: id + "l" + string(rune('0'+i)), V: []string{id, string(rune('0' + i))}, M: map[string]string{"id": id}})
		}
		if only {
			m.Only = &Leaf{N: id + "only"}
		}
		return m
	}
	type shape struct {
		n    int
		only bool
	}
	var shapes []shape
	for n := 0; n <= 2; n++ {
		shapes = append(shapes, shape{n, false}, shape{n, true})
	}
	for _, last := range shapes {
		v := Deep{Name: "d", Last: mkMid("z", last.n, last.only)}
		out("Deep", "deep-shape", &v)
		for _, s1 := range shapes {
			m1 := mkMid("a", s1.n, s1.only)
			v := Deep{Name: "d", Mids: []*Mid{&m1}, Last: mkMid("z", last.n, last.only)}
			out("Deep", "deep-shape", &v)
			for _, s2 := range shapes {
				m1 := mkMid("a", s1.n, s1.only)
				m2 := mkMid("bb", s2.n, s2.only)
				v := Deep{Name: "d", Mids: []*Mid{&m1, &m2}, Last: mkMid("z", last.n, last.only)}
				out("Deep", "deep-shape", &v)
			}
		}
	}
	// labels at depth 2 and 1
	for _, s := range b.S {
		m := mkMid("a", 2, true)
		m.Leaves[1].N = s
		v := Deep{Name: "d", Mids: []*Mid{&m}, Last: mkMid("z", 0, false)}
		out("Deep", "deep-leaf-label", &v, s)
		l := mkMid("z", 0, true)
		l.Only.N = s
		out("Deep", "deep-leaf-label", &Deep{Name: "d", Last: l}, s)
	}
	for _, s := range b.P {
		for _, t := range b.P {
			m := mkMid("a", 1, false)
			m.K, m.N = s, t
			m.Leaves[0].N = t
			v := Deep{Name: s, Mids: []*Mid{&m}, Last: mkMid("z", 0, false)}
			out("Deep", "deep-mid-label", &v, s, t)
		}
	}
	// attribute values at depth 2
	for _, s := range b.S {
		l := mkMid("z", 1, false)
		l.Leaves[0].V = []string{s}
		l.Leaves[0].M = map[string]string{s: s}
		out("Deep", "deep-leaf-attr", &Deep{Name: "d", Last: l}, s)
	}
	for _, k := range keyAlphabet {
		l := mkMid("z", 1, false)
		l.Leaves[0].M = map[string]string{k: "v"}
		out("Deep", "deep-leaf-map-key", &Deep{Name: "d", Last: l})
	}
	for _, vs := range [][]string{nil, {}} {
		l := mkMid("z", 1, false)
		l.Leaves[0].V = vs
		l.Leaves[0].M = nil
		out("Deep", "deep-leaf-attr", &Deep{Name: "d", Last: l})
	}
}
