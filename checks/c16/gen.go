package main

import (
	"bytes"
	"fmt"
	"math"
	"reflect"

	"github.com/hashicorp/hcl/v2/gohcl"
	"github.com/hashicorp/hcl/v2/hclwrite"
	"github.com/zclconf/go-cty/cty"

	"verif/engine"
)

var rule = fmt.Sprintf("Struct family (types.go): Strs, Nums, Opts (attr/optional of string, int kinds, bool, float kinds, []string, []int, [][]string, map[string]string, map[string]bool, *string/*int/*bool/*float64, cty-tagged struct, []struct), Cty (cty.Value attribute), "+
	"H0/H1/H2 (block fields as struct, *struct, []struct, []*struct whose body type has 0/1/2 labels, between two attributes), Deep (labelled blocks inside labelled blocks), Sib (repeated blocks with 1..5 labels as []struct / []*struct), WrapL0..L5/Mid (gohcl.EncodeAsBlock). "+
	"Values: one field family varied at a time from a fixed base value. String positions (attribute, *string, list element, map value, map key, object attribute, every label, nested attribute) take ALL strings of <= 2 atoms over "+
	"the base atoms {a, space, \", \\, $, %%, {, }, LF, TAB, é, U+1F600, ${, %%{} and the non-printable atoms {DEL, U+0085, U+00A0, U+200B, U+FEFF, U+E000, U+E0001} (1-, 2-, 3- and 4-byte runes that are not unicode.IsPrint), plus the strings with a meaning of their own in one of the syntaxes {//, //a, /, /*, #, <<A} and the map key alphabet below (%d distinct strings; all NFC); "+
	"two-element positions (list of 2, both labels of a block, labels of 2 repeated blocks, 2 map keys) take all pairs of strings of <= 1 atom or one syntax-special string (%dx%d); "+
	"map keys additionally from {a, for, if, in, else, null, true, false, \"\", 'a b', 0, a.b, -, a-b, é, ${x}} singly (each first) and in all unordered pairs; ints {0, ±1, min/max of the type}; floats {0, 0.5, -1.5, 0.1, 1e20, 1e-7, max, smallest denormal}; "+
	"slices and repeated blocks of length 0..2 (nil and empty); pointers nil/non-nil; block multiplicities as the full product One x Ptr{nil,set} x |Many| 0..2 x |PMany| 0..2; Deep shapes as the full product of 0..2 mid blocks x (0..2 leaf blocks x only{nil,set}) each. "+
	"Sibling blocks (Sib): for each label count 1..5 ALL ordered pairs of blocks whose label tuples range over {a,b}^n (every shared-prefix length, every position of the difference, identical tuples) and for label counts <= 3 ALL ordered triples (a label that reappears after a different one); every label position of a 3/4/5-label block over the <= 1-atom strings next to a sibling sharing the other labels. "+
	"Nil elements of []*struct are outside the domain (the encoder documents no representation for them). Every value is encoded (EncodeIntoBody by pointer and by value, EncodeAsBlock for Wrap*), parsed, decoded into a fresh value (DecodeBody, hclsimple) and compared with "+
	"reflect.DeepEqual modulo nil == empty for slices/maps and convert-to-original-type for cty.Value; its document model is rendered independently as native text and as up to 8 JSON twins (nesting forms: per-block label nesting with objects / with arrays of objects, and the merged label tree of each run of blocks of one type "+
	"-- blocks sharing a label prefix with their predecessor become sibling properties of one object / sibling elements of one array, blocks with identical labels one array of bodies, a reappearing label a repeated property name -- with objects / with arrays; each x literal-only / template mode; plus two forms in which every object representing a body carries a \"//\" comment property, which json/spec.md says is ignored) which must decode to the same value. "+
	"Oracle 3: every single edit of the document of each value whose swept strings have <= 1 atom of the base atoms (all structural cases, all single-base-atom strings, the diagonal of the pair positions) (delete/duplicate an item, add an unexpected attribute / block, attribute<->block, add / remove a label, replace an attribute value by each of 16 literals of other types -- the latter only for the non-swept, structural values) in both syntaxes, and every single line deletion / duplication of the real encoder's output, must decode without panic; "+
	"unexpected items and missing required attributes must give error diagnostics, a missing optional attribute must give the value with that field zero (doc.go). "+
	"Oracle 3b (expressions): %d expressions (literal null; variables holding null / unknown of string, number, bool, dynamic, list(string) and known values of every primitive and collection type; conditionals with a null branch, selected and not; operations with known / unknown results; evaluation errors) over a fixed EvalContext, each decoded with gohcl.DecodeExpression into a fresh value of each of %d Go types (string, bool, int kinds, float kinds, their pointers, slices, maps, cty struct, cty.Value), and each put in place of every attribute (any depth) of one structural value of Nums, Strs, Opts, Cty, H1, Deep, Sib and decoded with DecodeBody and hclsimple.Decode, in native syntax and as the JSON string \"${...}\": never a panic; error diagnostics iff go-cty's convert + gocty.FromCtyValue (trusted) refuse the value (null into a non-pointer, unknown, evaluation error, wrong type / range), else exactly the value they give (null => nil pointer / slice / map); a null whose type convert will not convert to a nullable target is not judged. "+
	"thorough: additionally, at every single string position, strings of <= 3 atoms over the base atoms and {CR, NUL, DEL, U+2028, ~, U+FFFD, U+0085, U+E0001} and strings of <= 2 atoms over the quick alphabet extended by {CR, NUL, U+2028, ~, U+FFFD, U+00AD, U+3000, U+10FFFD} (%d strings together with the quick strings); "+
	"at the two-element positions all pairs of strings of <= 2 base atoms, one non-printable atom or one syntax-special string (%dx%d); all ordered triples of 4- and 5-label sibling blocks (no perturbations for these). "+
	"Non-trivial = the round trip succeeded (sig = generated source) or the perturbed document was decoded (sig = edit, outcome, diagnostic summaries or decoded value).",
	len(quickS()), len(quickP()), len(quickP()), len(exprTable), len(exprTargets),
	len(thoroughS()), len(thoroughP()), len(thoroughP()))

// atomsBase: the escape-relevant characters of the native and JSON syntaxes.
var atomsBase = []string{"a", " ", "\"", "\\", "$", "%", "{", "}", "\n", "\t", "é", "\U0001F600", "${", "%{"}

// atomsNonPrint: runes that are not unicode.IsPrint (a generator has to write
// them as \uNNNN / \UNNNNNNNN or literally), one or more of every UTF-8 width
// and of the general categories Cc (DEL, U+0085 NEL), Zs (U+00A0), Cf (U+200B,
// U+FEFF, U+E0001) and Co (U+E000). All are inert under NFC.
var atomsNonPrint = []string{"\x7f", "\u0085", "\u00a0", "\u200b", "\ufeff", "\ue000", "\U000E0001"}

var atomsQuick = append(append([]string{}, atomsBase...), atomsNonPrint...)

// atomsExt adds CR, NUL, U+2028 (Zl), ~, U+FFFD, U+00AD (Cf, 2 bytes), U+3000
// (Zs, 3 bytes) and U+10FFFD (Co, 4 bytes); the thorough tier takes all
// strings of <= 2 atoms over it.
var atomsExt = append(append([]string{}, atomsQuick...), "\r", "\x00", "\u2028", "~", "\ufffd", "\u00ad", "\u3000", "\U0010FFFD")

// atomsExt3: the alphabet of the thorough tier's <= 3-atom strings: the base
// atoms, the ASCII controls, U+2028, ~, U+FFFD and a 2-byte and a 4-byte
// non-printable rune.
var atomsExt3 = append(append([]string{}, atomsBase...), "\r", "\x00", "\x7f", "\u2028", "~", "\ufffd", "\u0085", "\U000E0001")

// union returns a followed by the elements of b that are not in a.
func union(a, b []string) []string {
	seen := map[string]bool{}
	var out []string
	for _, l := range [][]string{a, b} {
		for _, s := range l {
			if !seen[s] {
				seen[s] = true
				out = append(out, s)
			}
		}
	}
	return out
}

// syntaxSpecial: strings that have a meaning of their own in one of the two
// syntaxes when they are NOT inside a quoted string / in expression position:
// "//" is the comment property of a JSON body (json/spec.md "Bodies"; "not
// processed in this way for any other HCL constructs", so as a label or a key
// of an object expression it is an ordinary string) and the line comment
// introducer of the native syntax; "//a" and "/" are its neighbours (prefix
// tests); "/*" and "#" introduce native comments; "<<A" a heredoc.
var syntaxSpecial = []struct{ S, Slug string }{
	{"//", "double-slash"}, {"//a", "double-slash-prefix"}, {"/", "slash"}, {"/*", "block-comment-open"}, {"#", "hash"}, {"<<A", "heredoc-introducer"},
}

func specialStrings() []string {
	var out []string
	for _, sp := range syntaxSpecial {
		out = append(out, sp.S)
	}
	return out
}

var keyAlphabet = []string{"a", "for", "if", "in", "else", "null", "true", "false", "", "a b", "0", "a.b", "-", "a-b", "é", "${x}"}

// strs returns all distinct concatenations of at most n atoms, shortest first.
func strs(atoms []string, n int) []string {
	seen := map[string]bool{"": true}
	out := []string{""}
	level := []string{""}
	for i := 0; i < n; i++ {
		var next []string
		for _, p := range level {
			for _, a := range atoms {
				s := p + a
				next = append(next, s)
				if !seen[s] {
					seen[s] = true
					out = append(out, s)
				}
			}
		}
		level = next
	}
	return out
}

type stop struct{}

type bounds struct {
	S    []string // strings for single positions
	P    []string // strings for each component of a pair position
	Trip int      // sibling blocks: all triples of label tuples for blocks of up to this many labels
	pert bool
}

func sp(s string) *string { return &s }

func gen(tier string, emit func(engine.Case) bool) {
	defer func() {
		if r := recover(); r != nil {
			if _, ok := r.(stop); !ok {
				panic(r)
			}
		}
	}()
	seen := map[string]bool{}
	run := func(b bounds) {
		small := map[string]bool{}
		for _, s := range strs(atomsBase, 1) {
			small[s] = true
		}
		var out outFn
		out = func(typ, family string, ptr any, sweep ...string) {
			c := mkCase(typ, family, ptr, nil)
			if seen[c.ID] {
				return
			}
			seen[c.ID] = true
			if !emit(c) {
				panic(stop{})
			}
			if !b.pert {
				return
			}
			// swept strings: perturb only if at most one distinct non-base string is involved and it has <= 1 atom
			distinct, have := "", false
			for _, w := range sweep {
				if w == "k0" || w == "n0" {
					continue
				}
				if !small[w] || (have && w != distinct) {
					return
				}
				distinct, have = w, true
			}
			_, doc := toBody(reflect.ValueOf(ptr).Elem())
			for _, p := range perturbations(doc) {
				if p.Op == "retype" && len(sweep) > 0 {
					continue // value replacement does not depend on the swept string: structural cases only
				}
				for _, syn := range []string{"native", "json"} {
					q := p
					q.Syntax = syn
					if !emit(mkCase(typ, family, ptr, &q)) {
						panic(stop{})
					}
				}
			}
			// every single line deletion / duplication of the real encoder's output
			enc, pv := encode(func(f *hclwrite.File) { gohcl.EncodeIntoBody(ptr, f.Body()) })
			if pv != nil {
				return
			}
			for i, n := 0, bytes.Count(enc, []byte("\n")); i < n; i++ {
				for _, op := range []string{"line-del", "line-dup"} {
					if !emit(mkCase(typ, family, ptr, &Pert{Op: op, Arg: i, Syntax: "encoded"})) {
						panic(stop{})
					}
				}
			}
		}
		genAll(b, out)
	}
	if !genDecodeExpression(emit) {
		return
	}
	genExprHosts(func(c engine.Case) {
		if !emit(c) {
			panic(stop{})
		}
	})
	run(bounds{S: quickS(), P: quickP(), Trip: 3, pert: true})
	if tier == "thorough" {
		run(bounds{S: thoroughS(), P: thoroughP(), Trip: 5, pert: false})
	}
}

// quickS: the strings of every single string position: all strings of <= 2
// atoms over the quick alphabet, the syntax-special strings and the keywords /
// non-identifiers of the map key alphabet (so that they also occur as labels,
// attribute values and list elements).
func quickS() []string {
	return union(union(strs(atomsQuick, 2), specialStrings()), keyAlphabet)
}

// quickP: the strings of each component of a pair position (and of every
// label position of 3..5-label blocks).
func quickP() []string { return union(strs(atomsQuick, 1), specialStrings()) }

func thoroughS() []string { return union(union(strs(atomsExt3, 3), strs(atomsExt, 2)), quickS()) }
func thoroughP() []string { return union(union(strs(atomsBase, 2), strs(atomsQuick, 1)), quickP()) }

// genExprHosts: one structural value per type family; every attribute of its
// document (at any depth) is replaced by every expression of exprTable, in
// both syntaxes (oracle 3b, exprs.go).
func genExprHosts(emit func(engine.Case)) {
	nums, strsV, opts := numsBase(), strsBase(), optsFull()
	l1 := func(n, x string) L1 { return L1{N: n, X: x} }
	p1 := l1("np", "xp")
	q1 := l1("nq", "xq")
	h1 := Holder[L1]{A: 1, One: l1("n0", "x"), Ptr: &p1, Many: []L1{l1("n1", "x1"), l1("n2", "x2")}, PMany: []*L1{&q1}, Z: "z"}
	mid := Mid{K: "k", N: "n", I: 1, Leaves: []Leaf{{N: "l", V: []string{"v"}, M: map[string]string{"k": "v"}}}, Only: &Leaf{N: "o", V: []string{}, M: map[string]string{}}}
	deep := Deep{Name: "d", Mids: []*Mid{&mid}, Last: Mid{K: "k", N: "n", I: 2}}
	sib := Sib{A: 1, B3: []L3{{A: "p", B: "q", C: "r", X: "x"}}, B4: []*L4{{A: "p", B: "q", C: "r", D: "s", X: "x"}}, Z: "z"}
	for _, h := range []struct {
		typ string
		ptr any
	}{
		{"Nums", &nums}, {"Strs", &strsV}, {"Opts", &opts}, {"Cty", &TCty{V: cty.StringVal("v")}},
		{"H1", &h1}, {"Deep", &deep}, {"Sib", &sib},
	} {
		_, doc := toBody(reflect.ValueOf(h.ptr).Elem())
		for _, p := range exprPerturbations(doc) {
			for _, syn := range []string{"native", "json"} {
				q := p
				q.Syntax = syn
				emit(mkCase(h.typ, "attr-expression", h.ptr, &q))
			}
		}
	}
}

func numsBase() Nums {
	i, t, f := 5, true, 2.5
	return Nums{I: 1, I64: 2, I8: 3, U64: 4, B: true, F: 0.5, F32: 0.25, LI: []int{1, 2}, MB: map[string]bool{"k": true}, PI: &i, PB: &t, PF: &f}
}

func strsBase() Strs {
	return Strs{S: "s0", P: sp("p0"), L: []string{"l0", "l1"}, M: map[string]string{"k0": "v0"}, O: Obj{X: "x0", Y: 7}, LL: [][]string{{"a"}}, LO: []Obj{{X: "q", Y: 1}}}
}

func optsFull() Opts {
	return Opts{S: "s", I: 3, R: "r", B: true, F: 0.5, L: []string{"l"}, M: map[string]string{"k": "v"}, P: sp("p"), O: Obj{X: "x", Y: 2}}
}

// outFn emits one value (and its perturbations); sweep, if given, is the swept
// string of a <=2-atom sweep: only <=1-atom strings get perturbations.
type outFn func(typ, family string, ptr any, sweep ...string)

func genAll(b bounds, out outFn) {
	genOpts(b, out)
	genNums(b, out)
	genStrs(b, out)
	genCty(b, out)
	genHolder(b, out, "H0", 0, func(l []string, x string) L0 { return L0{X: x} })
	genHolder(b, out, "H1", 1, func(l []string, x string) L1 { return L1{N: l[0], X: x} })
	genHolder(b, out, "H2", 2, func(l []string, x string) L2 { return L2{K: l[0], N: l[1], X: x} })
	genHolder(b, out, "HE", 1, func(l []string, x string) EmbL { return EmbL{K: l[0], X: x} })
	genEmb(b, out)
	genWrap(b, out)
	genDeep(b, out)
	genSib(b, out)
}

func genEmb(b bounds, out outFn) {
	out("Emb", "embedded-struct", &Emb{Name: "n"})
	out("Emb", "embedded-struct", &Emb{Name: "n", N: 2, Z: "z"})
	out("Emb", "embedded-struct", &Emb{Name: "n", Blks: []L1{{N: "a", X: "x"}, {N: "b"}}, Z: "z"})
	out("Emb", "embedded-struct", &Emb{Name: "", N: -1, Blks: []L1{}})
}

func genOpts(b bounds, out outFn) {
	full := optsFull
	out("Opts", "optional-zero", &Opts{})
	v := full()
	out("Opts", "optional-set", &v)
	// each optional field zero / each alone non-zero
	rt := reflect.TypeOf(Opts{})
	for i := 0; i < rt.NumField(); i++ {
		if rt.Field(i).Name == "R" {
			continue
		}
		v := full()
		fv := reflect.ValueOf(&v).Elem().Field(i)
		fv.Set(reflect.Zero(fv.Type()))
		out("Opts", "optional-zero", &v)
		w := Opts{R: "r"}
		f := full()
		reflect.ValueOf(&w).Elem().Field(i).Set(reflect.ValueOf(f).Field(i))
		out("Opts", "optional-set", &w)
	}
	out("Opts", "optional-zero", &Opts{L: []string{}, M: map[string]string{}, P: sp("")})
	for _, s := range b.S {
		out("Opts", "optional-string", &Opts{S: s, R: s}, s)
	}
}

func genNums(b bounds, out outFn) {
	base := numsBase
	v := base()
	out("Nums", "attr-int", &v)
	for _, i := range []int{0, 1, -1, math.MaxInt64, math.MinInt64, 1 << 53, 1<<53 + 1} {
		v := base()
		v.I = i
		out("Nums", "attr-int", &v)
		v = base()
		v.I64 = int64(i)
		out("Nums", "attr-int", &v)
		v = base()
		j := i
		v.PI = &j
		out("Nums", "attr-ptr-num", &v)
		v = base()
		v.LI = []int{i, 0, i}
		out("Nums", "attr-list-int", &v)
	}
	for _, i := range []int8{0, -1, math.MaxInt8, math.MinInt8} {
		v := base()
		v.I8 = i
		out("Nums", "attr-int", &v)
	}
	for _, u := range []uint64{0, 1, math.MaxInt64 + 1, math.MaxUint64} {
		v := base()
		v.U64 = u
		out("Nums", "attr-int", &v)
	}
	for _, f := range []float64{0, 0.5, -1.5, 0.1, 1e20, 1e-7, math.MaxFloat64, math.SmallestNonzeroFloat64, -math.MaxFloat64, 1.0 / 3.0, 123456789.125} {
		v := base()
		v.F = f
		out("Nums", "attr-float", &v)
		v = base()
		g := f
		v.PF = &g
		out("Nums", "attr-ptr-num", &v)
	}
	for _, f := range []float32{0, 0.5, -1.5, 0.1, 1e20, math.MaxFloat32, math.SmallestNonzeroFloat32} {
		v := base()
		v.F32 = f
		out("Nums", "attr-float", &v)
	}
	for _, t := range []bool{false, true} {
		v := base()
		v.B = t
		out("Nums", "attr-bool", &v)
		v = base()
		u := t
		v.PB = &u
		out("Nums", "attr-bool", &v)
		v = base()
		v.MB = map[string]bool{"x": t, "y": !t}
		out("Nums", "attr-bool", &v)
	}
	for _, li := range [][]int{nil, {}, {0}, {-1, 1}} {
		v := base()
		v.LI = li
		out("Nums", "attr-list-int", &v)
	}
	for _, mb := range []map[string]bool{nil, {}} {
		v := base()
		v.MB = mb
		out("Nums", "attr-map-empty", &v)
	}
	v = base()
	v.PI, v.PB, v.PF = nil, nil, nil
	out("Nums", "attr-ptr-num", &v)
}

func genStrs(b bounds, out outFn) {
	base := strsBase
	v := base()
	out("Strs", "attr-string", &v)
	for _, s := range b.S {
		v := base()
		v.S = s
		out("Strs", "attr-string", &v, s)
	}
	v = base()
	v.P = nil
	out("Strs", "attr-ptr-string", &v)
	for _, s := range b.S {
		v := base()
		v.P = sp(s)
		out("Strs", "attr-ptr-string", &v, s)
	}
	for _, l := range [][]string{nil, {}} {
		v := base()
		v.L = l
		out("Strs", "attr-list-string", &v)
	}
	for _, s := range b.S {
		v := base()
		v.L = []string{s}
		out("Strs", "attr-list-string", &v, s)
	}
	for _, s := range b.P {
		for _, t := range b.P {
			v := base()
			v.L = []string{s, t}
			out("Strs", "attr-list-string", &v, s, t)
		}
	}
	for _, m := range []map[string]string{nil, {}} {
		v := base()
		v.M = m
		out("Strs", "attr-map-empty", &v)
	}
	for _, s := range b.S {
		v := base()
		v.M = map[string]string{"k": s}
		out("Strs", "attr-map-value", &v, s)
	}
	for _, k := range keyAlphabet {
		v := base()
		v.M = map[string]string{k: "v"}
		out("Strs", "attr-map-key", &v)
	}
	for _, k := range b.S {
		v := base()
		v.M = map[string]string{k: "v"}
		out("Strs", "attr-map-key", &v, k)
	}
	for i, k1 := range keyAlphabet {
		for _, k2 := range keyAlphabet[i+1:] {
			v := base()
			v.M = map[string]string{k1: "1", k2: "2"}
			out("Strs", "attr-map-key", &v)
		}
	}
	for _, k1 := range b.P {
		for _, k2 := range b.P {
			if k1 < k2 {
				v := base()
				v.M = map[string]string{k1: "1", k2: "2"}
				out("Strs", "attr-map-key", &v, k1, k2)
			}
		}
	}
	for _, s := range b.S {
		v := base()
		v.O = Obj{X: s, Y: -1}
		out("Strs", "attr-object", &v, s)
	}
	for _, ll := range [][][]string{nil, {}, {nil}, {{}}, {nil, {}}, {{"a"}, {}}, {{"a", "b"}, {"c"}}} {
		v := base()
		v.LL = ll
		out("Strs", "attr-list-list", &v)
	}
	for _, s := range b.P {
		for _, t := range b.P {
			v := base()
			v.LL = [][]string{{s}, {t, s}}
			out("Strs", "attr-list-list", &v, s, t)
		}
	}
	for _, lo := range [][]Obj{nil, {}, {{}}, {{X: "a", Y: 1}, {X: "b", Y: 2}}} {
		v := base()
		v.LO = lo
		out("Strs", "attr-list-object", &v)
	}
	for _, s := range b.P {
		for _, t := range b.P {
			v := base()
			v.LO = []Obj{{X: s, Y: 1}, {X: t, Y: 2}}
			out("Strs", "attr-list-object", &v, s, t)
		}
	}
}

func genCty(b bounds, out outFn) {
	str := cty.StringVal
	num := cty.NumberIntVal
	vals := []cty.Value{
		cty.NullVal(cty.DynamicPseudoType), cty.NullVal(cty.String), cty.NullVal(cty.List(cty.String)),
		cty.True, cty.False, num(0), num(-1), num(1 << 62), cty.NumberFloatVal(0.5), cty.NumberFloatVal(-1.5), cty.MustParseNumberVal("1e20"),
		cty.ListValEmpty(cty.String), cty.ListVal([]cty.Value{str("a"), str("b")}), cty.ListVal([]cty.Value{num(1), num(2)}),
		cty.SetVal([]cty.Value{str("b"), str("a")}), cty.SetValEmpty(cty.Number),
		cty.EmptyTupleVal, cty.TupleVal([]cty.Value{str("a"), num(1), cty.True, cty.NullVal(cty.String)}),
		cty.TupleVal([]cty.Value{cty.EmptyTupleVal, cty.EmptyObjectVal}),
		cty.MapValEmpty(cty.String), cty.MapVal(map[string]cty.Value{"a": str("1"), "b": str("2")}),
		cty.EmptyObjectVal, cty.ObjectVal(map[string]cty.Value{"a": str("x"), "b": num(1), "c": cty.ListVal([]cty.Value{cty.True})}),
		cty.ListVal([]cty.Value{cty.MapVal(map[string]cty.Value{"k": num(1)})}),
		cty.MapVal(map[string]cty.Value{"k": cty.ListVal([]cty.Value{str("e")})}),
		cty.ObjectVal(map[string]cty.Value{"o": cty.ObjectVal(map[string]cty.Value{"p": cty.NullVal(cty.Number)})}),
	}
	for _, v := range vals {
		out("Cty", "cty-value", &TCty{V: v})
	}
	for _, s := range b.S {
		out("Cty", "cty-string", &TCty{V: str(s)}, s)
	}
	for _, k := range keyAlphabet {
		out("Cty", "cty-map-key", &TCty{V: cty.MapVal(map[string]cty.Value{k: str("v")})})
		out("Cty", "cty-object-key", &TCty{V: cty.ObjectVal(map[string]cty.Value{k: num(1)})})
	}
	for _, k := range b.P {
		out("Cty", "cty-object-key", &TCty{V: cty.ObjectVal(map[string]cty.Value{k: num(1), "z": str(k)})}, k)
	}
}

// labelSets enumerates the label tuples of one block: each label over S with
// the others at base, and all pairs over P x P.
func labelSets(b bounds, nl int, base []string) [][]string {
	switch nl {
	case 0:
		return [][]string{{}}
	case 1:
		var out [][]string
		for _, s := range b.S {
			out = append(out, []string{s})
		}
		return out
	}
	var out [][]string
	for _, s := range b.S {
		out = append(out, []string{s, base[1]}, []string{base[0], s})
	}
	for _, s := range b.P {
		for _, t := range b.P {
			out = append(out, []string{s, t})
		}
	}
	return out
}

func genHolder[T any](b bounds, out outFn, name string, nl int, mk func(l []string, x string) T) {
	baseL := []string{"k0", "n0"}
	lbl := func(i int) []string { return []string{"k" + string(rune('0'+i)), "n" + string(rune('0'+i))} }
	base := func() Holder[T] { return Holder[T]{A: 1, One: mk(baseL, "x"), Z: "z"} }

	// multiplicities: the full product, distinct labels and attributes per block
	for ptr := 0; ptr < 2; ptr++ {
		for nm := 0; nm <= 2; nm++ {
			for np := 0; np <= 2; np++ {
				for empties := 0; empties < 2; empties++ {
					v := base()
					n := 1
					if ptr == 1 {
						t := mk(lbl(n), "xp")
						v.Ptr = &t
						n++
					}
					for i := 0; i < nm; i++ {
						v.Many = append(v.Many, mk(lbl(n), "xm"+string(rune('0'+i))))
						n++
					}
					for i := 0; i < np; i++ {
						t := mk(lbl(n), "xq"+string(rune('0'+i)))
						v.PMany = append(v.PMany, &t)
						n++
					}
					if empties == 1 {
						if nm > 0 && np > 0 {
							continue
						}
						if nm == 0 {
							v.Many = []T{}
						}
						if np == 0 {
							v.PMany = []*T{}
						}
					}
					out(name, "block-multiplicity", &v)
				}
			}
		}
	}
	// repeated blocks with identical labels (and identical content)
	{
		v := base()
		v.Many = []T{mk(baseL, "same"), mk(baseL, "same")}
		t1, t2 := mk(baseL, "same"), mk(baseL, "same")
		v.PMany = []*T{&t1, &t2}
		out(name, "block-multiplicity", &v)
	}
	// labels x block field shape
	for _, ls := range labelSets(b, nl, baseL) {
		if nl == 0 {
			break
		}
		v := base()
		v.One = mk(ls, "x")
		out(name, "label-struct-block", &v, ls...)
		v = base()
		t := mk(ls, "x")
		v.Ptr = &t
		out(name, "label-ptr-block", &v, ls...)
		v = base()
		v.Many = []T{mk(ls, "x")}
		out(name, "label-slice-block", &v, ls...)
		v = base()
		t2 := mk(ls, "x")
		v.PMany = []*T{&t2}
		out(name, "label-ptrslice-block", &v, ls...)
	}
	// labels of two repeated blocks: all pairs for the first label (the
	// second, if any, mirrors the other block's first)
	if nl > 0 {
		for _, s := range b.P {
			for _, t := range b.P {
				la, lb := []string{s, t}, []string{t, s}
				v := base()
				v.Many = []T{mk(la, "x0"), mk(lb, "x1")}
				out(name, "label-slice-block", &v, s, t)
				v = base()
				t1, t2 := mk(la, "x0"), mk(lb, "x1")
				v.PMany = []*T{&t1, &t2}
				out(name, "label-ptrslice-block", &v, s, t)
			}
		}
	}
	// strings in a nested attribute
	for _, s := range b.S {
		v := base()
		v.One = mk(baseL, s)
		v.Many = []T{mk(baseL, "x0"), mk(baseL, s)}
		out(name, "block-nested-attr", &v, s)
	}
}

func genWrap(b bounds, out outFn) {
	base := []string{"k0", "n0"}
	out("WrapL0", "encode-as-block", &Wrap[L0]{Blk: L0{X: "x"}})
	out("WrapL0", "encode-as-block", &Wrap[L0]{})
	for _, ls := range labelSets(b, 1, base) {
		out("WrapL1", "encode-as-block-label", &Wrap[L1]{Blk: L1{N: ls[0], X: "x"}}, ls...)
	}
	for _, ls := range labelSets(b, 2, base) {
		out("WrapL2", "encode-as-block-label", &Wrap[L2]{Blk: L2{K: ls[0], N: ls[1], X: "x"}}, ls...)
		out("WrapMid", "encode-as-block-label", &Wrap[Mid]{Blk: Mid{K: ls[0], N: ls[1], I: 1, Leaves: []Leaf{{N: ls[1], V: []string{ls[0]}}}}}, ls...)
	}
}

// tuples returns all label tuples of length n over the alphabet, in
// lexicographic order of positions.
func tuples(alpha []string, n int) [][]string {
	out := [][]string{{}}
	for i := 0; i < n; i++ {
		var next [][]string
		for _, t := range out {
			for _, a := range alpha {
				next = append(next, append(append([]string{}, t...), a))
			}
		}
		out = next
	}
	return out
}

// sibAdd appends a block with the given labels to the block field of Sib whose
// body type has len(t) labels.
func sibAdd(v *Sib, t []string, x string) {
	switch len(t) {
	case 1:
		v.B1 = append(v.B1, L1{N: t[0], X: x})
	case 2:
		v.B2 = append(v.B2, &L2{K: t[0], N: t[1], X: x})
	case 3:
		v.B3 = append(v.B3, L3{A: t[0], B: t[1], C: t[2], X: x})
	case 4:
		v.B4 = append(v.B4, &L4{A: t[0], B: t[1], C: t[2], D: t[3], X: x})
	case 5:
		v.B5 = append(v.B5, L5{A: t[0], B: t[1], C: t[2], D: t[3], E: t[4], X: x})
	default:
		panic("harness: no block type with that many labels")
	}
}

// genSib: repeated blocks of one type with 1..5 labels whose label tuples
// share a prefix of every length (incl. none and all) with their neighbours.
func genSib(b bounds, out outFn) {
	const maxL = 5
	base := []string{"p", "q", "r", "s", "t"}
	fam := func(nl int) string { return fmt.Sprintf("sibling-blocks-%d-labels", nl) }
	// structural cases
	out("Sib", "sibling-blocks-none", &Sib{A: 1, Z: "z"})
	all := Sib{A: 1, Z: "z"}
	for nl := 1; nl <= maxL; nl++ {
		t1 := base[:nl]
		t2 := append(append([]string{}, base[:nl-1]...), "u") // differs in the last label only
		v := Sib{A: 1, Z: "z"}
		sibAdd(&v, t1, "x0")
		out("Sib", fam(nl), &v)
		v = Sib{A: 1, Z: "z"}
		sibAdd(&v, t1, "x0")
		sibAdd(&v, t2, "x1")
		out("Sib", fam(nl), &v)
		v = Sib{A: 1, Z: "z"}
		sibAdd(&v, t1, "x0")
		sibAdd(&v, t1, "x1")
		out("Sib", fam(nl), &v)
		sibAdd(&all, t1, "x0")
		sibAdd(&all, t2, "x1")
	}
	out("Sib", "sibling-blocks-every-label-count", &all)
	// all ordered pairs, and up to b.Trip labels all ordered triples, of label
	// tuples over {a, b}: every shared-prefix length, every position of the
	// difference, identical tuples, and a tuple that reappears after another
	ab := []string{"a", "b"}
	for nl := 1; nl <= maxL; nl++ {
		ts := tuples(ab, nl)
		sweepOf := func(tt ...[]string) []string {
			var w []string
			for _, t := range tt {
				w = append(w, t...)
			}
			return w
		}
		for _, t1 := range ts {
			for _, t2 := range ts {
				v := Sib{A: 1, Z: "z"}
				sibAdd(&v, t1, "x0")
				sibAdd(&v, t2, "x1")
				out("Sib", fam(nl), &v, sweepOf(t1, t2)...)
			}
		}
		if nl > b.Trip {
			continue
		}
		for _, t1 := range ts {
			for _, t2 := range ts {
				for _, t3 := range ts {
					v := Sib{A: 1, Z: "z"}
					sibAdd(&v, t1, "x0")
					sibAdd(&v, t2, "x1")
					sibAdd(&v, t3, "x2")
					out("Sib", fam(nl), &v, sweepOf(t1, t2, t3)...)
				}
			}
		}
	}
	// strings in each label position of blocks with 3..5 labels, next to a
	// sibling that shares the labels before that position
	for nl := 3; nl <= maxL; nl++ {
		for i := 0; i < nl; i++ {
			for _, s := range b.P {
				t := append([]string{}, base[:nl]...)
				t[i] = s
				v := Sib{A: 1, Z: "z"}
				sibAdd(&v, base[:nl], "x0")
				sibAdd(&v, t, "x1")
				out("Sib", fmt.Sprintf("sibling-label-string-%d-labels", nl), &v, s)
			}
		}
	}
	// EncodeAsBlock of blocks with 3..5 labels
	for i := 0; i < maxL; i++ {
		for _, s := range b.P {
			t := append([]string{}, base...)
			t[i] = s
			if i < 3 {
				out("WrapL3", "encode-as-block-label", &Wrap[L3]{Blk: L3{A: t[0], B: t[1], C: t[2], X: "x"}}, s)
			}
			if i < 4 {
				out("WrapL4", "encode-as-block-label", &Wrap[L4]{Blk: L4{A: t[0], B: t[1], C: t[2], D: t[3], X: "x"}}, s)
			}
			out("WrapL5", "encode-as-block-label", &Wrap[L5]{Blk: L5{A: t[0], B: t[1], C: t[2], D: t[3], E: t[4], X: "x"}}, s)
		}
	}
}

func genDeep(b bounds, out outFn) {
	// shapes: the full product
	mkMid := func(id string, nleaf int, only bool) Mid {
		m := Mid{K: "k" + id, N: "n" + id, I: len(id)}
		for i := 0; i < nleaf; i++ {
			m.Leaves = append(m.Leaves, Leaf{N: id + "l" + string(rune('0'+i)), V: []string{id, string(rune('0' + i))}, M: map[string]string{"id": id}})
		}
		if only {
			m.Only = &Leaf{N: id + "only"}
		}
		return m
	}
	type shape struct {
		n    int
		only bool
	}
	var shapes []shape
	for n := 0; n <= 2; n++ {
		shapes = append(shapes, shape{n, false}, shape{n, true})
	}
	for _, last := range shapes {
		v := Deep{Name: "d", Last: mkMid("z", last.n, last.only)}
		out("Deep", "deep-shape", &v)
		for _, s1 := range shapes {
			m1 := mkMid("a", s1.n, s1.only)
			v := Deep{Name: "d", Mids: []*Mid{&m1}, Last: mkMid("z", last.n, last.only)}
			out("Deep", "deep-shape", &v)
			for _, s2 := range shapes {
				m1 := mkMid("a", s1.n, s1.only)
				m2 := mkMid("bb", s2.n, s2.only)
				v := Deep{Name: "d", Mids: []*Mid{&m1, &m2}, Last: mkMid("z", last.n, last.only)}
				out("Deep", "deep-shape", &v)
			}
		}
	}
	// labels at depth 2 and 1
	for _, s := range b.S {
		m := mkMid("a", 2, true)
		m.Leaves[1].N = s
		v := Deep{Name: "d", Mids: []*Mid{&m}, Last: mkMid("z", 0, false)}
		out("Deep", "deep-leaf-label", &v, s)
		l := mkMid("z", 0, true)
		l.Only.N = s
		out("Deep", "deep-leaf-label", &Deep{Name: "d", Last: l}, s)
	}
	for _, s := range b.P {
		for _, t := range b.P {
			m := mkMid("a", 1, false)
			m.K, m.N = s, t
			m.Leaves[0].N = t
			v := Deep{Name: s, Mids: []*Mid{&m}, Last: mkMid("z", 0, false)}
			out("Deep", "deep-mid-label", &v, s, t)
		}
	}
	// attribute values at depth 2
	for _, s := range b.S {
		l := mkMid("z", 1, false)
		l.Leaves[0].V = []string{s}
		l.Leaves[0].M = map[string]string{s: s}
		out("Deep", "deep-leaf-attr", &Deep{Name: "d", Last: l}, s)
	}
	for _, k := range keyAlphabet {
		l := mkMid("z", 1, false)
		l.Leaves[0].M = map[string]string{k: "v"}
		out("Deep", "deep-leaf-map-key", &Deep{Name: "d", Last: l})
	}
	for _, vs := range [][]string{nil, {}} {
		l := mkMid("z", 1, false)
		l.Leaves[0].V = vs
		l.Leaves[0].M = nil
		out("Deep", "deep-leaf-attr", &Deep{Name: "d", Last: l})
	}
}
