package main

// The independent document model: a boring reflection walk over the `hcl`
// (and `cty`) struct tags that turns a Go value into the configuration content
// it denotes, plus two renderers (native syntax, JSON syntax) that share no
// code with gohcl / hclwrite. It is the "own small encoder" of oracle 2 and
// the base document of the perturbations of oracle 3.

import (
	"encoding/json"
	"fmt"
	"reflect"
	"sort"
	"strconv"
	"strings"

	"github.com/zclconf/go-cty/cty"
)

type litKind int

const (
	kNull litKind = iota
	kBool
	kNum
	kStr
	kList
	kMap
	kRaw // an expression given as native-syntax source (only in "expr" perturbations)
)

type Lit struct {
	Kind  litKind
	B     bool
	Num   string // decimal text
	Str   string
	Raw   string   // kRaw: native expression source; in JSON the template string "${Raw}"
	Elems []*Lit   // list elements, or map values (parallel to Keys)
	Keys  []string // map keys
}

type Item struct {
	Name   string
	Block  bool
	Val    *Lit     // attribute
	Labels []string // block
	Body   *Body    // block

	// meta data about the struct field the item was derived from
	kind     string // "attr", "optional", "block", "" for items added by a perturbation
	ptr      bool   // field is a pointer (attribute) / pointer or slice (block)
	fv       reflect.Value
	repeated bool
}

type Body struct{ Items []*Item }

var ctyValueType = reflect.TypeOf(cty.Value{})

func splitTag(tag string) (name, kind string) {
	if i := strings.IndexByte(tag, ','); i >= 0 {
		return tag[:i], tag[i+1:]
	}
	return tag, "attr"
}

// toBody walks a struct value; rv must be addressable if fv is to be used.
func toBody(rv reflect.Value) (labels []string, body *Body) {
	body = &Body{}
	rt := rv.Type()
	for i := 0; i < rt.NumField(); i++ {
		tag := rt.Field(i).Tag.Get("hcl")
		if tag == "" {
			continue
		}
		name, kind := splitTag(tag)
		fv := rv.Field(i)
		switch kind {
		case "label":
			labels = append(labels, fv.String())
		case "attr", "optional":
			it := &Item{Name: name, kind: kind, fv: fv}
			if fv.Kind() == reflect.Ptr {
				it.ptr = true
				if fv.IsNil() {
					continue // a nil pointer denotes an absent attribute
				}
				fv = fv.Elem()
			}
			it.Val = litOf(fv)
			body.Items = append(body.Items, it)
		case "block":
			one := func(ev reflect.Value, ptr, rep bool) {
				ls, b := toBody(ev)
				body.Items = append(body.Items, &Item{Name: name, Block: true, Labels: ls, Body: b, kind: "block", ptr: ptr, repeated: rep, fv: fv})
			}
			switch {
			case fv.Kind() == reflect.Slice:
				for j := 0; j < fv.Len(); j++ {
					ev := fv.Index(j)
					if ev.Kind() == reflect.Ptr {
						ev = ev.Elem()
					}
					one(ev, true, true)
				}
			case fv.Kind() == reflect.Ptr:
				if !fv.IsNil() {
					one(fv.Elem(), true, false)
				}
			default:
				one(fv, false, false)
			}
		default:
			panic("harness: unsupported tag kind " + kind)
		}
	}
	return labels, body
}

func litOf(rv reflect.Value) *Lit {
	switch rv.Kind() {
	case reflect.String:
		return &Lit{Kind: kStr, Str: rv.String()}
	case reflect.Bool:
		return &Lit{Kind: kBool, B: rv.Bool()}
	case reflect.Int, reflect.Int8, reflect.Int16, reflect.Int32, reflect.Int64:
		return &Lit{Kind: kNum, Num: strconv.FormatInt(rv.Int(), 10)}
	case reflect.Uint, reflect.Uint8, reflect.Uint16, reflect.Uint32, reflect.Uint64:
		return &Lit{Kind: kNum, Num: strconv.FormatUint(rv.Uint(), 10)}
	case reflect.Float32, reflect.Float64:
		// shortest decimal that identifies the float64 value, no exponent
		return &Lit{Kind: kNum, Num: strconv.FormatFloat(rv.Float(), 'f', -1, 64)}
	case reflect.Ptr:
		if rv.IsNil() {
			return &Lit{Kind: kNull}
		}
		return litOf(rv.Elem())
	case reflect.Slice:
		if rv.IsNil() {
			return &Lit{Kind: kNull}
		}
		l := &Lit{Kind: kList}
		for i := 0; i < rv.Len(); i++ {
			l.Elems = append(l.Elems, litOf(rv.Index(i)))
		}
		return l
	case reflect.Map:
		if rv.IsNil() {
			return &Lit{Kind: kNull}
		}
		l := &Lit{Kind: kMap}
		keys := rv.MapKeys()
		sort.Slice(keys, func(i, j int) bool { return keys[i].String() < keys[j].String() })
		for _, k := range keys {
			l.Keys = append(l.Keys, k.String())
			l.Elems = append(l.Elems, litOf(rv.MapIndex(k)))
		}
		return l
	case reflect.Struct:
		if rv.Type() == ctyValueType {
			return litOfCty(rv.Interface().(cty.Value))
		}
		l := &Lit{Kind: kMap}
		rt := rv.Type()
		for i := 0; i < rt.NumField(); i++ {
			if n := rt.Field(i).Tag.Get("cty"); n != "" {
				l.Keys = append(l.Keys, n)
				l.Elems = append(l.Elems, litOf(rv.Field(i)))
			}
		}
		return l
	}
	panic("harness: unsupported field type " + rv.Type().String())
}

func litOfCty(v cty.Value) *Lit {
	ty := v.Type()
	switch {
	case v.IsNull():
		return &Lit{Kind: kNull}
	case ty == cty.String:
		return &Lit{Kind: kStr, Str: v.AsString()}
	case ty == cty.Bool:
		return &Lit{Kind: kBool, B: v.True()}
	case ty == cty.Number:
		return &Lit{Kind: kNum, Num: v.AsBigFloat().Text('f', -1)}
	case ty.IsListType() || ty.IsSetType() || ty.IsTupleType():
		l := &Lit{Kind: kList}
		for it := v.ElementIterator(); it.Next(); {
			_, ev := it.Element()
			l.Elems = append(l.Elems, litOfCty(ev))
		}
		return l
	case ty.IsMapType() || ty.IsObjectType():
		l := &Lit{Kind: kMap}
		for it := v.ElementIterator(); it.Next(); {
			k, ev := it.Element()
			l.Keys = append(l.Keys, k.AsString())
			l.Elems = append(l.Elems, litOfCty(ev))
		}
		return l
	}
	panic("harness: unsupported cty type " + ty.FriendlyName())
}

// ---- native renderer -------------------------------------------------------

// tmplEscape doubles the introducer of every template sequence (hclsyntax
// spec, "Template Literals": `$${` and `%%{` denote literal `${` and `%{`).
func tmplEscape(s string) string {
	s = strings.ReplaceAll(s, "${", "$${")
	return strings.ReplaceAll(s, "%{", "%%{")
}

func nativeQuote(s string) string {
	var sb strings.Builder
	sb.WriteByte('"')
	for _, r := range tmplEscape(s) {
		switch {
		case r == '"':
			sb.WriteString(`\"`)
		case r == '\\':
			sb.WriteString(`\\`)
		case r == '\n':
			sb.WriteString(`\n`)
		case r == '\r':
			sb.WriteString(`\r`)
		case r == '\t':
			sb.WriteString(`\t`)
		case r < 0x20 || r == 0x7f:
			fmt.Fprintf(&sb, `\u%04x`, r)
		default:
			sb.WriteRune(r)
		}
	}
	sb.WriteByte('"')
	return sb.String()
}

func nativeLit(sb *strings.Builder, l *Lit) {
	switch l.Kind {
	case kNull:
		sb.WriteString("null")
	case kBool:
		sb.WriteString(strconv.FormatBool(l.B))
	case kNum:
		sb.WriteString(l.Num)
	case kStr:
		sb.WriteString(nativeQuote(l.Str))
	case kRaw:
		sb.WriteString(l.Raw)
	case kList:
		sb.WriteByte('[')
		for i, e := range l.Elems {
			if i > 0 {
				sb.WriteString(", ")
			}
			nativeLit(sb, e)
		}
		sb.WriteByte(']')
	case kMap:
		sb.WriteByte('{')
		for i, e := range l.Elems {
			if i > 0 {
				sb.WriteString(", ")
			}
			sb.WriteString(nativeQuote(l.Keys[i])) // always quoted: no keyword ambiguity
			sb.WriteString(" = ")
			nativeLit(sb, e)
		}
		sb.WriteByte('}')
	}
}

func nativeBody(sb *strings.Builder, b *Body, indent string) {
	for _, it := range b.Items {
		sb.WriteString(indent)
		sb.WriteString(it.Name)
		if !it.Block {
			sb.WriteString(" = ")
			nativeLit(sb, it.Val)
			sb.WriteByte('\n')
			continue
		}
		for _, l := range it.Labels {
			sb.WriteByte(' ')
			sb.WriteString(nativeQuote(l))
		}
		sb.WriteString(" {\n")
		nativeBody(sb, it.Body, indent+"  ")
		sb.WriteString(indent + "}\n")
	}
}

func renderNative(b *Body) []byte {
	var sb strings.Builder
	nativeBody(&sb, b, "")
	return []byte(sb.String())
}

// ---- JSON renderer ---------------------------------------------------------

type jsonOpts struct {
	tmpl   bool // strings in expression position are templates (non-nil EvalContext): escape introducers
	arrays bool // array-of-objects form at every body and label level
	merged bool // consecutive blocks of one type share one property and one label tree (see labelTree)
	// comments: every object that represents a body additionally has a "//"
	// property (json/spec.md "Bodies": "The special property name "//", when
	// used in an object representing a HCL body, is parsed and ignored"): first,
	// with a string value, in the root body (its own element in the arrays
	// form); last, with a structured value, in every block body. Objects of
	// labelling levels and of expressions never get one (there the name is an
	// ordinary label / key).
	comments bool
}

const (
	jsonRootComment  = `"//":"a comment"`
	jsonBlockComment = `"//":{"note":["nested",1,null],"//":"x"}`
)

func jq(s string) string {
	b, err := json.Marshal(s)
	if err != nil {
		panic(err)
	}
	return string(b)
}

func jsonLit(sb *strings.Builder, l *Lit, o jsonOpts) {
	esc := func(s string) string {
		if o.tmpl {
			return tmplEscape(s)
		}
		return s
	}
	switch l.Kind {
	case kNull:
		sb.WriteString("null")
	case kBool:
		sb.WriteString(strconv.FormatBool(l.B))
	case kNum:
		sb.WriteString(l.Num)
	case kStr:
		sb.WriteString(jq(esc(l.Str)))
	case kRaw:
		// json/spec.md "Strings": in full expression mode a string is a
		// template; a single interpolation sequence yields its value as is
		if !o.tmpl {
			panic("harness: raw expression in a literal-mode JSON document")
		}
		sb.WriteString(jq("${" + l.Raw + "}"))
	case kList:
		sb.WriteByte('[')
		for i, e := range l.Elems {
			if i > 0 {
				sb.WriteByte(',')
			}
			jsonLit(sb, e, o)
		}
		sb.WriteByte(']')
	case kMap:
		sb.WriteByte('{')
		for i, e := range l.Elems {
			if i > 0 {
				sb.WriteByte(',')
			}
			sb.WriteString(jq(esc(l.Keys[i])))
			sb.WriteByte(':')
			jsonLit(sb, e, o)
		}
		sb.WriteByte('}')
	}
}

// jsonBlock renders the value of one block property: nested objects keyed by
// the labels (taken literally: json/spec.md "Each object property serves as a
// label value"), then the body. In the arrays form every labelling level is
// an array of objects and the body is a one-element array of bodies.
func jsonBlock(sb *strings.Builder, it *Item, o jsonOpts) {
	for _, l := range it.Labels {
		if o.arrays {
			sb.WriteByte('[')
		}
		sb.WriteString("{" + jq(l) + ":")
	}
	if o.arrays {
		sb.WriteByte('[')
	}
	jsonBody(sb, it.Body, o, false)
	if o.arrays {
		sb.WriteByte(']')
	}
	for range it.Labels {
		sb.WriteByte('}')
		if o.arrays {
			sb.WriteByte(']')
		}
	}
}

// labelTree is the merged form of a run of consecutive blocks of one type
// (json/spec.md: "a nested JSON object or JSON array of objects is required
// for each labelling level. These are flattened to a single ordered sequence
// of object properties"; "Arrays can be introduced at either the label
// definition or block body definition levels to define multiple definitions of
// the same block type or labels while preserving order"; "A JSON HCL parser
// must support duplicate definitions of the same property name within a
// single object, preserving all of them and the relative ordering"). A block
// is merged into the tree along the path of the block before it only (the
// right spine), so the depth-first order of the tree is the order of the
// blocks: blocks that share a label prefix with their predecessor become
// sibling properties of one object (objects form) or sibling elements of one
// array of single-property objects (arrays form); blocks with the same full
// label tuple as their predecessor become elements of one array of bodies; a
// label that reappears after a different one becomes a repeated property name.
type labelTree struct {
	entries []labelEntry
}

type labelEntry struct {
	label string
	child *labelTree // a labelling level ...
	body  *Body      // ... or a block body
}

func mergeBlocks(items []*Item) *labelTree {
	root := &labelTree{}
	for _, it := range items {
		n := root
		for _, l := range it.Labels {
			if k := len(n.entries); k > 0 && n.entries[k-1].child != nil && n.entries[k-1].label == l {
				n = n.entries[k-1].child
				continue
			}
			c := &labelTree{}
			n.entries = append(n.entries, labelEntry{label: l, child: c})
			n = c
		}
		n.entries = append(n.entries, labelEntry{body: it.Body})
	}
	return root
}

func jsonLabelTree(sb *strings.Builder, n *labelTree, o jsonOpts) {
	bodies := 0
	for _, e := range n.entries {
		if e.body != nil {
			bodies++
		}
	}
	switch {
	case bodies == len(n.entries):
		// "either a JSON object representing a single block body, or a JSON
		// array of JSON objects that each represent a single block body"
		if bodies == 1 && !o.arrays {
			jsonBody(sb, n.entries[0].body, o, false)
			return
		}
		sb.WriteByte('[')
		for i, e := range n.entries {
			if i > 0 {
				sb.WriteByte(',')
			}
			jsonBody(sb, e.body, o, false)
		}
		sb.WriteByte(']')
	case bodies == 0:
		open, sep, close := "{", ",", "}"
		if o.arrays {
			open, sep, close = "[{", "},{", "}]"
		}
		sb.WriteString(open)
		for i, e := range n.entries {
			if i > 0 {
				sb.WriteString(sep)
			}
			sb.WriteString(jq(e.label) + ":")
			jsonLabelTree(sb, e.child, o)
		}
		sb.WriteString(close)
	default:
		// blocks of one type with different label counts: only a perturbed
		// document has them, and those are not rendered in the merged forms
		panic("harness: merged JSON form of blocks with different label counts")
	}
}

func jsonBody(sb *strings.Builder, b *Body, o jsonOpts, root bool) {
	// run returns the index of the last item of the run of consecutive blocks
	// of one type starting at i
	run := func(i int) int {
		j := i
		for j+1 < len(b.Items) && b.Items[j+1].Block && b.Items[j+1].Name == b.Items[i].Name {
			j++
		}
		return j
	}
	if o.arrays && root {
		// "A body is represented in JSON as either a single JSON object or a
		// JSON array of objects": one single-property object per item. (Not
		// usable for a block body, where an array denotes several blocks.)
		sb.WriteByte('[')
		if o.comments {
			sb.WriteString("{" + jsonRootComment + "}")
		}
		for i := 0; i < len(b.Items); i++ {
			it := b.Items[i]
			if i > 0 || o.comments {
				sb.WriteByte(',')
			}
			sb.WriteString("{" + jq(it.Name) + ":")
			switch {
			case it.Block && o.merged:
				j := run(i)
				jsonLabelTree(sb, mergeBlocks(b.Items[i:j+1]), o)
				i = j
			case it.Block:
				jsonBlock(sb, it, o)
			default:
				jsonLit(sb, it.Val, o)
			}
			sb.WriteByte('}')
		}
		sb.WriteByte(']')
		return
	}
	sb.WriteByte('{')
	if o.comments && root {
		sb.WriteString(jsonRootComment)
	}
	defer func() {
		if o.comments && !root {
			if len(b.Items) > 0 {
				sb.WriteByte(',')
			}
			sb.WriteString(jsonBlockComment)
		}
		sb.WriteByte('}')
	}()
	for i := 0; i < len(b.Items); i++ {
		it := b.Items[i]
		if i > 0 || (o.comments && root) {
			sb.WriteByte(',')
		}
		sb.WriteString(jq(it.Name) + ":")
		if !it.Block {
			jsonLit(sb, it.Val, o)
			continue
		}
		if o.merged {
			j := run(i)
			jsonLabelTree(sb, mergeBlocks(b.Items[i:j+1]), o)
			i = j
			continue
		}
		// consecutive blocks of one type: one property holding an array
		// (arrays form: repeated property names instead, which json/spec.md
		// requires a parser to support)
		j := i
		if !o.arrays {
			j = run(i)
		}
		if j == i {
			jsonBlock(sb, it, o)
			continue
		}
		sb.WriteByte('[')
		for k := i; k <= j; k++ {
			if k > i {
				sb.WriteByte(',')
			}
			jsonBlock(sb, b.Items[k], o)
		}
		sb.WriteByte(']')
		i = j
	}
}

func renderJSON(b *Body, o jsonOpts) []byte {
	var sb strings.Builder
	jsonBody(&sb, b, o, true)
	return []byte(sb.String())
}

// ---- perturbations ---------------------------------------------------------

type Pert struct {
	Op     string `json:"op"`
	Path   []int  `json:"path"` // item indices; for add-* the path of the block whose body is extended ([] = root)
	Arg    int    `json:"arg,omitempty"`
	Syntax string `json:"syntax"` // "native" or "json"
}

func (p Pert) String() string {
	return fmt.Sprintf("%s%v#%d@%s", p.Op, p.Path, p.Arg, p.Syntax)
}

// replacement literals for the "retype" perturbation
func retypeLits() []*Lit {
	s := func(x string) *Lit { return &Lit{Kind: kStr, Str: x} }
	n := func(x string) *Lit { return &Lit{Kind: kNum, Num: x} }
	return []*Lit{
		{Kind: kNull},
		{Kind: kBool, B: true},
		n("7"),
		n("1.5"),
		n("1e400"),
		s("str"),
		s("1"),
		s("true"),
		{Kind: kList},
		{Kind: kList, Elems: []*Lit{s("e")}},
		{Kind: kList, Elems: []*Lit{n("1"), {Kind: kNull}}},
		{Kind: kList, Elems: []*Lit{{Kind: kList}, s("e")}},
		{Kind: kMap},
		{Kind: kMap, Keys: []string{"x"}, Elems: []*Lit{s("e")}},
		{Kind: kMap, Keys: []string{"x", "y"}, Elems: []*Lit{n("1"), {Kind: kList}}},
		{Kind: kMap, Keys: []string{"zz"}, Elems: []*Lit{{Kind: kNull}}},
	}
}

// perturbations enumerates every single edit of the document, in a fixed order.
func perturbations(root *Body) []Pert {
	var out []Pert
	nre := len(retypeLits())
	var walk func(b *Body, path []int)
	walk = func(b *Body, path []int) {
		p := func(extra ...int) []int { return append(append([]int{}, path...), extra...) }
		out = append(out, Pert{Op: "add-attr", Path: p()}, Pert{Op: "add-block", Path: p(), Arg: 0}, Pert{Op: "add-block", Path: p(), Arg: 1})
		for i, it := range b.Items {
			out = append(out, Pert{Op: "del", Path: p(i)}, Pert{Op: "dup", Path: p(i)})
			if it.Block {
				out = append(out, Pert{Op: "block-to-attr", Path: p(i)}, Pert{Op: "label-add", Path: p(i)})
				if len(it.Labels) > 0 {
					out = append(out, Pert{Op: "label-del", Path: p(i)})
				}
				if len(it.Labels) > 1 {
					out = append(out, Pert{Op: "label-del-first", Path: p(i)})
				}
				walk(it.Body, p(i))
			} else {
				out = append(out, Pert{Op: "attr-to-block", Path: p(i)})
				for k := 0; k < nre; k++ {
					out = append(out, Pert{Op: "retype", Path: p(i), Arg: k})
				}
			}
		}
	}
	walk(root, nil)
	return out
}

// apply performs the edit in place and returns the item it targeted (nil for
// add-*) so that the caller can derive an expectation from its meta data.
func (p Pert) apply(root *Body) (target *Item, ok bool) {
	b := root
	path := p.Path
	descend := len(path) - 1
	if strings.HasPrefix(p.Op, "add-") {
		descend = len(path)
	}
	for i := 0; i < descend; i++ {
		if path[i] >= len(b.Items) || !b.Items[path[i]].Block {
			return nil, false
		}
		b = b.Items[path[i]].Body
	}
	switch p.Op {
	case "add-attr":
		b.Items = append(b.Items, &Item{Name: "zz", Val: &Lit{Kind: kNum, Num: "1"}})
		return nil, true
	case "add-block":
		it := &Item{Name: "zz", Block: true, Body: &Body{}}
		if p.Arg > 0 {
			it.Labels = []string{"l"}
		}
		b.Items = append(b.Items, it)
		return nil, true
	}
	if len(path) == 0 || path[len(path)-1] >= len(b.Items) {
		return nil, false
	}
	i := path[len(path)-1]
	it := b.Items[i]
	switch p.Op {
	case "del":
		b.Items = append(append([]*Item{}, b.Items[:i]...), b.Items[i+1:]...)
	case "dup":
		cp := *it
		items := append([]*Item{}, b.Items[:i+1]...)
		items = append(items, &cp)
		b.Items = append(items, b.Items[i+1:]...)
	case "block-to-attr":
		b.Items[i] = &Item{Name: it.Name, Val: &Lit{Kind: kNum, Num: "1"}, kind: it.kind, ptr: it.ptr}
	case "attr-to-block":
		b.Items[i] = &Item{Name: it.Name, Block: true, Body: &Body{}, kind: it.kind, ptr: it.ptr}
	case "label-add":
		cp := *it
		cp.Labels = append(append([]string{}, it.Labels...), "extra")
		b.Items[i] = &cp
	case "label-del":
		if len(it.Labels) == 0 {
			return nil, false
		}
		cp := *it
		cp.Labels = append([]string{}, it.Labels[:len(it.Labels)-1]...)
		b.Items[i] = &cp
	case "label-del-first":
		if len(it.Labels) < 2 {
			return nil, false
		}
		cp := *it
		cp.Labels = append([]string{}, it.Labels[1:]...)
		b.Items[i] = &cp
	case "expr":
		if it.Block || p.Arg >= len(exprTable) {
			return nil, false
		}
		cp := *it
		cp.Val = &Lit{Kind: kRaw, Raw: exprTable[p.Arg].Src}
		b.Items[i] = &cp
	case "retype":
		if it.Block || p.Arg >= len(retypeLits()) {
			return nil, false
		}
		cp := *it
		cp.Val = retypeLits()[p.Arg]
		b.Items[i] = &cp
	default:
		return nil, false
	}
	return it, true
}

// exprPerturbations: every attribute of the document (at any depth) replaced
// by every expression of exprTable, in a fixed order.
func exprPerturbations(root *Body) []Pert {
	var out []Pert
	var walk func(b *Body, path []int)
	walk = func(b *Body, path []int) {
		p := func(extra ...int) []int { return append(append([]int{}, path...), extra...) }
		for i, it := range b.Items {
			if it.Block {
				walk(it.Body, p(i))
				continue
			}
			for k := range exprTable {
				out = append(out, Pert{Op: "expr", Path: p(i), Arg: k})
			}
		}
	}
	walk(root, nil)
	return out
}
