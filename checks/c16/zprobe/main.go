package main

import (
	"fmt"

	"github.com/hashicorp/hcl/v2"
	"github.com/hashicorp/hcl/v2/hclsyntax"
)

func main() {
	for _, s := range []string{"$$${", "\r$$${", "\n$$${", "a$$${", "\ra$$${", "\r$${", "\r%%%{", "\r\n$$${", "\r$$", "\r$$a", "a\r$$${", "\r $$${", "\x00$$${", "\t$$${", "\r$$$${"} {
		e, d := hclsyntax.ParseTemplate([]byte(s), "t", hcl.InitialPos)
		if d.HasErrors() {
			fmt.Printf("%q: %s\n", s, d.Error())
			continue
		}
		v, d := e.Value(nil)
		toks, _ := hclsyntax.LexTemplate([]byte(s), "t", hcl.InitialPos)
		var ts []string
		for _, t := range toks {
			ts = append(ts, fmt.Sprintf("%s:%q", t.Type, t.Bytes))
		}
		fmt.Printf("%q -> %q %v   %v\n", s, v.AsString(), d, ts)
	}
}
