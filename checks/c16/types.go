package main

import (
	"encoding/json"
	"reflect"

	"github.com/zclconf/go-cty/cty"
	ctyjson "github.com/zclconf/go-cty/cty/json"
)

// The family of tagged struct types. Only tag kinds and field types that both
// gohcl's encoder (encode.go) and decoder (decode.go) support are used:
// attr / optional with gocty-convertible Go types (incl. pointers, cty-tagged
// structs and cty.Value), label, block as struct / *struct / []struct /
// []*struct. Left out on purpose because EncodeIntoBody documents that it
// ignores them or because they carry source positions: remain, body,
// hcl.Body / hcl.Attributes / hcl.Expression / *hcl.Attribute fields and all
// *_range kinds.

// Obj is an attribute of object type (gocty "cty" tags).
type Obj struct {
	X string `cty:"x"`
	Y int    `cty:"y"`
}

// Strs: required attributes whose values carry strings.
type Strs struct {
	S  string            `hcl:"s"`
	P  *string           `hcl:"p"`
	L  []string          `hcl:"l,attr"`
	M  map[string]string `hcl:"m"`
	O  Obj               `hcl:"o"`
	LL [][]string        `hcl:"ll"`
	LO []Obj             `hcl:"lo"`
}

// Nums: required attributes of the numeric and boolean Go types.
type Nums struct {
	I   int             `hcl:"i"`
	I64 int64           `hcl:"i64,attr"`
	I8  int8            `hcl:"i8"`
	U64 uint64          `hcl:"u64"`
	B   bool            `hcl:"b"`
	F   float64         `hcl:"f"`
	F32 float32         `hcl:"f32"`
	LI  []int           `hcl:"li"`
	MB  map[string]bool `hcl:"mb"`
	PI  *int            `hcl:"pi"`
	PB  *bool           `hcl:"pb"`
	PF  *float64        `hcl:"pf"`
}

// Opts: one required attribute between optional ones of every field type.
type Opts struct {
	S string            `hcl:"s,optional"`
	I int               `hcl:"i,optional"`
	R string            `hcl:"r"`
	B bool              `hcl:"b,optional"`
	F float64           `hcl:"f,optional"`
	L []string          `hcl:"l,optional"`
	M map[string]string `hcl:"m,optional"`
	P *string           `hcl:"p,optional"`
	O Obj               `hcl:"o,optional"`
}

// TCty: an attribute decoded as a raw cty.Value.
type TCty struct {
	V cty.Value `hcl:"v"`
}

type ctyWire struct {
	Type  json.RawMessage `json:"type"`
	Value json.RawMessage `json:"value"`
}

func (t TCty) MarshalJSON() ([]byte, error) {
	tb, err := ctyjson.MarshalType(t.V.Type())
	if err != nil {
		return nil, err
	}
	vb, err := ctyjson.Marshal(t.V, t.V.Type())
	if err != nil {
		return nil, err
	}
	return json.Marshal(map[string]ctyWire{"V": {Type: tb, Value: vb}})
}

func (t *TCty) UnmarshalJSON(b []byte) error {
	var w map[string]ctyWire
	if err := json.Unmarshal(b, &w); err != nil {
		return err
	}
	ty, err := ctyjson.UnmarshalType(w["V"].Type)
	if err != nil {
		return err
	}
	v, err := ctyjson.Unmarshal(w["V"].Value, ty)
	if err != nil {
		return err
	}
	t.V = v
	return nil
}

// Block body types with 0, 1 and 2 labels.
type L0 struct {
	X string `hcl:"x,optional"`
}
type L1 struct {
	N string `hcl:"n,label"`
	X string `hcl:"x,optional"`
}
type L2 struct {
	K string `hcl:"k,label"`
	X string `hcl:"x,optional"`
	N string `hcl:"n,label"` // label fields need not be adjacent
}

// Block body types with 3, 4 and 5 labels (json/structure.go accumulates the
// labels of a block level by level in one slice; 4 is the first count at which
// a grown slice has spare capacity).
type L3 struct {
	A string `hcl:"a,label"`
	B string `hcl:"b,label"`
	C string `hcl:"c,label"`
	X string `hcl:"x,optional"`
}
type L4 struct {
	A string `hcl:"a,label"`
	B string `hcl:"b,label"`
	X string `hcl:"x,optional"`
	C string `hcl:"c,label"`
	D string `hcl:"d,label"`
}
type L5 struct {
	A string `hcl:"a,label"`
	B string `hcl:"b,label"`
	C string `hcl:"c,label"`
	D string `hcl:"d,label"`
	E string `hcl:"e,label"`
	X string `hcl:"x,optional"`
}

// Sib: repeated ("sibling") blocks of one type with 1..5 labels each, as
// []struct and []*struct, between two attributes.
type Sib struct {
	A  int    `hcl:"a,optional"`
	B1 []L1   `hcl:"b1,block"`
	B2 []*L2  `hcl:"b2,block"`
	B3 []L3   `hcl:"b3,block"`
	B4 []*L4  `hcl:"b4,block"`
	B5 []L5   `hcl:"b5,block"`
	Z  string `hcl:"z,optional"`
}

// Holder: every block field shape for one body type, between two attributes.
type Holder[T any] struct {
	A     int    `hcl:"a,optional"`
	One   T      `hcl:"one,block"`
	Ptr   *T     `hcl:"ptr,block"`
	Many  []T    `hcl:"many,block"`
	PMany []*T   `hcl:"pmany,block"`
	Z     string `hcl:"z,optional"`
}

// Deep: blocks nested two deep; a labelled block containing labelled blocks.
type Leaf struct {
	N string            `hcl:"n,label"`
	V []string          `hcl:"v,optional"`
	M map[string]string `hcl:"m,optional"`
}
type Mid struct {
	K      string `hcl:"k,label"`
	N      string `hcl:"n,label"`
	I      int    `hcl:"i"`
	Leaves []Leaf `hcl:"leaf,block"`
	Only   *Leaf  `hcl:"only,block"`
}
type Deep struct {
	Name string `hcl:"name"`
	Mids []*Mid `hcl:"mid,block"`
	Last Mid    `hcl:"last,block"`
}

// Wrap: a single block field; the block is additionally produced with
// gohcl.EncodeAsBlock(&w.Blk, "blk") appended to an empty file body.
type Wrap[T any] struct {
	Blk T `hcl:"blk,block"`
}

// Emb / EmbL: structs that embed an untagged struct (and carry an untagged
// field) in front of, between and behind their tagged fields. gohcl reads only
// the struct's own tagged fields, by field index; untagged and promoted
// fields are not part of the schema and stay zero.
type Base struct {
	ID   int
	Note string
}
type Tail struct {
	Extra []string
}
type Emb struct {
	Base
	Name  string `hcl:"name"`
	Local int
	N     int  `hcl:"n,optional"`
	Blks  []L1 `hcl:"blk,block"`
	Tail
	Z string `hcl:"z,optional"`
}
type EmbL struct {
	Base
	K string `hcl:"k,label"`
	Tail
	X string `hcl:"x,optional"`
}

var types = map[string]reflect.Type{
	"Emb":     reflect.TypeOf(Emb{}),
	"HE":      reflect.TypeOf(Holder[EmbL]{}),
	"Strs":    reflect.TypeOf(Strs{}),
	"Nums":    reflect.TypeOf(Nums{}),
	"Opts":    reflect.TypeOf(Opts{}),
	"Cty":     reflect.TypeOf(TCty{}),
	"H0":      reflect.TypeOf(Holder[L0]{}),
	"H1":      reflect.TypeOf(Holder[L1]{}),
	"H2":      reflect.TypeOf(Holder[L2]{}),
	"Deep":    reflect.TypeOf(Deep{}),
	"WrapL0":  reflect.TypeOf(Wrap[L0]{}),
	"WrapL1":  reflect.TypeOf(Wrap[L1]{}),
	"WrapL2":  reflect.TypeOf(Wrap[L2]{}),
	"WrapMid": reflect.TypeOf(Wrap[Mid]{}),
	"Sib":     reflect.TypeOf(Sib{}),
	"WrapL3":  reflect.TypeOf(Wrap[L3]{}),
	"WrapL4":  reflect.TypeOf(Wrap[L4]{}),
	"WrapL5":  reflect.TypeOf(Wrap[L5]{}),
}
