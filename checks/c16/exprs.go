package main

// Decoding of *expressions* (not only literals) into every Go field kind:
// "for any configuration content decoding reports problems as diagnostics,
// never as a panic" (property statement), with an EvalContext that supplies
// typed nulls, unknowns and values of every primitive and collection type.
//
// The expected outcome of decoding an expression whose result is V into a Go
// target of type T is derived from documents only, with go-cty as the trusted
// base (Assumptions): gohcl/decode.go documents DecodeExpression as "This value
// must be something that gocty is able to decode into, since the final
// decoding is delegated to that package", doc.go says of attr fields "gocty
// will be used to assign the value to a native Go type", and spec.md ("Type
// Conversions and Unification") says that a value that does not match the
// expectation of the calling application is automatically converted. So the
// reference is convert.Convert(V, gocty.ImpliedType(T)) followed by
// gocty.FromCtyValue on a fresh target. In particular (docs/gocty.md): a null
// gives a nil pointer / slice / map and an error for any other target, an
// unknown value always gives an error. Not judged beyond "no panic": a null
// whose type go-cty's convert refuses to convert to T (spec.md says "All null
// values are safely convertable to a null value of any other type" while
// convert has no bool<->number conversion), decoded into a target that can
// hold null.

import (
	"fmt"
	"reflect"

	"github.com/hashicorp/hcl/v2"
	"github.com/hashicorp/hcl/v2/gohcl"
	"github.com/hashicorp/hcl/v2/hclsyntax"
	hcljson "github.com/hashicorp/hcl/v2/json"
	"github.com/zclconf/go-cty/cty"
	"github.com/zclconf/go-cty/cty/convert"
	"github.com/zclconf/go-cty/cty/gocty"

	"verif/engine"
	"verif/vfmt"
)

// exprVars: the variables of the EvalContext, in a fixed order.
var exprVarNames = []string{
	"null_string", "null_number", "null_bool", "null_dynamic", "null_list",
	"unknown_string", "unknown_number", "unknown_bool", "unknown_dynamic",
	"str", "str_num", "str_frac", "str_bool", "num", "neg", "frac", "big", "yes",
	"list", "tuple", "map", "obj",
}

func exprVars() map[string]cty.Value {
	return map[string]cty.Value{
		"null_string":     cty.NullVal(cty.String),
		"null_number":     cty.NullVal(cty.Number),
		"null_bool":       cty.NullVal(cty.Bool),
		"null_dynamic":    cty.NullVal(cty.DynamicPseudoType),
		"null_list":       cty.NullVal(cty.List(cty.String)),
		"unknown_string":  cty.UnknownVal(cty.String),
		"unknown_number":  cty.UnknownVal(cty.Number),
		"unknown_bool":    cty.UnknownVal(cty.Bool),
		"unknown_dynamic": cty.DynamicVal,
		"str":             cty.StringVal("s"),
		"str_num":         cty.StringVal("12"),
		"str_frac":        cty.StringVal("1.5"),
		"str_bool":        cty.StringVal("true"),
		"num":             cty.NumberIntVal(7),
		"neg":             cty.NumberIntVal(-1),
		"frac":            cty.NumberFloatVal(1.5),
		"big":             cty.MustParseNumberVal("1e30"),
		"yes":             cty.True,
		"list":            cty.ListVal([]cty.Value{cty.StringVal("e")}),
		"tuple":           cty.TupleVal([]cty.Value{cty.StringVal("e"), cty.NumberIntVal(1)}),
		"map":             cty.MapVal(map[string]cty.Value{"x": cty.StringVal("e")}),
		"obj":             cty.ObjectVal(map[string]cty.Value{"x": cty.StringVal("e"), "y": cty.NumberIntVal(1)}),
	}
}

func exprCtx() *hcl.EvalContext {
	return &hcl.EvalContext{Variables: exprVars()}
}

// exprDef: one expression in native syntax (its JSON form is the string
// "${Src}", which json/spec.md "Strings" defines to evaluate, in full
// expression mode, to the value of the single interpolation, type preserved)
// and the value hclsyntax/spec.md gives it in exprCtx; Err = evaluation is an
// error by the spec (reference to an undefined variable / function, operation
// on null, index out of range, attribute of a non-object).
type exprDef struct {
	Src string
	Val cty.Value
	Err bool
}

var exprTable = func() []exprDef {
	out := []exprDef{{Src: "null", Val: cty.NullVal(cty.DynamicPseudoType)}}
	vars := exprVars()
	for _, n := range exprVarNames {
		out = append(out, exprDef{Src: n, Val: vars[n]})
	}
	// conditional with a null branch: hclsyntax/spec.md "Conditional Operator":
	// the result has the unified type of the two branches, null unifies with
	// any type => a null *typed* by the other branch (selected) or the other
	// branch's value (not selected).
	for _, o := range []struct {
		lit string
		v   cty.Value
	}{{`"s"`, cty.StringVal("s")}, {"1", cty.NumberIntVal(1)}, {"false", cty.False}} {
		out = append(out,
			exprDef{Src: "true ? null : " + o.lit, Val: cty.NullVal(o.v.Type())},
			exprDef{Src: "false ? " + o.lit + " : null", Val: cty.NullVal(o.v.Type())},
			exprDef{Src: "true ? " + o.lit + " : null", Val: o.v},
			exprDef{Src: "yes ? null_" + o.v.Type().FriendlyName() + " : " + o.lit, Val: cty.NullVal(o.v.Type())},
		)
	}
	out = append(out,
		// known results of operations
		exprDef{Src: "num + 1", Val: cty.NumberIntVal(8)},
		exprDef{Src: `"x${num}"`, Val: cty.StringVal("x7")},
		exprDef{Src: "!yes", Val: cty.False},
		exprDef{Src: "list[0]", Val: cty.StringVal("e")},
		exprDef{Src: "obj.y", Val: cty.NumberIntVal(1)},
		// unknown results
		exprDef{Src: "unknown_number + 1", Val: cty.UnknownVal(cty.Number)},
		exprDef{Src: "unknown_bool ? 1 : 2", Val: cty.UnknownVal(cty.Number)},
		exprDef{Src: `"x${unknown_string}"`, Val: cty.UnknownVal(cty.String)},
		// evaluation errors
		exprDef{Src: "undefined", Err: true},
		exprDef{Src: "nofunc()", Err: true},
		exprDef{Src: "null_number + 1", Err: true},
		exprDef{Src: "!null_bool", Err: true},
		exprDef{Src: "list[5]", Err: true},
		exprDef{Src: "num.attr", Err: true},
		exprDef{Src: "null_dynamic.attr", Err: true},
	)
	return out
}()

// valueClass names the kind of result for class names: eval-error,
// null-<type>, unknown-<type>, known-<type>.
func (e exprDef) valueClass() string {
	if e.Err {
		return "eval-error"
	}
	ty := "dynamic"
	switch t := e.Val.Type(); {
	case t == cty.DynamicPseudoType:
	case t.IsPrimitiveType():
		ty = t.FriendlyName()
	case t.IsListType():
		ty = "list"
	case t.IsMapType():
		ty = "map"
	case t.IsTupleType():
		ty = "tuple"
	case t.IsObjectType():
		ty = "object"
	}
	switch {
	case !e.Val.IsKnown():
		return "unknown-" + ty
	case e.Val.IsNull():
		return "null-" + ty
	}
	return "known-" + ty
}

// goKind names a Go target type for class names.
func goKind(t reflect.Type) string {
	switch t.Kind() {
	case reflect.Ptr:
		return "ptr-" + goKind(t.Elem())
	case reflect.Slice:
		return "slice-" + goKind(t.Elem())
	case reflect.Map:
		return "map-" + goKind(t.Elem())
	case reflect.Struct:
		if t == ctyValueType {
			return "cty-value"
		}
		return "cty-struct"
	}
	return t.Kind().String()
}

// expectDecode is the reference outcome (see the comment at the top). judged =
// false: only "no panic" is required.
func expectDecode(e exprDef, target reflect.Type) (wantErr bool, want reflect.Value, judged bool) {
	if e.Err {
		return true, reflect.Value{}, true
	}
	fresh := reflect.New(target)
	ty, err := gocty.ImpliedType(fresh.Interface())
	if err != nil {
		panic("harness: no implied type for " + target.String())
	}
	conv, err := convert.Convert(e.Val, ty)
	if err != nil {
		if e.Val.IsNull() {
			switch target.Kind() {
			case reflect.Ptr, reflect.Slice, reflect.Map:
				return false, reflect.Value{}, false
			}
			if target == ctyValueType {
				return false, reflect.Value{}, false
			}
		}
		return true, reflect.Value{}, true
	}
	if err := gocty.FromCtyValue(conv, fresh.Interface()); err != nil {
		return true, reflect.Value{}, true
	}
	return false, fresh.Elem(), true
}

// showGo prints a decoded Go value (cty.Value targets through vfmt).
func showGo(v reflect.Value) string {
	for v.Kind() == reflect.Ptr && !v.IsNil() && v.Type() != ctyValueType {
		v = v.Elem()
	}
	if v.Type() == ctyValueType {
		return vfmt.V(v.Interface().(cty.Value))
	}
	return show(v)
}

// ---- direct gohcl.DecodeExpression ------------------------------------------

var exprTargets = []struct {
	Name string
	T    reflect.Type
}{
	{"string", reflect.TypeOf("")},
	{"bool", reflect.TypeOf(false)},
	{"int", reflect.TypeOf(int(0))},
	{"int8", reflect.TypeOf(int8(0))},
	{"int64", reflect.TypeOf(int64(0))},
	{"uint64", reflect.TypeOf(uint64(0))},
	{"float32", reflect.TypeOf(float32(0))},
	{"float64", reflect.TypeOf(float64(0))},
	{"ptr-string", reflect.TypeOf((*string)(nil))},
	{"ptr-bool", reflect.TypeOf((*bool)(nil))},
	{"ptr-int", reflect.TypeOf((*int)(nil))},
	{"ptr-int64", reflect.TypeOf((*int64)(nil))},
	{"ptr-float64", reflect.TypeOf((*float64)(nil))},
	{"slice-string", reflect.TypeOf([]string(nil))},
	{"slice-int", reflect.TypeOf([]int(nil))},
	{"map-string", reflect.TypeOf(map[string]string(nil))},
	{"map-bool", reflect.TypeOf(map[string]bool(nil))},
	{"cty-struct", reflect.TypeOf(Obj{})},
	{"cty-value", ctyValueType},
}

// ExprCase: decode expression exprTable[Expr] with gohcl.DecodeExpression into
// a fresh value of the named target type.
type ExprCase struct {
	Target string `json:"target"`
	Expr   int    `json:"expr"`
	Src    string `json:"src"`    // exprTable[Expr].Src, for the reader of a replay file
	Syntax string `json:"syntax"` // "native" or "json"
}

func genDecodeExpression(emit func(engine.Case) bool) bool {
	for i, e := range exprTable {
		for _, t := range exprTargets {
			for _, syn := range []string{"native", "json"} {
				c := engine.Case{
					ID:   fmt.Sprintf("decode-expression/%s/%s/%s", t.Name, e.Src, syn),
					Data: Data{Family: "decode-expression", Expr: &ExprCase{Target: t.Name, Expr: i, Src: e.Src, Syntax: syn}},
				}
				if !emit(c) {
					return false
				}
			}
		}
	}
	return true
}

func parseExprSrc(src, syntax string) (hcl.Expression, hcl.Diagnostics) {
	if syntax == "json" {
		return hcljson.ParseExpression([]byte(jq("${"+src+"}")), "x.json")
	}
	return hclsyntax.ParseExpression([]byte(src), "x.hcl", hcl.InitialPos)
}

func judgeDecodeExpression(x ExprCase) engine.Outcome {
	if x.Expr < 0 || x.Expr >= len(exprTable) {
		return engine.Pass("")
	}
	e := exprTable[x.Expr]
	var target reflect.Type
	for _, t := range exprTargets {
		if t.Name == x.Target {
			target = t.T
		}
	}
	if target == nil {
		panic("harness: unknown target " + x.Target)
	}
	expr, pdiags := parseExprSrc(e.Src, x.Syntax)
	if pdiags.HasErrors() {
		return engine.Fail("c16.expr-unparseable."+x.Syntax, "expression %q (%s) does not parse: %s", e.Src, x.Syntax, pdiags.Error())
	}
	fresh := reflect.New(target)
	var diags hcl.Diagnostics
	if r := func() (r any) {
		defer func() { r = recover() }()
		diags = gohcl.DecodeExpression(expr, exprCtx(), fresh.Interface())
		return nil
	}(); r != nil {
		return engine.Fail(fmt.Sprintf("c16.decode-panic.expr.%s.into-%s.%s", e.valueClass(), goKind(target), x.Syntax),
			"gohcl.DecodeExpression(%q (%s), ctx, *%s) panicked: %v", e.Src, x.Syntax, target, r)
	}
	counters.Add("decode_expression", 1)
	wantErr, want, judged := expectDecode(e, target)
	sig := fmt.Sprintf("decode-expression/%s/%s/%s/", x.Target, e.Src, x.Syntax)
	if !judged {
		counters.Add("expr_outcome_unspecified", 1)
		return engine.Skip()
	}
	switch {
	case wantErr && !diags.HasErrors():
		return engine.Fail(fmt.Sprintf("c16.expr-problem-accepted.%s.into-%s.%s", e.valueClass(), goKind(target), x.Syntax),
			"gohcl.DecodeExpression(%q (%s), ctx, *%s) reports no error and stores %s; the expression result (%s) cannot be held by the target", e.Src, x.Syntax, target, showGo(fresh), e.valueClass())
	case wantErr:
		return engine.Pass(sig + "error")
	case diags.HasErrors():
		return engine.Fail(fmt.Sprintf("c16.expr-decode-error.%s.into-%s.%s", e.valueClass(), goKind(target), x.Syntax),
			"gohcl.DecodeExpression(%q (%s), ctx, *%s) reports %s; want %s", e.Src, x.Syntax, target, diags.Error(), showGo(want))
	case !equalNorm(fresh.Elem(), want):
		return engine.Fail(fmt.Sprintf("c16.expr-value-mismatch.%s.into-%s.%s", e.valueClass(), goKind(target), x.Syntax),
			"gohcl.DecodeExpression(%q (%s), ctx, *%s) stores %s; want %s", e.Src, x.Syntax, target, showGo(fresh), showGo(want))
	}
	return engine.Pass(sig + showGo(fresh))
}
