// C18 — Dynamic blocks expand to exactly the blocks they describe.
//
// Bounded exhaustive exploration of abstract bodies that mix static and
// "dynamic" blocks (three product families: iteration semantics, interleaving,
// nesting) x hcldec specs x native/JSON syntax. Every body is expanded with
// the real dynblock.Expand and decoded with hcldec.Decode, and compared with
// the decoding of the reference write-out (verif/ref/refdec.Expand): one
// static block per element, iterator replaced by a fresh variable per element.
// Marks are compared exactly (refbody.go); an unknown for_each is compared with
// the README's single block with an unknown iterator (judgePlaceholder); the
// number of blocks it stands for is unknown, so an error that only states a
// number of blocks (MinItems / MaxItems) is not accepted while some number of
// blocks satisfies the spec (countAlternative). Families multilabel / count:
// specs with 2 and 3 label names, MinItems / MaxItems in {0,1,2}.
package main

import (
	"fmt"
	"runtime/debug"
	"sort"
	"strings"
	"time"

	"github.com/hashicorp/hcl/v2"
	"github.com/hashicorp/hcl/v2/ext/dynblock"
	"github.com/hashicorp/hcl/v2/hcldec"
	"github.com/hashicorp/hcl/v2/hclsyntax"
	hcljson "github.com/hashicorp/hcl/v2/json"
	"github.com/zclconf/go-cty/cty"

	"verif/engine"
	sg "verif/gen/specgen"
	"verif/ref/refdec"
	"verif/vfmt"
)

type Data struct {
	Fam    string   `json:"family"`
	Syntax string   `json:"syntax"` // native | json
	Spec   *sg.Spec `json:"spec"`
	Body   *sg.Body `json:"body"`
	Text   string   `json:"text"` // informational: the source that is parsed
}

var counters engine.Counter

// ---------------------------------------------------------------------------
// The evaluation context

func str(s string) cty.Value { return cty.StringVal(s) }

func kid(attr string, kids ...string) cty.Value {
	ks := make([]cty.Value, len(kids))
	for i, k := range kids {
		ks[i] = str(k)
	}
	kv := cty.ListValEmpty(cty.String)
	if len(ks) > 0 {
		kv = cty.ListVal(ks)
	}
	return cty.ObjectVal(map[string]cty.Value{"attr": str(attr), "kids": kv})
}

const mark = "M"

// Globals: the variables of the context. g is also used as an iterator name
// (shadowing); the collections are the for_each operands.
var Globals = map[string]cty.Value{
	"g": str("G"),
	"h": str("H"),
	// lists
	"l0": cty.ListValEmpty(cty.String),
	"l1": cty.ListVal([]cty.Value{str("a")}),
	"l2": cty.ListVal([]cty.Value{str("a"), str("b")}),
	// tuples
	"t0": cty.EmptyTupleVal,
	"t2": cty.TupleVal([]cty.Value{str("a"), cty.NumberIntVal(1)}),
	// sets (iteration order is go-cty's, not insertion order)
	"s0": cty.SetValEmpty(cty.String),
	"s1": cty.SetVal([]cty.Value{str("b")}),
	"s2": cty.SetVal([]cty.Value{str("b"), str("a")}),
	// maps
	"m0": cty.MapValEmpty(cty.String),
	"m1": cty.MapVal(map[string]cty.Value{"k1": str("v1")}),
	"m2": cty.MapVal(map[string]cty.Value{"k2": str("v2"), "k1": str("v1")}),
	// objects
	"o0": cty.EmptyObjectVal,
	"o2": cty.ObjectVal(map[string]cty.Value{"k2": cty.NumberIntVal(2), "k1": str("v1")}),
	// collections of objects (it.value.attr, nested for_each from it.value.kids)
	"lo2": cty.ListVal([]cty.Value{kid("p", "c1"), kid("q", "c2", "c3")}),
	"mo2": cty.MapVal(map[string]cty.Value{"k1": kid("p", "c1"), "k2": kid("q")}),
	// marked
	"ml2": cty.ListVal([]cty.Value{str("a"), str("b")}).Mark(mark),
	"lm2": cty.ListVal([]cty.Value{str("a"), str("b").Mark(mark)}),
	"mm2": cty.MapVal(map[string]cty.Value{"k1": str("v1"), "k2": str("v2")}).Mark(mark),
	// unknown
	"ul":  cty.UnknownVal(cty.List(cty.String)),
	"um":  cty.UnknownVal(cty.Map(cty.String)),
	"us":  cty.UnknownVal(cty.Set(cty.String)),
	"ud":  cty.DynamicVal,
	"mul": cty.UnknownVal(cty.List(cty.String)).Mark(mark),
	// known collections with unknown elements: one block per element is still
	// expected, only what depends on the unknown element is unknown
	"tu2":  cty.TupleVal([]cty.Value{str("a"), cty.UnknownVal(cty.String)}),
	"lu2":  cty.ListVal([]cty.Value{str("a"), cty.UnknownVal(cty.String)}),
	"mu2":  cty.MapVal(map[string]cty.Value{"k1": str("v1"), "k2": cty.UnknownVal(cty.String)}),
	"su2":  cty.SetVal([]cty.Value{str("a"), cty.UnknownVal(cty.String)}),
	"lou2": cty.ListVal([]cty.Value{kid("p", "c1"), cty.ObjectVal(map[string]cty.Value{"attr": cty.UnknownVal(cty.String), "kids": cty.ListVal([]cty.Value{str("c2")})})}),
	"tdu2": cty.TupleVal([]cty.Value{str("a"), cty.DynamicVal}),
	// ... with null elements
	"ln2": cty.ListVal([]cty.Value{str("a"), cty.NullVal(cty.String)}),
	"tn2": cty.TupleVal([]cty.Value{cty.NullVal(cty.DynamicPseudoType), str("b")}),
	"mn2": cty.MapVal(map[string]cty.Value{"k1": cty.NullVal(cty.String), "k2": str("v2")}),
	// erroneous for_each operands
	"nl": cty.NullVal(cty.List(cty.String)),
	// collections with two different marks A and B (family nest-marks): what is
	// generated from one must not pick up the marks of the other
	"qa2":  cty.ListVal([]cty.Value{str("a"), str("b")}).Mark(markA),
	"qb1":  cty.ListVal([]cty.Value{str("c")}).Mark(markB),
	"qab2": cty.ListVal([]cty.Value{str("d"), str("e")}).WithMarks(cty.NewValueMarks(markA, markB)),
	"qua":  cty.UnknownVal(cty.List(cty.String)).Mark(markA),
	"qeb":  cty.ListValEmpty(cty.String).Mark(markB),
	"qmb2": cty.MapVal(map[string]cty.Value{"k1": str("v1"), "k2": str("v2")}).Mark(markB),
	"qoa2": cty.ListVal([]cty.Value{kid("p", "c1"), kid("q", "c2", "c3")}).Mark(markA),
	"qob2": cty.ListVal([]cty.Value{kid("p", "c1"), cty.ObjectVal(map[string]cty.Value{"attr": str("q"), "kids": cty.ListVal([]cty.Value{str("c2")}).Mark(markB)})}),
}

const (
	markA = "A"
	markB = "B"
)

// altGlobals is a second context with the same variable names and different
// values (used to show that expansion keeps no state in the body).
var altGlobals = func() map[string]cty.Value {
	out := map[string]cty.Value{}
	for k, v := range Globals {
		out[k] = altValue(v)
	}
	return out
}()

func altValue(v cty.Value) cty.Value {
	v, _ = v.Unmark()
	ty := v.Type()
	switch {
	case !v.IsKnown() || v.IsNull():
		return cty.ListVal([]cty.Value{str("nb")})
	case ty == cty.String:
		return str(v.AsString() + "B")
	case ty == cty.Number:
		return v.Add(cty.NumberIntVal(10))
	case ty.IsListType() || ty.IsSetType() || ty.IsTupleType():
		var es []cty.Value
		for it := v.ElementIterator(); it.Next(); {
			_, e := it.Element()
			es = append([]cty.Value{altValue(e)}, es...) // reversed
		}
		if len(es) == 0 {
			return cty.ListVal([]cty.Value{str("eb")})
		}
		return cty.TupleVal(es)
	case ty.IsMapType():
		m := map[string]cty.Value{}
		for k, e := range v.AsValueMap() {
			m[k+"b"] = altValue(e)
		}
		if len(m) == 0 {
			return cty.MapVal(map[string]cty.Value{"eb": str("vb")})
		}
		return cty.ObjectVal(m)
	case ty.IsObjectType():
		m := map[string]cty.Value{}
		for k, e := range v.AsValueMap() {
			m[k] = altValue(e)
		}
		if len(m) == 0 {
			return cty.ObjectVal(map[string]cty.Value{"eb": str("vb")})
		}
		return cty.ObjectVal(m)
	}
	return v
}

var (
	collQuick    = []string{"l0", "l1", "l2", "t2", "s2", "m0", "m2", "o2", "lo2", "mo2", "ml2", "lm2", "tu2", "lu2", "mu2", "su2", "lou2", "ln2", "tn2", "ul", "um", "ud", "nl"}
	collThorough = []string{"l0", "l1", "l2", "t0", "t2", "s0", "s1", "s2", "m0", "m1", "m2", "o0", "o2", "lo2", "mo2", "ml2", "lm2", "mm2", "tu2", "lu2", "mu2", "su2", "lou2", "tdu2", "ln2", "tn2", "mn2", "ul", "um", "us", "ud", "mul", "nl", "g"}
	// default, custom, custom shadowing the global g, custom shadowing the
	// global that holds the for_each collection ("=coll")
	iters = []string{"", "it", "g", "=coll"}
)

// ---------------------------------------------------------------------------
// Specs

func attrSpec(name, ty string) *sg.Spec { return &sg.Spec{K: sg.KAttr, Name: name, Ty: ty} }

func objSpec(kv ...any) *sg.Spec {
	o := &sg.Spec{K: sg.KObject}
	for i := 0; i < len(kv); i += 2 {
		o.Keys = append(o.Keys, kv[i].(string))
		o.Kids = append(o.Kids, kv[i+1].(*sg.Spec))
	}
	return o
}

// blockSpecOf: a block spec of the given kind for block type name with the nested spec.
// kinds: list set btuple block attrs map bobject lablist (BlockListSpec with a BlockLabelSpec)
func blockSpecOf(kind, name string, nested *sg.Spec) *sg.Spec {
	switch kind {
	case "attrs":
		return &sg.Spec{K: sg.KAttrs, Name: name, Ty: sg.TDynamic}
	case "map", "bobject":
		return &sg.Spec{K: kind, Name: name, Labels: []string{"k"}, Kids: []*sg.Spec{nested}}
	case "lablist":
		n := nested.Clone()
		n.Keys = append(n.Keys, "lbl")
		n.Kids = append(n.Kids, &sg.Spec{K: sg.KLabel, Index: 0, Name: "k"})
		return &sg.Spec{K: sg.KList, Name: name, Kids: []*sg.Spec{n}}
	}
	return &sg.Spec{K: kind, Name: name, Kids: []*sg.Spec{nested}}
}

func labelled(kind string) bool { return kind == "map" || kind == "bobject" || kind == "lablist" }

// topSpec: object{top: attr, x: <xkind>{a [, z: <zkind>{b}]}, y: list{a}} (optionally inside a static block w).
func topSpec(xkind, zkind string, wrapped bool) *sg.Spec {
	aty := sg.TDynamic
	if xkind == "map" {
		aty = sg.TString // no dynamic types inside BlockMapSpec
	}
	nested := objSpec("a", attrSpec("a", aty))
	if zkind != "" {
		zn := objSpec("b", attrSpec("b", aty))
		zs := blockSpecOf(zkind, "z", zn)
		if zkind == "attrs" && xkind == "map" {
			zs.Ty = sg.TString
		}
		if xkind == "map" && (zkind == "btuple" || zkind == "bobject") {
			return nil // dynamic implied type inside BlockMapSpec
		}
		nested = objSpec("a", attrSpec("a", aty), "z", zs)
	}
	body := objSpec("top", attrSpec("top", sg.TString), "x", blockSpecOf(xkind, "x", nested),
		"y", blockSpecOf("list", "y", objSpec("a", attrSpec("a", sg.TDynamic))))
	if wrapped {
		return objSpec("w", &sg.Spec{K: sg.KBlock, Name: "w", Kids: []*sg.Spec{body}})
	}
	return body
}

// nest3Spec: object{top, x: Kx{a, z: Kz{b, v: Kv{c}}}, y: list{a}} - two levels of nested block specs.
func nest3Spec(xk, zk, vk string) *sg.Spec {
	if zk == "map" && vk == "btuple" {
		return nil // dynamic implied type inside BlockMapSpec
	}
	bty, cty_ := sg.TDynamic, sg.TDynamic
	if zk == "map" {
		bty, cty_ = sg.TString, sg.TString
	}
	if vk == "map" {
		cty_ = sg.TString
	}
	vs := blockSpecOf(vk, "v", objSpec("c", attrSpec("c", cty_)))
	zs := blockSpecOf(zk, "z", objSpec("b", attrSpec("b", bty), "v", vs))
	xs := blockSpecOf(xk, "x", objSpec("a", attrSpec("a", sg.TDynamic), "z", zs))
	return objSpec("top", attrSpec("top", sg.TString), "x", xs,
		"y", blockSpecOf("list", "y", objSpec("a", attrSpec("a", sg.TDynamic))))
}

// nest3Body: a dynamic block x whose content holds a block z (dynamic or
// static) whose content holds a block v (dynamic or static). o, m, i are the
// iterator arguments of the three levels ("" = default name); the innermost
// content refers to the key and value of every iterator name in scope.
func nest3Body(outer, mid, inner string, o, m, i string, zDyn, vDyn bool, zk, vk string) *sg.Body {
	type level struct {
		name string
		val  []string // path from the iterator to a string: value or value.attr
	}
	on := iterName(o, "x")
	oval := []string{"value"}
	if outer == "mo2" {
		oval = []string{"value", "attr"}
	}
	scope := []level{{on, oval}}
	ref := func(name string, path ...string) sg.Expr { return sg.R(append([]string{name}, path...)...) }
	// z
	z := sg.Block{Type: "z"}
	zbody := &sg.Body{}
	if zDyn {
		mn := iterName(m, "z")
		fe := sg.R(mid)
		if mid == "outer-kids" {
			fe = ref(on, "value", "kids")
		}
		z.Dyn = &sg.Dyn{ForEach: fe, Iterator: m}
		if zk == "map" {
			z.Dyn.Labels = []sg.Expr{sg.T(ref(on, "key"), sg.S("-"), ref(mn, "key"))}
		}
		zbody.Attrs = []sg.Attr{{Name: "b", Expr: sg.T(ref(on, "key"), sg.S("-"), ref(mn, "key"))}}
		scope = append(scope, level{mn, []string{"value"}})
	} else {
		if zk == "map" {
			z.Labels = []string{"zs"}
		}
		zbody.Attrs = []sg.Attr{{Name: "b", Expr: ref(on, "key")}}
	}
	// v
	v := sg.Block{Type: "v"}
	if vDyn {
		in := iterName(i, "v")
		fe := sg.R(inner)
		if inner == "outer-kids" {
			fe = ref(on, "value", "kids") // the nearest iterator called on
		}
		v.Dyn = &sg.Dyn{ForEach: fe, Iterator: i}
		if vk == "map" {
			v.Dyn.Labels = []sg.Expr{sg.T(ref(on, "key"), sg.S("-"), ref(in, "key"))}
		}
		scope = append(scope, level{in, []string{"value"}})
	} else if vk == "map" {
		v.Labels = []string{"vs"}
	}
	// innermost content: key and value of every distinct name, nearest binding decides the path
	var parts []sg.Expr
	seen := map[string]bool{}
	for li := range scope {
		l := scope[li]
		if seen[l.name] {
			continue
		}
		seen[l.name] = true
		path := l.val
		for _, l2 := range scope[li+1:] {
			if l2.name == l.name {
				path = l2.val
			}
		}
		if len(parts) > 0 {
			parts = append(parts, sg.S("-"))
		}
		parts = append(parts, ref(l.name, "key"), sg.S("."), ref(l.name, path...))
	}
	v.Body = &sg.Body{Attrs: []sg.Attr{{Name: "c", Expr: sg.T(parts...)}}}
	zbody.Blocks = []sg.Block{v}
	z.Body = zbody
	x := sg.Block{Type: "x", Dyn: &sg.Dyn{ForEach: sg.R(outer), Iterator: o},
		Body: &sg.Body{Attrs: []sg.Attr{{Name: "a", Expr: ref(on, "key")}}, Blocks: []sg.Block{z}}}
	return &sg.Body{Attrs: []sg.Attr{{Name: "top", Expr: sg.R("g")}}, Blocks: []sg.Block{x}}
}

// ---------------------------------------------------------------------------
// Bodies

func iterName(it, ty string) string {
	if it == "" {
		return ty
	}
	return it
}

// content expression forms for an iterator called n
func contentExprs(n string) map[string]sg.Expr {
	return map[string]sg.Expr{
		"const":    sg.S("c"),
		"key":      sg.R(n, "key"),
		"value":    sg.R(n, "value"),
		"attr":     sg.R(n, "value", "attr"),
		"tmpl":     sg.T(sg.R(n, "key"), sg.S("-"), sg.R("h")),
		"global":   sg.R("h"),
		"shadowed": sg.R("g"), // the global g, or the iterator when it is called g
	}
}

var contentOrder = []string{"const", "key", "value", "attr", "tmpl", "global", "shadowed"}

func labelExprs(n string) map[string]sg.Expr {
	return map[string]sg.Expr{
		"const": sg.S("L"),
		"key":   sg.R(n, "key"),
		"tmpl":  sg.T(sg.S("p-"), sg.R(n, "key")),
		"value": sg.R(n, "value"),
	}
}

var labelOrder = []string{"const", "key", "tmpl", "value"}

// principal builds the principal dynamic block of type x.
func principal(coll, it, content, label string, nested []sg.Block) sg.Block {
	if it == "=coll" {
		it = coll
	}
	n := iterName(it, "x")
	b := sg.Block{Type: "x", Dyn: &sg.Dyn{ForEach: sg.R(coll), Iterator: it},
		Body: &sg.Body{Attrs: []sg.Attr{{Name: "a", Expr: contentExprs(n)[content]}}, Blocks: nested}}
	if label != "" {
		b.Dyn.Labels = []sg.Expr{labelExprs(n)[label]}
	}
	return b
}

// the other items of a layout
func staticX(i int, lab bool) sg.Block {
	b := sg.Block{Type: "x", Body: &sg.Body{Attrs: []sg.Attr{{Name: "a", Expr: sg.S(fmt.Sprintf("s%d", i))}}}}
	if lab {
		b.Labels = []string{fmt.Sprintf("ls%d", i)}
	}
	return b
}

func staticY() sg.Block {
	return sg.Block{Type: "y", Body: &sg.Body{Attrs: []sg.Attr{{Name: "a", Expr: sg.R("g")}}}}
}

func dynY() sg.Block {
	return sg.Block{Type: "y", Dyn: &sg.Dyn{ForEach: sg.R("m2")}, Body: &sg.Body{Attrs: []sg.Attr{{Name: "a", Expr: sg.R("y", "key")}}}}
}

func secondDynX(lab bool) sg.Block {
	b := sg.Block{Type: "x", Dyn: &sg.Dyn{ForEach: sg.L("lp")}, Body: &sg.Body{Attrs: []sg.Attr{{Name: "a", Expr: sg.T(sg.S("d-"), sg.R("x", "value"))}}}}
	if lab {
		b.Dyn.Labels = []sg.Expr{sg.T(sg.S("d"), sg.R("x", "key"))}
	}
	return b
}

// layouts: sequences over P (principal), S (static x), Y (static y), D (second
// dynamic x), E (dynamic y) with exactly one P.
func layouts(maxLen int, others string) []string {
	var out []string
	var rec func(cur string, hasP bool)
	rec = func(cur string, hasP bool) {
		if hasP && len(cur) > 0 {
			out = append(out, cur)
		}
		if len(cur) == maxLen {
			return
		}
		if !hasP {
			rec(cur+"P", true)
		}
		for _, o := range others {
			rec(cur+string(o), hasP)
		}
	}
	rec("", false)
	sort.SliceStable(out, func(i, j int) bool { return len(out[i]) < len(out[j]) })
	return out
}

func buildBody(layout string, p sg.Block, lab, wrapped bool) *sg.Body {
	b := &sg.Body{Attrs: []sg.Attr{{Name: "top", Expr: sg.R("g")}}}
	ns := 0
	for _, c := range layout {
		switch c {
		case 'P':
			b.Blocks = append(b.Blocks, p)
		case 'S':
			ns++
			b.Blocks = append(b.Blocks, staticX(ns, lab))
		case 'Y':
			b.Blocks = append(b.Blocks, staticY())
		case 'D':
			b.Blocks = append(b.Blocks, secondDynX(lab))
		case 'E':
			b.Blocks = append(b.Blocks, dynY())
		}
	}
	if wrapped {
		return &sg.Body{Blocks: []sg.Block{{Type: "w", Body: b}}}
	}
	return b
}

// nestings: the blocks nested in the principal block's content. n is the
// principal's iterator name.
func nestings(n string) map[string][]sg.Block {
	zb := func(e sg.Expr) *sg.Body { return &sg.Body{Attrs: []sg.Attr{{Name: "b", Expr: e}}} }
	return map[string][]sg.Block{
		// static inner block referring to the outer iterator
		"static": {{Type: "z", Body: zb(sg.R(n, "value"))}},
		// inner dynamic over a global, content refers to outer and own iterator
		"dyn-global": {{Type: "z", Dyn: &sg.Dyn{ForEach: sg.R("l2")}, Body: zb(sg.T(sg.R(n, "key"), sg.S("-"), sg.R("z", "value")))}},
		// inner dynamic whose for_each comes from the outer iterator
		"dyn-outer": {{Type: "z", Dyn: &sg.Dyn{ForEach: sg.R(n, "value", "kids")}, Body: zb(sg.T(sg.R(n, "value", "attr"), sg.S("-"), sg.R("z", "value")))}},
		// inner dynamic whose iterator has the same name as the outer one
		"dyn-shadow": {{Type: "z", Dyn: &sg.Dyn{ForEach: sg.R("m2"), Iterator: n}, Body: zb(sg.R(n, "value"))}},
		// static block, then dynamic block, then static block inside the content
		"mixed": {
			{Type: "z", Body: zb(sg.S("z1"))},
			{Type: "z", Dyn: &sg.Dyn{ForEach: sg.R("l2"), Iterator: "zi"}, Body: zb(sg.T(sg.R("zi", "value"), sg.R(n, "key")))},
			{Type: "z", Body: zb(sg.R(n, "key"))},
		},
		// inner dynamic over an unknown collection
		"dyn-unknown": {{Type: "z", Dyn: &sg.Dyn{ForEach: sg.R("ul")}, Body: zb(sg.R("z", "value"))}},
	}
}

var nestOrder = []string{"static", "dyn-global", "dyn-outer", "dyn-shadow", "mixed", "dyn-unknown"}

func gen(tier string, emit func(engine.Case) bool) {
	thorough := tier == "thorough"
	colls := collQuick
	if thorough {
		colls = collThorough
	}
	xkinds := []string{"list", "set", "btuple", "block", "attrs", "map", "bobject", "lablist"}
	syntaxes := []string{"native", "json"}
	seen := map[string]struct{}{}
	out := func(fam, syn string, spec *sg.Spec, body *sg.Body) bool {
		if spec == nil {
			return true
		}
		id := fam + "/" + syn + "/" + spec.String() + " | " + body.Key()
		if _, dup := seen[id]; dup {
			return true
		}
		seen[id] = struct{}{}
		text := body.Native()
		if syn == "json" {
			text = body.JSON()
		}
		return emit(engine.Case{ID: id, Data: Data{Fam: fam, Syntax: syn, Spec: spec, Body: body, Text: text}})
	}
	labelsFor := func(xk string) []string {
		if labelled(xk) {
			return labelOrder
		}
		return []string{""}
	}

	// Family A - iteration: every collection x iterator x content form x spec kind x label form, layouts of length <= 2
	layA := layouts(2, "SYD")
	if thorough {
		layA = layouts(2, "SYDE")
	}
	for _, lay := range layA {
		for _, coll := range colls {
			for _, it := range iters {
				for _, ce := range contentOrder {
					for _, xk := range xkinds {
						for _, le := range labelsFor(xk) {
							p := principal(coll, it, ce, le, nil)
							for _, syn := range syntaxes {
								if !out("iter", syn, topSpec(xk, "", false), buildBody(lay, p, labelled(xk), false)) {
									return
								}
							}
						}
					}
				}
			}
		}
	}

	// Family B - interleaving: every layout of length <= 3 x a few collections
	layB := layouts(3, "SYD")
	collB := []string{"l0", "l2", "m2", "s2", "tu2", "ul"}
	if thorough {
		layB = layouts(3, "SYDE")
		collB = []string{"l0", "l1", "l2", "t2", "m2", "s2", "o2", "ml2", "tu2", "mu2", "ln2", "ul", "ud"}
	}
	for _, lay := range layB {
		for _, coll := range collB {
			for _, it := range []string{"", "g"} {
				for _, ce := range []string{"value", "tmpl"} {
					for _, xk := range xkinds {
						for _, le := range labelsFor(xk)[:1+btoi(labelled(xk))] {
							p := principal(coll, it, ce, le, nil)
							for _, syn := range syntaxes {
								if !out("interleave", syn, topSpec(xk, "", false), buildBody(lay, p, labelled(xk), false)) {
									return
								}
							}
						}
					}
				}
			}
		}
	}

	// Family C - nesting
	collC := []string{"l0", "l2", "m2", "lo2", "mo2", "ml2", "lu2", "lou2", "ul"}
	zkinds := map[string][]string{
		"static": {"list", "block", "attrs"}, "dyn-global": {"list", "btuple", "set"}, "dyn-outer": {"list", "set"},
		"dyn-shadow": {"list"}, "mixed": {"list", "btuple"}, "dyn-unknown": {"list", "block"},
	}
	xkindsC := []string{"list", "set", "btuple", "block", "map", "bobject"}
	layC := []string{"P", "SP", "PS"}
	if thorough {
		collC = colls
		for k := range zkinds {
			zkinds[k] = []string{"list", "set", "btuple", "block", "attrs"}
		}
		xkindsC = []string{"list", "set", "btuple", "block", "map", "bobject", "lablist"}
		layC = layouts(2, "SYD")
	}
	for _, nk := range nestOrder {
		for _, zk := range zkinds[nk] {
			for _, lay := range layC {
				for _, coll := range collC {
					for _, it := range iters {
						for _, ce := range []string{"value", "tmpl"} {
							for _, xk := range xkindsC {
								le := ""
								if labelled(xk) {
									le = "key"
								}
								for _, wrapped := range []bool{false, true} {
									n := it
									if n == "=coll" {
										n = coll
									}
									p := principal(coll, it, ce, le, nestings(iterName(n, "x"))[nk])
									for _, syn := range syntaxes {
										if !out("nest-"+nk, syn, topSpec(xk, zk, wrapped), buildBody(lay, p, labelled(xk), wrapped)) {
											return
										}
									}
								}
							}
						}
					}
				}
			}
		}
	}

	// Family D - three levels of nesting, iterator names re-used across levels
	if !genNest3(thorough, out) {
		return
	}

	// Family E - two levels, every combination of for_each kinds (known, empty, unknown, marks A / B / A+B)
	if !genNestMarks(thorough, out) {
		return
	}

	// Family F - specs with several label names (one map level per name in the implied type)
	if !genMultiLabel(thorough, out) {
		return
	}

	// Family G - MinItems / MaxItems against an unknown number of blocks
	genCount(thorough, out)
}

// ---------------------------------------------------------------------------
// Family F: several label names

var labelConsts = []string{"L", "M", "N"}

// blockSpecN: like blockSpecOf with n label names (map, bobject: LabelNames;
// lablist: n BlockLabelSpecs in the nested object) and MinItems / MaxItems
// (list, set, btuple).
func blockSpecN(kind, name string, nested *sg.Spec, n, min, max int) *sg.Spec {
	names := []string{"k", "m", "n"}[:n]
	switch kind {
	case "map", "bobject":
		return &sg.Spec{K: kind, Name: name, Labels: append([]string(nil), names...), Kids: []*sg.Spec{nested}}
	case "lablist":
		nn := nested.Clone()
		for i, ln := range names {
			nn.Keys = append(nn.Keys, fmt.Sprintf("lbl%d", i))
			nn.Kids = append(nn.Kids, &sg.Spec{K: sg.KLabel, Index: i, Name: ln})
		}
		return &sg.Spec{K: sg.KList, Name: name, Min: min, Max: max, Kids: []*sg.Spec{nn}}
	}
	return &sg.Spec{K: kind, Name: name, Min: min, Max: max, Kids: []*sg.Spec{nested}}
}

// labelVectors: the label expressions of a dynamic block with n labels, per
// position one of: c (constant L / M / N), k (it.key), t (template "p-${it.key}"), v (it.value).
func labelVectors(n int) []string {
	if n == 2 {
		return []string{"cc", "ck", "kc", "kt", "tv"}
	}
	return []string{"ccc", "cck", "kct", "ckv"}
}

func labelVector(it, forms string) []sg.Expr {
	var out []sg.Expr
	for i, f := range forms {
		switch f {
		case 'c':
			out = append(out, sg.S(labelConsts[i]))
		case 'k':
			out = append(out, sg.R(it, "key"))
		case 't':
			out = append(out, sg.T(sg.S("p-"), sg.R(it, "key")))
		case 'v':
			out = append(out, sg.R(it, "value"))
		}
	}
	return out
}

// staticLabels: the labels of the i-th static sibling of a block type with n
// labels: the leading ones are the constants the generated blocks use too
// (shared outer map keys), the last one is its own.
func staticLabels(i, n int) []string {
	ls := append([]string(nil), labelConsts[:n-1]...)
	return append(ls, fmt.Sprintf("s%d", i))
}

// staticBlocks / layoutBlocks: a layout over P (the given block) and S (static
// siblings of type ty with the attribute attr and n labels).
func layoutBlocks(layout string, p sg.Block, ty, attr string, n int) []sg.Block {
	var out []sg.Block
	ns := 0
	for _, c := range layout {
		switch c {
		case 'P':
			out = append(out, p)
		case 'S':
			ns++
			b := sg.Block{Type: ty, Body: &sg.Body{Attrs: []sg.Attr{{Name: attr, Expr: sg.S(fmt.Sprintf("%ss%d", ty, ns))}}}}
			if n > 0 {
				b.Labels = staticLabels(ns, n)
			}
			out = append(out, b)
		}
	}
	return out
}

// outerSpec: object{top, x: <xs>, y: list{a}}.
func outerSpec(xs *sg.Spec) *sg.Spec {
	return objSpec("top", attrSpec("top", sg.TString), "x", xs,
		"y", blockSpecOf("list", "y", objSpec("a", attrSpec("a", sg.TDynamic))))
}

// nestedIn: top = g; [static x | dynamic x over l2] { a; <zblocks> }; y { a = g }.
func nestedIn(outerDyn bool, zblocks []sg.Block) *sg.Body {
	x := sg.Block{Type: "x", Body: &sg.Body{Attrs: []sg.Attr{{Name: "a", Expr: sg.S("xs")}}, Blocks: zblocks}}
	if outerDyn {
		x.Dyn = &sg.Dyn{ForEach: sg.R("l2")}
		x.Body.Attrs[0].Expr = sg.R("x", "value")
	}
	return &sg.Body{Attrs: []sg.Attr{{Name: "top", Expr: sg.R("g")}}, Blocks: []sg.Block{x, staticY()}}
}

// genMultiLabel: family F - block types with 2 and 3 labels decoded by
// BlockMapSpec / BlockObjectSpec with as many LabelNames (and a BlockListSpec
// with as many BlockLabelSpecs): (multilabel) the dynamic block and 0-2 static
// siblings at the top level; (nest-multilabel) a dynamic z with its static
// sibling inside a static x or inside the blocks generated by a dynamic x.
func genMultiLabel(thorough bool, out func(fam, syn string, spec *sg.Spec, body *sg.Body) bool) bool {
	colls := []string{"l0", "l2", "m2", "s2", "ml2", "tu2", "ul", "um", "us", "ud", "mul"}
	its := []string{"", "g"}
	ces := []string{"value", "tmpl"}
	lays := layouts(3, "S")
	inners := []string{"l2", "m2", "ul", "um", "ud", "mul"}
	if thorough {
		colls = collThorough
		its = iters
		ces = []string{"const", "key", "value", "tmpl"}
		inners = []string{"l0", "l2", "m2", "s2", "ml2", "tu2", "ul", "um", "us", "ud", "mul"}
	}
	syntaxes := []string{"native", "json"}
	for _, lay := range lays {
		for _, coll := range colls {
			for _, it := range its {
				for _, ce := range ces {
					for _, xk := range []string{"map", "bobject", "lablist"} {
						for _, n := range []int{2, 3} {
							for _, lv := range labelVectors(n) {
								aty := sg.TDynamic
								if xk == "map" {
									aty = sg.TString
								}
								spec := outerSpec(blockSpecN(xk, "x", objSpec("a", attrSpec("a", aty)), n, 0, 0))
								p := principal(coll, it, ce, "", nil)
								p.Dyn.Labels = labelVector(p.IterName(), lv)
								body := &sg.Body{Attrs: []sg.Attr{{Name: "top", Expr: sg.R("g")}}, Blocks: layoutBlocks(lay, p, "x", "a", n)}
								for _, syn := range syntaxes {
									if !out("multilabel", syn, spec, body) {
										return false
									}
								}
							}
						}
					}
				}
			}
		}
	}
	type outer struct {
		xk  string
		dyn bool
	}
	for _, o := range []outer{{"list", false}, {"list", true}, {"block", false}} {
		for _, lay := range []string{"SP", "PS"} { // always a static z: no empty multi-label map (C08's known finding)
			for _, inner := range inners {
				for _, zk := range []string{"map", "bobject"} {
					for _, n := range []int{2, 3} {
						for _, lv := range labelVectors(n) {
							zs := blockSpecN(zk, "z", objSpec("b", attrSpec("b", sg.TString)), n, 0, 0)
							spec := outerSpec(blockSpecOf(o.xk, "x", objSpec("a", attrSpec("a", sg.TDynamic), "z", zs)))
							p := sg.Block{Type: "z", Dyn: &sg.Dyn{ForEach: sg.R(inner), Labels: labelVector("z", lv)},
								Body: &sg.Body{Attrs: []sg.Attr{{Name: "b", Expr: sg.R("z", "value")}}}}
							body := nestedIn(o.dyn, layoutBlocks(lay, p, "z", "b", n))
							for _, syn := range syntaxes {
								if !out("nest-multilabel", syn, spec, body) {
									return false
								}
							}
						}
					}
				}
			}
		}
	}
	return true
}

// ---------------------------------------------------------------------------
// Family G: MinItems / MaxItems

// genCount: family G - BlockListSpec / BlockTupleSpec / BlockSetSpec with
// MinItems and MaxItems in {0,1,2} (0 = no bound) decoding a dynamic block and
// 0-2 static siblings in every order: (count) at the top level; (nest-count)
// a dynamic z and its static siblings inside a static x or inside the blocks
// generated by a dynamic x. A known for_each takes the ordinary oracle (the
// count diagnostics are those of the write-out); for an unknown one see
// countAlternative.
func genCount(thorough bool, out func(fam, syn string, spec *sg.Spec, body *sg.Body) bool) bool {
	colls := []string{"l0", "l1", "l2", "m2", "ul", "um", "us", "ud", "mul"}
	inners := []string{"l1", "ul", "ud", "mul"}
	ces := []string{"const", "value"}
	bounds := []int{0, 1, 2}
	if thorough {
		colls = []string{"l0", "l1", "l2", "t2", "s2", "m2", "o2", "ml2", "tu2", "ul", "um", "us", "ud", "mul"}
		inners = []string{"l0", "l1", "l2", "m2", "ul", "um", "us", "ud", "mul"}
		bounds = []int{0, 1, 2, 3}
	}
	lays := layouts(3, "S")
	kinds := []string{"list", "btuple", "set"}
	syntaxes := []string{"native", "json"}
	for _, lay := range lays {
		for _, coll := range colls {
			for _, ce := range ces {
				for _, k := range kinds {
					for _, min := range bounds {
						for _, max := range bounds {
							spec := outerSpec(blockSpecN(k, "x", objSpec("a", attrSpec("a", sg.TDynamic)), 0, min, max))
							body := &sg.Body{Attrs: []sg.Attr{{Name: "top", Expr: sg.R("g")}},
								Blocks: append(layoutBlocks(lay, principal(coll, "", ce, "", nil), "x", "a", 0), staticY())}
							for _, syn := range syntaxes {
								if !out("count", syn, spec, body) {
									return false
								}
							}
						}
					}
				}
			}
		}
	}
	for _, outerDyn := range []bool{false, true} {
		for _, lay := range lays {
			for _, inner := range inners {
				for _, k := range kinds {
					for _, min := range bounds {
						for _, max := range bounds {
							zs := blockSpecN(k, "z", objSpec("b", attrSpec("b", sg.TDynamic)), 0, min, max)
							spec := outerSpec(blockSpecOf("list", "x", objSpec("a", attrSpec("a", sg.TDynamic), "z", zs)))
							p := sg.Block{Type: "z", Dyn: &sg.Dyn{ForEach: sg.R(inner)},
								Body: &sg.Body{Attrs: []sg.Attr{{Name: "b", Expr: sg.R("z", "value")}}}}
							body := nestedIn(outerDyn, layoutBlocks(lay, p, "z", "b", 0))
							for _, syn := range syntaxes {
								if !out("nest-count", syn, spec, body) {
									return false
								}
							}
						}
					}
				}
			}
		}
	}
	return true
}

// nestMarksSpec: object{top, x: Kx{a, z: Kz{b}, s: block{c, z: Kz{b}}, t: block{d}}, y: list{a}}.
func nestMarksSpec(xk, zk string) *sg.Spec {
	zs := func() *sg.Spec { return blockSpecOf(zk, "z", objSpec("b", attrSpec("b", sg.TDynamic))) }
	ss := &sg.Spec{K: sg.KBlock, Name: "s", Kids: []*sg.Spec{objSpec("c", attrSpec("c", sg.TDynamic), "z", zs())}}
	ts := &sg.Spec{K: sg.KBlock, Name: "t", Kids: []*sg.Spec{objSpec("d", attrSpec("d", sg.TString))}}
	xs := blockSpecOf(xk, "x", objSpec("a", attrSpec("a", sg.TDynamic), "z", zs(), "s", ss, "t", ts))
	return objSpec("top", attrSpec("top", sg.TString), "x", xs,
		"y", blockSpecOf("list", "y", objSpec("a", attrSpec("a", sg.TDynamic))))
}

// nestMarksBody: top = g; dynamic x over outer { a; [dynamic z over inner]; [static z]; [s { c; dynamic z over inner }]; t { d } }; y { a = g }.
// placement: direct (the nested dynamic block sits in the content), in-static
// (inside the static child block s of the content), both.
func nestMarksBody(outer, inner, placement, oexpr, iexpr string, staticZ bool) *sg.Body {
	ie := map[string]sg.Expr{
		"const": sg.S("ic"),
		"value": sg.R("z", "value"),
		"tmpl":  sg.T(sg.R("x", "key"), sg.S("-"), sg.R("z", "value")),
	}[iexpr]
	oe := map[string]sg.Expr{
		"const":  sg.S("oc"),
		"value":  sg.R("x", "value"),
		"global": sg.R("h"),
	}[oexpr]
	fe := sg.R(inner)
	if inner == "outer-kids" {
		fe = sg.R("x", "value", "kids")
		if oexpr == "value" {
			oe = sg.R("x", "value", "attr")
		}
	}
	dz := func() sg.Block {
		return sg.Block{Type: "z", Dyn: &sg.Dyn{ForEach: fe}, Body: &sg.Body{Attrs: []sg.Attr{{Name: "b", Expr: ie}}}}
	}
	content := &sg.Body{Attrs: []sg.Attr{{Name: "a", Expr: oe}}}
	if placement == "direct" || placement == "both" {
		content.Blocks = append(content.Blocks, dz())
	}
	if staticZ {
		content.Blocks = append(content.Blocks, sg.Block{Type: "z", Body: &sg.Body{Attrs: []sg.Attr{{Name: "b", Expr: sg.S("zs")}}}})
	}
	if placement == "in-static" || placement == "both" {
		content.Blocks = append(content.Blocks, sg.Block{Type: "s", Body: &sg.Body{
			Attrs: []sg.Attr{{Name: "c", Expr: sg.R("x", "key")}}, Blocks: []sg.Block{dz()}}})
	}
	content.Blocks = append(content.Blocks, sg.Block{Type: "t", Body: &sg.Body{Attrs: []sg.Attr{{Name: "d", Expr: sg.S("tail")}}}})
	return &sg.Body{
		Attrs: []sg.Attr{{Name: "top", Expr: sg.R("g")}},
		Blocks: []sg.Block{
			{Type: "x", Dyn: &sg.Dyn{ForEach: sg.R(outer)}, Body: content},
			staticY(),
		},
	}
}

// genNestMarks: family E - two nesting levels with an independent choice of
// the kind of for_each value per level.
func genNestMarks(thorough bool, out func(fam, syn string, spec *sg.Spec, body *sg.Body) bool) bool {
	// known (1, 2 elements), empty, unknown, marked A, marked B, marked A and B, unknown marked A, empty marked B
	kinds := []string{"l1", "l2", "l0", "ul", "qa2", "qb1", "qab2", "qua", "qeb"}
	outers, inners := kinds, kinds
	xks := []string{"list", "btuple", "set", "block"}
	zks := []string{"list", "block", "set"}
	oexprs := []string{"const", "value"}
	iexprs := []string{"const", "tmpl"}
	if thorough {
		outers = append(append([]string{}, kinds...), "m2", "qmb2", "ud", "lo2", "qoa2", "qob2")
		inners = append(append([]string{}, kinds...), "m2", "qmb2", "ud", "outer-kids")
		zks = []string{"list", "block", "set", "btuple", "attrs"}
		oexprs = []string{"const", "value", "global"}
		iexprs = []string{"const", "value", "tmpl"}
	}
	for _, placement := range []string{"direct", "in-static", "both"} {
		for _, outer := range outers {
			for _, inner := range inners {
				if inner == "outer-kids" && outer != "lo2" && outer != "qoa2" && outer != "qob2" {
					continue
				}
				for _, oe := range oexprs {
					for _, ie := range iexprs {
						for _, xk := range xks {
							for _, zk := range zks {
								// a static sibling of the generated z blocks where the spec admits several
								staticZ := zk != "block" && zk != "attrs"
								spec := nestMarksSpec(xk, zk)
								body := nestMarksBody(outer, inner, placement, oe, ie, staticZ)
								for _, syn := range []string{"native", "json"} {
									if !out("nest-marks", syn, spec, body) {
										return false
									}
								}
							}
						}
					}
				}
			}
		}
	}
	return true
}

// genNest3: family D - three levels of nesting with re-used iterator names.
func genNest3(thorough bool, out func(fam, syn string, spec *sg.Spec, body *sg.Body) bool) bool {
	type names struct{ o, m, i string }
	schemes := []names{
		{"", "", ""},        // x, z, v
		{"it", "it", ""},    // outer and middle share a name; the innermost block refers to it
		{"it", "mid", "it"}, // outer and inner share a name, the middle one differs
		{"it", "it", "it"},  // all three share a name
		{"it", "", "z"},     // inner re-uses the default name of the middle one
		{"", "x", ""},       // middle re-uses the default name of the outer one
	}
	xks := []string{"list", "btuple"}
	zks := []string{"list", "btuple", "block", "map"}
	vks := []string{"list", "btuple", "block", "map"}
	outers := []string{"l2", "mo2"}
	if thorough {
		xks = []string{"list", "btuple", "set", "bobject"}
		outers = []string{"l2", "mo2", "ml2", "lu2"}
	}
	for _, sc := range schemes {
		for _, zDyn := range []bool{true, false} {
			for _, vDyn := range []bool{true, false} {
				for _, outer := range outers {
					mids := []string{"m2"}
					inners := []string{"l2", "t2", "l1"}
					if outer == "mo2" {
						mids = append(mids, "outer-kids")
						inners = append(inners, "outer-kids")
					}
					if !zDyn {
						mids = mids[:1]
					}
					if !vDyn {
						inners = inners[:1]
					}
					for _, mid := range mids {
						for _, inner := range inners {
							for _, xk := range xks {
								for _, zk := range zks {
									for _, vk := range vks {
										spec := nest3Spec(xk, zk, vk)
										body := nest3Body(outer, mid, inner, sc.o, sc.m, sc.i, zDyn, vDyn, zk, vk)
										if labelled(xk) {
											body.Blocks[0].Dyn.Labels = []sg.Expr{sg.R(iterName(sc.o, "x"), "key")}
										}
										for _, syn := range []string{"native", "json"} {
											if !out("nest-3level", syn, spec, body) {
												return false
											}
										}
									}
								}
							}
						}
					}
				}
			}
		}
	}
	return true
}

func btoi(b bool) int {
	if b {
		return 1
	}
	return 0
}

// ---------------------------------------------------------------------------
// Judge

func guard(f func()) (panicked bool, msg, stack string) {
	defer func() {
		if r := recover(); r != nil {
			panicked, msg, stack = true, fmt.Sprint(r), string(debug.Stack())
		}
	}()
	f()
	return
}

func trimStack(s string) string {
	var keep []string
	for _, l := range strings.Split(s, "\n") {
		if strings.Contains(l, "hashicorp/hcl") || strings.Contains(l, "/repo/") || strings.Contains(l, "go-cty") {
			keep = append(keep, strings.TrimSpace(l))
			if len(keep) >= 10 {
				break
			}
		}
	}
	return strings.Join(keep, "\n")
}

func parse(d Data, text string, syntax string) (hcl.Body, hcl.Diagnostics) {
	if syntax == "json" {
		f, diags := hcljson.Parse([]byte(text), "t.json")
		if diags.HasErrors() {
			return nil, diags
		}
		return f.Body, nil
	}
	f, diags := hclsyntax.ParseConfig([]byte(text), "t.hcl", hcl.InitialPos)
	if diags.HasErrors() {
		return nil, diags
	}
	return f.Body, nil
}

func unmarkDeep(v cty.Value) cty.Value {
	u, _ := v.UnmarkDeep()
	return u
}

func rootNames(ts []hcl.Traversal) map[string]bool {
	m := map[string]bool{}
	for _, t := range ts {
		m[t.RootName()] = true
	}
	return m
}

func prune(vars map[string]cty.Value, keep map[string]bool) map[string]cty.Value {
	out := map[string]cty.Value{}
	for k, v := range vars {
		if keep[k] {
			out[k] = v
		}
	}
	return out
}

// describe the shape of the case for class names: spec kind of x and what the
// principal dynamic block looks like.
type shape struct {
	xkind    string
	collKind string // list tuple set map object unknown dynamic marked null ...
	iter     string // default custom shadow
	nested   string
}

func findPrincipal(b *sg.Body) *sg.Block {
	for i := range b.Blocks {
		bl := &b.Blocks[i]
		if bl.Type == "w" && bl.Dyn == nil {
			return findPrincipal(bl.Body)
		}
		if bl.Dyn != nil && bl.Type == "x" && bl.Dyn.ForEach.K == "ref" {
			return bl
		}
	}
	return nil
}

func collKind(name string) string {
	v, ok := Globals[name]
	if !ok {
		return "undefined"
	}
	pre := ""
	if v.ContainsMarked() {
		pre = "marked-"
		v = unmarkDeep(v)
	}
	ty := v.Type()
	switch {
	case v.IsNull():
		return pre + "null"
	case !v.IsKnown() && ty == cty.DynamicPseudoType:
		return pre + "dynamic-unknown"
	case !v.IsKnown():
		return pre + "unknown-" + strings.Fields(ty.FriendlyName())[0]
	case !v.IsWhollyKnown():
		return pre + "partly-unknown-" + strings.Fields(ty.FriendlyName())[0]
	case ty.IsListType():
		return pre + "list"
	case ty.IsTupleType():
		return pre + "tuple"
	case ty.IsSetType():
		return pre + "set"
	case ty.IsMapType():
		return pre + "map"
	case ty.IsObjectType():
		return pre + "object"
	}
	return pre + "scalar"
}

func xKind(s *sg.Spec) string {
	kind := "?"
	s.Walk(func(x *sg.Spec) {
		if x.IsBlockish() && x.Name == "x" && kind == "?" {
			kind = kindName(x)
		}
	})
	return kind
}

// kindName names a block-ish spec for classes: its kind, "list-with-label" for
// a BlockListSpec with a BlockLabelSpec inside, and the number of label names
// when there are several (one map level per label name is part of the
// implied type).
func kindName(x *sg.Spec) string {
	kind := x.K
	nl := len(x.Labels)
	if x.K == sg.KList && len(x.Kids) > 0 && x.Kids[0].LabelCount() > 0 {
		kind = "list-with-label"
		nl = x.Kids[0].LabelCount()
	}
	if nl >= 2 {
		kind += fmt.Sprintf("-%d-labels", nl)
	}
	return kind
}

// specAt: the block-ish spec that decodes the blocks found by following the
// block types of path from the root body.
func specAt(s *sg.Spec, path []string) *sg.Spec {
	cur := s
	var found *sg.Spec
	for _, ty := range path {
		if cur == nil {
			return nil
		}
		v := sg.ViewOf(cur)
		bu := v.BlockUse(ty)
		if bu == nil {
			return nil
		}
		found = bu.Spec
		cur = nil
		if found.K != sg.KAttrs && len(found.Kids) > 0 {
			cur = found.Kids[0]
		}
	}
	return found
}

// hasCountBounds: some BlockListSpec / BlockTupleSpec / BlockSetSpec of the tree has MinItems or MaxItems.
func hasCountBounds(s *sg.Spec) bool {
	has := false
	s.Walk(func(x *sg.Spec) {
		if (x.K == sg.KList || x.K == sg.KSet || x.K == sg.KBTuple) && (x.Min != 0 || x.Max != 0) {
			has = true
		}
	})
	return has
}

// withoutCountBounds: the same spec tree with every MinItems / MaxItems removed.
func withoutCountBounds(s *sg.Spec) *sg.Spec {
	c := s.Clone()
	c.Walk(func(x *sg.Spec) {
		if x.K == sg.KList || x.K == sg.KSet || x.K == sg.KBTuple {
			x.Min, x.Max = 0, 0
		}
	})
	return c
}

func shapeOf(d Data) shape {
	sh := shape{xkind: xKind(d.Spec), collKind: "none", iter: "default"}
	if p := findPrincipal(d.Body); p != nil {
		sh.collKind = collKind(p.Dyn.ForEach.Ref[0])
		switch p.Dyn.Iterator {
		case "":
		case "g":
			sh.iter = "shadowing"
		case p.Dyn.ForEach.Ref[0]:
			sh.iter = "shadowing-collection"
		default:
			sh.iter = "custom"
		}
	}
	sh.nested = strings.TrimPrefix(d.Fam, "nest-")
	if !strings.HasPrefix(d.Fam, "nest-") {
		sh.nested = "flat"
	}
	return sh
}

// String names the construct for failure classes: the spec kind decoding the
// generated blocks and the nesting (and whether the collection is marked).
func (s shape) String() string {
	c := s.xkind + "." + s.nested
	if strings.HasPrefix(s.collKind, "marked-") {
		c += ".marked-collection"
	}
	return c
}

// Full is the detailed shape used in signatures.
func (s shape) Full() string {
	return s.xkind + "." + s.collKind + "." + s.iter + "-iterator." + s.nested
}

type result struct {
	val  cty.Value
	err  bool
	diag string
}

func decode(body hcl.Body, spec hcldec.Spec, expandCtx, decodeCtx *hcl.EvalContext, expand bool) (r result, panicMsg, stack string) {
	p, msg, st := guard(func() {
		b := body
		if expand {
			b = dynblock.Expand(body, expandCtx)
		}
		v, diags := hcldec.Decode(b, spec, decodeCtx)
		r = result{val: v, err: diags.HasErrors()}
		if r.err {
			for _, dg := range diags {
				if dg.Severity == hcl.DiagError {
					r.diag = dg.Summary + ": " + dg.Detail
					break
				}
			}
		}
	})
	if p {
		return r, msg, st
	}
	return r, "", ""
}

func conforms(got, want cty.Type) bool {
	want = want.WithoutOptionalAttributesDeep()
	if len(got.TestConformance(want)) != 0 {
		return false
	}
	return want.HasDynamicTypes() || got.Equals(want)
}

// markShape names the construct for the mark classes: at which nesting levels
// a dynamic block iterates over a marked collection, whether the levels carry
// the same marks, and the spec kind of x.
func markShape(d Data, wo *refdec.WriteOut) string {
	levels := map[string]bool{}
	sets := map[string]bool{}
	var walk func(b *sg.Body, depth int)
	walk = func(b *sg.Body, depth int) {
		if b == nil {
			return
		}
		for i := range b.Blocks {
			bl := &b.Blocks[i]
			dd := depth
			if bl.Dyn != nil {
				dd++
				if bl.Dyn.ForEach.K == "ref" {
					if v, ok := Globals[bl.Dyn.ForEach.Ref[0]]; ok && v.IsMarked() {
						_, m := v.Unmark()
						sets[refdec.MarksKey(m)] = true
						if depth == 0 {
							levels["outer"] = true
						} else {
							levels["nested"] = true
						}
					}
				}
			}
			walk(bl.Body, dd)
		}
	}
	walk(d.Body, 0)
	where := "derived-collection-marked" // marks inside the collection or coming through an outer iterator
	switch {
	case levels["outer"] && levels["nested"]:
		where = "outer-and-nested-collection-marked"
		if len(sets) > 1 {
			where += "-differently"
		} else {
			where += "-alike"
		}
	case levels["outer"]:
		where = "outer-collection-marked"
	case levels["nested"]:
		where = "nested-collection-marked"
	}
	return xKind(d.Spec) + "." + where
}

// placeholderWriteOut decodes the write-out of d in which every unknown
// for_each stands for count blocks with an unknown iterator (nil: the single
// block of the README) with the given spec. status: "" decoded (ref holds the
// result, possibly with errors), "undefined" there is no such write-out,
// "panic" decoding it panics (C08's subject).
type phWriteOut struct {
	wo   *refdec.WriteOut
	text string
	ref  result
}

func placeholderWriteOut(d Data, spec hcldec.Spec, count *int, desc func() string) (*phWriteOut, string, *engine.Outcome) {
	fail := func(class, format string, args ...any) *engine.Outcome {
		o := engine.Fail(class, format, args...)
		return &o
	}
	wo := refdec.ExpandWith(d.Body, Globals, refdec.Options{Placeholder: true, PlaceholderCount: count})
	if wo.Undefined != "" || wo.Unspecified != "" {
		return nil, "undefined", nil
	}
	text := wo.Body.Native()
	parsed, diags := parse(d, text, "native")
	if diags.HasErrors() {
		return nil, "", fail("c18.harness.writeout", "placeholder write-out does not parse: %s\n%s\n%s", diags.Error(), text, desc())
	}
	body, err := newRefBody(parsed, wo)
	if err != nil {
		return nil, "", fail("c18.harness.writeout-alignment", "%v\n%s\n%s", err, text, desc())
	}
	vars := map[string]cty.Value{}
	for k, v := range Globals {
		vars[k] = v
	}
	for k, v := range wo.Vars {
		vars[k] = v
	}
	ref, pm, _ := decode(body, spec, nil, &hcl.EvalContext{Variables: vars}, false)
	if pm != "" {
		return nil, "panic", nil
	}
	return &phWriteOut{wo: wo, text: text, ref: ref}, "", nil
}

// placeholderKinds: the kinds of the specs that decode the outermost blocks
// standing for an unknown for_each.
func placeholderKinds(d Data, wo *refdec.WriteOut) []string {
	var out []string
	seen := map[string]bool{}
	for _, ph := range wo.Placeholders {
		k := "?"
		if sp := specAt(d.Spec, ph.Path); sp != nil {
			k = kindName(sp)
		}
		if !seen[k] {
			seen[k] = true
			out = append(out, k)
		}
	}
	return out
}

// countAlternative: the single block of the README does not decode (one). If
// that is only because of the MinItems / MaxItems of block list / tuple / set
// specs - it decodes once those bounds are taken out of the spec - and the
// bounds can still be met - the body with some other number of blocks (0, 2
// or 3 per unknown for_each) in the place of the one decodes with the real
// spec - then the configuration is not known to be invalid: "the length of
// the collection may eventually be different than one" (README). Returns that
// write-out and its number of blocks, or nil.
func countAlternative(d Data, spec hcldec.Spec, desc func() string) (*phWriteOut, int) {
	if !hasCountBounds(d.Spec) {
		return nil, 0
	}
	relaxed, st, out := placeholderWriteOut(d, withoutCountBounds(d.Spec).Build(), nil, desc)
	if out != nil || st != "" || relaxed.ref.err {
		return nil, 0
	}
	for _, k := range []int{2, 0, 3} {
		k := k
		alt, st, out := placeholderWriteOut(d, spec, &k, desc)
		if out == nil && st == "" && !alt.ref.err {
			return alt, k
		}
	}
	return nil, 0
}

// judgePlaceholder: the clauses about the documented write-out of an unknown for_each.
func judgePlaceholder(d Data, sh shape, spec hcldec.Spec, impl result, desc func() string) *engine.Outcome {
	fail := func(class, format string, args ...any) *engine.Outcome {
		o := engine.Fail(class, format, args...)
		return &o
	}
	one, st, out := placeholderWriteOut(d, spec, nil, desc)
	if out != nil {
		return out
	}
	switch st {
	case "undefined":
		counters.Add("placeholder_writeouts_undefined", 1)
		return nil
	case "panic":
		counters.Add("writeout_decode_panics", 1)
		return nil
	}
	wo, text, ref := one.wo, one.text, one.ref
	nesting := "no-nested-dynamic"
	if nestedDynamicUnderUnknown(d.Body, Globals, false) {
		nesting = "nested-dynamic-inside"
	}
	cls := func(clause string) string {
		return "c18.unknown-foreach." + clause + "." + sh.xkind + "." + nesting
	}
	what := "one block per unknown for_each"
	compareMarks := true
	if ref.err {
		// The placeholder itself does not fit the spec. Where that is only a matter of how many blocks
		// there are (MinItems / MaxItems) and some other number of blocks would do, the unknown
		// collection says nothing about the number: no error may be reported. Otherwise (e.g. a
		// second block for a BlockSpec, a label that occurs twice) whether expansion reports that is
		// not specified.
		alt, k := countAlternative(d, spec, desc)
		if alt == nil {
			counters.Add("placeholder_writeouts_erroneous", 1)
			return nil
		}
		counters.Add("placeholder_count_alternatives_compared", 1)
		if impl.err {
			which := "placeholder-below-minimum"
			if k == 0 {
				which = "placeholder-above-maximum"
			}
			return fail("c18.unknown-foreach.count-error-though-count-unknown."+strings.Join(placeholderKinds(d, wo), "+")+"."+which+"."+nesting,
				"for_each is unknown, so the number of blocks is; Expand+Decode fails: %s\nthe single block of the README fails only the MinItems / MaxItems of the spec (%s)\nand with %d block(s) per unknown for_each the body decodes to %s\nwrite-out:\n%s\n%s",
				impl.diag, ref.diag, k, vfmt.V(alt.ref.val), alt.text, desc())
		}
		wo, text, ref = alt.wo, alt.text, alt.ref
		what = fmt.Sprintf("%d blocks per unknown for_each", k)
		if k == 0 {
			// nothing in this write-out stands for the unknown collection, so nothing in it carries the
			// collection's marks: only the values are compared then (that the marks of the collection
			// are present in the real result is demanded below)
			for _, ph := range wo.Placeholders {
				if len(ph.Marks) > 0 {
					compareMarks = false
				}
			}
		}
	}
	if impl.err && strings.Contains(impl.diag, "Unconsistent argument types") {
		// hcldec.BlockListSpec / BlockSetSpec document that all blocks must yield one type when the
		// nested specification is dynamically typed; a nested collection that is unknown because of its
		// for_each (a BlockTupleSpec result is then of unknown type) cannot be compared with the known
		// tuples of its siblings, and neither the README nor the property says what decoding does then
		counters.Add("unknown_foreach_under_dynamically_typed_list_or_set_not_judged", 1)
		return nil
	}
	if impl.err {
		return fail(cls("expansion-fails-placeholder-decodes"),
			"for_each is unknown; Expand+Decode fails: %s\nbut the body with one block per unknown collection (iterator key and value unknown) decodes to %s\nwrite-out:\n%s\n%s",
			impl.diag, vfmt.V(ref.val), text, desc())
	}
	// "still of the specification's implied type": judged here as well because the clause of the caller
	// stands back when the static remainder alone does not conform (C08's subject), which says nothing
	// about a result that is unknown because of the for_each
	if implied := hcldec.ImpliedType(spec); conforms(ref.val.Type(), implied) && !conforms(impl.val.Type(), implied) {
		return fail("c18.unknown-foreach.type-nonconformance."+sh.String()+underKinds(sh, placeholderKinds(d, wo)),
			"for_each is unknown; Expand+Decode returned %s\nof type %s which does not conform to the implied type %s\nwhile the decoding of the write-out (%s), %s, does\nwrite-out:\n%s\n%s",
			vfmt.V(impl.val), impl.val.Type().FriendlyName(), implied.FriendlyName(), what, vfmt.V(ref.val), text, desc())
	}
	got, want := impl.val, ref.val
	if !compareMarks {
		got, want = unmarkDeep(got), unmarkDeep(want)
	}
	if df := compareDerived(got, want, true); df != nil {
		return fail(cls(df.kind),
			"for_each is unknown; at %s the decoded value %s\nExpand+Decode                 = %s\n%s = %s\nwrite-out:\n%s\n%s",
			df.path, df.msg, vfmt.V(impl.val), what, vfmt.V(ref.val), text, desc())
	}
	// the marks of an unknown collection are somewhere in what it affects
	for _, ph := range wo.Placeholders {
		part := impl.val
		if u, rootMarks := part.Unmark(); u.IsKnown() && !u.IsNull() && u.Type().IsObjectType() && u.Type().HasAttribute(ph.Top) {
			part = u.GetAttr(ph.Top).WithMarks(rootMarks)
		}
		if have := deepMarks(part); !subset(ph.Marks, have) {
			return fail(cls("missing-marks"),
				"the unknown for_each collection of a %q block carries %s but the decoded %q only %s: %s\n%s",
				ph.Top, markNames(ph.Marks), ph.Top, markNames(have), vfmt.V(part), desc())
		}
	}
	counters.Add("placeholder_writeouts_compared", 1)
	if nesting == "nested-dynamic-inside" {
		counters.Add("placeholder_writeouts_compared_nested_dynamic", 1)
	}
	return nil
}

// underKinds: class suffix naming the spec kinds that decode the placeholder
// blocks when they are not the kind of x (nested block types).
func underKinds(sh shape, kinds []string) string {
	if len(kinds) == 0 || (len(kinds) == 1 && kinds[0] == sh.xkind) {
		return ""
	}
	return ".unknown-under-" + strings.Join(kinds, "+")
}

// nestedDynamicUnderUnknown: some dynamic block with an unknown for_each
// (a global) has another dynamic block in its content, directly or inside
// static blocks.
func nestedDynamicUnderUnknown(b *sg.Body, env map[string]cty.Value, under bool) bool {
	if b == nil {
		return false
	}
	for i := range b.Blocks {
		bl := &b.Blocks[i]
		u := under
		if bl.Dyn != nil {
			if under {
				return true
			}
			if v, ok := refdec.Eval(bl.Dyn.ForEach, env); ok && !v.IsKnown() {
				u = true
			}
		}
		if nestedDynamicUnderUnknown(bl.Body, env, u) {
			return true
		}
	}
	return false
}

func judge(c engine.Case) engine.Outcome {
	d := c.Data.(Data)
	if d.Spec == nil || d.Body == nil {
		return engine.Skip()
	}
	text := d.Body.Native()
	if d.Syntax == "json" {
		text = d.Body.JSON()
	}
	sh := shapeOf(d)
	counters.Add("cases_"+d.Fam, 1)
	desc := func() string {
		return fmt.Sprintf("spec: %s\nsource (%s):\n%s", d.Spec.String(), d.Syntax, text)
	}
	spec := d.Spec.Build()
	body, pdiags := parse(d, text, d.Syntax)
	if pdiags.HasErrors() {
		return engine.Fail("c18.harness.render", "rendered body does not parse: %s\n%s", pdiags.Error(), desc())
	}
	full := &hcl.EvalContext{Variables: Globals}

	// the implementation: expand, then decode
	impl, pm, st := decode(body, spec, full, full, true)

	// the reference write-out, rendered natively and decoded without dynblock
	wo := refdec.Expand(d.Body, Globals)
	woText := wo.Body.Native()
	woBody, wdiags := parse(d, woText, "native")
	if wdiags.HasErrors() {
		return engine.Fail("c18.harness.writeout", "write-out does not parse: %s\n%s\n%s", wdiags.Error(), woText, desc())
	}
	woVars := map[string]cty.Value{}
	for k, v := range Globals {
		woVars[k] = v
	}
	for k, v := range wo.Vars {
		woVars[k] = v
	}
	woCtx := &hcl.EvalContext{Variables: woVars}
	if wo.Unspecified != "" {
		// e.g. a label that is marked only through an enclosing marked collection:
		// nothing says whether that is an error
		counters.Add("unspecified_"+wo.Unspecified, 1)
		return engine.Skip()
	}
	if wo.Marked {
		// everything inside a block generated from a marked collection derives from it
		mb, err := newRefBody(woBody, wo)
		if err != nil {
			return engine.Fail("c18.harness.writeout-alignment", "%v\n%s\n%s", err, woText, desc())
		}
		woBody = mb
	}
	ref, pm2, _ := decode(woBody, spec, nil, woCtx, false)
	if pm2 != "" {
		// a panic while decoding a purely static body is C08's subject
		counters.Add("writeout_decode_panics", 1)
		return engine.Pass("")
	}
	if pm != "" {
		return engine.Fail("c18.panic."+sh.String(), "Expand+Decode panics (decoding the write-out does not): %s\n%s\nwrite-out:\n%s\n%s", pm, trimStack(st), woText, desc())
	}

	implied := hcldec.ImpliedType(spec)
	sig := ""
	switch {
	case wo.Undefined != "":
		// Expansion is documented to report an error; nothing is written out.
		counters.Add("undefined_writeouts", 1)
		if !impl.err {
			return engine.Fail("c18.erroneous-dynamic-block-accepted."+wo.Undefined+"."+sh.xkind,
				"the dynamic block cannot be written out (%s) but Expand+Decode reports no error and returns %s\n%s", wo.Undefined, vfmt.V(impl.val), desc())
		}

	case len(wo.Unknown) > 0:
		// unknown for_each: implied type, affected part unknown, siblings intact
		counters.Add("unknown_foreach_cases", 1)
		if !conforms(impl.val.Type(), implied) && !conforms(ref.val.Type(), implied) {
			// the static remainder alone already decodes to a non-conforming type: C08's subject
			counters.Add("static_nonconformance_skipped", 1)
		} else if !conforms(impl.val.Type(), implied) {
			cls := "c18.unknown-foreach.type-nonconformance." + sh.String() +
				underKinds(sh, placeholderKinds(d, refdec.ExpandWith(d.Body, Globals, refdec.Options{Placeholder: true})))
			if impl.err {
				cls += ".on-error"
			}
			return engine.Fail(cls, "for_each is unknown; Expand+Decode returned %s\nof type %s which does not conform to the implied type %s (errors: %v %s)\n%s",
				vfmt.V(impl.val), impl.val.Type().FriendlyName(), implied.FriendlyName(), impl.err, impl.diag, desc())
		}
		if !impl.err && !ref.err {
			iv, rv := unmarkDeep(impl.val), unmarkDeep(ref.val)
			if iv.Type().IsObjectType() && rv.Type().IsObjectType() && iv.IsKnown() && !iv.IsNull() {
				affected := map[string]bool{}
				for _, t := range wo.Unknown {
					affected[t] = true
				}
				for name := range iv.Type().AttributeTypes() {
					if !rv.Type().HasAttribute(name) {
						continue
					}
					if affected[name] {
						if iv.GetAttr(name).IsWhollyKnown() {
							return engine.Fail("c18.unknown-foreach.result-wholly-known."+sh.String(),
								"for_each is unknown but the decoded %q is wholly known: %s\n%s", name, vfmt.V(iv.GetAttr(name)), desc())
						}
						continue
					}
					if !iv.GetAttr(name).RawEquals(rv.GetAttr(name)) {
						return engine.Fail("c18.unknown-foreach.sibling-changed."+sh.String(),
							"for_each of a %v block is unknown; the unrelated %q decodes to %s but to %s without the dynamic block\n%s",
							wo.Unknown, name, vfmt.V(iv.GetAttr(name)), vfmt.V(rv.GetAttr(name)), desc())
					}
				}
				counters.Add("unknown_siblings_checked", 1)
				sig = "unknown:" + sh.Full() + ":" + vfmt.V(iv)
			}
		}
		// The documented write-out of an unknown for_each (README: "a single dynamic block whose
		// iterator key and value are both unknown values of the dynamic pseudo-type"): the real result
		// may be less known than its decoding (the size of "the affected part" is not specified) but not
		// more, must agree with it wherever it is known, and must not fail where it decodes.
		if out := judgePlaceholder(d, sh, spec, impl, desc); out != nil {
			return *out
		}

	default:
		counters.Add("writeouts_compared", 1)
		counters.Add("blocks_written_out", int64(wo.Generated))
		if impl.err != ref.err {
			which := "expansion-fails-writeout-decodes"
			if ref.err {
				which = "expansion-decodes-writeout-fails"
			}
			return engine.Fail("c18.error-presence."+which+"."+sh.String(),
				"Expand+Decode: error=%v %s value=%s\nwrite-out:     error=%v %s value=%s\nwrite-out:\n%s\n%s",
				impl.err, impl.diag, vfmt.V(impl.val), ref.err, ref.diag, vfmt.V(ref.val), woText, desc())
		}
		if !impl.err {
			iv, rv := impl.val, ref.val
			if !iv.RawEquals(rv) {
				cond := "value-differs"
				if unmarkDeep(iv).RawEquals(unmarkDeep(rv)) {
					cond = "marks-differ"
				}
				if !wo.Marked {
					return engine.Fail("c18."+cond+"."+sh.String(),
						"Expand+Decode = %s\nwrite-out     = %s   (marks compared)\nwrite-out:\n%s\n%s", vfmt.V(impl.val), vfmt.V(ref.val), woText, desc())
				}
				// a for_each collection is marked: what is marked with what must be exactly what the
				// write-out calls for (everything inside a block generated from a marked collection
				// derives from it, nothing else does); the level of the structure a mark is attached to is free
				if df := compareDerived(iv, rv, false); df != nil {
					return engine.Fail("c18.marked-foreach."+df.kind+"."+markShape(d, wo),
						"at %s the decoded value %s\nExpand+Decode = %s\nwrite-out     = %s   (blocks generated from a marked collection carry its marks: %v)\nwrite-out:\n%s\n%s",
						df.path, df.msg, vfmt.V(impl.val), vfmt.V(ref.val), wo.MarkSets, woText, desc())
				}
				counters.Add("mark_placement_differs_only", 1)
			}
			if wo.Marked {
				counters.Add("values_compared_with_exact_marks", 1)
				if len(wo.MarkSets) > 1 {
					counters.Add("values_compared_with_exact_marks_several_mark_sets", 1)
				}
			}
			counters.Add("values_compared", 1)
			counters.Add("values_compared_"+d.Fam, 1)
			if strings.Contains(sh.collKind, "partly-unknown") {
				counters.Add("values_compared_partly_unknown_collection", 1)
				if !iv.IsWhollyKnown() {
					counters.Add("values_compared_partly_unknown_result", 1)
				}
			}
			sig = sh.Full() + ":" + vfmt.V(iv)
		} else {
			counters.Add("error_agreements", 1)
			sig = "error:" + sh.Full()
		}
	}

	// robustness: (a) the same expanded body decoded twice, (b) the same parsed
	// body expanded and decoded again after an expansion with other variable
	// values (fresh contexts, same body and spec objects) give impl's result again
	{
		var first, second, other, third result
		p, msg, st := guard(func() {
			ctxA := &hcl.EvalContext{Variables: Globals}
			eb := dynblock.Expand(body, ctxA)
			v, dg := hcldec.Decode(eb, spec, ctxA)
			first = result{val: v, err: dg.HasErrors()}
			v, dg = hcldec.Decode(eb, spec, &hcl.EvalContext{Variables: Globals})
			second = result{val: v, err: dg.HasErrors()}
		})
		if p {
			return engine.Fail("c18.repeat.panic", "expanding / decoding the same body a second time panics: %s\n%s\n%s", msg, trimStack(st), desc())
		}
		pb, _, _ := guard(func() {
			ctxB := &hcl.EvalContext{Variables: altGlobals}
			v, dg := hcldec.Decode(dynblock.Expand(body, ctxB), spec, ctxB)
			other = result{val: v, err: dg.HasErrors()}
		})
		if pb {
			counters.Add("alternative_context_panics", 1)
		} else if woB := refdec.Expand(d.Body, altGlobals); woB.Undefined == "" && len(woB.Unknown) == 0 {
			// the result under context B must be B's own write-out, whatever was expanded before
			if wb, wd := parse(d, woB.Body.Native(), "native"); !wd.HasErrors() {
				vars := map[string]cty.Value{}
				for k, v := range altGlobals {
					vars[k] = v
				}
				for k, v := range woB.Vars {
					vars[k] = v
				}
				refB, pmB, _ := decode(wb, spec, nil, &hcl.EvalContext{Variables: vars}, false)
				if pmB == "" && (refB.err != other.err || (!refB.err && !unmarkDeep(refB.val).RawEquals(unmarkDeep(other.val)))) {
					return engine.Fail("c18.repeat.second-context-result-wrong",
						"the same parsed body was expanded with context A and then with context B (same names, other values):\nExpand+Decode under B: error=%v %s\nwrite-out under B:     error=%v %s\n(result under A:       error=%v %s)\nwrite-out under B:\n%s\n%s",
						other.err, vfmt.V(other.val), refB.err, vfmt.V(refB.val), impl.err, vfmt.V(impl.val), woB.Body.Native(), desc())
				}
				counters.Add("second_context_writeouts_compared", 1)
			}
		}
		p, msg, st = guard(func() {
			ctxA := &hcl.EvalContext{Variables: Globals}
			v, dg := hcldec.Decode(dynblock.Expand(body, ctxA), spec, ctxA)
			third = result{val: v, err: dg.HasErrors()}
		})
		if p {
			return engine.Fail("c18.repeat.panic", "expanding / decoding the same body again after an expansion with other variables panics: %s\n%s\n%s", msg, trimStack(st), desc())
		}
		same := func(a, b result) bool { return a.err == b.err && a.val.RawEquals(b.val) }
		if !same(impl, first) {
			return engine.Fail("c18.repeat.second-expansion-differs",
				"the same parsed body expanded and decoded twice with equal contexts:\nfirst:  error=%v %s\nsecond: error=%v %s\n%s", impl.err, vfmt.V(impl.val), first.err, vfmt.V(first.val), desc())
		}
		if !same(first, second) {
			return engine.Fail("c18.repeat.second-decode-of-expanded-body-differs",
				"one expanded body decoded twice:\nfirst:  error=%v %s\nsecond: error=%v %s\n%s", first.err, vfmt.V(first.val), second.err, vfmt.V(second.val), desc())
		}
		if !same(impl, third) {
			return engine.Fail("c18.repeat.result-depends-on-earlier-expansion",
				"expansion with context A, then with context B (other values), then with A again:\nA first: error=%v %s\nB:       error=%v %s\nA again: error=%v %s\n%s",
				impl.err, vfmt.V(impl.val), other.err, vfmt.V(other.val), third.err, vfmt.V(third.val), desc())
		}
		counters.Add("repeat_runs", 1)
	}

	// the variables reported for expansion suffice to perform it
	// (the flow of the README: expand with the variables ExpandVariablesHCLDec
	// reports, then decode with the variables hcldec.Variables reports for the
	// expanded body; dynblock.VariablesHCLDec is added too - its completeness is
	// C07's subject)
	var expVars, decVars []hcl.Traversal
	var prunedExp *hcl.EvalContext
	if p, msg, st := guard(func() {
		expVars = dynblock.ExpandVariablesHCLDec(body, spec)
		prunedExp = &hcl.EvalContext{Variables: prune(Globals, rootNames(expVars))}
		decVars = hcldec.Variables(dynblock.Expand(body, prunedExp), spec)
		decVars = append(decVars, dynblock.VariablesHCLDec(body, spec)...)
	}); p {
		return engine.Fail("c18.panic.variables."+sh.String(), "ExpandVariablesHCLDec / hcldec.Variables on the expanded body panics: %s\n%s\n%s", msg, trimStack(st), desc())
	}
	expNames, decNames := rootNames(expVars), rootNames(decVars)
	prunedDec := &hcl.EvalContext{Variables: prune(Globals, decNames)}
	pr, pm3, st3 := decode(body, spec, prunedExp, prunedDec, true)
	if pm3 != "" {
		return engine.Fail("c18.panic.pruned-context."+sh.String(), "Expand+Decode with the pruned contexts panics: %s\n%s\n%s", pm3, trimStack(st3), desc())
	}
	if pr.err != impl.err || !pr.val.RawEquals(impl.val) {
		// which of the two prunings matters?
		only, _, _ := decode(body, spec, prunedExp, full, true)
		which := "decode-variables"
		if only.err != impl.err || !only.val.RawEquals(impl.val) {
			which = "expand-variables"
		}
		return engine.Fail("c18.reported-variables-insufficient."+which+"."+sh.iter+"-iterator",
			"ExpandVariablesHCLDec roots %v, decode roots %v\nfull context:    error=%v %s value=%s\npruned contexts: error=%v %s value=%s\n%s",
			keys(expNames), keys(decNames), impl.err, impl.diag, vfmt.V(impl.val), pr.err, pr.diag, vfmt.V(pr.val), desc())
	}
	counters.Add("pruned_context_runs", 1)
	return engine.Pass(sig)
}

func keys(m map[string]bool) []string {
	var ks []string
	for k := range m {
		ks = append(ks, k)
	}
	sort.Strings(ks)
	return ks
}

func main() {
	engine.Main(&engine.Check{
		ID:        "C18",
		Title:     "Dynamic blocks expand to exactly the blocks they describe",
		Technique: "bounded exhaustive enumeration of abstract bodies with dynamic blocks x hcldec specs x syntaxes; real dynblock.Expand + hcldec.Decode against the decoding of a reference write-out (one static block per element, iterator renamed to a fresh variable)",
		Rule: "three product families over blocks x (dynamic, principal), static x / static y / second dynamic x / dynamic y, nested z; specs object{top, x: K{a [,z: Kz{b}]}, y: list} with K in BlockList/Set/Tuple/Block/Attrs/Map/Object/List+BlockLabelSpec: " +
			"(iter) for_each in 23 (quick) / 34 (thorough) collections (list, tuple, set, map, object of size 0-2, collections of objects, marked, marked element, known collections with an unknown element (tuple, list, map, set, list of objects with an unknown attribute) or a null element, unknown list/map/set, DynamicVal, null, non-iterable) x iterator {default, custom, custom shadowing global g, custom shadowing the for_each variable} x 7 content forms (const, it.key, it.value, it.value.attr, template of it.key and a global, global, the shadowed name) x K x 4 label forms (labelled K) x every layout of length <= 2 with one principal block over {S,Y,D} (thorough +E) x {native, JSON}; " +
			"(interleave) every layout of length <= 3 with one principal block over {S,Y,D} (thorough +E) x 5 (10) collections x {default, shadowing} x 2 content forms x K x label forms; " +
			"(nest) 6 nestings (static z using the outer iterator, dynamic z over a global using both iterators, dynamic z over it.value.kids, dynamic z re-using the outer iterator name, static/dynamic/static z, dynamic z over an unknown) x Kz x 3 layouts x 7 collections x 4 iterators x 2 content forms x 6 K x {top level, inside a static block w} x syntaxes. " +
			"(nest-3level) dynamic x > z > v (z, v each dynamic or static) with 6 iterator-name schemes (all default; outer=middle; outer=inner with another middle; all equal; inner = default name of middle; middle = default name of outer), innermost content using key and value of every name in scope, for_each of z / v from a global or from the nearest iterator, Kx in {list,tuple} x Kz, Kv in {list,tuple,block,map with labels from outer and own iterator} x syntaxes. " +
			"(nest-marks) top = g; dynamic x over O { a; [dynamic z over I]; [static z]; [static s { c = x.key; dynamic z over I }]; static t { d } }; static y: O and I independently in {1 element, 2 elements, empty, unknown, marked A, marked B, marked A and B, unknown marked A, empty marked B} (thorough + maps, DynamicVal, lists of objects with I = x.value.kids) x nested dynamic block {directly in the content, inside the static child block s, both} x a in {constant, x.value} x b in {constant, template of x.key and z.value} x Kx in {list,tuple,set,block} x Kz in {list,block,set} x syntaxes. " +
			"(multilabel / nest-multilabel) block types with 2 and 3 labels decoded by BlockMapSpec / BlockObjectSpec with 2 / 3 LabelNames or a BlockListSpec with 2 / 3 BlockLabelSpecs: dynamic x with 5 (4) vectors of label expressions (constants, it.key, a template of it.key, it.value per position) over 11 collections (empty, list, map, set, marked, partly unknown, unknown list / map / set, DynamicVal, marked unknown) x 2 iterators x 2 content forms x every layout with 0-2 static siblings sharing the leading labels x syntaxes; the same dynamic z next to a static z inside a static x (list, block) or inside the blocks generated by a dynamic x, for_each of z in 6 collections. " +
			"(count / nest-count) BlockListSpec / BlockTupleSpec / BlockSetSpec with MinItems, MaxItems in {0,1,2}^2 (thorough {0..3}^2) decoding a dynamic block over {0, 1, 2 elements, map, unknown list / map / set, DynamicVal, marked unknown} and 0-2 static siblings in every order x 2 content forms x syntaxes, at the top level and (dynamic z) inside a static x or the blocks generated by a dynamic x. " +
			"Marks are compared exactly (cumulative marks of every leaf) with a write-out in which everything inside a block generated from a marked collection carries its marks; an unknown for_each is additionally compared with the README's write-out (one block, iterator key and value unknown): not more known than it, equal where known, no error where it decodes, no mark from elsewhere, the collection's marks present, of the implied type where that write-out's decoding is; where the one block fails only MinItems / MaxItems (it decodes once these are taken out of the spec) and 0, 2 or 3 blocks in its place decode with the real spec, no error either and the result refines that decoding. " +
			"Every case additionally: same expanded body decoded twice; expansion with context A, then B (same names, other values; compared with B's own write-out), then A again. distinct = distinct (shape, decoded value)",
		Assumptions: []string{
			"hclsyntax / json parsing, expression evaluation and go-cty are trusted; hcldec decoding of a static body is the subject of C08 and used on both sides",
			"iteration order and keys are those of go-cty (lists/tuples by index, maps/objects by sorted key, sets in go-cty's set order with key = value)",
			"for_each and labels see the enclosing iterators (labels also their own); an inner iterator of the same name hides the outer one and a global",
			"values are compared with RawEquals including marks; when a for_each collection is marked the write-out is decoded through a pass-through body that marks everything inside a block generated from a marked collection with that collection's marks (hcldec.MarkedBody for the block values, the attribute values directly), and a difference is tolerated only if value and cumulative marks of every leaf agree",
			"an unknown for_each stands for a single block whose iterator key and value are cty.DynamicVal (ext/dynblock/README.md); the real result may be unknown where that block's decoding is known, never the reverse",
			"an unknown for_each does not determine the number of blocks (README: 'the length of the collection may eventually be different than one'): an error that only states a number of blocks (MinItems / MaxItems of a block list / tuple / set spec) while some number of blocks in the place of the placeholder satisfies the spec is not a property of the configuration; other ways in which the single placeholder does not fit (second block of a BlockSpec, repeated label of a BlockMapSpec) are left unspecified",
		},
		Gen:   gen,
		Judge: judge,
		Load:  engine.LoadAs[Data],
		Extra: func() map[string]any {
			m := map[string]any{}
			for k, v := range counters.Snapshot() {
				m[k] = v
			}
			return m
		},
		QuickBudget:    15 * time.Minute,
		ThoroughBudget: 40 * time.Minute,
	})
}
