package main

// Reference side of the mark clauses of C18.
//
// refBody presents the parsed reference write-out to hcldec with the marks the
// write-out calls for: everything inside a block that was generated from a
// marked for_each collection (its attribute values and the value the block
// decodes to, at every depth) derives from that collection and carries its
// marks; nothing else gets any mark that it does not get from the variables
// it refers to. It is a plain pass-through body: it never looks at "dynamic"
// blocks (the write-out has none) and does not call ext/dynblock.
//
// compareDerived walks the value decoded from the real expansion and the one
// decoded from the write-out in parallel and compares, at every leaf, the
// value and the *cumulative* marks (marks of the leaf and of every value that
// contains it), so that only which values are marked with what counts, not at
// which level of the structure a mark happens to be attached.

import (
	"fmt"
	"sort"
	"strings"

	"github.com/hashicorp/hcl/v2"
	"github.com/hashicorp/hcl/v2/hclsyntax"
	"github.com/zclconf/go-cty/cty"

	sg "verif/gen/specgen"
	"verif/ref/refdec"
)

type refBody struct {
	inner hcl.Body
	marks map[*hclsyntax.Body]cty.ValueMarks
	own   cty.ValueMarks
}

// newRefBody aligns the parsed write-out (native syntax) with the abstract
// write-out it was rendered from (blocks are rendered in order) and returns
// the body that carries wo.BodyMarks.
func newRefBody(parsed hcl.Body, wo *refdec.WriteOut) (hcl.Body, error) {
	root, ok := parsed.(*hclsyntax.Body)
	if !ok {
		return nil, fmt.Errorf("write-out is not a native syntax body")
	}
	marks := map[*hclsyntax.Body]cty.ValueMarks{}
	var walk func(p *hclsyntax.Body, a *sg.Body) error
	walk = func(p *hclsyntax.Body, a *sg.Body) error {
		if len(p.Blocks) != len(a.Blocks) {
			return fmt.Errorf("write-out has %d blocks, its parse %d", len(a.Blocks), len(p.Blocks))
		}
		for i := range a.Blocks {
			if p.Blocks[i].Type != a.Blocks[i].Type {
				return fmt.Errorf("block %d is %q in the write-out, %q in its parse", i, a.Blocks[i].Type, p.Blocks[i].Type)
			}
			if m := wo.BodyMarks[a.Blocks[i].Body]; len(m) > 0 {
				marks[p.Blocks[i].Body] = m
			}
			if err := walk(p.Blocks[i].Body, a.Blocks[i].Body); err != nil {
				return err
			}
		}
		return nil
	}
	if err := walk(root, wo.Body); err != nil {
		return nil, err
	}
	return refBody{inner: root, marks: marks}, nil
}

func (b refBody) child(inner hcl.Body) hcl.Body {
	own := b.own
	if sb, ok := inner.(*hclsyntax.Body); ok {
		own = b.marks[sb]
	}
	return refBody{inner: inner, marks: b.marks, own: own}
}

func (b refBody) fix(c *hcl.BodyContent) *hcl.BodyContent {
	if c == nil {
		return nil
	}
	out := *c
	out.Attributes = b.fixAttrs(c.Attributes)
	out.Blocks = make(hcl.Blocks, len(c.Blocks))
	for i, bl := range c.Blocks {
		nb := *bl
		nb.Body = b.child(bl.Body)
		out.Blocks[i] = &nb
	}
	return &out
}

func (b refBody) fixAttrs(attrs hcl.Attributes) hcl.Attributes {
	if len(b.own) == 0 || attrs == nil {
		return attrs
	}
	out := make(hcl.Attributes, len(attrs))
	for name, a := range attrs {
		na := *a
		na.Expr = refExpr{Expression: a.Expr, marks: b.own}
		out[name] = &na
	}
	return out
}

func (b refBody) Content(schema *hcl.BodySchema) (*hcl.BodyContent, hcl.Diagnostics) {
	c, diags := b.inner.Content(schema)
	return b.fix(c), diags
}

func (b refBody) PartialContent(schema *hcl.BodySchema) (*hcl.BodyContent, hcl.Body, hcl.Diagnostics) {
	c, remain, diags := b.inner.PartialContent(schema)
	return b.fix(c), refBody{inner: remain, marks: b.marks, own: b.own}, diags
}

func (b refBody) JustAttributes() (hcl.Attributes, hcl.Diagnostics) {
	attrs, diags := b.inner.JustAttributes()
	return b.fixAttrs(attrs), diags
}

func (b refBody) MissingItemRange() hcl.Range { return b.inner.MissingItemRange() }

// hcldec.MarkedBody: "a value created from it ought to be marked"
func (b refBody) BodyValueMarks() cty.ValueMarks { return b.own }

type refExpr struct {
	hcl.Expression
	marks cty.ValueMarks
}

func (e refExpr) Value(ctx *hcl.EvalContext) (cty.Value, hcl.Diagnostics) {
	v, diags := e.Expression.Value(ctx)
	return v.WithMarks(e.marks), diags
}

func (e refExpr) UnwrapExpression() hcl.Expression { return e.Expression }

// ---------------------------------------------------------------------------

func markNames(m cty.ValueMarks) string {
	if len(m) == 0 {
		return "{}"
	}
	return "{" + refdec.MarksKey(m) + "}"
}

func union(a, b cty.ValueMarks) cty.ValueMarks {
	if len(b) == 0 {
		return a
	}
	out := make(cty.ValueMarks, len(a)+len(b))
	for k := range a {
		out[k] = struct{}{}
	}
	for k := range b {
		out[k] = struct{}{}
	}
	return out
}

func subset(a, b cty.ValueMarks) bool {
	for k := range a {
		if _, ok := b[k]; !ok {
			return false
		}
	}
	return true
}

func deepMarks(v cty.Value) cty.ValueMarks {
	_, pvm := v.UnmarkDeepWithPaths()
	out := cty.ValueMarks{}
	for _, p := range pvm {
		for k := range p.Marks {
			out[k] = struct{}{}
		}
	}
	return out
}

// difference found by compareDerived
type derivedDiff struct {
	// kind: value | extra-marks | missing-marks | known-where-writeout-unknown | unknown-where-writeout-known
	kind string
	path string
	msg  string
}

// compareDerived compares got (real expansion) with want (write-out).
// allowSummary: got may be unknown where want is known (an unknown for_each
// makes "the affected part" unknown, how much of it is not specified); such a
// value must not carry a mark that nothing in the corresponding part of want
// carries.
func compareDerived(got, want cty.Value, allowSummary bool) *derivedDiff {
	var diff *derivedDiff
	fail := func(kind string, path []string, format string, args ...any) {
		if diff == nil {
			diff = &derivedDiff{kind: kind, path: "/" + strings.Join(path, "/"), msg: fmt.Sprintf(format, args...)}
		}
	}
	marksAt := func(path []string, gm, wm cty.ValueMarks) {
		if !subset(gm, wm) {
			fail("extra-marks", path, "carries %s, the written-out value %s", markNames(gm), markNames(wm))
		} else if !subset(wm, gm) {
			fail("missing-marks", path, "carries %s, the written-out value %s", markNames(gm), markNames(wm))
		}
	}
	var walk func(g, w cty.Value, gm, wm cty.ValueMarks, path []string)
	walk = func(g, w cty.Value, gm, wm cty.ValueMarks, path []string) {
		if diff != nil {
			return
		}
		g, m1 := g.Unmark()
		w, m2 := w.Unmark()
		gm, wm = union(gm, m1), union(wm, m2)
		switch {
		case !g.IsKnown() && !w.IsKnown():
			if !g.Type().Equals(w.Type()) && !allowSummary {
				fail("value", path, "is unknown of type %s, the written-out value of type %s", g.Type().FriendlyName(), w.Type().FriendlyName())
			}
			marksAt(path, gm, wm)
			return
		case !g.IsKnown():
			if !allowSummary {
				fail("unknown-where-writeout-known", path, "is unknown, the written-out value is known")
				return
			}
			// summary of a part of the write-out: no mark from nowhere
			if all := union(wm, deepMarks(w)); !subset(gm, all) {
				fail("extra-marks", path, "is unknown and carries %s, the written-out part only %s", markNames(gm), markNames(all))
			}
			return
		case !w.IsKnown():
			fail("known-where-writeout-unknown", path, "is known, the written-out value is unknown")
			return
		}
		if g.IsNull() || w.IsNull() {
			if !(g.IsNull() && w.IsNull()) {
				fail("value", path, "null-ness differs")
				return
			}
			marksAt(path, gm, wm)
			return
		}
		gt, wt := g.Type(), w.Type()
		switch {
		case (gt.IsListType() && wt.IsListType()) || (gt.IsTupleType() && wt.IsTupleType()):
			if g.LengthInt() != w.LengthInt() {
				fail("value", path, "has %d elements, the written-out value %d", g.LengthInt(), w.LengthInt())
				return
			}
			if g.LengthInt() == 0 {
				marksAt(path, gm, wm)
				return
			}
			gs, ws := g.AsValueSlice(), w.AsValueSlice()
			for i := range gs {
				walk(gs[i], ws[i], gm, wm, append(path[:len(path):len(path)], fmt.Sprint(i)))
			}
		case (gt.IsMapType() && wt.IsMapType()) || (gt.IsObjectType() && wt.IsObjectType()):
			gmap, wmap := g.AsValueMap(), w.AsValueMap()
			if len(gmap) != len(wmap) {
				fail("value", path, "has %d elements, the written-out value %d", len(gmap), len(wmap))
				return
			}
			if len(gmap) == 0 {
				marksAt(path, gm, wm)
				return
			}
			keys := make([]string, 0, len(gmap))
			for k := range gmap {
				keys = append(keys, k)
			}
			sort.Strings(keys)
			for _, k := range keys {
				wv, ok := wmap[k]
				if !ok {
					fail("value", path, "has the key %q, the written-out value has not", k)
					return
				}
				walk(gmap[k], wv, gm, wm, append(path[:len(path):len(path)], k))
			}
		case gt.IsSetType() && wt.IsSetType():
			// the elements of a set carry no marks of their own (go-cty moves them to the set)
			if !g.RawEquals(w) {
				if allowSummary && !g.IsWhollyKnown() {
					if all := union(wm, deepMarks(w)); !subset(gm, all) {
						fail("extra-marks", path, "carries %s, the written-out set only %s", markNames(gm), markNames(all))
					}
					return
				}
				fail("value", path, "set differs from the written-out set")
				return
			}
			marksAt(path, gm, wm)
		default:
			if !g.RawEquals(w) {
				fail("value", path, "differs")
				return
			}
			marksAt(path, gm, wm)
		}
	}
	walk(got, want, nil, nil, nil)
	return diff
}
