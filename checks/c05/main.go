// C05 — Evaluation with unknown values soundly approximates every concrete evaluation.
//
// For every AST of the expression families, every variable it refers to is
// abstracted (one at a time, and all at once) to a typed unknown, a refined
// unknown, or the dynamic value; the abstract result is compared with the
// result of every concrete instantiation under the approximation relation of
// DESIGN.md Appendix B. Conversely an error-free evaluation in the all-known
// scope must be wholly known.
package main

import (
	"fmt"
	"strings"
	"time"

	"github.com/hashicorp/hcl/v2"
	"github.com/hashicorp/hcl/v2/hclsyntax"
	"github.com/zclconf/go-cty/cty"
	"github.com/zclconf/go-cty/cty/convert"

	"verif/engine"
	ex "verif/gen/expr"
	"verif/gen/fam"
	"verif/gen/pool"
	"verif/vfmt"
)

type Data struct {
	Family string `json:"family"`
	E      *ex.E  `json:"e"`
	Src    string `json:"src"`
}

var counters engine.Counter

func gen(tier string, emit func(engine.Case) bool) {
	fam.All(fam.Opts{Thorough: tier == "thorough"}, func(family, id string, e *ex.E) bool {
		return emit(engine.Case{ID: id, Data: Data{Family: family, E: e, Src: ex.Canon(e)}})
	})
}

func parse(e *ex.E) hclsyntax.Expression {
	src := ex.Canon(e)
	var expr hclsyntax.Expression
	var diags hcl.Diagnostics
	if e.K == "tmpl" && e.Form == "b" {
		expr, diags = hclsyntax.ParseTemplate([]byte(src), "t.hcl", hcl.InitialPos)
	} else {
		expr, diags = hclsyntax.ParseExpression([]byte(src), "t.hcl", hcl.InitialPos)
	}
	if diags.HasErrors() {
		return nil
	}
	return expr
}

// instances: the concrete contents considered for a variable (same type).
func instances(name string) []cty.Value {
	orig := pool.Vars[name]
	out := []cty.Value{orig}
	out = append(out, pool.Alternatives(name)...)
	if !orig.IsNull() && orig.Type() != cty.DynamicPseudoType {
		out = append(out, cty.NullVal(orig.Type()))
	}
	// the same value with another first element / attribute a
	if _, ety, ok := withFirstUnknown(orig); ok {
		var repl []cty.Value
		switch {
		case ety == cty.Number:
			repl = []cty.Value{cty.NumberIntVal(9), cty.NumberIntVal(0)}
		case ety == cty.String:
			repl = []cty.Value{cty.StringVal("q"), cty.StringVal("b")}
		case ety == cty.Bool:
			repl = []cty.Value{cty.False, cty.True}
		case ety.IsObjectType() && ety.HasAttribute("a") && ety.AttributeType("a") == cty.Number:
			for _, n := range []int64{9, 0} {
				m := map[string]cty.Value{}
				first := firstOf(orig)
				for k, v := range first.AsValueMap() {
					m[k] = v
				}
				m["a"] = cty.NumberIntVal(n)
				repl = append(repl, cty.ObjectVal(m))
			}
		}
		for _, r := range repl {
			if nv, ok := replaceFirst(orig, r); ok {
				out = append(out, nv)
			}
		}
	}
	return out
}

func firstOf(v cty.Value) cty.Value {
	ty := v.Type()
	if ty.IsListType() || ty.IsTupleType() {
		return v.AsValueSlice()[0]
	}
	return v.AsValueMap()["a"]
}

func replaceFirst(v, r cty.Value) (cty.Value, bool) {
	defer func() { recover() }()
	ty := v.Type()
	switch {
	case ty.IsListType() || ty.IsTupleType():
		els := v.AsValueSlice()
		if !els[0].Type().Equals(r.Type()) {
			return v, false
		}
		els[0] = r
		if ty.IsListType() {
			return cty.ListVal(els), true
		}
		return cty.TupleVal(els), true
	case ty.IsMapType() || ty.IsObjectType():
		m := v.AsValueMap()
		if !m["a"].Type().Equals(r.Type()) {
			return v, false
		}
		m["a"] = r
		if ty.IsMapType() {
			return cty.MapVal(m), true
		}
		return cty.ObjectVal(m), true
	}
	return v, false
}

type abstraction struct {
	desc  string
	val   cty.Value
	admit func(c cty.Value) bool // which instances the abstraction describes
}

func numLE(a, b cty.Value) bool { return a.LessThanOrEqualTo(b).True() }

// withFirstUnknown replaces the first element (list/tuple) or the attribute /
// key "a" (object/map) of a known collection by an unknown of its type.
func withFirstUnknown(v cty.Value) (cty.Value, cty.Type, bool) {
	if v.IsNull() || !v.IsKnown() {
		return v, cty.NilType, false
	}
	ty := v.Type()
	switch {
	case ty.IsListType() || ty.IsTupleType():
		if v.LengthInt() == 0 {
			return v, cty.NilType, false
		}
		els := v.AsValueSlice()
		et := els[0].Type()
		els[0] = cty.UnknownVal(et)
		if ty.IsListType() {
			return cty.ListVal(els), et, true
		}
		return cty.TupleVal(els), et, true
	case ty.IsMapType() || ty.IsObjectType():
		m := v.AsValueMap()
		e, ok := m["a"]
		if !ok {
			return v, cty.NilType, false
		}
		m["a"] = cty.UnknownVal(e.Type())
		if ty.IsMapType() {
			return cty.MapVal(m), e.Type(), true
		}
		return cty.ObjectVal(m), e.Type(), true
	}
	return v, cty.NilType, false
}

// sameButFirst: c has orig's type and differs from it at most in the first element / attribute a.
func sameButFirst(orig, c cty.Value) bool {
	if c.IsNull() || !c.IsKnown() || !c.Type().Equals(orig.Type()) {
		return false
	}
	ty := orig.Type()
	switch {
	case ty.IsListType() || ty.IsTupleType():
		if c.LengthInt() != orig.LengthInt() {
			return false
		}
		a, b := orig.AsValueSlice(), c.AsValueSlice()
		for i := 1; i < len(a); i++ {
			if !a[i].RawEquals(b[i]) {
				return false
			}
		}
		return true
	case ty.IsMapType() || ty.IsObjectType():
		a, b := orig.AsValueMap(), c.AsValueMap()
		if len(a) != len(b) {
			return false
		}
		for k, av := range a {
			if k == "a" {
				continue
			}
			bv, ok := b[k]
			if !ok || !av.RawEquals(bv) {
				return false
			}
		}
		_, ok := b["a"]
		return ok
	}
	return false
}

func abstractions(name string) []abstraction {
	orig := pool.Vars[name]
	ty := orig.Type()
	all := func(cty.Value) bool { return true }
	notNull := func(c cty.Value) bool { return !c.IsNull() }
	out := []abstraction{{"dynamic value", cty.DynamicVal, all}}
	if ty == cty.DynamicPseudoType {
		return out
	}
	out = append(out,
		abstraction{"typed unknown", cty.UnknownVal(ty), all},
		abstraction{"unknown refined not-null", cty.UnknownVal(ty).RefineNotNull(), notNull},
	)
	if orig.IsNull() {
		return out
	}
	switch {
	case ty == cty.String:
		if s := orig.AsString(); s != "" {
			p := s[:1]
			out = append(out, abstraction{fmt.Sprintf("unknown string with prefix %q", p), cty.UnknownVal(ty).Refine().NotNull().StringPrefixFull(p).NewValue(),
				func(c cty.Value) bool { return !c.IsNull() && strings.HasPrefix(c.AsString(), p) }})
		}
	case ty == cty.Number:
		out = append(out,
			abstraction{"unknown number >= " + vfmt.V(orig), cty.UnknownVal(ty).Refine().NotNull().NumberRangeLowerBound(orig, true).NewValue(),
				func(c cty.Value) bool { return !c.IsNull() && numLE(orig, c) }},
			abstraction{"unknown number > " + vfmt.V(orig) + "-1", cty.UnknownVal(ty).Refine().NotNull().NumberRangeLowerBound(orig.Subtract(cty.NumberIntVal(1)), false).NewValue(),
				func(c cty.Value) bool { return !c.IsNull() && c.GreaterThan(orig.Subtract(cty.NumberIntVal(1))).True() }},
			abstraction{"unknown number < " + vfmt.V(orig) + "+1, > -100", cty.UnknownVal(ty).Refine().NotNull().NumberRangeUpperBound(orig.Add(cty.NumberIntVal(1)), false).NumberRangeLowerBound(cty.NumberIntVal(-100), false).NewValue(),
				func(c cty.Value) bool { return !c.IsNull() && c.LessThan(orig.Add(cty.NumberIntVal(1))).True() }},
			// an inclusive upper bound that the pool value itself attains, no lower bound
			abstraction{"unknown number <= " + vfmt.V(orig), cty.UnknownVal(ty).Refine().NotNull().NumberRangeUpperBound(orig, true).NewValue(),
				func(c cty.Value) bool { return !c.IsNull() && numLE(c, orig) }},
			// both bounds, attained below and not above
			abstraction{"unknown number >= " + vfmt.V(orig) + ", < " + vfmt.V(orig) + "+2", cty.UnknownVal(ty).Refine().NotNull().NumberRangeLowerBound(orig, true).NumberRangeUpperBound(orig.Add(cty.NumberIntVal(2)), false).NewValue(),
				func(c cty.Value) bool { return !c.IsNull() && numLE(orig, c) && c.LessThan(orig.Add(cty.NumberIntVal(2))).True() }},
		)
	}
	// part of the value unknown: the first element / the attribute "a" (the rest stays known)
	if pv, ety, ok := withFirstUnknown(orig); ok {
		out = append(out, abstraction{"first element / attribute a unknown (" + ety.FriendlyName() + ")", pv,
			func(c cty.Value) bool { return sameButFirst(orig, c) }})
	}
	switch {
	case ty.IsCollectionType():
		n := orig.LengthInt()
		out = append(out,
			abstraction{fmt.Sprintf("unknown collection of length exactly %d", n), cty.UnknownVal(ty).Refine().NotNull().CollectionLength(n).NewValue(),
				func(c cty.Value) bool { return !c.IsNull() && c.LengthInt() == n }},
			abstraction{"unknown collection of length >= 1", cty.UnknownVal(ty).Refine().NotNull().CollectionLengthLowerBound(1).NewValue(),
				func(c cty.Value) bool { return !c.IsNull() && c.LengthInt() >= 1 }},
			abstraction{"unknown collection of length <= 2", cty.UnknownVal(ty).Refine().NotNull().CollectionLengthUpperBound(2).NewValue(),
				func(c cty.Value) bool { return !c.IsNull() && c.LengthInt() <= 2 }},
		)
	}
	return out
}

// approx implements the relation of Appendix B; returns "" when it holds.
func approx(a, c cty.Value) (clause, why string) {
	a, _ = a.UnmarkDeep()
	c, _ = c.UnmarkDeep()
	a2, err := convert.Convert(a, c.Type())
	if err != nil {
		return "type", fmt.Sprintf("abstract result %s does not convert to the concrete result's type %s: %s", vfmt.V(a), c.Type().FriendlyName(), err)
	}
	return rel(a2, c, "")
}

func rel(a, c cty.Value, path string) (string, string) {
	at := func(s string) string {
		if path == "" {
			return s
		}
		return "at " + path + ": " + s
	}
	if !a.IsKnown() {
		ty := a.Type()
		if ty == cty.DynamicPseudoType {
			return "", ""
		}
		if !ty.Equals(c.Type()) && !c.Type().HasDynamicTypes() && !ty.HasDynamicTypes() {
			return "type", at(fmt.Sprintf("unknown of type %s but the concrete part has type %s", ty.FriendlyName(), c.Type().FriendlyName()))
		}
		r := a.Range()
		if r.DefinitelyNotNull() && c.IsNull() {
			return "refinement-notnull", at("refined as not null but the concrete part is null")
		}
		if c.IsNull() || !c.IsKnown() {
			return "", ""
		}
		switch {
		case ty == cty.String:
			if p := r.StringPrefix(); p != "" && !strings.HasPrefix(c.AsString(), p) {
				return "refinement-prefix", at(fmt.Sprintf("refined with prefix %q but the concrete part is %s", p, vfmt.V(c)))
			}
		case ty == cty.Number:
			lo, loInc := r.NumberLowerBound()
			hi, hiInc := r.NumberUpperBound()
			if lo.IsKnown() && !lo.IsNull() && !lo.RawEquals(cty.NegativeInfinity) {
				if (loInc && c.LessThan(lo).True()) || (!loInc && c.LessThanOrEqualTo(lo).True()) {
					return "refinement-number-bound", at(fmt.Sprintf("refined with lower bound %s (inclusive=%v) but the concrete part is %s", vfmt.V(lo), loInc, vfmt.V(c)))
				}
			}
			if hi.IsKnown() && !hi.IsNull() && !hi.RawEquals(cty.PositiveInfinity) {
				if (hiInc && c.GreaterThan(hi).True()) || (!hiInc && c.GreaterThanOrEqualTo(hi).True()) {
					return "refinement-number-bound", at(fmt.Sprintf("refined with upper bound %s (inclusive=%v) but the concrete part is %s", vfmt.V(hi), hiInc, vfmt.V(c)))
				}
			}
		case ty.IsCollectionType():
			n := c.LengthInt()
			if n < r.LengthLowerBound() || n > r.LengthUpperBound() {
				return "refinement-length", at(fmt.Sprintf("refined with length %d..%d but the concrete part has length %d", r.LengthLowerBound(), r.LengthUpperBound(), n))
			}
		}
		return "", ""
	}
	if a.IsNull() {
		if !c.IsNull() {
			return "known-part", at(fmt.Sprintf("known null but the concrete part is %s", vfmt.V(c)))
		}
		return "", ""
	}
	if c.IsNull() {
		return "known-part", at(fmt.Sprintf("known %s but the concrete part is null", vfmt.V(a)))
	}
	ty := a.Type()
	switch {
	case ty.IsPrimitiveType():
		if !a.RawEquals(c) {
			return "known-part", at(fmt.Sprintf("known %s but the concrete part is %s", vfmt.V(a), vfmt.V(c)))
		}
	case ty.IsListType() || ty.IsTupleType():
		if a.LengthInt() != c.LengthInt() {
			return "known-part", at(fmt.Sprintf("known sequence of length %d but the concrete part has length %d", a.LengthInt(), c.LengthInt()))
		}
		as, cs := a.AsValueSlice(), c.AsValueSlice()
		for i := range as {
			if cl, w := rel(as[i], cs[i], fmt.Sprintf("%s[%d]", path, i)); cl != "" {
				return cl, w
			}
		}
	case ty.IsMapType() || ty.IsObjectType():
		am, cm := a.AsValueMap(), c.AsValueMap()
		if len(am) != len(cm) {
			return "known-part", at(fmt.Sprintf("known mapping with %d keys but the concrete part has %d", len(am), len(cm)))
		}
		for k, av := range am {
			cv, ok := cm[k]
			if !ok {
				return "known-part", at(fmt.Sprintf("known mapping has key %q which the concrete part lacks", k))
			}
			if cl, w := rel(av, cv, path+"."+k); cl != "" {
				return cl, w
			}
		}
	case ty.IsSetType():
		if a.IsWhollyKnown() && c.IsWhollyKnown() && !a.RawEquals(c) {
			return "known-part", at(fmt.Sprintf("known set %s but the concrete part is %s", vfmt.V(a), vfmt.V(c)))
		}
	}
	return "", ""
}

func kindOf(e *ex.E) string {
	switch e.K {
	case "bin", "un":
		return e.K + "(" + e.S + ")"
	case "tmpl":
		return "tmpl"
	case "splat":
		if e.Full {
			return "fullsplat"
		}
		return "attrsplat"
	case "for":
		if e.Obj {
			return "forobj"
		}
		return "fortuple"
	}
	return e.K
}

type finding struct {
	clause, detail string
}

// check runs all abstractions of one variable (or of all at once when name == "*").
func check(expr hclsyntax.Expression, e *ex.E, name string) (f *finding, pairs int) {
	fns := pool.ImplFuncs()
	type absRun struct {
		ab abstraction
		v  cty.Value
	}
	for _, ab := range abstractions(name) {
		av, ad := expr.Value(&hcl.EvalContext{Variables: pool.WithVar(name, ab.val), Functions: fns})
		if ad.HasErrors() {
			continue
		}
		for _, inst := range instances(name) {
			if !ab.admit(inst) {
				continue
			}
			cv, cd := expr.Value(&hcl.EvalContext{Variables: pool.WithVar(name, inst), Functions: fns})
			if cd.HasErrors() {
				continue
			}
			pairs++
			if cl, why := approx(av, cv); cl != "" {
				return &finding{cl, fmt.Sprintf("variable %s abstracted to %s (%s):\n  abstract result: %s\n  %s = %s gives:  %s\n  %s", name, vfmt.V(ab.val), ab.desc, vfmt.V(av), name, vfmt.V(inst), vfmt.V(cv), why)}, pairs
			}
		}
	}
	return nil, pairs
}

func judge(c engine.Case) engine.Outcome {
	d := c.Data.(Data)
	expr := parse(d.E)
	if expr == nil {
		return engine.Skip()
	}
	fns := pool.ImplFuncs()
	// converse: no unknown in scope => never an unknown result
	base, bd := expr.Value(&hcl.EvalContext{Variables: pool.Vars, Functions: fns})
	if !bd.HasErrors() && !base.IsWhollyKnown() {
		return engine.Fail("c05."+kindOf(d.E)+".unknown-from-known", "source: %s\nerror-free evaluation in a scope without unknown values produced %s", d.Src, vfmt.V(base))
	}
	total := 0
	vars := pool.FreeVars(d.E)
	for _, name := range vars {
		f, pairs := check(expr, d.E, name)
		total += pairs
		if f == nil {
			continue
		}
		// localise to the deepest closed sub-expression with the same clause
		cur := d.E
		for {
			found := false
			for _, slot := range cur.Children() {
				sub := *slot
				if !pool.Closed(sub) {
					continue
				}
				se := parse(sub)
				if se == nil {
					continue
				}
				if f2, _ := check(se, sub, name); f2 != nil && f2.clause == f.clause {
					cur, f, found = sub, f2, true
					break
				}
			}
			if !found {
				break
			}
		}
		return engine.Fail("c05."+kindOf(cur)+"."+f.clause, "source: %s\nminimal sub-expression: %s\n%s", d.Src, ex.Canon(cur), f.detail)
	}
	// two variables abstracted at once: one as a plain typed unknown, the other with every abstraction
	if len(vars) >= 2 && len(vars) <= 3 && d.E.Size() <= 7 {
		for _, v1 := range vars {
			t1 := pool.Vars[v1].Type()
			if t1 == cty.DynamicPseudoType {
				continue
			}
			for _, v2 := range vars {
				if v1 == v2 {
					continue
				}
				for _, ab := range abstractions(v2) {
					m := pool.WithVar(v1, cty.UnknownVal(t1))
					m[v2] = ab.val
					av, ad := expr.Value(&hcl.EvalContext{Variables: m, Functions: fns})
					if ad.HasErrors() {
						continue
					}
					for _, i1 := range instances(v1) {
						for _, i2 := range instances(v2) {
							if !ab.admit(i2) {
								continue
							}
							cm := pool.WithVar(v1, i1)
							cm[v2] = i2
							cv, cd := expr.Value(&hcl.EvalContext{Variables: cm, Functions: fns})
							if cd.HasErrors() {
								continue
							}
							total++
							if cl, why := approx(av, cv); cl != "" {
								return engine.Fail("c05."+kindOf(d.E)+".two-unknowns."+cl, "source: %s\n%s = %s and %s abstracted to %s (%s):\n  abstract result: %s\n  %s = %s, %s = %s gives: %s\n  %s",
									d.Src, v1, vfmt.V(cty.UnknownVal(t1)), v2, vfmt.V(ab.val), ab.desc, vfmt.V(av), v1, vfmt.V(i1), v2, vfmt.V(i2), vfmt.V(cv), why)
							}
						}
					}
				}
			}
		}
	}
	// all variables unknown at once (typed unknowns), against the all-known run
	if len(vars) > 1 && !bd.HasErrors() {
		m := map[string]cty.Value{}
		for k, v := range pool.Vars {
			m[k] = v
		}
		for _, n := range vars {
			if t := pool.Vars[n].Type(); t != cty.DynamicPseudoType {
				m[n] = cty.UnknownVal(t)
			} else {
				m[n] = cty.DynamicVal
			}
		}
		av, ad := expr.Value(&hcl.EvalContext{Variables: m, Functions: fns})
		if !ad.HasErrors() {
			total++
			if cl, why := approx(av, base); cl != "" {
				return engine.Fail("c05."+kindOf(d.E)+".all-unknown."+cl, "source: %s\nall of %v unknown:\n  abstract result: %s\n  concrete result: %s\n  %s", d.Src, vars, vfmt.V(av), vfmt.V(base), why)
			}
		}
	}
	counters.Add("abstract_concrete_pairs", int64(total))
	if total == 0 {
		return engine.Pass("")
	}
	return engine.Pass(kindOf(d.E) + ":" + strings.Join(vars, ",") + ":" + fmt.Sprint(total))
}

func main() {
	engine.Main(&engine.Check{
		ID:        "C05",
		Title:     "Evaluation with unknown values soundly approximates every concrete evaluation",
		Technique: "bounded exhaustive two-run refinement check (abstract vs every concrete instantiation) over expression ASTs x abstracted variable x abstraction kind, on the real evaluator",
		Rule: "every AST of the expression families x every variable it refers to (one at a time; plus all at once) x abstractions {dynamic value, typed unknown, not-null, string prefix, numeric lower / upper bounds, collection length exact / lower / upper bound} x every concrete instantiation admitted by the abstraction (pool value, same-type alternatives, typed null). " +
			"Oracle: the approximation relation of DESIGN.md Appendix B between the abstract and each concrete error-free result; and an all-known error-free evaluation is wholly known. Non-trivial = at least one (abstract, concrete) error-free pair; distinct = distinct (construct, variables, pairs).",
		Assumptions: []string{"go-cty refinement accessors (Range) and conversion are trusted", "pairs in which either run reports an error are outside the property's antecedent"},
		Gen:         gen,
		Judge:       judge,
		Load:        engine.LoadAs[Data],
		Extra: func() map[string]any {
			m := map[string]any{}
			for k, v := range counters.Snapshot() {
				m[k] = v
			}
			return m
		},
		QuickBudget:    6 * time.Minute,
		ThoroughBudget: 45 * time.Minute,
	})
}
