// C11 — Generated source reads back as the value it was generated from.
//
// Bounded exhaustive enumeration of constant values (all strings up to a
// length over an escape-relevant rune alphabet, in every position a string can
// take; a table of numbers; typed nulls; collections and structures nested to
// depth 2 over a key alphabet with keywords and non-identifiers), traversals
// (all step sequences up to a length) and block label lists, each pushed
// through the real hclwrite generator (TokensForValue, TokensForTraversal,
// SetAttributeValue, SetAttributeTraversal, NewBlock/AppendNewBlock/SetLabels)
// and read back with the real native parser and evaluator. The oracle is the
// round-trip relation of the property statement; no reference model of the
// escaping is needed because the expected result is the input itself.
//
// Two further dimensions: size (nesting depth and token length, enumerated
// over one-dimensional ranges that cross the power-of-two boundaries) and
// two-step label sequences (construct with l1, SetLabels(l2), read back l2);
// and two-step generation histories (generate, edit, generate again: both
// results read back as their own state, see history.go).
package main

import (
	"fmt"
	"runtime/debug"
	"strings"
	"sync/atomic"
	"time"

	"github.com/hashicorp/hcl/v2"
	"github.com/hashicorp/hcl/v2/hclsyntax"
	"github.com/hashicorp/hcl/v2/hclwrite"
	"github.com/zclconf/go-cty/cty"

	"verif/engine"
)

type Data struct {
	Mode string `json:"mode"` // "value" | "labels" (read back with hclsyntax) | "labels-constructed" (Block.Labels() in memory) | "labels-hclwrite" (hclwrite.ParseConfig + Labels()) | "labels2", "labels2-constructed", "labels2-hclwrite" (two-step: Labels, then SetLabels(Labels2)) | "trav"
	// value; Name, if set, is the attribute name used for the SetAttributeValue path instead of "x"
	V    *VD    `json:"v,omitempty"`
	Name string `json:"name,omitempty"`
	// labels
	BlockType string   `json:"block_type,omitempty"`
	Labels    []string `json:"labels,omitempty"`
	Labels2   []string `json:"labels2,omitempty"`
	// trav: Root == "" means a relative traversal
	Root  string `json:"root,omitempty"`
	Steps []Step `json:"steps,omitempty"`
	// hist (two-step generation history, see history.go): Op is the edit made
	// between the two generations; state 1 uses V / Labels / BlockType /
	// Root+Steps, the edit uses V2 / Labels2 / BlockType2 / Root2+Steps2
	Op         string `json:"op,omitempty"`
	V2         *VD    `json:"v2,omitempty"`
	BlockType2 string `json:"block_type2,omitempty"`
	Root2      string `json:"root2,omitempty"`
	Steps2     []Step `json:"steps2,omitempty"`
}

// counters: lock-free named counters (the key set is fixed up front, so the
// map is read-only while the 16 judges run).
type counterSet struct{ m map[string]*atomic.Int64 }

func newCounterSet(keys ...string) *counterSet {
	c := &counterSet{m: map[string]*atomic.Int64{}}
	for _, k := range keys {
		c.m[k] = new(atomic.Int64)
	}
	return c
}

func (c *counterSet) Add(k string, n int64) {
	if a := c.m[k]; a != nil {
		a.Add(n)
		return
	}
	c.m["harness_unknown_counter"].Add(n)
}

func (c *counterSet) Snapshot() map[string]int64 {
	out := map[string]int64{}
	for k, a := range c.m {
		out[k] = a.Load()
	}
	return out
}

var counters = newCounterSet(
	"harness_unknown_counter", "harness_unknown_mode", "harness_build_error", "harness_scope_unbuildable", "harness_scope_mismatch",
	"heredoc_generated", "unspecified_number_beyond_512_bits", "values_read_back",
	"label_lists_read_back_hclsyntax", "label_lists_read_back_constructed", "label_lists_read_back_hclwrite",
	"label_replacements_read_back_hclsyntax", "label_replacements_read_back_constructed", "label_replacements_read_back_hclwrite",
	"values_nested_deeper_than_32", "values_nested_deeper_than_64", "values_with_token_over_4096_bytes", "labels_or_steps_over_4096_bytes",
	"generation_histories_read_back",
	"traversals_negative_number_key_checked_by_evaluation_only", "traversals_read_back_statically_and_by_evaluation",
)

// ---- judge ------------------------------------------------------------

func judge(c engine.Case) engine.Outcome {
	d := c.Data.(Data)
	switch d.Mode {
	case "value":
		return judgeValue(d)
	case "labels":
		return judgeLabels(d, "hclsyntax")
	case "labels-constructed":
		return judgeLabels(d, "constructed")
	case "labels-hclwrite":
		return judgeLabels(d, "hclwrite")
	case "labels2":
		return judgeLabels2(d, "hclsyntax")
	case "labels2-constructed":
		return judgeLabels2(d, "constructed")
	case "labels2-hclwrite":
		return judgeLabels2(d, "hclwrite")
	case "trav":
		return judgeTrav(d)
	case "hist":
		return judgeHistory(d)
	}
	counters.Add("harness_unknown_mode", 1)
	return engine.Skip()
}

func judgeValue(d Data) engine.Outcome {
	if d.V == nil {
		counters.Add("harness_build_error", 1)
		return engine.Skip()
	}
	v, unspecNum, err := build(*d.V)
	if err != nil {
		counters.Add("harness_build_error", 1)
		return engine.Skip()
	}
	sig, f, un1 := checkTokens(v, unspecNum)
	if f != nil {
		return engine.Fail("c11."+classify(tokensChecker, v, f), "%s", f.detail)
	}
	af, un2 := checkAttr(v, unspecNum, d.Name)
	if af != nil {
		if d.Name != "" && d.Name != "x" {
			// about the attribute name, unless the value fails under the name x too
			if f2 := tryCheck(attrChecker, v); f2 == nil {
				small := smallestFailingIdent(d.Name, func(sub string) bool {
					return tryCheck(func(w cty.Value) *failure { f, _ := checkAttr(w, false, sub); return f }, v) != nil
				})
				return engine.Fail("c11."+af.clause+".attribute-name."+stringFeatures(small)+tokenSizeSuffix(len(small)), "attribute name %s: %s", abbrev(d.Name), af.detail)
			}
		}
		return engine.Fail("c11."+classify(attrChecker, v, af), "%s", af.detail)
	}
	if un1 || un2 {
		counters.Add("unspecified_number_beyond_512_bits", 1)
		return engine.Skip()
	}
	counters.Add("values_read_back", 1)
	if dp := nestingDepth(v); dp > 64 {
		counters.Add("values_nested_deeper_than_64", 1)
	} else if dp > 32 {
		counters.Add("values_nested_deeper_than_32", 1)
	}
	if maxTokenLen(v) > 4096 || len(d.Name) > 4096 {
		counters.Add("values_with_token_over_4096_bytes", 1)
	}
	if d.Name != "" {
		sig += " as " + abbrev(d.Name)
	}
	return engine.Pass("v:" + sig)
}

var labelPaths = []string{"NewBlock", "AppendNewBlock", "SetLabels", "SetLabelsFromNone"}

// oneStepLabels checks one label list through every construction path; class
// is "" when everything reads back, otherwise the class of the first failing
// path, narrowed to the smallest label that fails on its own.
func oneStepLabels(reader, typeName string, labels []string) (sig, class, detail string) {
	for i, p := range labelPaths {
		s, cl, det := checkLabelsOnce(reader, p, typeName, labels)
		if cl != "" {
			cl = narrowLabelClass(reader, p, typeName, labels, cl)
			if i > 0 {
				cl += ".via-" + p
			}
			return "", cl, det
		}
		if i == 0 {
			sig = s
		}
	}
	return sig, "", ""
}

func longest(ss ...string) int {
	m := 0
	for _, s := range ss {
		if len(s) > m {
			m = len(s)
		}
	}
	return m
}

func judgeLabels(d Data, reader string) engine.Outcome {
	typeName := d.BlockType
	if typeName == "" {
		typeName = "blk"
	}
	sig, class, detail := oneStepLabels(reader, typeName, d.Labels)
	if class != "" {
		return engine.Fail(class, "%s", detail)
	}
	counters.Add("label_lists_read_back_"+reader, 1)
	if longest(append([]string{typeName}, d.Labels...)...) > 4096 {
		counters.Add("labels_or_steps_over_4096_bytes", 1)
	}
	return engine.Pass("l:" + reader + ":" + clipSig(sig))
}

// clipSig keeps signatures of long generated sources short but distinct.
func clipSig(s string) string {
	if len(s) <= 200 {
		return s
	}
	return abbrev(s)
}

// judgeLabels2: a block constructed with Labels, then SetLabels(Labels2),
// reads back as Labels2. A failure that the final label list shows on its own
// in one step is the one-step failure (same class); anything else is a
// failure of the replacement and gets a "replace." class.
func judgeLabels2(d Data, reader string) engine.Outcome {
	typeName := d.BlockType
	if typeName == "" {
		typeName = "blk"
	}
	sig := ""
	for i, p := range label2Paths {
		s, class, detail := checkLabels2Once(reader, p, typeName, d.Labels, d.Labels2)
		if class != "" {
			if _, c1, _ := oneStepLabels(reader, typeName, d.Labels2); c1 != "" {
				return engine.Fail(c1, "%s", detail)
			}
			class = narrowLabel2Class(reader, p, typeName, d.Labels, d.Labels2, class)
			if i > 0 {
				class += ".via-" + p
			}
			return engine.Fail(class, "%s", detail)
		}
		if i == 0 {
			sig = s
		}
	}
	counters.Add("label_replacements_read_back_"+reader, 1)
	return engine.Pass("l2:" + reader + ":" + abbrevList(d.Labels) + ">" + clipSig(sig))
}

// narrowLabel2Class names a failing replacement after the smallest pair of
// label lists that fails in the same way: one label of each list, then parts
// of the two labels (shortest total first).
func narrowLabel2Class(reader, path, typeName string, first, second []string, class string) string {
	try := func(a, b []string) (cl string) {
		defer func() {
			if r := recover(); r != nil {
				cl = ""
			}
		}()
		if _, c1, _ := oneStepLabels(reader, typeName, b); c1 != "" {
			return ""
		}
		_, cl, _ = checkLabels2Once(reader, path, typeName, a, b)
		return cl
	}
	if len(first) != 1 || len(second) != 1 {
		for _, a := range first {
			for _, b := range second {
				if cl := try([]string{a}, []string{b}); cl != "" {
					return narrowLabel2Class(reader, path, typeName, []string{a}, []string{b}, cl)
				}
			}
		}
		return class
	}
	ra, rb := []rune(first[0]), []rune(second[0])
	if len(ra) > 8 || len(rb) > 8 {
		return class
	}
	subs := func(rs []rune, n int) []string {
		seen := map[string]bool{}
		var out []string
		for i := 0; i+n <= len(rs); i++ {
			if s := string(rs[i : i+n]); !seen[s] {
				seen[s] = true
				out = append(out, s)
			}
		}
		return out
	}
	for total := 0; total < len(ra)+len(rb); total++ {
		for na := 0; na <= total && na <= len(ra); na++ {
			nb := total - na
			if nb > len(rb) {
				continue
			}
			for _, a := range subs(ra, na) {
				for _, b := range subs(rb, nb) {
					if cl := try([]string{a}, []string{b}); cl != "" {
						return cl
					}
				}
			}
		}
	}
	return class
}

// narrowLabelClass re-runs the failing reader and path on single labels and on
// substrings of a single label so the class is that of the smallest label
// that fails on its own.
func narrowLabelClass(reader, path, typeName string, labels []string, class string) string {
	try := func(ls []string) (cl string) {
		defer func() {
			if r := recover(); r != nil {
				cl = ""
			}
		}()
		_, cl, _ = checkLabelsOnce(reader, path, typeName, ls)
		return cl
	}
	if len(labels) > 1 {
		for _, l := range labels {
			if cl := try([]string{l}); cl != "" {
				return narrowLabelClass(reader, path, typeName, []string{l}, cl)
			}
		}
		return class
	}
	if len(labels) == 1 {
		found := ""
		if _, ok := smallestFailingSub(labels[0], func(sub string) bool {
			found = try([]string{sub})
			return found != ""
		}); ok {
			return found
		}
	}
	return class
}

func travOnce(root string, steps []Step) (sig, clause, detail string, skippedStatic, harness bool) {
	trav, err := buildTraversal(root, steps)
	if err != nil || len(trav) == 0 {
		return "", "", "", false, true
	}
	toks := hclwrite.TokensForTraversal(trav)
	src := toks.Bytes()
	full := trav
	via := "TokensForTraversal"
	if root == "" {
		// "If the traversal is relative then the returned tokens could be
		// appended to some other expression tokens"
		src = append([]byte("r"), src...)
		full = append(hcl.Traversal{hcl.TraverseRoot{Name: "r"}}, trav...)
		via = "`r` + TokensForTraversal(relative)"
	}
	expr, diags := hclsyntax.ParseExpression(src, "gen.hcl", hcl.InitialPos)
	if diags.HasErrors() {
		return "", "parse-error", fmt.Sprintf("%s: %s does not parse as an expression: %s", via, clip(src), diags.Error()), false, false
	}
	clause, detail, skippedStatic = checkTraversal(via, src, expr, full)
	if clause != "" {
		return "", clause, detail, false, false
	}
	if !skippedStatic {
		pt, pd := hclsyntax.ParseTraversalAbs(src, "gen.hcl", hcl.InitialPos)
		if pd.HasErrors() {
			return "", "parsetraversalabs-error", fmt.Sprintf("%s: hclsyntax.ParseTraversalAbs(%s) fails: %s", via, clip(src), pd.Error()), false, false
		}
		if ok, why := sameSteps(pt, full); !ok {
			return "", "parsetraversalabs-mismatch", fmt.Sprintf("%s: hclsyntax.ParseTraversalAbs(%s) gives different steps: %s", via, clip(src), why), false, false
		}
	}
	if root != "" {
		file := hclwrite.NewEmptyFile()
		body := file.Body()
		body.SetAttributeTraversal("x", trav)
		body.SetAttributeValue("y", cty.True)
		body.SetAttributeTraversal("y", trav) // replace
		body.SetAttributeValue("z", cty.False)
		fsrc := file.Bytes()
		parsed, pdiags := hclsyntax.ParseConfig(fsrc, "gen.hcl", hcl.InitialPos)
		if pdiags.HasErrors() {
			return "", "attr-parse-error", fmt.Sprintf("SetAttributeTraversal wrote %s, which does not parse: %s", clip(fsrc), pdiags.Error()), false, false
		}
		pb, ok := parsed.Body.(*hclsyntax.Body)
		if !ok || len(pb.Attributes) != 3 || len(pb.Blocks) != 0 || pb.Attributes["x"] == nil || pb.Attributes["y"] == nil || pb.Attributes["z"] == nil {
			return "", "attr-structure", fmt.Sprintf("SetAttributeTraversal wrote %s, which does not have the three attributes written", clip(fsrc)), false, false
		}
		for _, n := range []string{"x", "y"} {
			cl, det, _ := checkTraversal("SetAttributeTraversal("+n+")", fsrc, pb.Attributes[n].Expr, trav)
			if cl != "" {
				return "", "attr-" + cl, det, false, false
			}
		}
		if zv, zd := pb.Attributes["z"].Expr.Value(nil); zd.HasErrors() || !zv.RawEquals(cty.False) {
			return "", "attr-structure", fmt.Sprintf("SetAttributeTraversal wrote %s; the attribute after the traversal does not read back", clip(fsrc)), false, false
		}
	}
	return string(src), "", "", skippedStatic, false
}

// classifyTrav names a traversal failure after the smallest failing part: a
// single step (after the same root) that fails alone, and for a string key
// the smallest failing substring; the class is "<clause>.<step shape>" of
// that smallest failing sub-case.
func classifyTrav(root string, steps []Step, clause string) string {
	tryRoot := func(r string, st []Step) (cl string) {
		defer func() {
			if r := recover(); r != nil {
				cl = "panic"
			}
		}()
		_, cl, _, _, h := travOnce(r, st)
		if h {
			return ""
		}
		return cl
	}
	try := func(st []Step) string { return tryRoot(root, st) }
	shapeOf := func(st []Step) string {
		t, err := buildTraversal("", st)
		if err != nil || len(t) == 0 {
			return "root-only"
		}
		seen := map[string]bool{}
		var ps []string
		for _, s := range t {
			sh := stepShape(s)
			if !seen[sh] {
				seen[sh] = true
				ps = append(ps, sh)
			}
		}
		return strings.Join(ps, ",")
	}
	if len(steps) > 1 {
		for _, s := range steps {
			if cl := try([]Step{s}); cl != "" {
				return classifyTrav(root, []Step{s}, cl)
			}
		}
		// no single step fails alone: try adjacent pairs
		if len(steps) > 2 {
			for i := 0; i+1 < len(steps); i++ {
				if cl := try(steps[i : i+2]); cl != "" {
					return cl + "." + shapeOf(steps[i:i+2])
				}
			}
		}
		return clause + "." + shapeOf(steps)
	}
	if len(steps) == 1 && steps[0].K == "str" {
		found := ""
		if sub, ok := smallestFailingSub(steps[0].S, func(sub string) bool {
			found = try([]Step{{"str", sub}})
			return found != ""
		}); ok {
			return found + "." + shapeOf([]Step{{"str", sub}})
		}
	}
	if len(root) > 32 && tryRoot("a", steps) == "" {
		// the root name is a long identifier token and the same steps after a
		// short root read back: the failure is about the root (named after
		// the shortest prefix of it that fails too)
		small := smallestFailingIdent(root, func(sub string) bool { return tryRoot(sub, steps) != "" })
		return clause + ".root" + tokenSizeSuffix(len(small))
	}
	if len(steps) == 1 && steps[0].K == "attr" && len(steps[0].S) > 32 {
		small := smallestFailingIdent(steps[0].S, func(sub string) bool { return try([]Step{{"attr", sub}}) != "" })
		return clause + "." + shapeOf([]Step{{"attr", small}})
	}
	if len(steps) == 1 && steps[0].K == "num" {
		if t, err := buildTraversal("", steps); err == nil && len(t) == 1 {
			key := t[0].(hcl.TraverseIndex).Key
			suf := numberSizeSuffix(key, func(w cty.Value) bool {
				name, ok := powerOfTenName(w)
				return ok && try([]Step{{"num", name}}) != ""
			})
			return clause + ".index-number-" + numberShape(key) + suf
		}
	}
	return clause + "." + shapeOf(steps)
}

func judgeTrav(d Data) engine.Outcome {
	sig, clause, detail, skippedStatic, harness := travOnce(d.Root, d.Steps)
	if harness {
		counters.Add("harness_build_error", 1)
		return engine.Skip()
	}
	if clause != "" {
		return engine.Fail("c11.traversal."+classifyTrav(d.Root, d.Steps, clause), "%s", detail)
	}
	if skippedStatic {
		counters.Add("traversals_negative_number_key_checked_by_evaluation_only", 1)
	} else {
		counters.Add("traversals_read_back_statically_and_by_evaluation", 1)
	}
	if len(sig) > 4096 {
		counters.Add("labels_or_steps_over_4096_bytes", 1)
	}
	return engine.Pass("t:" + clipSig(sig))
}

// ---- shrink -----------------------------------------------------------

func shrink(c engine.Case) []engine.Case {
	d := c.Data.(Data)
	var out []engine.Case
	switch d.Mode {
	case "value":
		if d.V != nil {
			for _, s := range shrinkVD(*d.V) {
				out = append(out, valueCaseNamed(s, d.Name))
			}
			if d.Name != "" {
				out = append(out, valueCase(*d.V))
				for _, n := range shrinkString(d.Name) {
					if hclsyntax.ValidIdentifier(n) && n != "y" && n != "z" {
						out = append(out, valueCaseNamed(*d.V, n))
					}
				}
			}
		}
	case "labels", "labels-constructed", "labels-hclwrite":
		labelsCase := func(bt string, ls []string) engine.Case { return labelsCaseMode(d.Mode, bt, ls) }
		for i := range d.Labels {
			ls := append(append([]string{}, d.Labels[:i]...), d.Labels[i+1:]...)
			out = append(out, labelsCase(d.BlockType, ls))
		}
		for i, l := range d.Labels {
			for _, c := range shrinkString(l) {
				ls := append([]string{}, d.Labels...)
				ls[i] = c
				out = append(out, labelsCase(d.BlockType, ls))
			}
		}
		if d.BlockType != "blk" {
			out = append(out, labelsCase("blk", d.Labels))
		}
	case "labels2", "labels2-constructed", "labels2-hclwrite":
		mk := func(a, b []string) engine.Case { return labels2CaseMode(d.Mode, d.BlockType, a, b) }
		for i := range d.Labels {
			out = append(out, mk(append(append([]string{}, d.Labels[:i]...), d.Labels[i+1:]...), d.Labels2))
		}
		for i := range d.Labels2 {
			out = append(out, mk(d.Labels, append(append([]string{}, d.Labels2[:i]...), d.Labels2[i+1:]...)))
		}
		for i, l := range d.Labels {
			for _, c := range shrinkString(l) {
				ls := append([]string{}, d.Labels...)
				ls[i] = c
				out = append(out, mk(ls, d.Labels2))
			}
		}
		for i, l := range d.Labels2 {
			for _, c := range shrinkString(l) {
				ls := append([]string{}, d.Labels2...)
				ls[i] = c
				out = append(out, mk(d.Labels, ls))
			}
		}
		if d.BlockType != "blk" {
			out = append(out, labels2CaseMode(d.Mode, "blk", d.Labels, d.Labels2))
		}
	case "hist":
		out = shrinkHistory(d)
	case "trav":
		for i := range d.Steps {
			st := append(append([]Step{}, d.Steps[:i]...), d.Steps[i+1:]...)
			if len(st) == 0 && d.Root == "" {
				continue
			}
			out = append(out, travCase(d.Root, st))
		}
		for i, s := range d.Steps {
			if s.K != "num" {
				for _, c := range shrinkString(s.S) {
					if s.K == "attr" && !hclsyntax.ValidIdentifier(c) {
						continue
					}
					st := append([]Step{}, d.Steps...)
					st[i] = Step{K: s.K, S: c}
					out = append(out, travCase(d.Root, st))
				}
			}
		}
		if d.Root != "" && d.Root != "a" {
			out = append(out, travCase("a", d.Steps))
		}
	}
	return out
}

func main() {
	// the cases are tiny and allocation-heavy with almost no live heap; collect
	// only when 1 GiB of garbage has accumulated instead of every few MB, which
	// otherwise keeps the 16 workers in stop-the-world handshakes
	debug.SetGCPercent(-1)
	debug.SetMemoryLimit(1 << 30)
	engine.Main(&engine.Check{
		ID:        "C11",
		Title:     "Generated source reads back as the value it was generated from",
		Technique: "bounded exhaustive enumeration of values, traversals and label lists through the real generator, round-trip read-back with the real parser/evaluator",
		Rule: "values: every string of length <= 3 (quick) / <= 4 (thorough) over the 19-rune escape alphabet {a,space,\",\\,$,%,{,},~,LF,CR,TAB,NUL,DEL,é,U+0301,U+2028,U+1F600,U+FFFD}, each bare and as list element, tuple element, set element, map key, map value, object attribute name+value; plus every string of length <= 2 over that alphabet extended by 12 further runes (U+E0001, U+10FFFF, U+FEFF, U+200B, U+00A0, U+0085, ESC, U+D7FF, U+E000, U+FFFE, U+FFFF, U+10000); a 41-entry number table (0, ±1, ±0.5, ±0.1, 1e±20, 2^200+1, 1e±400, 1e±4000, 150-digit fraction, 1/3, 512-bit integers, float64/float32-precision values, >512-bit integers); bools; typed nulls; lists/sets/tuples/maps/objects of depth 1 and 2 over these leaves with every key of a 29-key alphabet (keywords for/if/in/else/endif/endfor/null/true/false, non-identifiers, dashed/non-ASCII identifiers) alone and in every pair. " +
			"Each value goes through TokensForValue+ParseExpression and through SetAttributeValue (new, replaced, followed by another attribute, inside a block)+File.Bytes()+ParseConfig; oracle: no error diagnostics, convert(evaluated, type(v)) RawEquals v. " +
			"traversals: every absolute (roots a, foo-bar, é) and relative step sequence of <= 2 (quick) / <= 3 (thorough) steps over 9 attribute names, 29 string keys and 7 number keys, all sequences of 3 (quick) / 4 (thorough) steps over a reduced 18-step alphabet, plus every alphabet string and every table number as a key; oracle: parses; AbsTraversalForExpr and ParseTraversalAbs give the same steps (not demanded for negative number keys); evaluation selects the same member as applying the original traversal to a constructed scope; same through SetAttributeTraversal. " +
			"labels: every alphabet string as a single label, all pairs of strings of length <= 1, triples over a small set, block types blk/foo-bar/é, through NewBlock, AppendNewBlock, SetLabels; oracle: Block.Labels() of the constructed block, hclsyntax Block.Labels and hclwrite.ParseConfig(...).Labels() equal the (NFC-normalised) supplied strings. " +
			"sizes (one-dimensional ranges enumerated exhaustively across the power-of-two boundaries): nesting depth 1..70 (thorough 1..140 and 255..257, 511..513) of the wrappers [x], {k = x}, list, map, set (depth <= 8), [x, true], {a = x, b = true} and their alternations, each alone (the attribute path writes it followed by further attributes and a block), as non-last / last attribute of an object, non-last / last tuple element and as map values; token lengths {1..16} U {2^k-1, 2^k, 2^k+1 : k = 5..14 (thorough 16)} for strings made of a, é, LF, ${ and the quote in every string position including map keys and attribute names, for the numbers 10^(n-1), -10^(n-1), 10^-(n-2), for block labels, block type names, attribute names, traversal root names, attribute steps, string keys and number keys; same oracle. " +
			"label replacements: every ordered pair (l1, l2) of labels from {all strings of <= 4 (thorough 5) characters over {$,{,a} and over {%,{,a}, all of <= 3 over {$,%,{,a}, all of <= 1 rune of the escape alphabet} and every ordered pair of label lists of length <= 2 over 9 labels: NewBlock/AppendNewBlock with l1 (optionally reading Labels() in between), then SetLabels(l2); oracle: the written bytes parse (hclsyntax and hclwrite) with labels l2 and Block.Labels() is l2; a failure that l2 shows on its own in one step keeps the one-step class, any other gets a c11.label.replace.* class. " +
			"generation histories (two generations from the same object with one edit in between): every ordered pair (v1, v2) over a reduced alphabet of 27 values (thorough ~70) of every kind with rendered lengths from 1 to ~1200 bytes (thorough: around 4096), single- and multi-line, x every edit {replace x = v1 by v2, append an attribute v2 after the following block, add an attribute v2 inside the following block, TokensForValue(v1) then TokensForValue(v2)}, plus removing an earlier attribute; every ordered pair of 13 label lists through SetLabels, of 5 block types through SetType, of 8 traversals through SetAttributeTraversal, and traversal<->value replacements; the bytes are taken after each generation with File.Bytes, Tokens.Bytes of the file's tokens and File.WriteTo into a caller's buffer (Tokens.Bytes / Tokens.WriteTo for bare tokens); oracle: every result of generation 1, read after generation 2, still parses and reads back as state 1 and is byte-identical to a copy made when it was returned; every result of generation 2 reads back as state 2. " +
			"Non-trivial = read back successfully; distinct = distinct generated text / read-back value.",
		Assumptions: []string{
			"go-cty (value construction, NFC normalisation, convert.Convert, RawEquals, number parsing) is trusted",
			"hcl.Traversal.TraverseAbs and expression evaluation are used as the semantic relation for traversals (both sides run on the same constructed scope)",
			"numbers carried at fewer than 512 bits are compared at their own precision (spec.md: equal 'to the precision associated with the number'); numbers needing more than 512 mantissa bits are Unspecified (spec.md allows limited precision)",
			"strings that are not well-formed UTF-8 and infinite numbers are outside the property's domain and are not enumerated",
			"sets are nested to depth 8 only and lists/maps to depth 140 only: go-cty needs time exponential resp. cubic in the depth to construct/convert them",
		},
		Gen:    gen,
		Judge:  judge,
		Load:   engine.LoadAs[Data],
		Shrink: shrink,
		Extra: func() map[string]any {
			m := map[string]any{}
			for k, v := range counters.Snapshot() {
				m[k] = v
			}
			return m
		},
		QuickBudget:    10 * time.Minute,
		ThoroughBudget: 40 * time.Minute,
	})
}
