// C11 — Generated source reads back as the value it was generated from.
//
// Bounded exhaustive enumeration of constant values (all strings up to a
// length over an escape-relevant rune alphabet, in every position a string can
// take; a table of numbers; typed nulls; collections and structures nested to
// depth 2 over a key alphabet with keywords and non-identifiers), traversals
// (all step sequences up to a length) and block label lists, each pushed
// through the real hclwrite generator (TokensForValue, TokensForTraversal,
// SetAttributeValue, SetAttributeTraversal, NewBlock/AppendNewBlock/SetLabels)
// and read back with the real native parser and evaluator. The oracle is the
// round-trip relation of the property statement; no reference model of the
// escaping is needed because the expected result is the input itself.
package main

import (
	"fmt"
	"runtime/debug"
	"strings"
	"sync/atomic"
	"time"

	"github.com/hashicorp/hcl/v2"
	"github.com/hashicorp/hcl/v2/hclsyntax"
	"github.com/hashicorp/hcl/v2/hclwrite"
	"github.com/zclconf/go-cty/cty"

	"verif/engine"
)

type Data struct {
	Mode string `json:"mode"` // "value" | "labels" (read back with hclsyntax) | "labels-constructed" (Block.Labels() in memory) | "labels-hclwrite" (hclwrite.ParseConfig + Labels()) | "trav"
	// value
	V *VD `json:"v,omitempty"`
	// labels
	BlockType string   `json:"block_type,omitempty"`
	Labels    []string `json:"labels,omitempty"`
	// trav: Root == "" means a relative traversal
	Root  string `json:"root,omitempty"`
	Steps []Step `json:"steps,omitempty"`
}

// counters: lock-free named counters (the key set is fixed up front, so the
// map is read-only while the 16 judges run).
type counterSet struct{ m map[string]*atomic.Int64 }

func newCounterSet(keys ...string) *counterSet {
	c := &counterSet{m: map[string]*atomic.Int64{}}
	for _, k := range keys {
		c.m[k] = new(atomic.Int64)
	}
	return c
}

func (c *counterSet) Add(k string, n int64) {
	if a := c.m[k]; a != nil {
		a.Add(n)
		return
	}
	c.m["harness_unknown_counter"].Add(n)
}

func (c *counterSet) Snapshot() map[string]int64 {
	out := map[string]int64{}
	for k, a := range c.m {
		out[k] = a.Load()
	}
	return out
}

var counters = newCounterSet(
	"harness_unknown_counter", "harness_unknown_mode", "harness_build_error", "harness_scope_unbuildable", "harness_scope_mismatch",
	"heredoc_generated", "unspecified_number_beyond_512_bits", "values_read_back",
	"label_lists_read_back_hclsyntax", "label_lists_read_back_constructed", "label_lists_read_back_hclwrite",
	"traversals_negative_number_key_checked_by_evaluation_only", "traversals_read_back_statically_and_by_evaluation",
)

// ---- judge ------------------------------------------------------------

func judge(c engine.Case) engine.Outcome {
	d := c.Data.(Data)
	switch d.Mode {
	case "value":
		return judgeValue(d)
	case "labels":
		return judgeLabels(d, "hclsyntax")
	case "labels-constructed":
		return judgeLabels(d, "constructed")
	case "labels-hclwrite":
		return judgeLabels(d, "hclwrite")
	case "trav":
		return judgeTrav(d)
	}
	counters.Add("harness_unknown_mode", 1)
	return engine.Skip()
}

func judgeValue(d Data) engine.Outcome {
	if d.V == nil {
		counters.Add("harness_build_error", 1)
		return engine.Skip()
	}
	v, unspecNum, err := build(*d.V)
	if err != nil {
		counters.Add("harness_build_error", 1)
		return engine.Skip()
	}
	sig, f, un1 := checkTokens(v, unspecNum)
	if f != nil {
		return engine.Fail("c11."+classify(tokensChecker, v, f), "%s", f.detail)
	}
	af, un2 := checkAttr(v, unspecNum)
	if af != nil {
		return engine.Fail("c11."+classify(attrChecker, v, af), "%s", af.detail)
	}
	if un1 || un2 {
		counters.Add("unspecified_number_beyond_512_bits", 1)
		return engine.Skip()
	}
	counters.Add("values_read_back", 1)
	return engine.Pass("v:" + sig)
}

var labelPaths = []string{"NewBlock", "AppendNewBlock", "SetLabels", "SetLabelsFromNone"}

func judgeLabels(d Data, reader string) engine.Outcome {
	typeName := d.BlockType
	if typeName == "" {
		typeName = "blk"
	}
	sig := ""
	for i, p := range labelPaths {
		s, class, detail := checkLabelsOnce(reader, p, typeName, d.Labels)
		if class != "" {
			class = narrowLabelClass(reader, p, typeName, d.Labels, class)
			if i > 0 {
				class += ".via-" + p
			}
			return engine.Fail(class, "%s", detail)
		}
		if i == 0 {
			sig = s
		}
	}
	counters.Add("label_lists_read_back_"+reader, 1)
	return engine.Pass("l:" + reader + ":" + sig)
}

// narrowLabelClass re-runs the failing reader and path on single labels and on
// substrings of a single label so the class is that of the smallest label
// that fails on its own.
func narrowLabelClass(reader, path, typeName string, labels []string, class string) string {
	try := func(ls []string) (cl string) {
		defer func() {
			if r := recover(); r != nil {
				cl = ""
			}
		}()
		_, cl, _ = checkLabelsOnce(reader, path, typeName, ls)
		return cl
	}
	if len(labels) > 1 {
		for _, l := range labels {
			if cl := try([]string{l}); cl != "" {
				return narrowLabelClass(reader, path, typeName, []string{l}, cl)
			}
		}
		return class
	}
	if len(labels) == 1 {
		rs := []rune(labels[0])
		for n := 1; n < len(rs); n++ {
			for i := 0; i+n <= len(rs); i++ {
				if cl := try([]string{string(rs[i : i+n])}); cl != "" {
					return cl
				}
			}
		}
	}
	return class
}

func travOnce(root string, steps []Step) (sig, clause, detail string, skippedStatic, harness bool) {
	trav, err := buildTraversal(root, steps)
	if err != nil || len(trav) == 0 {
		return "", "", "", false, true
	}
	toks := hclwrite.TokensForTraversal(trav)
	src := toks.Bytes()
	full := trav
	via := "TokensForTraversal"
	if root == "" {
		// "If the traversal is relative then the returned tokens could be
		// appended to some other expression tokens"
		src = append([]byte("r"), src...)
		full = append(hcl.Traversal{hcl.TraverseRoot{Name: "r"}}, trav...)
		via = "`r` + TokensForTraversal(relative)"
	}
	expr, diags := hclsyntax.ParseExpression(src, "gen.hcl", hcl.InitialPos)
	if diags.HasErrors() {
		return "", "parse-error", fmt.Sprintf("%s: %s does not parse as an expression: %s", via, clip(src), diags.Error()), false, false
	}
	clause, detail, skippedStatic = checkTraversal(via, src, expr, full)
	if clause != "" {
		return "", clause, detail, false, false
	}
	if !skippedStatic {
		pt, pd := hclsyntax.ParseTraversalAbs(src, "gen.hcl", hcl.InitialPos)
		if pd.HasErrors() {
			return "", "parsetraversalabs-error", fmt.Sprintf("%s: hclsyntax.ParseTraversalAbs(%s) fails: %s", via, clip(src), pd.Error()), false, false
		}
		if ok, why := sameSteps(pt, full); !ok {
			return "", "parsetraversalabs-mismatch", fmt.Sprintf("%s: hclsyntax.ParseTraversalAbs(%s) gives different steps: %s", via, clip(src), why), false, false
		}
	}
	if root != "" {
		file := hclwrite.NewEmptyFile()
		body := file.Body()
		body.SetAttributeTraversal("x", trav)
		body.SetAttributeValue("y", cty.True)
		body.SetAttributeTraversal("y", trav) // replace
		body.SetAttributeValue("z", cty.False)
		fsrc := file.Bytes()
		parsed, pdiags := hclsyntax.ParseConfig(fsrc, "gen.hcl", hcl.InitialPos)
		if pdiags.HasErrors() {
			return "", "attr-parse-error", fmt.Sprintf("SetAttributeTraversal wrote %s, which does not parse: %s", clip(fsrc), pdiags.Error()), false, false
		}
		pb, ok := parsed.Body.(*hclsyntax.Body)
		if !ok || len(pb.Attributes) != 3 || len(pb.Blocks) != 0 || pb.Attributes["x"] == nil || pb.Attributes["y"] == nil || pb.Attributes["z"] == nil {
			return "", "attr-structure", fmt.Sprintf("SetAttributeTraversal wrote %s, which does not have the three attributes written", clip(fsrc)), false, false
		}
		for _, n := range []string{"x", "y"} {
			cl, det, _ := checkTraversal("SetAttributeTraversal("+n+")", fsrc, pb.Attributes[n].Expr, trav)
			if cl != "" {
				return "", "attr-" + cl, det, false, false
			}
		}
		if zv, zd := pb.Attributes["z"].Expr.Value(nil); zd.HasErrors() || !zv.RawEquals(cty.False) {
			return "", "attr-structure", fmt.Sprintf("SetAttributeTraversal wrote %s; the attribute after the traversal does not read back", clip(fsrc)), false, false
		}
	}
	return string(src), "", "", skippedStatic, false
}

// classifyTrav names a traversal failure after the smallest failing part: a
// single step (after the same root) that fails alone, and for a string key
// the smallest failing substring; the class is "<clause>.<step shape>" of
// that smallest failing sub-case.
func classifyTrav(root string, steps []Step, clause string) string {
	try := func(st []Step) (cl string) {
		defer func() {
			if r := recover(); r != nil {
				cl = "panic"
			}
		}()
		_, cl, _, _, h := travOnce(root, st)
		if h {
			return ""
		}
		return cl
	}
	shapeOf := func(st []Step) string {
		t, err := buildTraversal("", st)
		if err != nil || len(t) == 0 {
			return "root-only"
		}
		seen := map[string]bool{}
		var ps []string
		for _, s := range t {
			sh := stepShape(s)
			if !seen[sh] {
				seen[sh] = true
				ps = append(ps, sh)
			}
		}
		return strings.Join(ps, ",")
	}
	if len(steps) > 1 {
		for _, s := range steps {
			if cl := try([]Step{s}); cl != "" {
				return classifyTrav(root, []Step{s}, cl)
			}
		}
		// no single step fails alone: try adjacent pairs
		if len(steps) > 2 {
			for i := 0; i+1 < len(steps); i++ {
				if cl := try(steps[i : i+2]); cl != "" {
					return cl + "." + shapeOf(steps[i:i+2])
				}
			}
		}
		return clause + "." + shapeOf(steps)
	}
	if len(steps) == 1 && steps[0].K == "str" {
		rs := []rune(steps[0].S)
		for n := 1; n < len(rs); n++ {
			for i := 0; i+n <= len(rs); i++ {
				st := []Step{{"str", string(rs[i : i+n])}}
				if cl := try(st); cl != "" {
					return cl + "." + shapeOf(st)
				}
			}
		}
	}
	return clause + "." + shapeOf(steps)
}

func judgeTrav(d Data) engine.Outcome {
	sig, clause, detail, skippedStatic, harness := travOnce(d.Root, d.Steps)
	if harness {
		counters.Add("harness_build_error", 1)
		return engine.Skip()
	}
	if clause != "" {
		return engine.Fail("c11.traversal."+classifyTrav(d.Root, d.Steps, clause), "%s", detail)
	}
	if skippedStatic {
		counters.Add("traversals_negative_number_key_checked_by_evaluation_only", 1)
	} else {
		counters.Add("traversals_read_back_statically_and_by_evaluation", 1)
	}
	return engine.Pass("t:" + sig)
}

// ---- shrink -----------------------------------------------------------

func shrink(c engine.Case) []engine.Case {
	d := c.Data.(Data)
	var out []engine.Case
	switch d.Mode {
	case "value":
		if d.V != nil {
			for _, s := range shrinkVD(*d.V) {
				out = append(out, valueCase(s))
			}
		}
	case "labels", "labels-constructed", "labels-hclwrite":
		labelsCase := func(bt string, ls []string) engine.Case { return labelsCaseMode(d.Mode, bt, ls) }
		for i := range d.Labels {
			ls := append(append([]string{}, d.Labels[:i]...), d.Labels[i+1:]...)
			out = append(out, labelsCase(d.BlockType, ls))
		}
		for i, l := range d.Labels {
			rs := []rune(l)
			for j := range rs {
				ls := append([]string{}, d.Labels...)
				ls[i] = string(append(append([]rune{}, rs[:j]...), rs[j+1:]...))
				out = append(out, labelsCase(d.BlockType, ls))
			}
		}
		if d.BlockType != "blk" {
			out = append(out, labelsCase("blk", d.Labels))
		}
	case "trav":
		for i := range d.Steps {
			st := append(append([]Step{}, d.Steps[:i]...), d.Steps[i+1:]...)
			if len(st) == 0 && d.Root == "" {
				continue
			}
			out = append(out, travCase(d.Root, st))
		}
		for i, s := range d.Steps {
			if s.K != "num" {
				rs := []rune(s.S)
				for j := range rs {
					if s.K == "attr" && len(rs) == 1 {
						continue
					}
					st := append([]Step{}, d.Steps...)
					st[i] = Step{K: s.K, S: string(append(append([]rune{}, rs[:j]...), rs[j+1:]...))}
					if s.K == "attr" && !hclsyntax.ValidIdentifier(st[i].S) {
						continue
					}
					out = append(out, travCase(d.Root, st))
				}
			}
		}
		if d.Root != "" && d.Root != "a" {
			out = append(out, travCase("a", d.Steps))
		}
	}
	return out
}

func main() {
	// the cases are tiny and allocation-heavy with almost no live heap; collect
	// only when 1 GiB of garbage has accumulated instead of every few MB, which
	// otherwise keeps the 16 workers in stop-the-world handshakes
	debug.SetGCPercent(-1)
	debug.SetMemoryLimit(1 << 30)
	engine.Main(&engine.Check{
		ID:        "C11",
		Title:     "Generated source reads back as the value it was generated from",
		Technique: "bounded exhaustive enumeration of values, traversals and label lists through the real generator, round-trip read-back with the real parser/evaluator",
		Rule: "values: every string of length <= 3 (quick) / <= 4 (thorough) over the 19-rune escape alphabet {a,space,\",\\,$,%,{,},~,LF,CR,TAB,NUL,DEL,é,U+0301,U+2028,U+1F600,U+FFFD}, each bare and as list element, tuple element, set element, map key, map value, object attribute name+value; plus every string of length <= 2 over that alphabet extended by 12 further runes (U+E0001, U+10FFFF, U+FEFF, U+200B, U+00A0, U+0085, ESC, U+D7FF, U+E000, U+FFFE, U+FFFF, U+10000); a 41-entry number table (0, ±1, ±0.5, ±0.1, 1e±20, 2^200+1, 1e±400, 1e±4000, 150-digit fraction, 1/3, 512-bit integers, float64/float32-precision values, >512-bit integers); bools; typed nulls; lists/sets/tuples/maps/objects of depth 1 and 2 over these leaves with every key of a 29-key alphabet (keywords for/if/in/else/endif/endfor/null/true/false, non-identifiers, dashed/non-ASCII identifiers) alone and in every pair. " +
			"Each value goes through TokensForValue+ParseExpression and through SetAttributeValue (new, replaced, followed by another attribute, inside a block)+File.Bytes()+ParseConfig; oracle: no error diagnostics, convert(evaluated, type(v)) RawEquals v. " +
			"traversals: every absolute (roots a, foo-bar, é) and relative step sequence of <= 2 (quick) / <= 3 (thorough) steps over 9 attribute names, 29 string keys and 7 number keys, all sequences of 3 (quick) / 4 (thorough) steps over a reduced 18-step alphabet, plus every alphabet string and every table number as a key; oracle: parses; AbsTraversalForExpr and ParseTraversalAbs give the same steps (not demanded for negative number keys); evaluation selects the same member as applying the original traversal to a constructed scope; same through SetAttributeTraversal. " +
			"labels: every alphabet string as a single label, all pairs of strings of length <= 1, triples over a small set, block types blk/foo-bar/é, through NewBlock, AppendNewBlock, SetLabels; oracle: Block.Labels() of the constructed block, hclsyntax Block.Labels and hclwrite.ParseConfig(...).Labels() equal the (NFC-normalised) supplied strings. " +
			"Non-trivial = read back successfully; distinct = distinct generated text / read-back value.",
		Assumptions: []string{
			"go-cty (value construction, NFC normalisation, convert.Convert, RawEquals, number parsing) is trusted",
			"hcl.Traversal.TraverseAbs and expression evaluation are used as the semantic relation for traversals (both sides run on the same constructed scope)",
			"numbers carried at fewer than 512 bits are compared at their own precision (spec.md: equal 'to the precision associated with the number'); numbers needing more than 512 mantissa bits are Unspecified (spec.md allows limited precision)",
			"strings that are not well-formed UTF-8 and infinite numbers are outside the property's domain and are not enumerated",
		},
		Gen:    gen,
		Judge:  judge,
		Load:   engine.LoadAs[Data],
		Shrink: shrink,
		Extra: func() map[string]any {
			m := map[string]any{}
			for k, v := range counters.Snapshot() {
				m[k] = v
			}
			return m
		},
		QuickBudget:    4 * time.Minute,
		ThoroughBudget: 40 * time.Minute,
	})
}
