package main

import (
	"fmt"
	"strings"

	"github.com/zclconf/go-cty/cty"

	"verif/engine"
)

// escape-relevant rune alphabet (DESIGN.md C11)
var strAlpha = []rune{'a', ' ', '"', '\\', '$', '%', '{', '}', '~', '\n', '\r', '\t', 0x00, 0x7f, 'é', 0x0301, 0x2028, 0x1F600, 0xFFFD}

// further runes that take the other branches of the escaper (non-printable
// above U+FFFF, format/space characters that unicode.IsPrint rejects, the
// last code points of the planes): enumerated up to length 2 together with
// strAlpha.
var extraRunes = []rune{0xE0001, 0x10FFFF, 0xFEFF, 0x200B, 0x00A0, 0x0085, 0x001B, 0xD7FF, 0xE000, 0xFFFE, 0xFFFF, 0x10000}

// key alphabet: keywords, non-identifiers, dashed / non-ASCII / underscore
// identifiers, near-keywords.
var keyAlpha = []string{
	"a", "for", "if", "in", "else", "endif", "endfor", "null", "true", "false",
	"", "a b", "0", "a.b", "${x}", "-", "a-b", "é", "_x", "1a",
	"z", "forx", "fo", "For", "%{x}", "~", "\n", "$", "for ",
}

var attrNames = []string{"b", "foo-bar", "é", "for", "null", "true", "if", "in", "b_1"}
var numKeys = []string{"0", "1", "1.5", "1e20", "-1", "-0.5", "2^200+1"}
var roots = []string{"a", "foo-bar", "é", ""}
var blockTypes = []string{"blk", "foo-bar", "é"}

func valueCase(d VD) engine.Case {
	dd := d
	return engine.Case{ID: "v/" + compact(d), Data: Data{Mode: "value", V: &dd}}
}

// valueCaseNamed: the value written under the attribute name `name` instead of x.
func valueCaseNamed(d VD, name string) engine.Case {
	if name == "" {
		return valueCase(d)
	}
	dd := d
	return engine.Case{ID: "v/" + compact(d) + "@" + abbrev(name), Data: Data{Mode: "value", V: &dd, Name: name}}
}

func idType(typeName string) string {
	if len(typeName) > 48 {
		return abbrev(typeName)
	}
	return typeName
}

// labels2CaseMode: a block constructed with `first`, then SetLabels(second).
func labels2CaseMode(mode, typeName string, first, second []string) engine.Case {
	reader := strings.TrimPrefix(strings.TrimPrefix(mode, "labels2"), "-")
	if reader == "" {
		reader = "hclsyntax"
	}
	if typeName == "" {
		typeName = "blk"
	}
	q := func(ls []string) string {
		ps := make([]string, len(ls))
		for i, l := range ls {
			ps[i] = abbrev(l)
		}
		return strings.Join(ps, ",")
	}
	return engine.Case{ID: "l2/" + reader + "/" + idType(typeName) + "/" + q(first) + ">" + q(second),
		Data: Data{Mode: mode, BlockType: typeName, Labels: append([]string{}, first...), Labels2: append([]string{}, second...)}}
}

// labelsCase emits nothing itself; see labelsCases for the three readers.
func labelsCaseMode(mode, typeName string, labels []string) engine.Case {
	var ps []string
	for _, l := range labels {
		ps = append(ps, abbrev(l))
	}
	reader := strings.TrimPrefix(strings.TrimPrefix(mode, "labels"), "-")
	if reader == "" {
		reader = "hclsyntax"
	}
	return engine.Case{ID: "l/" + reader + "/" + idType(typeName) + "/" + strings.Join(ps, ","), Data: Data{Mode: mode, BlockType: typeName, Labels: append([]string{}, labels...)}}
}

func travCase(root string, steps []Step) engine.Case {
	var sb strings.Builder
	sb.WriteString("t/")
	if root == "" {
		sb.WriteString("(rel)")
	} else {
		sb.WriteString(root)
	}
	for _, s := range steps {
		sb.WriteString(s.short())
	}
	if len(root) > 48 {
		return engine.Case{ID: "t/" + abbrev(root) + sb.String()[2+len(root):], Data: Data{Mode: "trav", Root: root, Steps: append([]Step{}, steps...)}}
	}
	return engine.Case{ID: sb.String(), Data: Data{Mode: "trav", Root: root, Steps: append([]Step{}, steps...)}}
}

// allStrings calls f with every string of exactly n runes over strAlpha.
func allStrings(n int, f func(s string) bool) bool {
	buf := make([]rune, 0, n)
	var rec func(k int) bool
	rec = func(k int) bool {
		if k == 0 {
			return f(string(buf))
		}
		for _, r := range strAlpha {
			buf = append(buf, r)
			ok := rec(k - 1)
			buf = buf[:len(buf)-1]
			if !ok {
				return false
			}
		}
		return true
	}
	return rec(n)
}

// stringWrappers: every position a string can take in a generated value.
func stringWrappers(s string) []VD {
	return []VD{
		vs(s),
		vlist(vs(s)),
		vtuple(vs(s), vb(true)),
		vset(vs(s)),
		vmap(s, vs("v")),
		vmap("k", vs(s)),
		vobj(s, vs(s)),
	}
}

type typedLeaf struct {
	d VD
	t cty.Type
}

func leaves() []typedLeaf {
	return []typedLeaf{
		{vs("a"), cty.String}, {vs(""), cty.String}, {vs("${x}"), cty.String}, {vnull(cty.String), cty.String},
		{vn("1"), cty.Number}, {vn("-0.5"), cty.Number}, {vn("1e400"), cty.Number}, {vnull(cty.Number), cty.Number},
		{vb(true), cty.Bool}, {vb(false), cty.Bool}, {vnull(cty.Bool), cty.Bool},
	}
}

var nullTypes = []cty.Type{
	cty.String, cty.Number, cty.Bool, cty.DynamicPseudoType,
	cty.List(cty.String), cty.Set(cty.Number), cty.Map(cty.Bool), cty.List(cty.DynamicPseudoType),
	cty.EmptyTuple, cty.Tuple([]cty.Type{cty.String, cty.Number}),
	cty.EmptyObject, cty.Object(map[string]cty.Type{"a": cty.String}), cty.Object(map[string]cty.Type{"for": cty.List(cty.String)}),
	cty.Map(cty.List(cty.Object(map[string]cty.Type{"a": cty.Number}))),
}

var emptyElemTypes = []cty.Type{
	cty.String, cty.Number, cty.Bool, cty.List(cty.String), cty.Map(cty.String), cty.Set(cty.Bool),
	cty.Object(map[string]cty.Type{"a": cty.String}), cty.EmptyObject, cty.EmptyTuple, cty.DynamicPseudoType,
}

// depth1 enumerates every depth-1 container of the check's space.
func depth1() []VD {
	var out []VD
	ls := leaves()
	// lists and sets
	for _, t := range emptyElemTypes {
		out = append(out, vlist0(t), vset0(t), vmap0(t))
	}
	for _, l := range ls {
		out = append(out, vlist(l.d), vset(l.d))
	}
	for i, a := range ls {
		for j, b := range ls {
			if a.t != b.t {
				continue
			}
			out = append(out, vlist(a.d, b.d))
			if i < j {
				out = append(out, vset(a.d, b.d))
			}
		}
	}
	for _, t := range nullTypes[4:] {
		out = append(out, vlist(vnull(t)), vset(vnull(t)), vmap("k", vnull(t)))
	}
	// tuples
	tl := []VD{}
	for _, l := range ls {
		tl = append(tl, l.d)
	}
	tl = append(tl, vnull(cty.DynamicPseudoType), vnull(cty.List(cty.String)), vnull(cty.EmptyObject))
	out = append(out, vtuple())
	for _, a := range tl {
		out = append(out, vtuple(a))
	}
	for _, a := range tl {
		for _, b := range tl {
			out = append(out, vtuple(a, b))
		}
	}
	// maps and objects: every key alone
	out = append(out, vobj())
	mapVals := []VD{vs("v"), vn("1"), vb(true), vnull(cty.String)}
	objVals := []VD{vs("v"), vn("-1"), vb(false), vnull(cty.DynamicPseudoType)}
	for _, k := range keyAlpha {
		for _, v := range mapVals {
			out = append(out, vmap(k, v))
		}
		for _, v := range objVals {
			out = append(out, vobj(k, v))
		}
	}
	// every pair of keys (cty orders keys itself: unordered pairs for maps,
	// ordered pairs for objects because the two attribute values differ)
	for i, k1 := range keyAlpha {
		for j, k2 := range keyAlpha {
			if i == j {
				continue
			}
			if i < j {
				out = append(out, vmap(k1, vs("v"), k2, vs("w")))
				out = append(out, vmap(k1, vn("1"), k2, vn("-0.5")))
			}
			out = append(out, vobj(k1, vs("v"), k2, vn("1")))
		}
	}
	// three keys, keywords first in cty's order
	for _, ks := range [][3]string{{"for", "if", "in"}, {"a", "for", "null"}, {"", "for", "true"}, {"else", "endfor", "endif"}, {"false", "for", "fo"}} {
		out = append(out, vmap(ks[0], vs("1"), ks[1], vs("2"), ks[2], vs("3")))
		out = append(out, vobj(ks[0], vs("1"), ks[1], vn("1"), ks[2], vb(true)))
	}
	return out
}

// representatives of depth 1 used as elements of depth-2 containers
func depth1Reps() []VD {
	return []VD{
		vlist0(cty.String), vlist(vs("a")), vlist(vs("a"), vs("${x}")), vlist(vnull(cty.String)), vlist(vn("1"), vn("-0.5")), vlist(vn("1e400")),
		vset0(cty.Number), vset(vs("a"), vs("")), vset(vn("-0.5")), vset(vb(true), vb(false)),
		vtuple(), vtuple(vs("a"), vn("1")), vtuple(vnull(cty.DynamicPseudoType)), vtuple(vb(false)),
		vmap0(cty.String), vmap("for", vs("v")), vmap("a", vs("v")), vmap("", vs("v")), vmap("a b", vs("v"), "if", vs("w")), vmap("null", vs("v")), vmap("for", vs("v"), "if", vs("w")), vmap("k", vn("1")),
		vobj(), vobj("for", vn("1")), vobj("a", vnull(cty.DynamicPseudoType)), vobj("${x}", vs("v")), vobj("true", vb(true), "false", vb(false)), vobj("a", vs("v"), "for", vs("w")), vobj("é", vs("é")), vobj("in", vn("-1")),
	}
}

func sameType(a, b VD) bool {
	av, _, err1 := build(a)
	bv, _, err2 := build(b)
	return err1 == nil && err2 == nil && av.Type().Equals(bv.Type())
}

func depth2() []VD {
	var out []VD
	reps := depth1Reps()
	for _, d := range reps {
		out = append(out, vlist(d), vset(d), vtuple(d), vlist(d, d))
		for _, k := range keyAlpha {
			out = append(out, vmap(k, d), vobj(k, d))
		}
	}
	for i, a := range reps {
		for j, b := range reps {
			out = append(out, vtuple(a, b))
			if i != j && sameType(a, b) {
				out = append(out, vlist(a, b))
				if i < j {
					out = append(out, vset(a, b), vmap("a", a, "for", b), vmap("for", a, "if", b))
				}
			}
		}
	}
	keys2 := []string{"a", "for", "", "a b", "null", "if"}
	reps2 := []VD{reps[1], reps[3], reps[7], reps[10], reps[12], reps[15], reps[18], reps[22], reps[23], reps[24]}
	for _, k1 := range keys2 {
		for _, k2 := range keys2 {
			if k1 == k2 {
				continue
			}
			for _, a := range reps2 {
				for _, b := range reps2 {
					out = append(out, vobj(k1, a, k2, b))
				}
			}
		}
	}
	return out
}

var labelModes = []string{"labels", "labels-constructed", "labels-hclwrite"}

func gen(tier string, emit0 func(engine.Case) bool) {
	emit := emit0
	// one label list = three cases, one per reader, so that a failure of one
	// reader never hides the verdict of another
	emitLabels := func(typeName string, labels []string) bool {
		for _, m := range labelModes {
			if !emit(labelsCaseMode(m, typeName, labels)) {
				return false
			}
		}
		return true
	}
	thorough := tier == "thorough"
	maxLen := 3
	if thorough {
		maxLen = 4
	}

	// 1. scalars: bools, numbers (bare and in each container kind), nulls
	for _, d := range []VD{vb(true), vb(false)} {
		if !emit(valueCase(d)) {
			return
		}
	}
	for _, n := range numberTable {
		d := vn(n.name)
		for _, w := range []VD{d, vlist(d), vset(d), vtuple(d, vs("a")), vmap("k", d), vobj("k", d), vlist(d, vn("1")), vtuple(vn("-1"), d)} {
			if !emit(valueCase(w)) {
				return
			}
		}
	}
	for _, t := range nullTypes {
		d := vnull(t)
		for _, w := range []VD{d, vtuple(d), vobj("k", d), vobj("for", d), vobj("null", d)} {
			if !emit(valueCase(w)) {
				return
			}
		}
	}

	// 2. strings, shortest first, in every position
	for l := 0; l <= maxLen; l++ {
		ok := allStrings(l, func(s string) bool {
			for _, w := range stringWrappers(s) {
				if !emit(valueCase(w)) {
					return false
				}
			}
			return true
		})
		if !ok {
			return
		}
	}

	// 2b. strings of length <= 2 over the alphabet extended with extraRunes
	// (only those containing at least one extra rune are new)
	ext := append(append([]rune{}, strAlpha...), extraRunes...)
	isExtra := func(r rune) bool {
		for _, x := range extraRunes {
			if x == r {
				return true
			}
		}
		return false
	}
	for _, a := range ext {
		if isExtra(a) {
			for _, w := range stringWrappers(string(a)) {
				if !emit(valueCase(w)) {
					return
				}
			}
			if !emitLabels("blk", []string{string(a)}) || !emit(travCase("a", []Step{{"str", string(a)}})) {
				return
			}
		}
		for _, b := range ext {
			if !isExtra(a) && !isExtra(b) {
				continue
			}
			s := string([]rune{a, b})
			for _, w := range stringWrappers(s) {
				if !emit(valueCase(w)) {
					return
				}
			}
			if !emitLabels("blk", []string{s}) || !emit(travCase("a", []Step{{"str", s}})) {
				return
			}
		}
	}

	// 3. containers of depth 1 and 2
	for _, d := range depth1() {
		if !emit(valueCase(d)) {
			return
		}
	}
	d2 := depth2()
	for _, d := range d2 {
		if !emit(valueCase(d)) {
			return
		}
	}
	if thorough {
		// depth 3: every depth-2 value once more inside each container kind
		for _, d := range d2 {
			for _, w := range []VD{vlist(d), vtuple(d, vs("a")), vmap("for", d), vobj("k", d, "for", d)} {
				if !emit(valueCase(w)) {
					return
				}
			}
		}
	}

	// 4. block labels
	if !emitLabels("blk", nil) {
		return
	}
	for l := 0; l <= maxLen; l++ {
		ok := allStrings(l, func(s string) bool { return emitLabels("blk", []string{s}) })
		if !ok {
			return
		}
	}
	var short []string
	pairLen := 1
	if thorough {
		pairLen = 2
	}
	for l := 0; l <= pairLen; l++ {
		allStrings(l, func(s string) bool { short = append(short, s); return true })
	}
	for _, a := range short {
		for _, b := range short {
			if !emitLabels("blk", []string{a, b}) {
				return
			}
		}
	}
	few := []string{"", "a", "$", "${", "\"", "a$b", "for"}
	for _, bt := range blockTypes {
		if !emitLabels(bt, nil) {
			return
		}
		for _, a := range few {
			if !emitLabels(bt, []string{a}) {
				return
			}
			for _, b := range few {
				for _, c := range few {
					if !emitLabels(bt, []string{a, b, c}) {
						return
					}
				}
			}
		}
	}

	// 5. traversals
	var steps []Step
	for _, a := range attrNames {
		steps = append(steps, Step{"attr", a})
	}
	for _, k := range keyAlpha {
		steps = append(steps, Step{"str", k})
	}
	for _, n := range numKeys {
		steps = append(steps, Step{"num", n})
	}
	for _, r := range roots {
		if r != "" && !emit(travCase(r, nil)) {
			return
		}
	}
	var recT func(root string, alpha []Step, prefix []Step, n int) bool
	recT = func(root string, alpha []Step, prefix []Step, n int) bool {
		if n == 0 {
			return emit(travCase(root, prefix))
		}
		for _, s := range alpha {
			if !recT(root, alpha, append(prefix, s), n-1) {
				return false
			}
		}
		return true
	}
	reduced := []Step{{"attr", "b"}, {"attr", "for"}, {"attr", "foo-bar"}, {"attr", "é"}, {"attr", "null"},
		{"str", ""}, {"str", "for"}, {"str", "a b"}, {"str", "${x}"}, {"str", "0"}, {"str", "\n"}, {"str", "$"}, {"str", "é"}, {"str", "a.b"},
		{"num", "0"}, {"num", "1.5"}, {"num", "-1"}, {"num", "1e20"}}
	fullDepth := 2
	if thorough {
		fullDepth = 3
	}
	for n := 1; n <= fullDepth; n++ {
		for _, r := range roots {
			if !recT(r, steps, nil, n) {
				return
			}
		}
	}
	// one step longer over the reduced step alphabet
	for _, r := range roots {
		if !recT(r, reduced, nil, fullDepth+1) {
			return
		}
	}
	// every alphabet string as an index key, first and after an attribute step
	for l := 0; l <= maxLen; l++ {
		ok := allStrings(l, func(s string) bool {
			return emit(travCase("a", []Step{{"str", s}})) &&
				emit(travCase("", []Step{{"str", s}})) &&
				emit(travCase("a", []Step{{"attr", "b"}, {"str", s}, {"attr", "c"}}))
		})
		if !ok {
			return
		}
	}
	// every number of the table as an index key
	for _, n := range numberTable {
		if n.unspec || strings.Contains(n.name, ":") {
			// keys carried at fewer than 512 bits are left out: how such a key
			// is rendered as a map key depends on its precision, which no
			// source text can carry
			continue
		}
		if !emit(travCase("a", []Step{{"num", n.name}})) || !emit(travCase("", []Step{{"num", n.name}, {"attr", "b"}})) {
			return
		}
	}

	// 6. the size dimension: nesting depth and token length
	if !genSizes(thorough, emit, emitLabels) {
		return
	}
	// 7. two-step label sequences
	if !genLabelPairs(thorough, emit) {
		return
	}
	// 8. two-step generation histories (history.go)
	genHistories(thorough, emit)
}

// ---- 6. sizes -----------------------------------------------------------

// nestPatterns: the wrapper letters cycled from the innermost level outwards
// (see vnest): tuples, objects, lists, maps, sets, alternations of them, and
// the two-member wrappers V and W in which the nested value is followed by
// another member at every level.
var nestPatterns = []string{"T", "O", "TO", "OT", "L", "M", "S", "LM", "V", "W", "WV"}

func nestDepths(thorough bool) []int {
	max := 70
	if thorough {
		max = 140
	}
	var out []int
	for n := 1; n <= max; n++ {
		out = append(out, n)
	}
	if thorough {
		out = append(out, 255, 256, 257, 511, 512, 513)
	}
	return out
}

// nestContexts: where the deeply nested value sits: alone (the attribute
// path then writes it followed by other attributes and a block), as a
// non-last and as the last attribute of an object, as a non-last and as the
// last element of a tuple, as both values of a map.
func nestContexts(v VD) []VD {
	return []VD{
		v,
		vobj("a", v, "b", vb(true)),
		vobj("a", vb(true), "b", v),
		vtuple(v, vb(true)),
		vtuple(vb(true), v),
		vmap("a", v, "b", v),
	}
}

// sizedPatterns: the runes cycled to make a long string: plain ASCII (also an
// identifier), two-byte UTF-8 (also an identifier), an escaped control
// character (two bytes of source per rune), a template introducer (escaped
// with one more byte per pair) and the quote (escaped).
var sizedPatterns = []string{"a", "é", "\n", "${", "\""}

func sizedStringWrappers(pat string, n int) []VD {
	d, s := vsr(pat, n), repString(pat, n)
	return []VD{
		d,
		vlist(d),
		vtuple(d, vb(true)),
		vtuple(vb(true), d),
		vset(d),
		vmap(s, vs("v")),
		vmap("k", d),
		vobj(s, d),
		vobj("a", d, "b", vb(true)),
		vmap(s, vs("v"), "k", vs("w")),
	}
}

func genSizes(thorough bool, emit func(engine.Case) bool, emitLabels func(string, []string) bool) bool {
	// 6a. nesting depth
	for _, n := range nestDepths(thorough) {
		for _, pat := range nestPatterns {
			if n > 8 && pat == "S" {
				// go-cty (trusted base) takes time 2^depth to construct and to
				// convert a set of sets of ...; sets are nested to depth 8 only
				continue
			}
			if n > 140 && strings.ContainsAny(pat, "LM") {
				// converting the read-back tuples/objects to lists/maps is cubic
				// in the depth (go-cty); the depths around 256 and 512 are
				// enumerated for the tuple and object wrappers only
				continue
			}
			for _, w := range nestContexts(vnest(pat, n, vs("x"))) {
				if !emit(valueCase(w)) {
					return false
				}
			}
		}
	}
	// 6b. token length
	maxPow := 14
	if thorough {
		maxPow = 16
	}
	for _, n := range sizeLens(maxPow) {
		for _, pat := range sizedPatterns {
			s := repString(pat, n)
			ident := pat == "a" || pat == "é"
			for _, w := range sizedStringWrappers(pat, n) {
				if !emit(valueCase(w)) {
					return false
				}
			}
			// block labels (alone, before and after another label) and block type
			if !emitLabels("blk", []string{s}) || !emitLabels("blk", []string{s, "b"}) || !emitLabels("blk", []string{"b", s}) {
				return false
			}
			if ident && !emitLabels(s, []string{"l"}) {
				return false
			}
			// traversal steps: string key, attribute name, root name
			if !emit(travCase("a", []Step{{"str", s}})) || !emit(travCase("", []Step{{"str", s}})) ||
				!emit(travCase("a", []Step{{"attr", "b"}, {"str", s}, {"attr", "c"}})) {
				return false
			}
			if ident {
				if !emit(travCase("a", []Step{{"attr", s}})) || !emit(travCase("a", []Step{{"attr", s}, {"str", "k"}})) ||
					!emit(travCase(s, nil)) || !emit(travCase(s, []Step{{"attr", "b"}})) {
					return false
				}
				// attribute name
				if s != "y" && s != "z" {
					if !emit(valueCaseNamed(vb(true), s)) || !emit(valueCaseNamed(vs("v"), s)) {
						return false
					}
				}
			}
		}
		// number tokens of n bytes: 10^(n-1), its negation (n digits after a
		// minus sign), 10^-(n-2)
		names := []string{fmt.Sprintf("1e%d", n-1), fmt.Sprintf("-1e%d", n-1)}
		if n >= 3 {
			names = append(names, fmt.Sprintf("1e-%d", n-2))
		}
		for _, name := range names {
			d := vn(name)
			for _, w := range []VD{d, vlist(d, vn("1")), vtuple(vs("a"), d), vmap("k", d), vobj("a", d, "b", vb(true))} {
				if !emit(valueCase(w)) {
					return false
				}
			}
			if !emit(travCase("a", []Step{{"num", name}})) || !emit(travCase("", []Step{{"num", name}, {"attr", "b"}})) {
				return false
			}
		}
	}
	return true
}

// ---- 7. label pairs -----------------------------------------------------

func stringsOver(alpha []rune, maxLen int) []string {
	out := []string{""}
	prev := []string{""}
	for l := 1; l <= maxLen; l++ {
		var cur []string
		for _, p := range prev {
			for _, r := range alpha {
				cur = append(cur, p+string(r))
			}
		}
		out = append(out, cur...)
		prev = cur
	}
	return out
}

// pairLabels: the labels of the two-step sequences: every string of at most
// 4 (thorough 5) characters over {$ { a} and over {% { a} (all runs of an
// introducer character before and after "{"), every string of at most 3 over
// {$ % { a}, and every string of at most one rune of the escape alphabet;
// shortest first.
func pairLabels(thorough bool) []string {
	n := 4
	if thorough {
		n = 5
	}
	var all []string
	all = append(all, stringsOver([]rune{'$', '{', 'a'}, n)...)
	all = append(all, stringsOver([]rune{'%', '{', 'a'}, n)...)
	all = append(all, stringsOver([]rune{'$', '%', '{', 'a'}, 3)...)
	all = append(all, stringsOver(strAlpha, 1)...)
	seen := map[string]bool{}
	var out []string
	for l := 0; l <= n; l++ {
		for _, s := range all {
			if len([]rune(s)) == l && !seen[s] {
				seen[s] = true
				out = append(out, s)
			}
		}
	}
	return out
}

var labels2Modes = []string{"labels2", "labels2-constructed", "labels2-hclwrite"}

func genLabelPairs(thorough bool, emit func(engine.Case) bool) bool {
	emit2 := func(typeName string, a, b []string) bool {
		for _, m := range labels2Modes {
			if !emit(labels2CaseMode(m, typeName, a, b)) {
				return false
			}
		}
		return true
	}
	// every ordered pair of single labels (including a label replaced by itself)
	ls := pairLabels(thorough)
	for _, a := range ls {
		for _, b := range ls {
			if !emit2("blk", []string{a}, []string{b}) {
				return false
			}
		}
	}
	// every ordered pair of label lists of length <= 2 over a small set
	few := []string{"", "a", "$", "${", "$${", "$$${", "%%{", "\"", "for"}
	lists := [][]string{nil}
	for _, a := range few {
		lists = append(lists, []string{a})
	}
	for _, a := range few {
		for _, b := range few {
			lists = append(lists, []string{a, b})
		}
	}
	for _, a := range lists {
		for _, b := range lists {
			if !emit2("blk", a, b) {
				return false
			}
		}
	}
	// other block types
	for _, bt := range blockTypes[1:] {
		for _, a := range few {
			for _, b := range few {
				if !emit2(bt, []string{a}, []string{b}) {
					return false
				}
			}
		}
	}
	return true
}
