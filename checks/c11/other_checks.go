package main

import (
	"fmt"
	"math/big"
	"strings"

	"github.com/hashicorp/hcl/v2"
	"github.com/hashicorp/hcl/v2/hclsyntax"
	"github.com/hashicorp/hcl/v2/hclwrite"
	"github.com/zclconf/go-cty/cty"
	"github.com/zclconf/go-cty/cty/convert"

)

// ---- block labels -----------------------------------------------------

// nfc is the form every HCL string takes (cty normalises to NFC; labels are
// routed through cty.StringVal by the generator and by the native parser's
// string handling), so label expectations are stated on the normalised form.
func nfc(s string) string { return cty.StringVal(s).AsString() }

func eqStrings(a, b []string) bool {
	if len(a) != len(b) {
		return false
	}
	for i := range a {
		if a[i] != b[i] {
			return false
		}
	}
	return true
}

// quotedLitCounts returns, for each quoted label of the first block header in
// src, the number of literal tokens the scanner produces between its quotes.
func quotedLitCounts(src []byte) []int {
	toks, _ := hclsyntax.LexConfig(src, "gen.hcl", hcl.InitialPos)
	var out []int
	in := false
	n := 0
	for _, t := range toks {
		switch t.Type {
		case hclsyntax.TokenOBrace:
			return out
		case hclsyntax.TokenOQuote:
			in, n = true, 0
		case hclsyntax.TokenCQuote:
			if in {
				out = append(out, n)
			}
			in = false
		default:
			if in {
				n++
			}
		}
	}
	return out
}

func labelsFeatures(labels []string) string {
	if len(labels) == 0 {
		return "no-labels"
	}
	seen := map[string]bool{}
	var fs []string
	for _, l := range labels {
		f := stringFeatures(l) + stringSizeSuffix(l)
		if !seen[f] {
			seen[f] = true
			fs = append(fs, f)
		}
	}
	return strings.Join(fs, ",")
}

func abbrevList(ls []string) string {
	ps := make([]string, len(ls))
	for i, l := range ls {
		ps[i] = abbrev(l)
	}
	return "[" + strings.Join(ps, " ") + "]"
}

// typeFeature: part of a label class when the block type itself is a long
// identifier token (the size dimension of identifiers).
func typeFeature(typeName string) string {
	if suf := tokenSizeSuffix(len(typeName)); suf != "" {
		return "block-type" + suf + "."
	}
	return ""
}

// checkLabelsOnce builds one file with the requested construction path and
// checks every read-back clause for labels.
func checkLabelsOnce(reader, path, typeName string, labels []string) (sig string, class string, detail string) {
	file := hclwrite.NewEmptyFile()
	var blk *hclwrite.Block
	switch path {
	case "NewBlock":
		blk = hclwrite.NewBlock(typeName, labels)
		file.Body().AppendBlock(blk)
	case "AppendNewBlock":
		blk = file.Body().AppendNewBlock(typeName, labels)
	case "SetLabels":
		blk = file.Body().AppendNewBlock(typeName, []string{"old", "labels $ { \" here"})
		blk.SetLabels(labels)
	case "SetLabelsFromNone":
		blk = file.Body().AppendNewBlock(typeName, nil)
		blk.SetLabels(labels)
	}
	blk.Body().SetAttributeValue("x", cty.True)
	return verifyLabels(reader, file, blk, typeName, labels, "",
		typeFeature(typeName)+labelsFeatures(labels),
		fmt.Sprintf("%s(%s, %s)", path, abbrev(typeName), abbrevList(labels)))
}

// label2Paths: how the block of a two-step case gets its first labels. The
// third path reads the labels between the two writes (a reader must not
// change what the next write does).
var label2Paths = []string{"NewBlock", "AppendNewBlock", "NewBlock+Labels()"}

// checkLabels2Once: a block constructed with the labels first, then
// SetLabels(second); everything reads back as second ("block labels read back
// as the strings that were supplied": the strings supplied last).
func checkLabels2Once(reader, path, typeName string, first, second []string) (sig string, class string, detail string) {
	file := hclwrite.NewEmptyFile()
	var blk *hclwrite.Block
	switch path {
	case "AppendNewBlock":
		blk = file.Body().AppendNewBlock(typeName, first)
	default:
		blk = hclwrite.NewBlock(typeName, first)
		file.Body().AppendBlock(blk)
	}
	if path == "NewBlock+Labels()" {
		_ = blk.Labels()
	}
	blk.SetLabels(second)
	blk.Body().SetAttributeValue("x", cty.True)
	return verifyLabels(reader, file, blk, typeName, second, "replace.",
		typeFeature(typeName)+labelsFeatures(first)+".then."+labelsFeatures(second),
		fmt.Sprintf("%s(%s, %s) then SetLabels(%s)", path, abbrev(typeName), abbrevList(first), abbrevList(second)))
}

// verifyLabels applies the read-back clauses for labels to one written block:
// labels are the strings supplied (last); the class of a failure is
// "c11.label." + prefix + clause + "." + feat.
func verifyLabels(reader string, file *hclwrite.File, blk *hclwrite.Block, typeName string, labels []string, prefix, feat, what string) (sig string, class string, detail string) {
	want := make([]string, len(labels))
	for i, l := range labels {
		want[i] = nfc(l)
	}
	src := file.Bytes()
	fail := func(clause, format string, a ...any) (string, string, string) {
		return "", "c11.label." + prefix + clause + "." + feat, fmt.Sprintf("%s wrote %s: ", what, clip(src)) + fmt.Sprintf(format, a...)
	}

	// reader "constructed": the in-memory block reports the labels it was given
	if reader == "constructed" {
		if got := blk.Labels(); !eqStrings(got, want) {
			return fail("constructed-block-labels", "Block.Labels() on the constructed block = %s, want %s", abbrevList(got), abbrevList(want))
		}
		if got := blk.Type(); got != typeName {
			return fail("constructed-block-type", "Block.Type() = %s, want %s", abbrev(got), abbrev(typeName))
		}
		return string(src), "", ""
	}
	// every reader: the native parser reads the header back without errors
	parsed, diags := hclsyntax.ParseConfig(src, "gen.hcl", hcl.InitialPos)
	if diags.HasErrors() {
		return fail("parse-error", "does not parse: %s", diags.Error())
	}
	body, ok := parsed.Body.(*hclsyntax.Body)
	if !ok || len(body.Blocks) != 1 || len(body.Attributes) != 0 {
		return fail("structure", "parsed file does not consist of exactly one block")
	}
	pb := body.Blocks[0]
	if pb.Type != typeName {
		return fail("type-mismatch", "block type reads back as %s", abbrev(pb.Type))
	}
	if !eqStrings(pb.Labels, want) {
		return fail("labels-mismatch", "labels read back as %s, want %s", abbrevList(pb.Labels), abbrevList(want))
	}
	if a := pb.Body.Attributes["x"]; a == nil || len(pb.Body.Attributes) != 1 {
		return fail("structure", "block body does not consist of the one attribute written")
	}
	if reader != "hclwrite" {
		return string(src), "", ""
	}
	// reader "hclwrite": hclwrite's own reader, after re-parsing the bytes
	wf, wdiags := hclwrite.ParseConfig(src, "gen.hcl", hcl.InitialPos)
	if wdiags.HasErrors() {
		return fail("hclwrite-parse-error", "hclwrite.ParseConfig fails: %s", wdiags.Error())
	}
	wblocks := wf.Body().Blocks()
	if len(wblocks) != 1 {
		return fail("hclwrite-structure", "hclwrite.ParseConfig sees %d blocks", len(wblocks))
	}
	if got := wblocks[0].Labels(); !eqStrings(got, want) {
		// Known reader defect (belongs to property C10): a quoted label that
		// the scanner splits into several literal tokens is dropped by
		// blockLabels.Current. Everything else is a different failure.
		multi := false
		for _, n := range quotedLitCounts(src) {
			if n > 1 {
				multi = true
			}
		}
		if multi {
			return "", "c11.hclwrite-labels-multitoken", fmt.Sprintf("%s wrote %s; hclwrite.ParseConfig(...).Body().Blocks()[0].Labels() = %s, want %s (a label whose quoted form scans as several literal tokens is dropped)", what, clip(src), abbrevList(got), abbrevList(want))
		}
		return fail("hclwrite-reparse-labels-mismatch", "hclwrite.ParseConfig(...).Blocks()[0].Labels() = %s, want %s", abbrevList(got), abbrevList(want))
	}
	return string(src), "", ""
}

// ---- traversals -------------------------------------------------------

type Step struct {
	K string `json:"k"` // "attr" | "str" | "num"
	S string `json:"s"` // attribute name | string key | number name (numberTable)
}

func (s Step) short() string {
	switch s.K {
	case "attr":
		if len(s.S) > 48 {
			return "." + abbrev(s.S)
		}
		return "." + s.S
	case "str":
		return "[" + abbrev(s.S) + "]"
	}
	return "[" + s.S + "]"
}

func buildTraversal(root string, steps []Step) (hcl.Traversal, error) {
	var t hcl.Traversal
	if root != "" {
		t = append(t, hcl.TraverseRoot{Name: root})
	}
	for _, s := range steps {
		switch s.K {
		case "attr":
			t = append(t, hcl.TraverseAttr{Name: s.S})
		case "str":
			t = append(t, hcl.TraverseIndex{Key: cty.StringVal(s.S)})
		case "num":
			ns, ok := lookupNumber(s.S)
			if !ok {
				return nil, fmt.Errorf("unknown number %q", s.S)
			}
			t = append(t, hcl.TraverseIndex{Key: ns.mk()})
		default:
			return nil, fmt.Errorf("unknown step kind %q", s.K)
		}
	}
	return t, nil
}

func stepShape(s hcl.Traverser) string {
	switch s := s.(type) {
	case hcl.TraverseRoot:
		return "root"
	case hcl.TraverseAttr:
		if keywords[s.Name] {
			return "attr-keyword-" + s.Name
		}
		return "attr" + tokenSizeSuffix(len(s.Name))
	case hcl.TraverseIndex:
		if s.Key.Type() == cty.Number {
			return "index-number-" + numberShape(s.Key) + tokenSizeSuffix(maxTokenLen(s.Key))
		}
		return "index-string-" + stringFeatures(s.Key.AsString()) + stringSizeSuffix(s.Key.AsString())
	}
	return fmt.Sprintf("%T", s)
}

// hasNegativeNumberKey: `a[-1]` is an index with a unary-minus expression,
// which neither the expression grammar's static traversal form nor
// ParseTraversalAbs ("a literal number or a literal string") can express.
func hasNegativeNumberKey(t hcl.Traversal) bool {
	for _, s := range t {
		if ix, ok := s.(hcl.TraverseIndex); ok && ix.Key.Type() == cty.Number && ix.Key.AsBigFloat().Signbit() {
			return true
		}
	}
	return false
}

func sameSteps(got, want hcl.Traversal) (bool, string) {
	if len(got) != len(want) {
		return false, fmt.Sprintf("%d steps instead of %d", len(got), len(want))
	}
	for i := range want {
		switch w := want[i].(type) {
		case hcl.TraverseRoot:
			g, ok := got[i].(hcl.TraverseRoot)
			if !ok || g.Name != w.Name {
				return false, fmt.Sprintf("step %d is %s, want root %q", i, describeStep(got[i]), w.Name)
			}
		case hcl.TraverseAttr:
			g, ok := got[i].(hcl.TraverseAttr)
			if !ok || g.Name != w.Name {
				return false, fmt.Sprintf("step %d is %s, want attr %q", i, describeStep(got[i]), w.Name)
			}
		case hcl.TraverseIndex:
			g, ok := got[i].(hcl.TraverseIndex)
			if !ok || !keyEquals(g.Key, w.Key) {
				return false, fmt.Sprintf("step %d is %s, want index %s", i, describeStep(got[i]), showV(w.Key))
			}
		}
	}
	return true, ""
}

// keyEquals: RawEquals, except that a number key carried at fewer than 512
// bits is compared at its own precision (see readBack).
func keyEquals(got, want cty.Value) bool {
	if got.RawEquals(want) {
		return true
	}
	if want.Type() == cty.Number && got.Type() == cty.Number && !got.IsNull() && got.IsKnown() && !want.IsNull() {
		wf, gf := want.AsBigFloat(), got.AsBigFloat()
		if p := wf.Prec(); p > 0 && p < 512 && !gf.IsInf() {
			r := new(big.Float).SetMode(big.ToNearestEven).SetPrec(p).Set(gf)
			return r.Cmp(wf) == 0
		}
	}
	return false
}

func describeStep(s hcl.Traverser) string {
	switch s := s.(type) {
	case hcl.TraverseRoot:
		return fmt.Sprintf("root %q", s.Name)
	case hcl.TraverseAttr:
		return fmt.Sprintf("attr %q", s.Name)
	case hcl.TraverseIndex:
		return "index " + showV(s.Key)
	}
	return fmt.Sprintf("%T", s)
}

const leafText = "LEAF"

// scopeFor builds nested objects in which every step of the traversal selects
// exactly one member (next to a decoy), ending at the leaf string.
func scopeFor(steps hcl.Traversal) (cty.Value, bool) {
	cur := cty.StringVal(leafText)
	for i := len(steps) - 1; i >= 0; i-- {
		var name string
		switch s := steps[i].(type) {
		case hcl.TraverseAttr:
			name = s.Name
		case hcl.TraverseIndex:
			k, err := convert.Convert(s.Key, cty.String)
			if err != nil || k.IsNull() {
				return cty.NilVal, false
			}
			name = k.AsString()
		default:
			return cty.NilVal, false
		}
		cur = cty.ObjectVal(map[string]cty.Value{name: cur, name + "~decoy": cty.StringVal("WRONG")})
	}
	return cur, true
}

// checkTraversal applies the traversal clauses. trav is absolute (a relative
// traversal is checked after being appended to the root `r`, as the doc
// comment of TokensForTraversal describes).
func checkTraversal(via string, src []byte, expr hcl.Expression, trav hcl.Traversal) (clause, detail string, skippedStatic bool) {
	negKey := hasNegativeNumberKey(trav)
	// static read-back through the expression
	if !negKey {
		got, diags := hcl.AbsTraversalForExpr(expr)
		if diags.HasErrors() {
			return "not-static", fmt.Sprintf("%s: %s is not read back as a static traversal by hcl.AbsTraversalForExpr: %s", via, clip(src), diags.Error()), false
		}
		if ok, why := sameSteps(got, trav); !ok {
			return "steps-mismatch", fmt.Sprintf("%s: %s reads back (AbsTraversalForExpr) with different steps: %s", via, clip(src), why), false
		}
	}
	// semantic read-back: applying the original traversal and evaluating the
	// generated expression select the same member of a scope built for it
	scopeVal, ok := scopeFor(trav[1:])
	if !ok {
		counters.Add("harness_scope_unbuildable", 1)
		return "", "", negKey
	}
	ctx := &hcl.EvalContext{Variables: map[string]cty.Value{trav.RootName(): scopeVal, trav.RootName() + "~decoy": cty.StringVal("WRONG")}}
	want, wd := trav.TraverseAbs(ctx)
	if wd.HasErrors() || !want.RawEquals(cty.StringVal(leafText)) {
		counters.Add("harness_scope_mismatch", 1)
		return "", "", negKey
	}
	got, gd := expr.Value(ctx)
	if gd.HasErrors() {
		return "eval-error", fmt.Sprintf("%s: %s does not evaluate on a scope where the original traversal selects the leaf: %s", via, clip(src), gd.Error()), false
	}
	if !got.RawEquals(want) {
		return "eval-mismatch", fmt.Sprintf("%s: %s evaluates to %s where the original traversal selects %s", via, clip(src), showV(got), showV(want)), false
	}
	return "", "", negKey
}
